(** C12 -- maximum common subgraph results are valid and of maximum size.
    Statements only; every proof is [exact <lemma of proof/C12_*.v>].

    The functions are those of model/C12_Model.v which the correspondence evaluates on every run
    ([run_matcher] -> [find_common_subgraph] -> [prune_graph], [prepare_orientation], [search_subgraphs],
     [get_mappings] in all three directions; [run_mtg] -> [find_common_subgraph_mtg] -> [search_subgraphs]).
    The induced sub-graph isomorphisms of one k-subset are enumerated in the model by the verified enumerator
    [Mono.monos] (lib/Mono.v, induced := true); that networkx VF2 returns the same SET is the monitored premise
    (TRUSTED_BASE; compared on every case through the ordered result lists).
    Graphs: node ids pairwise distinct ([NoDup (node_ids g)], guaranteed by networkx); adjacency is symmetric by
    construction ([LGraph.adj]). *)
From Coq Require Import List NArith ZArith Bool Arith Permutation Sorted.
From SK Require Import lib.LGraph model.C12_Model model.C12_Trace model.C12_Check model.C12_CheckMtg model.C12_State proof.C12_Search proof.C12_Proof proof.C12_Prune proof.C12_Enum proof.C12_Sorted proof.C12_Component proof.C12_Mol proof.C12_State proof.C12_Trace proof.C12_LastSize proof.C12_StateRaw proof.C12_Check proof.C12_MtgRaw proof.C12_CheckMtg proof.C12_FacadeRaw proof.C12_ComponentRaw proof.C12_ModesRaw.
Import ListNotations.

(** ** 0. the specification: a common induced sub-graph mapping, written out.
    [m] lists (node of the first graph, node of the second graph) pairs; it is a function, injective, maps nodes to
    nodes with matching selected labels, and between any two mapped atoms a bond is present on both sides with
    matching order, or absent on both sides. *)
Theorem C12_common_induced_meaning :
  forall (nm : option nattr -> option nattr -> bool) (em : eattr -> eattr -> bool) (ga gb : graph) (m : mapping),
  common_induced nm em ga gb m <->
  NoDup (map fst m) /\ NoDup (map snd m) /\
  (forall p h, In (p, h) m ->
     In p (node_ids ga) /\ In h (node_ids gb) /\ nm (label gb h) (label ga p) = true) /\
  (forall p h p' h', In (p, h) m -> In (p', h') m -> p <> p' ->
     match LGraph.adj ga p p', LGraph.adj gb h h' with
     | Some b, Some b' => em b' b = true
     | None, None => True
     | _, _ => False
     end).
Proof. exact (fun nm em ga gb m => iff_refl _). Qed.
Print Assumptions C12_common_induced_meaning.

(** ** 1. every returned mapping is valid -- both modes, all three directions, after the orientation swap and
    wildcard pruning: a G1->G2 mapping is a common induced mapping of (G1, G2), a G2->G1 mapping one of (G2, G1),
    a pattern->host mapping one of the oriented pair; no returned mapping is empty. *)
Theorem C12_valid :
  forall (defs : list N) (prune : bool) (wc : N) (g1 g2 : graph),
  NoDup (node_ids g1) -> NoDup (node_ids g2) ->
  forall (mcs : bool) (m : mapping),
  (In m (get_mappings G1toG2 (find_common_subgraph defs prune wc g1 g2 mcs)) ->
     common_induced (node_match defs) edge_match (prune_graph prune wc g1) (prune_graph prune wc g2) m /\ 1 <= length m) /\
  (In m (get_mappings G2toG1 (find_common_subgraph defs prune wc g1 g2 mcs)) ->
     common_induced (node_match defs) edge_match (prune_graph prune wc g2) (prune_graph prune wc g1) m /\ 1 <= length m) /\
  (In m (get_mappings PatternToHost (find_common_subgraph defs prune wc g1 g2 mcs)) ->
     if r_pattern_is_g1 (find_common_subgraph defs prune wc g1 g2 mcs)
     then common_induced (node_match defs) edge_match (prune_graph prune wc g1) (prune_graph prune wc g2) m
     else common_induced (node_match defs) edge_match (prune_graph prune wc g2) (prune_graph prune wc g1) m).
Proof. exact fcs_valid. Qed.
Print Assumptions C12_valid.

(** ** 2. maximum mode: all returned mappings have the size [last_size]; NO common induced mapping of the two graphs
    is larger (soundness + maximality, whichever graph is larger); every common induced mapping of that size is
    returned (up to the order in which its pairs are listed); the result is empty iff last_size = 0.
    Stated for the G1->G2 answer against (G1, G2) and for the G2->G1 answer against (G2, G1). *)
Theorem C12_maximum :
  forall (defs : list N) (prune : bool) (wc : N) (g1 g2 : graph),
  NoDup (node_ids g1) -> NoDup (node_ids g2) ->
  let g1u := prune_graph prune wc g1 in
  let g2u := prune_graph prune wc g2 in
  let r := find_common_subgraph defs prune wc g1 g2 true in
  ((forall m, In m (get_mappings G1toG2 r) ->
      common_induced (node_match defs) edge_match g1u g2u m /\ length m = r_last r) /\
   (forall m, common_induced (node_match defs) edge_match g1u g2u m -> length m <= r_last r) /\
   (forall m, common_induced (node_match defs) edge_match g1u g2u m -> length m = r_last r -> 1 <= r_last r ->
      exists m', In m' (get_mappings G1toG2 r) /\ Permutation m m') /\
   (get_mappings G1toG2 r = [] <-> r_last r = 0)) /\
  ((forall m, In m (get_mappings G2toG1 r) ->
      common_induced (node_match defs) edge_match g2u g1u m /\ length m = r_last r) /\
   (forall m, common_induced (node_match defs) edge_match g2u g1u m -> length m <= r_last r) /\
   (forall m, common_induced (node_match defs) edge_match g2u g1u m -> length m = r_last r -> 1 <= r_last r ->
      exists m', In m' (get_mappings G2toG1 r) /\ Permutation m m') /\
   (get_mappings G2toG1 r = [] <-> r_last r = 0)).
Proof. exact fcs_maximum. Qed.
Print Assumptions C12_maximum.

(** all-sizes mode: the result is exactly (up to the order of the pairs) the set of non-empty common induced mappings *)
Theorem C12_all_sizes :
  forall (defs : list N) (prune : bool) (wc : N) (g1 g2 : graph),
  NoDup (node_ids g1) -> NoDup (node_ids g2) ->
  let g1u := prune_graph prune wc g1 in
  let g2u := prune_graph prune wc g2 in
  let r := find_common_subgraph defs prune wc g1 g2 false in
  ((forall m, In m (get_mappings G1toG2 r) -> common_induced (node_match defs) edge_match g1u g2u m /\ 1 <= length m) /\
   (forall m, common_induced (node_match defs) edge_match g1u g2u m -> 1 <= length m ->
      exists m', In m' (get_mappings G1toG2 r) /\ Permutation m m')) /\
  ((forall m, In m (get_mappings G2toG1 r) -> common_induced (node_match defs) edge_match g2u g1u m /\ 1 <= length m) /\
   (forall m, common_induced (node_match defs) edge_match g2u g1u m -> 1 <= length m ->
      exists m', In m' (get_mappings G2toG1 r) /\ Permutation m m')).
Proof. exact fcs_all. Qed.
Print Assumptions C12_all_sizes.

(** a result exists iff some atom of G1 matches some atom of G2 on the selected labels *)
Theorem C12_nonempty_iff :
  forall (defs : list N) (prune : bool) (wc : N) (g1 g2 : graph),
  NoDup (node_ids g1) -> NoDup (node_ids g2) ->
  forall mcs : bool,
  get_mappings G1toG2 (find_common_subgraph defs prune wc g1 g2 mcs) <> [] <->
  exists p h, In p (node_ids (prune_graph prune wc g1)) /\ In h (node_ids (prune_graph prune wc g2)) /\
              node_match defs (label (prune_graph prune wc g2) h) (label (prune_graph prune wc g1) p) = true.
Proof. exact fcs_nonempty_iff. Qed.
Print Assumptions C12_nonempty_iff.

(** ** 3. asking for the mapping in either direction gives mutually inverse maps: the two answers are position-wise
    inverse lists of pairs, inversion swaps the components of every pair and is an involution -- for every result
    record, whichever graph was the pattern. *)
Theorem C12_directions_inverse :
  forall r : result,
  get_mappings G2toG1 r = map invert_mapping (get_mappings G1toG2 r) /\
  get_mappings G1toG2 r = map invert_mapping (get_mappings G2toG1 r).
Proof. exact directions_inverse. Qed.
Print Assumptions C12_directions_inverse.

Theorem C12_invert_swaps : forall (a b : N) (m : mapping), In (a, b) (invert_mapping m) <-> In (b, a) m.
Proof. exact in_invert. Qed.
Print Assumptions C12_invert_swaps.

Theorem C12_invert_involutive : forall m : mapping, invert_mapping (invert_mapping m) = m.
Proof. exact invert_involutive. Qed.
Print Assumptions C12_invert_involutive.

(** orientation (first graph larger): with graphs of different size, exchanging the arguments runs the same search
    and exchanges the answers of the two direction requests *)
Theorem C12_orientation_swap :
  forall (defs : list N) (prune : bool) (wc : N) (g1 g2 : graph) (mcs : bool),
  n_nodes (prune_graph prune wc g1) <> n_nodes (prune_graph prune wc g2) ->
  get_mappings G1toG2 (find_common_subgraph defs prune wc g1 g2 mcs) =
  get_mappings G2toG1 (find_common_subgraph defs prune wc g2 g1 mcs) /\
  r_last (find_common_subgraph defs prune wc g1 g2 mcs) = r_last (find_common_subgraph defs prune wc g2 g1 mcs) /\
  r_pattern_is_g1 (find_common_subgraph defs prune wc g1 g2 mcs) =
  negb (r_pattern_is_g1 (find_common_subgraph defs prune wc g2 g1 mcs)).
Proof. exact orientation_swap. Qed.
Print Assumptions C12_orientation_swap.

(** ** 4. the search itself, for arbitrary node / edge matchers (this is what both copies of the matcher share):
    the level-by-level loop with early exit against the verified enumerator.  One level = Mono.monos over the
    k-subsets of the pattern: sound and complete for the common induced mappings of size k. *)
Theorem C12_level_exact :
  forall (nm : option nattr -> option nattr -> bool) (em : eattr -> eattr -> bool) (pattern host : graph),
  NoDup (node_ids pattern) ->
  (forall k m, In m (level nm em pattern host k) -> common_induced nm em pattern host m /\ length m = k) /\
  (forall m, common_induced nm em pattern host m ->
     exists m', In m' (level nm em pattern host (length m)) /\ Permutation m m').
Proof. exact (fun nm em pattern host H => conj (level_sound nm em pattern host H) (level_complete nm em pattern host H)). Qed.
Print Assumptions C12_level_exact.

Theorem C12_search_maximum :
  forall (nm : option nattr -> option nattr -> bool) (em : eattr -> eattr -> bool) (pattern host : graph),
  NoDup (node_ids pattern) ->
  forall (maps : list mapping) (last tried : nat),
  search_subgraphs nm em pattern host true = (maps, last, tried) ->
  (forall m, In m maps -> common_induced nm em pattern host m /\ length m = last) /\
  (forall m, common_induced nm em pattern host m -> length m <= last) /\
  (forall m, common_induced nm em pattern host m -> length m = last -> 1 <= last ->
     exists m', In m' maps /\ Permutation m m') /\
  (maps = [] <-> last = 0).
Proof. exact search_mcs_spec. Qed.
Print Assumptions C12_search_maximum.

Theorem C12_search_all_sizes :
  forall (nm : option nattr -> option nattr -> bool) (em : eattr -> eattr -> bool) (pattern host : graph),
  NoDup (node_ids pattern) ->
  forall (maps : list mapping) (last tried : nat),
  search_subgraphs nm em pattern host false = (maps, last, tried) ->
  (forall m, In m maps -> common_induced nm em pattern host m /\ 1 <= length m) /\
  (forall m, common_induced nm em pattern host m -> 1 <= length m -> exists m', In m' maps /\ Permutation m m').
Proof. exact search_all_spec. Qed.
Print Assumptions C12_search_all_sizes.

(** ** 5. the MTG copy (G1 is always the pattern; its edge matcher rejects a missing order) *)
Theorem C12_mtg :
  forall (defs : list N) (g1 g2 : graph), NoDup (node_ids g1) -> NoDup (node_ids g2) ->
  let maps := fst (fst (find_common_subgraph_mtg defs g1 g2 true)) in
  let last := snd (fst (find_common_subgraph_mtg defs g1 g2 true)) in
  let maps_all := fst (fst (find_common_subgraph_mtg defs g1 g2 false)) in
  ((forall m, In m maps -> common_induced (node_match defs) edge_match_mtg g1 g2 m /\ length m = last) /\
   (forall m, common_induced (node_match defs) edge_match_mtg g1 g2 m -> length m <= last) /\
   (forall m, common_induced (node_match defs) edge_match_mtg g1 g2 m -> length m = last -> 1 <= last ->
      exists m', In m' maps /\ Permutation m m') /\
   (maps = [] <-> last = 0)) /\
  ((forall m, In m maps_all -> common_induced (node_match defs) edge_match_mtg g1 g2 m /\ 1 <= length m) /\
   (forall m, common_induced (node_match defs) edge_match_mtg g1 g2 m -> 1 <= length m ->
      exists m', In m' maps_all /\ Permutation m m')).
Proof. exact mtg_spec. Qed.
Print Assumptions C12_mtg.

(** ** 6. wildcard pruning (prune_wc=True): the theorems above speak about the pruned graphs; a common induced mapping
    of the PRUNED graphs is exactly a common induced mapping of the ORIGINAL graphs that touches no wildcard atom
    ([wc_node wc g p]: the element attribute of node p equals the wildcard element) ... *)
Theorem C12_prune_meaning :
  forall (nm : option nattr -> option nattr -> bool) (em : eattr -> eattr -> bool) (wc : N) (g1 g2 : graph) (m : mapping),
  NoDup (node_ids g1) -> NoDup (node_ids g2) ->
  (common_induced nm em (prune_graph true wc g1) (prune_graph true wc g2) m <->
   common_induced nm em g1 g2 m /\
   forall p h, In (p, h) m ->
     match label g1 p with Some a => is_wc wc a | None => false end = false /\
     match label g2 h with Some a => is_wc wc a | None => false end = false).
Proof. exact prune_ci_iff. Qed.
Print Assumptions C12_prune_meaning.

(** ... so with pruning on, every returned mapping is valid for the graphs the caller passed and maps no wildcard *)
Theorem C12_valid_original :
  forall (defs : list N) (wc : N) (g1 g2 : graph) (mcs : bool) (m : mapping),
  NoDup (node_ids g1) -> NoDup (node_ids g2) ->
  In m (get_mappings G1toG2 (find_common_subgraph defs true wc g1 g2 mcs)) ->
  common_induced (node_match defs) edge_match g1 g2 m /\
  forall p h, In (p, h) m ->
    match label g1 p with Some a => is_wc wc a | None => false end = false /\
    match label g2 h with Some a => is_wc wc a | None => false end = false.
Proof. exact fcs_valid_original. Qed.
Print Assumptions C12_valid_original.

(** ** 7. orientation in general (also graphs of EQUAL size, where the two calls use different patterns): exchanging the
    arguments gives the same maximum size and, up to the order of the pairs inside a mapping, the same answers *)
Theorem C12_orientation_general :
  forall (defs : list N) (prune : bool) (wc : N) (g1 g2 : graph),
  NoDup (node_ids g1) -> NoDup (node_ids g2) ->
  r_last (find_common_subgraph defs prune wc g1 g2 true) = r_last (find_common_subgraph defs prune wc g2 g1 true) /\
  forall m, In m (get_mappings G1toG2 (find_common_subgraph defs prune wc g1 g2 true)) ->
            exists m', In m' (get_mappings G2toG1 (find_common_subgraph defs prune wc g2 g1 true)) /\ Permutation m m'.
Proof. exact orientation_general. Qed.
Print Assumptions C12_orientation_general.

(** ** 8. what the matchers compare, for the usual configuration of one node attribute (default d) and one edge
    attribute: labels are equal after substituting the default for a missing value; bond orders are equal, a missing
    order matching only a missing order -- in BOTH copies since the repair /repo 24a0150 (before it the MTG copy matched a
    missing order with nothing, not even a missing one: C-C against C-C without `order` had maximum 1; found by the round-5 audit,
    witness corpus/regress/C12/mtg_missing_order.json) *)
Theorem C12_matchers_meaning :
  forall (d : N) (e e' : option N) (a b : option N) (x y : option Z),
  (node_match [d] (Some (e, [a])) (Some (e', [b])) = true <->
     match a with Some v => v | None => d end = match b with Some v => v | None => d end) /\
  (edge_match [x] [y] = true <-> x = y) /\
  (edge_match_mtg [x] [y] = true <-> x = y).
Proof. exact matchers_single. Qed.
Print Assumptions C12_matchers_meaning.

(** ** 9. the premise about networkx VF2, explicit.  [search_subgraphs_with enum] is _search_subgraphs with an ARBITRARY
    enumerator in the place of GraphMatcher(host, pattern.subgraph(nodes)).subgraph_isomorphisms_iter(); the model's
    search is the instance with the verified enumerator ([C12_model_is_instance]).  The search depends on the enumerator
    only through the SET of results per k-subset: any [vf2] that returns, for every k-subset of the pattern's nodes,
    the same set as the verified enumerator (any order, repetitions allowed) gives the same set of mappings, the same
    last_size and the same number of matcher objects -- so theorems 1-7 hold for the search run with it. *)
Theorem C12_model_is_instance :
  forall (nm : option nattr -> option nattr -> bool) (em : eattr -> eattr -> bool) (pattern host : graph) (mcs : bool),
  search_subgraphs nm em pattern host mcs = search_subgraphs_with (sub_isos nm em pattern host) pattern host mcs.
Proof. exact search_subgraphs_is_with. Qed.
Print Assumptions C12_model_is_instance.

Theorem C12_vf2_premise :
  forall (nm : option nattr -> option nattr -> bool) (em : eattr -> eattr -> bool) (pattern host : graph) (mcs : bool)
         (vf2 : list N -> list mapping),
  (forall k c, In c (combs (node_ids pattern) k) -> forall m, In m (vf2 c) <-> In m (sub_isos nm em pattern host c)) ->
  (forall m, In m (fst (fst (search_subgraphs_with vf2 pattern host mcs))) <->
             In m (fst (fst (search_subgraphs nm em pattern host mcs)))) /\
  snd (fst (search_subgraphs_with vf2 pattern host mcs)) = snd (fst (search_subgraphs nm em pattern host mcs)) /\
  snd (search_subgraphs_with vf2 pattern host mcs) = snd (search_subgraphs nm em pattern host mcs).
Proof. exact vf2_premise. Qed.
Print Assumptions C12_vf2_premise.

(** ** 10. no mapping is returned twice (the [seen] set), in any mode and direction *)
Theorem C12_no_duplicates :
  forall (defs : list N) (prune : bool) (wc : N) (g1 g2 : graph) (mcs : bool) (d : direction),
  NoDup (get_mappings d (find_common_subgraph defs prune wc g1 g2 mcs)).
Proof. exact get_mappings_nodup. Qed.
Print Assumptions C12_no_duplicates.

(** ** 11. the order of the returned list: sorted by the key (-len(d), tuple(sorted(d.items()))) -- larger mappings first,
    equal sizes by the lexicographic order of their sorted item tuples ([result_ltb], model/C12_Model.v): no element is
    followed by a strictly smaller one.  (Direction requests invert every mapping in place and keep the positions.) *)
Theorem C12_sorted :
  forall (defs : list N) (prune : bool) (wc : N) (g1 g2 : graph) (mcs : bool),
  Sorted (fun a b : mapping => result_ltb b a = false)
         (get_mappings PatternToHost (find_common_subgraph defs prune wc g1 g2 mcs)).
Proof. exact fcs_sorted. Qed.
Print Assumptions C12_sorted.

Theorem C12_result_order_meaning :
  forall a b : mapping,
  result_ltb a b = true <-> length b < length a \/ (length a = length b /\ items_ltb a b = true).
Proof. exact result_ltb_meaning. Qed.
Print Assumptions C12_result_order_meaning.

(** ** 12. component-wise mode, find_rc_mapping(side='its', component=True) (model [find_rc_component]: connected
    components in node order, stable sort by size, largest with largest, first mapping of every sorted local result,
    combined by dict.update).  On graphs whose edges join their own nodes: the call returns exactly one mapping,
    reported G1 -> G2; it is a common induced mapping of the two (pruned) graphs -- injective, label-preserving,
    presence and order of every bond between mapped atoms preserved both ways, also ACROSS components -- and its
    inverse is one for (G2, G1). *)
Theorem C12_component_valid :
  forall (defs : list N) (prune : bool) (wc : N) (g1 g2 : graph) (mcs : bool),
  NoDup (node_ids g1) -> NoDup (node_ids g2) ->
  (forall a b x, In (a, b, x) (gedges g1) -> In a (node_ids g1) /\ In b (node_ids g1)) ->
  (forall a b x, In (a, b, x) (gedges g2) -> In a (node_ids g2) /\ In b (node_ids g2)) ->
  (forall m, In m (get_mappings G1toG2 (find_rc_component defs prune wc g1 g2 mcs)) ->
     common_induced (node_match defs) edge_match (prune_graph prune wc g1) (prune_graph prune wc g2) m /\
     length m = r_last (find_rc_component defs prune wc g1 g2 mcs)) /\
  (forall m, In m (get_mappings G2toG1 (find_rc_component defs prune wc g1 g2 mcs)) ->
     common_induced (node_match defs) edge_match (prune_graph prune wc g2) (prune_graph prune wc g1) m) /\
  length (get_mappings G1toG2 (find_rc_component defs prune wc g1 g2 mcs)) = 1.
Proof. exact component_valid. Qed.
Print Assumptions C12_component_valid.

(** the component list ([components], the model of nx.connected_components by the saturation closure of lib/Reach.v):
    every component consists of nodes and is closed under adjacency, different components are disjoint, every node
    lies in one *)
Theorem C12_components_partition :
  forall g : graph,
  (forall a b x, In (a, b, x) (gedges g) -> In a (node_ids g) /\ In b (node_ids g)) ->
  (forall c, In c (components g) -> incl c (node_ids g) /\
                                   forall x v e, In x c -> LGraph.adj g x v = Some e -> In v c) /\
  (forall i j, i < j -> j < length (components g) ->
               forall x, In x (nth i (components g) []) -> ~ In x (nth j (components g) [])) /\
  (forall u, In u (node_ids g) -> exists c, In c (components g) /\ In u c).
Proof. exact components_partition. Qed.
Print Assumptions C12_components_partition.

(** ** 13. prune_automorphisms=True.  WHICH mapping represents a host node set is VF2's choice (first in its enumeration
    order) and is not modelled; orientation, last_size, subsets tried and the SET of host node sets that keep a
    representative are (observable [run_matcher_auto], compared on every such case): each host node set occurs once, and
    they are exactly the sorted host node sets of the mappings of the unpruned result, to which theorems 1-2 apply. *)
Theorem C12_prune_auto_host_sets :
  forall maps : list mapping,
  NoDup (host_sets maps) /\
  (forall hs, In hs (host_sets maps) <-> exists m, In m maps /\ host_set m = hs) /\
  (forall m, Permutation (host_set m) (map snd m)).
Proof. exact host_sets_spec. Qed.
Print Assumptions C12_prune_auto_host_sets.

(** ** 14. molecule-level mode, find_common_subgraph(mcs_mol=True) (model [find_mcs_mol_pairs]: components of both graphs in
    node order, stable sort by size, every component of G1 greedily paired with the first not yet used component of G2 of
    the same size that passes the isomorphism test).  WHICH isomorphism maps a component onto its partner is VF2's choice
    (not modelled; judged by the oracle).  Proved: the pairs join components of the two (pruned) graphs of equal size that
    pass the test; different pairs have disjoint first and disjoint second components; and for EVERY choice of valid
    mappings inside the matched pairs the combined mapping is a common induced mapping of the two graphs. *)
Theorem C12_mcs_mol_valid :
  forall (defs : list N) (prune : bool) (wc : N) (g1 g2 : graph),
  NoDup (node_ids g1) -> NoDup (node_ids g2) ->
  (forall a b x, In (a, b, x) (gedges g1) -> In a (node_ids g1) /\ In b (node_ids g1)) ->
  (forall a b x, In (a, b, x) (gedges g2) -> In a (node_ids g2) /\ In b (node_ids g2)) ->
  let g1u := prune_graph prune wc g1 in
  let g2u := prune_graph prune wc g2 in
  let ps := fst (find_mcs_mol_pairs defs prune wc g1 g2) in
  (forall c1 c2, In (c1, c2) ps ->
     In c1 (components g1u) /\ In c2 (components g2u) /\ length c2 = length c1 /\
     comp_iso (node_match defs) edge_match g1u g2u c1 c2 = true) /\
  (forall i j, i < j -> j < length ps -> forall x,
     (In x (nth i (map fst ps) []) -> ~ In x (nth j (map fst ps) [])) /\
     (In x (nth i (map snd ps) []) -> ~ In x (nth j (map snd ps) []))) /\
  (forall ms, Forall2 (fun p m => common_induced (node_match defs) edge_match
                                    (induced_sub g1u (fst p)) (induced_sub g2u (snd p)) m) ps ms ->
              common_induced (node_match defs) edge_match g1u g2u (concat ms)).
Proof. exact mcs_mol_valid. Qed.
Print Assumptions C12_mcs_mol_valid.

(** the isomorphism test of a pair of components ([comp_iso], the model of GraphMatcher(sub1, sub2).is_isomorphic() for equal
    sizes) holds iff some common induced mapping of the two induced copies covers all of c1 *)
Theorem C12_comp_iso_meaning :
  forall (nm : option nattr -> option nattr -> bool) (em : eattr -> eattr -> bool) (g1 g2 : graph) (c1 c2 : list N),
  NoDup c1 -> incl c1 (node_ids g1) -> incl c2 (node_ids g2) ->
  (comp_iso nm em g1 g2 c1 c2 = true <->
   exists m, common_induced nm em (induced_sub g1 c1) (induced_sub g2 c2) m /\ Permutation (map fst m) c1).
Proof. exact comp_iso_spec. Qed.
Print Assumptions C12_comp_iso_meaning.

(** ** 15. prune_automorphisms=True, the returned mappings themselves (round 4).  VF2's choice -- for every host node set the
    mapping it enumerates first -- is an explicit PARAMETER [choices] of the model ([apply_choices], [run_matcher_auto_with];
    the harness obtains it from networkx alone).  For EVERY accepted parameter: the kept mappings are mappings of the unpruned
    result chosen from the parameter, valid for the oriented pair of (pruned) graphs, pairwise different in their host node
    sets, sorted; and in maximum mode they all have size last_size and every maximum common induced mapping has its host
    node set represented. *)
Theorem C12_prune_auto_choices :
  forall (defs : list N) (prune : bool) (wc : N) (g1 g2 : graph) (mcs : bool) (choices kept : list mapping),
  NoDup (node_ids g1) -> NoDup (node_ids g2) ->
  let r := find_common_subgraph defs prune wc g1 g2 mcs in
  let ga := if r_pattern_is_g1 r then prune_graph prune wc g1 else prune_graph prune wc g2 in
  let gb := if r_pattern_is_g1 r then prune_graph prune wc g2 else prune_graph prune wc g1 in
  apply_choices (r_maps r) choices = Some kept ->
  (forall k, In k kept -> common_induced (node_match defs) edge_match ga gb k /\ In k (r_maps r) /\
                          exists c, In c choices /\ k = sort_items c) /\
  NoDup (map host_set kept) /\ Sorted (fun a b : mapping => result_ltb b a = false) kept /\
  (mcs = true -> (forall k, In k kept -> length k = r_last r) /\
     forall m, common_induced (node_match defs) edge_match ga gb m -> length m = r_last r -> 1 <= r_last r ->
               exists k, In k kept /\ host_set k = host_set m).
Proof. exact prune_auto_choices_valid. Qed.
Print Assumptions C12_prune_auto_choices.

(** ** 16. (round 5) the matcher OBJECT: constructor, raw attribute dictionaries, the cache as a state machine, the ITS facade
    (model/C12_State.v; the correspondence runs every history of the Matcher copy through [run_history] -> [h_play] -> [m_step]
    -> [m_find] / [m_rc] / [m_get], and the constructor cases through [run_ctor] -> [mk_config]). *)

(** MCSMatcher.__init__: the stored options as a function of the arguments (None = argument omitted): node_attrs defaults to
    ["element"], node_defaults to "*" repeated len(node_attrs) times, edge_attrs to ["order"] when omitted OR empty; ValueError
    exactly when explicit defaults have another length than the names *)
Theorem C12_ctor_normalised :
  forall a : ctor_args,
  match mk_config a with
  | Some c =>
      c_names c = match a_node_attrs a with Some l => l | None => [K_ELEMENT] end /\
      length (c_defs c) = length (c_names c) /\
      c_defs c = match a_node_defaults a with
                 | Some l => l
                 | None => repeat V_STAR (length match a_node_attrs a with Some l => l | None => [K_ELEMENT] end)
                 end /\
      c_enames c <> [] /\
      c_enames c = match a_edge_attrs a with Some (x :: r) => x :: r | _ => [K_ORDER] end /\
      c_prune c = a_prune_wc a /\ c_auto c = a_prune_auto a /\ c_wc c = a_wildcard a /\ c_ekey c = a_element_key a
  | None => exists l, a_node_defaults a = Some l /\
                      length l <> length match a_node_attrs a with Some l => l | None => [K_ELEMENT] end
  end.
Proof. exact mk_config_spec. Qed.
Print Assumptions C12_ctor_normalised.

(** the two matchers as the code evaluates them on the RAW attribute dictionaries (data.get(attr, default) per configured
    name; _edge_match with float() and its != fall-back for values float() rejects) are the matchers of C12_Model.v on the
    attribute selection [project_node] / [project_edge] -- so every theorem above speaks about the raw graphs *)
Theorem C12_raw_matchers :
  (forall (names defs : list N) (h p : rnattr), length defs = length names ->
     node_match_raw names defs h p =
     attrs_match defs (map (fun k => LGraph.assoc k h) names) (map (fun k => LGraph.assoc k p) names)) /\
  (forall (names : list N) (h p : reattr),
     edge_match_raw names h p =
     edge_match (map (fun k => option_map evalue_code (LGraph.assoc k h)) names)
                (map (fun k => option_map evalue_code (LGraph.assoc k p)) names)) /\
  (forall a b : evalue, Z.eqb (evalue_code a) (evalue_code b) = evalue_eqb a b).
Proof. exact (conj (fun names defs h p => node_match_raw_project names defs h p) (conj edge_match_raw_project evalue_code_eqb)). Qed.
Print Assumptions C12_raw_matchers.

(** ... in particular the validity clause read directly on the graphs the caller passes *)
Theorem C12_raw_meaning :
  forall (cfg : config) (ga gb : rgraph) (m : mapping), length (c_defs cfg) = length (c_names cfg) ->
  common_induced (node_match (c_defs cfg)) edge_match (project cfg ga) (project cfg gb) m <->
  NoDup (map fst m) /\ NoDup (map snd m) /\
  (forall p h, In (p, h) m ->
     exists a b, label ga p = Some a /\ label gb h = Some b /\ node_match_raw (c_names cfg) (c_defs cfg) b a = true) /\
  (forall p h p' h', In (p, h) m -> In (p', h') m -> p <> p' ->
     match LGraph.adj ga p p', LGraph.adj gb h h' with
     | Some b, Some b' => edge_match_raw (c_enames cfg) b' b = true
     | None, None => True
     | _, _ => False
     end).
Proof. exact project_ci_iff. Qed.
Print Assumptions C12_raw_meaning.

(** history independence: a search call never looks at the cache -- its answer and the cache it leaves are those of a fresh
    object, whatever calls (other pairs, other modes, failed calls, reads) the object served before; reads never change the
    cache *)
Theorem C12_history_independent :
  forall (cfg : config) (st : mstate) (ops : list mop) (o : mop) (rds : list mop),
  is_read o = false -> forallb is_read rds = true ->
  m_run cfg st (ops ++ o :: rds) = fst (m_step cfg s_init o) /\
  snd (m_step cfg (m_run cfg st ops) o) = snd (m_step cfg s_init o).
Proof. exact (fun cfg st ops o rds Ho Hr => conj (history_last_search cfg st ops o rds Ho Hr) (history_answers_fresh cfg st ops o Ho)). Qed.
Print Assumptions C12_history_independent.

(** before any search, and after a facade call with an unknown side (the ValueError is raised AFTER the reset): nothing is
    stored and every direction string -- also an unknown one -- is answered with the empty list *)
Theorem C12_state_unknown :
  (forall d : dir, m_get s_init d = Some []) /\
  (forall (cfg : config) (st : mstate) (x : rc_input) (mcs comp : bool),
     m_step cfg st (MRc x SBad mcs comp) = (s_init, SK.lib.Tok.L (SK.lib.Tok.I (-1)%Z :: m_views s_init))).
Proof. exact state_unknown. Qed.
Print Assumptions C12_state_unknown.

(** in every cache an object can reach: the two direction requests are position-wise mutually inverse, the pattern->host
    request equals one of them, and an unknown direction is refused exactly when a search has run *)
Theorem C12_reads_inverse :
  forall (cfg : config) (ops : list mop),
  let st := m_run cfg s_init ops in
  exists l12 l21 lp, m_get st D12 = Some l12 /\ m_get st D21 = Some l21 /\ m_get st DP2H = Some lp /\
    l21 = map invert_mapping l12 /\ l12 = map invert_mapping l21 /\ (lp = l12 \/ lp = l21) /\
    (m_get st DBad = None <-> s_flag st <> None).
Proof. exact reads_inverse. Qed.
Print Assumptions C12_reads_inverse.

(** THE PROPERTY OVER HISTORIES: whatever happened to the object before, after find_common_subgraph(G1, G2, mcs) and any
    number of reads the three direction requests answer with mappings that are valid for (G1, G2) as selected and pruned by this
    object's options; the two directions are mutually inverse; in maximum mode all sizes equal last_size, no common induced
    mapping is larger and every one of that size is returned; in all-sizes mode every non-empty common induced mapping is returned *)
Theorem C12_history_valid :
  forall (cfg : config) (st : mstate) (ops : list mop) (g1 g2 : rgraph) (mcs : bool) (rds : list mop),
  NoDup (node_ids g1) -> NoDup (node_ids g2) -> forallb is_read rds = true ->
  let nm := node_match (c_defs cfg) in
  let pr := fun g => prune_graph (c_prune cfg) (c_wc cfg) (project cfg g) in
  let stf := m_run cfg st (ops ++ MFind g1 g2 mcs :: rds) in
  exists l12 l21 lp, m_get stf D12 = Some l12 /\ m_get stf D21 = Some l21 /\ m_get stf DP2H = Some lp /\ m_get stf DBad = None /\
    l21 = map invert_mapping l12 /\ l12 = map invert_mapping l21 /\ (lp = l12 \/ lp = l21) /\
    (forall m, In m l12 -> common_induced nm edge_match (pr g1) (pr g2) m /\ (1 <= length m)%nat) /\
    (forall m, In m l21 -> common_induced nm edge_match (pr g2) (pr g1) m /\ (1 <= length m)%nat) /\
    (mcs = true ->
       (forall m, In m l12 -> length m = s_last stf) /\
       (forall m, common_induced nm edge_match (pr g1) (pr g2) m -> (length m <= s_last stf)%nat) /\
       (forall m, common_induced nm edge_match (pr g1) (pr g2) m -> length m = s_last stf -> (1 <= s_last stf)%nat ->
          exists m', In m' l12 /\ Permutation m m')) /\
    (mcs = false ->
       forall m, common_induced nm edge_match (pr g1) (pr g2) m -> (1 <= length m)%nat -> exists m', In m' l12 /\ Permutation m m').
Proof. exact history_find_valid. Qed.
Print Assumptions C12_history_valid.

(** the ITS facade: with component=False it is find_common_subgraph on the sides it selects (r: right/right, l: left/left,
    op: right of rc1 / left of rc2, its: the arguments themselves) *)
Theorem C12_facade_sides :
  forall (cfg : config) (st : mstate) (x : rc_input) (sd : side) (mcs : bool),
  match sd with
  | SR => m_step cfg st (MRc x sd mcs false) = m_step cfg st (MFind (rc_r1 x) (rc_r2 x) mcs)
  | SL => m_step cfg st (MRc x sd mcs false) = m_step cfg st (MFind (rc_l1 x) (rc_l2 x) mcs)
  | SOp => m_step cfg st (MRc x sd mcs false) = m_step cfg st (MFind (rc_r1 x) (rc_l2 x) mcs)
  | SIts => m_step cfg st (MRc x sd mcs false) = m_step cfg st (MFind (rc_1 x) (rc_2 x) mcs)
  | SBad => fst (m_step cfg st (MRc x sd mcs false)) = s_init
  end.
Proof. exact facade_sides. Qed.
Print Assumptions C12_facade_sides.

(** component mode after any history: exactly one stored mapping, reported G1 -> G2 (flag true), valid for the selected sides
    also across components; the other direction is its inverse *)
Theorem C12_history_component_valid :
  forall (cfg : config) (st : mstate) (ops : list mop) (x : rc_input) (sd : side) (mcs : bool) (ga gb : rgraph) (rds : list mop),
  pick_sides x sd = Some (ga, gb) ->
  NoDup (node_ids ga) -> NoDup (node_ids gb) -> wfe (project cfg ga) -> wfe (project cfg gb) ->
  forallb is_read rds = true ->
  let nm := node_match (c_defs cfg) in
  let pr := fun g => prune_graph (c_prune cfg) (c_wc cfg) (project cfg g) in
  let stf := m_run cfg st (ops ++ MRc x sd mcs true :: rds) in
  exists m, m_get stf D12 = Some [m] /\ m_get stf D21 = Some [invert_mapping m] /\ m_get stf DP2H = Some [m] /\
    s_flag stf = Some true /\ s_last stf = length m /\
    common_induced nm edge_match (pr ga) (pr gb) m /\ common_induced nm edge_match (pr gb) (pr ga) (invert_mapping m).
Proof. exact history_component_valid. Qed.
Print Assumptions C12_history_component_valid.

(** ** 17. (round 5) the MTG copy as an object ([run_history_mtg] -> [t_play] -> [t_step]; constructor [mk_config_mtg]).
    Constructor: no length test -- generic_node_match zips names, defaults and comparators, so only the first
    min(len(names), len(defaults)) names are compared; its edge matcher on raw dictionaries (both values missing -> True, float()
    of both, an exception -> ==; after repair /repo 24a0150) is [edge_match_mtg] on the selection [project_edge_mtg] *)
Theorem C12_mtg_object :
  (forall a : mtg_args, length (c_defs (mk_config_mtg a)) = length (c_names (mk_config_mtg a))) /\
  (forall (names defs : list N) (h p : rnattr),
     node_match_raw names defs h p =
     node_match_raw (firstn (Nat.min (length names) (length defs)) names)
                    (firstn (Nat.min (length names) (length defs)) defs) h p) /\
  (forall (cfg : config) (k : N) (h p : reattr), c_enames cfg = [k] ->
     edge_match_mtg (project_edge_mtg cfg h) (project_edge_mtg cfg p) = edge_match_mtg_raw k h p).
Proof. exact (conj mk_config_mtg_lengths (conj node_match_raw_firstn edge_match_mtg_project)). Qed.
Print Assumptions C12_mtg_object.

(** history independence of the MTG object: a search leaves the cache (and gives the answer) of a fresh object *)
Theorem C12_mtg_history_independent :
  forall (cfg : config) (st : tstate) (ops : list top) (o : top) (rds : list top),
  t_is_read o = false -> forallb t_is_read rds = true ->
  t_run cfg st (ops ++ o :: rds) = fst (t_step cfg t_init o) /\
  snd (t_step cfg (t_run cfg st ops) o) = snd (t_step cfg t_init o).
Proof. exact mtg_history_last_search. Qed.
Print Assumptions C12_mtg_history_independent.

(** the property over histories of the MTG object (first argument = pattern, no pruning) *)
Theorem C12_mtg_history_valid :
  forall (cfg : config) (st : tstate) (ops : list top) (g1 g2 : rgraph) (mcs : bool) (rds : list top),
  NoDup (node_ids g1) -> NoDup (node_ids g2) -> forallb t_is_read rds = true ->
  let stf := t_run cfg st (ops ++ TFind g1 g2 mcs :: rds) in
  let G1 := project_mtg cfg g1 in let G2 := project_mtg cfg g2 in
  (forall m, In m (t_maps stf) -> common_induced (node_match (c_defs cfg)) edge_match_mtg G1 G2 m /\ (1 <= length m)%nat) /\
  (mcs = true ->
     (forall m, In m (t_maps stf) -> length m = t_last stf) /\
     (forall m, common_induced (node_match (c_defs cfg)) edge_match_mtg G1 G2 m -> (length m <= t_last stf)%nat) /\
     (forall m, common_induced (node_match (c_defs cfg)) edge_match_mtg G1 G2 m -> length m = t_last stf -> (1 <= t_last stf)%nat ->
        exists m', In m' (t_maps stf) /\ Permutation m m')) /\
  (mcs = false ->
     forall m, common_induced (node_match (c_defs cfg)) edge_match_mtg G1 G2 m -> (1 <= length m)%nat ->
        exists m', In m' (t_maps stf) /\ Permutation m m').
Proof. exact mtg_history_valid. Qed.
Print Assumptions C12_mtg_history_valid.

(** ** 18. (round 5) intermediate values of the search: the trace of GraphMatcher objects ([search_trace]; compared with the
    instrumented implementation on every plain search call: [run_matcher_tr], [run_mtg_tr], [find_tok], [t_find_tok]).
    One entry per GraphMatcher object the search counts; every entry is a k-subset of the pattern's nodes (k between 1 and
    min(|pattern|, |host|), subsets as sub-lists in node order = itertools.combinations) with the number of results of the
    verified enumerator for it; in maximum mode the trace stops with the first level that yields an isomorphism (all
    earlier entries have count 0). *)
Theorem C12_search_trace :
  forall (nm : option nattr -> option nattr -> bool) (em : eattr -> eattr -> bool) (pattern host : graph),
  (forall mcs, length (search_trace nm em pattern host mcs) = snd (search_subgraphs nm em pattern host mcs)) /\
  (forall mcs nodes c, In (nodes, c) (search_trace nm em pattern host mcs) ->
     exists k, 1 <= k <= Nat.min (n_nodes pattern) (n_nodes host) /\ In nodes (combs (node_ids pattern) k) /\
               c = length (sub_isos nm em pattern host nodes)) /\
  (forall k, let t := trace_loop nm em true pattern host k in
     ((forall j, 1 <= j <= k -> level nm em pattern host j = []) /\ (forall p, In p t -> snd p = 0)) \/
     (exists b, 1 <= b <= k /\ level nm em pattern host b <> [] /\
                (forall j, b < j <= k -> level nm em pattern host j = []) /\
                exists pre, t = pre ++ level_trace nm em pattern host b /\ forall p, In p pre -> snd p = 0)).
Proof.
  exact (fun nm em pattern host => conj (search_trace_length nm em pattern host)
           (conj (search_trace_entries nm em pattern host) (search_trace_early_exit nm em pattern host))).
Qed.
Print Assumptions C12_search_trace.

(** ** 19. (round 5) [last_size] in ALL-SIZES mode (compared since round 1, proved now; the property text does not speak about
    it): 0 with an empty result, otherwise the size of the SMALLEST returned mapping -- [best_size] is overwritten on the way
    down -- and some returned mapping has exactly that size.  (The docstring of the property says "size of the largest
    mapping"; [Example_last_size]: C-C=O against O=C returns sizes [2; 1; 1; 1] and last_size 1.) *)
Theorem C12_last_size_all_sizes :
  forall (nm : option nattr -> option nattr -> bool) (em : eattr -> eattr -> bool) (pattern host : graph),
  NoDup (node_ids pattern) ->
  forall (maps : list mapping) (last tried : nat),
  search_subgraphs nm em pattern host false = (maps, last, tried) ->
  (maps = [] /\ last = 0) \/
  (1 <= last /\ (exists m, In m maps /\ length m = last) /\ forall m, In m maps -> last <= length m).
Proof. exact last_size_all_sizes. Qed.
Print Assumptions C12_last_size_all_sizes.

(** ** 20. (round 5) prune_automorphisms=True inside histories ([MFindAuto]: VF2's first mapping per host node set is an input,
    validated by [apply_choices]): after any history, with an accepted parameter the cache holds exactly the chosen
    representatives, with the size and orientation flag of the unpruned search -- so C12_prune_auto_choices (validity, pairwise
    different host node sets, sortedness, completeness up to host node sets) and C12_reads_inverse apply to every read *)
Theorem C12_history_prune_auto :
  forall (cfg : config) (st : mstate) (ops : list mop) (g1 g2 : rgraph) (mcs : bool) (choices : list mapping) (rds : list mop)
         (kept : list mapping),
  forallb is_read rds = true ->
  apply_choices (r_maps (find_common_subgraph (c_defs cfg) (c_prune cfg) (c_wc cfg) (project cfg g1) (project cfg g2) mcs)) choices = Some kept ->
  m_run cfg st (ops ++ MFindAuto g1 g2 mcs choices :: rds) =
  {| s_maps := kept;
     s_last := r_last (find_common_subgraph (c_defs cfg) (c_prune cfg) (c_wc cfg) (project cfg g1) (project cfg g2) mcs);
     s_flag := Some (r_pattern_is_g1 (find_common_subgraph (c_defs cfg) (c_prune cfg) (c_wc cfg) (project cfg g1) (project cfg g2) mcs)) |}.
Proof. exact history_auto. Qed.
Print Assumptions C12_history_prune_auto.

(** ** 21. (round 5) THE PROPERTY OVER HISTORIES ON THE CALLER'S GRAPHS.  [raw_valid cfg ga gb m]: [m] is a function, injective,
    maps atoms of ga to atoms of gb whose configured attributes agree after the defaults (data.get(name, default)), with every
    bond between mapped atoms present on both sides with matching configured bond attributes (float() equality, or == for values
    float() rejects; missing matches only missing) or absent on both sides -- and, with prune_wc, maps no atom whose
    element_key attribute equals wildcard_element.  For an object built by the constructor, whatever calls it served before:
    after find_common_subgraph(G1, G2, mcs) and any reads, every G1->G2 answer is valid for (G1, G2), every G2->G1 answer for
    (G2, G1), the two lists are position-wise inverse; maximum mode: all sizes equal last_size and no valid mapping is larger;
    all-sizes mode: every non-empty valid mapping is returned. *)
Theorem C12_raw_valid_meaning :
  forall (cfg : config) (ga gb : rgraph) (m : mapping),
  raw_valid cfg ga gb m <->
  (NoDup (map fst m) /\ NoDup (map snd m) /\
   (forall p h, In (p, h) m ->
      exists a b, label ga p = Some a /\ label gb h = Some b /\ node_match_raw (c_names cfg) (c_defs cfg) b a = true) /\
   (forall p h p' h', In (p, h) m -> In (p', h') m -> p <> p' ->
      match LGraph.adj ga p p', LGraph.adj gb h h' with
      | Some b, Some b' => edge_match_raw (c_enames cfg) b' b = true
      | None, None => True
      | _, _ => False
      end)) /\
  (c_prune cfg = true -> forall p h, In (p, h) m -> raw_wildcard cfg ga p = false /\ raw_wildcard cfg gb h = false).
Proof. exact (fun cfg ga gb m => iff_refl _). Qed.
Print Assumptions C12_raw_valid_meaning.

Theorem C12_history_valid_raw :
  forall (a : ctor_args) (cfg : config) (st : mstate) (ops : list mop) (g1 g2 : rgraph) (mcs : bool) (rds : list mop),
  mk_config a = Some cfg ->
  NoDup (node_ids g1) -> NoDup (node_ids g2) -> forallb is_read rds = true ->
  let stf := m_run cfg st (ops ++ MFind g1 g2 mcs :: rds) in
  exists l12 l21, m_get stf D12 = Some l12 /\ m_get stf D21 = Some l21 /\
    l21 = map invert_mapping l12 /\ l12 = map invert_mapping l21 /\
    (forall m, In m l12 -> raw_valid cfg g1 g2 m /\ 1 <= length m) /\
    (forall m, In m l21 -> raw_valid cfg g2 g1 m /\ 1 <= length m) /\
    (mcs = true -> (forall m, In m l12 -> length m = s_last stf) /\
                   (forall m, raw_valid cfg g1 g2 m -> length m <= s_last stf)) /\
    (mcs = false -> forall m, raw_valid cfg g1 g2 m -> 1 <= length m -> exists m', In m' l12 /\ Permutation m m').
Proof. exact history_valid_raw. Qed.
Print Assumptions C12_history_valid_raw.

(** ** 22. (round 5) a decision procedure for the validity clause, and mcs_mol=True with VF2's choice as an input.
    [ci_check] (model/C12_Check.v) decides [common_induced].  [find_mcs_mol_with]: the greedy component pairing of the model
    ([find_mcs_mol_pairs]) plus the isomorphisms inside the pairs as a PARAMETER [choice] (obtained by the harness from networkx
    alone), accepted iff its part on every selected component c1 passes [ci_check] on the two induced copies and covers c1, and it
    has no other pair.  Every accepted parameter yields ONE combined mapping, reported G1 -> G2, that is a common induced mapping
    of the (pruned) graphs -- injective and bond-preserving also across components -- whose inverse is one for (G2, G1); after any
    history the cache is that result ([MFindMol]). *)
Theorem C12_ci_check_decides :
  forall (nm : option nattr -> option nattr -> bool) (em : eattr -> eattr -> bool) (ga gb : graph) (m : mapping),
  ci_check nm em ga gb m = true <-> common_induced nm em ga gb m.
Proof. exact ci_check_spec. Qed.
Print Assumptions C12_ci_check_decides.

Theorem C12_mcs_mol_choice_valid :
  forall (defs : list N) (prune : bool) (wc : N) (g1 g2 : graph) (choice : mapping) (r : result),
  NoDup (node_ids g1) -> NoDup (node_ids g2) ->
  (forall a b x, In (a, b, x) (gedges g1) -> In a (node_ids g1) /\ In b (node_ids g1)) ->
  (forall a b x, In (a, b, x) (gedges g2) -> In a (node_ids g2) /\ In b (node_ids g2)) ->
  find_mcs_mol_with defs prune wc g1 g2 choice = Some r ->
  exists m, r_maps r = [m] /\ r_last r = length m /\ r_pattern_is_g1 r = true /\
            r_tried r = snd (find_mcs_mol_pairs defs prune wc g1 g2) /\
            (forall ph, In ph m -> In ph choice) /\ length m = length choice /\
            common_induced (node_match defs) edge_match (prune_graph prune wc g1) (prune_graph prune wc g2) m /\
            common_induced (node_match defs) edge_match (prune_graph prune wc g2) (prune_graph prune wc g1) (invert_mapping m).
Proof. exact mol_choice_valid. Qed.
Print Assumptions C12_mcs_mol_choice_valid.

Theorem C12_history_mcs_mol :
  forall (cfg : config) (st : mstate) (ops : list mop) (g1 g2 : rgraph) (choice : mapping) (rds : list mop) (r : result),
  forallb is_read rds = true ->
  find_mcs_mol_with (c_defs cfg) (c_prune cfg) (c_wc cfg) (project cfg g1) (project cfg g2) choice = Some r ->
  m_run cfg st (ops ++ MFindMol g1 g2 choice :: rds) = state_of r.
Proof. exact history_mol. Qed.
Print Assumptions C12_history_mcs_mol.

(** mcs_mol=True through the ITS facade (component=False) is the same call on the sides the facade selects *)
Theorem C12_facade_mcs_mol :
  forall (cfg : config) (st : mstate) (x : rc_input) (sd : side) (choice : mapping) (ga gb : rgraph),
  pick_sides x sd = Some (ga, gb) ->
  m_step cfg st (MRcMol x sd choice) = m_step cfg st (MFindMol ga gb choice).
Proof. exact rc_mol_is_find_mol. Qed.
Print Assumptions C12_facade_mcs_mol.

(** ** 23. (round 5) the MTG copy on the caller's graphs.  [raw_common_induced_mtg cfg k ga gb m] (written out in the first
    theorem; k = the edge attribute): as for the Matcher copy with ONE edge attribute (since the repair /repo 24a0150: a missing value
    matches only a missing value, a value float() rejects only itself).  For an object built by the MTG constructor (zip
    truncation of names / defaults), after any history: stored mappings are valid for (G1, G2) in that sense; maximum mode: all
    of size last_size, no valid mapping larger; all-sizes mode: every non-empty valid mapping returned. *)
Theorem C12_mtg_raw_meaning :
  forall (cfg : config) (k : N) (ga gb : rgraph) (m : mapping),
  length (c_defs cfg) = length (c_names cfg) -> c_enames cfg = [k] ->
  (common_induced (node_match (c_defs cfg)) edge_match_mtg (project_mtg cfg ga) (project_mtg cfg gb) m <->
   NoDup (map fst m) /\ NoDup (map snd m) /\
   (forall p h, In (p, h) m ->
      exists a b, label ga p = Some a /\ label gb h = Some b /\ node_match_raw (c_names cfg) (c_defs cfg) b a = true) /\
   (forall p h p' h', In (p, h) m -> In (p', h') m -> p <> p' ->
      match LGraph.adj ga p p', LGraph.adj gb h h' with
      | Some b, Some b' => edge_match_mtg_raw k b' b = true
      | None, None => True
      | _, _ => False
      end)).
Proof. exact project_mtg_ci_iff. Qed.
Print Assumptions C12_mtg_raw_meaning.

Theorem C12_mtg_history_valid_raw :
  forall (a : mtg_args) (st : tstate) (ops : list top) (g1 g2 : rgraph) (mcs : bool) (rds : list top),
  NoDup (node_ids g1) -> NoDup (node_ids g2) -> forallb t_is_read rds = true ->
  let cfg := mk_config_mtg a in
  let stf := t_run cfg st (ops ++ TFind g1 g2 mcs :: rds) in
  (forall m, In m (t_maps stf) -> raw_common_induced_mtg cfg (ma_edge a) g1 g2 m /\ 1 <= length m) /\
  (mcs = true -> (forall m, In m (t_maps stf) -> length m = t_last stf) /\
                 (forall m, raw_common_induced_mtg cfg (ma_edge a) g1 g2 m -> length m <= t_last stf)) /\
  (mcs = false -> forall m, raw_common_induced_mtg cfg (ma_edge a) g1 g2 m -> 1 <= length m ->
                  exists m', In m' (t_maps stf) /\ Permutation m m').
Proof. exact mtg_history_valid_raw. Qed.
Print Assumptions C12_mtg_history_valid_raw.

(** ** 24. (wave 4) the keyword arguments of the two search entry points as the caller wrote them ([mcall], None = omitted; the
    correspondence encodes every search step of a history this way: [HCallKw] -> [resolve] -> [m_step]): every omitted argument
    takes ITS OWN default whatever else was given -- find_common_subgraph: mcs False, mcs_mol False; find_rc_mapping: side "op",
    mcs True, mcs_mol False, component True -- and the bodies dispatch in their own order: mcs_mol makes find_common_subgraph
    ignore mcs, component mode makes find_rc_mapping ignore mcs_mol. *)
Theorem C12_keyword_defaults :
  forall auto : bool,
  (forall g1 g2 chs ch, resolve auto (CFind g1 g2 {| fk_mcs := None; fk_mol := None |} chs ch) =
                        if auto then MFindAuto g1 g2 false chs else MFind g1 g2 false) /\
  (forall g1 g2 m chs ch, resolve auto (CFind g1 g2 {| fk_mcs := m; fk_mol := Some true |} chs ch) = MFindMol g1 g2 ch) /\
  (forall g1 g2 b chs ch, resolve false (CFind g1 g2 {| fk_mcs := Some b; fk_mol := None |} chs ch) = MFind g1 g2 b) /\
  (forall x ch, resolve auto (CRc x {| rk_side := None; rk_mcs := None; rk_mol := None; rk_component := None |} ch) = MRc x SOp true true) /\
  (forall x sd m ml ch, resolve auto (CRc x {| rk_side := sd; rk_mcs := m; rk_mol := ml; rk_component := None |} ch) =
                        MRc x (dflt SOp sd) (dflt true m) true) /\
  (forall x sd m ch, resolve auto (CRc x {| rk_side := sd; rk_mcs := m; rk_mol := None; rk_component := Some false |} ch) =
                     MRc x (dflt SOp sd) (dflt true m) false) /\
  (forall x sd m ch, resolve auto (CRc x {| rk_side := sd; rk_mcs := m; rk_mol := Some true; rk_component := Some false |} ch) =
                     MRcMol x (dflt SOp sd) ch).
Proof. exact resolve_defaults. Qed.
Print Assumptions C12_keyword_defaults.

(** ** 25. (wave 4) the MTG copy's own mcs_mol mode (synkit/Graph/MTG/mcs_matcher.py _find_mcs_mol; not exercised before wave 4):
    the greedy component pairing with the MTG matchers, VF2's isomorphisms as a validated input ([find_mcs_mol_with_mtg],
    [run_mcs_mol_with_mtg]).  Every accepted parameter yields one combined mapping of the size of the parameter that is a common
    induced mapping of the two graphs for the MTG matchers, also across components. *)
Theorem C12_mtg_mcs_mol_choice_valid :
  forall (defs : list N) (g1 g2 : graph) (choice : mapping) (maps : list mapping) (last n : nat),
  NoDup (node_ids g1) -> NoDup (node_ids g2) ->
  (forall a b x, In (a, b, x) (gedges g1) -> In a (node_ids g1) /\ In b (node_ids g1)) ->
  (forall a b x, In (a, b, x) (gedges g2) -> In a (node_ids g2) /\ In b (node_ids g2)) ->
  find_mcs_mol_with_mtg defs g1 g2 choice = Some (maps, last, n) ->
  exists m, maps = [m] /\ last = length m /\ n = snd (find_mcs_mol_pairs_mtg defs g1 g2) /\
            (forall ph, In ph m -> In ph choice) /\ length m = length choice /\
            common_induced (node_match defs) edge_match_mtg g1 g2 m.
Proof. exact mol_choice_valid_mtg. Qed.
Print Assumptions C12_mtg_mcs_mol_choice_valid.

(** the MTG facade forwards mcs_mol (exercised since wave 4): find_rc_mapping(rc1, rc2, mcs_mol=True) is the mcs_mol search on the
    right side of rc1 and the left side of rc2 ([TRcMol], [TFindMol] -> [find_mcs_mol_with_mtg]) *)
Theorem C12_mtg_facade_mcs_mol :
  forall (cfg : config) (st : tstate) (x : rc_input) (choice : mapping),
  t_step cfg st (TRcMol x choice) = t_step cfg st (TFindMol (rc_r1 x) (rc_l2 x) choice).
Proof. exact t_rc_mol_is_find_mol. Qed.
Print Assumptions C12_mtg_facade_mcs_mol.

(** ** 26. the ITS facade on the caller's graphs: find_rc_mapping(rc1, rc2, side, mcs, component=False) after ANY history of
    calls on the object returns mappings that are valid ([raw_valid], section 21) for the two SIDES it selects -- r: right/right,
    l: left/left, op: right of rc1 / left of rc2, its: the arguments themselves --, mutually inverse in the two directions; in
    maximum mode of size last_size with no valid mapping of the sides larger; in all-sizes mode every non-empty one returned *)
Theorem C12_facade_valid_raw :
  forall (a : ctor_args) (cfg : config) (st : mstate) (ops : list mop) (x : rc_input) (sd : side) (mcs : bool)
         (ga gb : rgraph) (rds : list mop),
  mk_config a = Some cfg -> pick_sides x sd = Some (ga, gb) ->
  NoDup (node_ids ga) -> NoDup (node_ids gb) -> forallb is_read rds = true ->
  let stf := m_run cfg st (ops ++ MRc x sd mcs false :: rds) in
  exists l12 l21, m_get stf D12 = Some l12 /\ m_get stf D21 = Some l21 /\
    l21 = map invert_mapping l12 /\ l12 = map invert_mapping l21 /\
    (forall m, In m l12 -> raw_valid cfg ga gb m /\ 1 <= length m) /\
    (forall m, In m l21 -> raw_valid cfg gb ga m /\ 1 <= length m) /\
    (mcs = true -> (forall m, In m l12 -> length m = s_last stf) /\
                   (forall m, raw_valid cfg ga gb m -> length m <= s_last stf)) /\
    (mcs = false -> forall m, raw_valid cfg ga gb m -> 1 <= length m -> exists m', In m' l12 /\ Permutation m m').
Proof. exact history_rc_valid_raw. Qed.
Print Assumptions C12_facade_valid_raw.

(** ** 27. component-wise mode on the caller's graphs: find_rc_mapping(rc1, rc2, side, mcs, component=True) after ANY history
    stores exactly one mapping, reported G1 -> G2 (flag true, last_size = its size), that is valid ([raw_valid]) for the two sides
    the facade selects -- injective and bond-preserving also ACROSS components -- and whose inverse is valid for the exchanged
    sides.  [raw_wfe]: every bond joins two atoms of the graph (guaranteed by networkx). *)
Theorem C12_component_valid_raw :
  forall (a : ctor_args) (cfg : config) (st : mstate) (ops : list mop) (x : rc_input) (sd : side) (mcs : bool)
         (ga gb : rgraph) (rds : list mop),
  mk_config a = Some cfg -> pick_sides x sd = Some (ga, gb) ->
  NoDup (node_ids ga) -> NoDup (node_ids gb) ->
  (forall u v e, In (u, v, e) (gedges ga) -> In u (node_ids ga) /\ In v (node_ids ga)) ->
  (forall u v e, In (u, v, e) (gedges gb) -> In u (node_ids gb) /\ In v (node_ids gb)) ->
  forallb is_read rds = true ->
  let stf := m_run cfg st (ops ++ MRc x sd mcs true :: rds) in
  exists m, m_get stf D12 = Some [m] /\ m_get stf D21 = Some [invert_mapping m] /\ m_get stf DP2H = Some [m] /\
    s_flag stf = Some true /\ s_last stf = length m /\
    raw_valid cfg ga gb m /\ raw_valid cfg gb ga (invert_mapping m).
Proof. exact history_component_valid_raw. Qed.
Print Assumptions C12_component_valid_raw.

(** ** 28. the two VF2-order dependent modes on the caller's graphs.  With an ACCEPTED parameter -- VF2's first mapping per host
    node set under prune_automorphisms ([apply_choices]), VF2's isomorphisms inside the matched component pairs under mcs_mol
    ([find_mcs_mol_with]) -- after ANY history the G1 -> G2 answers are valid ([raw_valid]) for (G1, G2) and the G2 -> G1 answers
    are their position-wise inverses, valid for (G2, G1); under mcs_mol there is exactly one mapping, of the size of the parameter
    and made of its pairs. *)
Theorem C12_history_prune_auto_valid_raw :
  forall (a : ctor_args) (cfg : config) (st : mstate) (ops : list mop) (g1 g2 : rgraph) (mcs : bool) (choices : list mapping)
         (rds : list mop) (kept : list mapping),
  mk_config a = Some cfg -> NoDup (node_ids g1) -> NoDup (node_ids g2) -> forallb is_read rds = true ->
  apply_choices (r_maps (find_common_subgraph (c_defs cfg) (c_prune cfg) (c_wc cfg) (project cfg g1) (project cfg g2) mcs)) choices
    = Some kept ->
  let stf := m_run cfg st (ops ++ MFindAuto g1 g2 mcs choices :: rds) in
  exists l12, m_get stf D12 = Some l12 /\ m_get stf D21 = Some (map invert_mapping l12) /\ length l12 = length kept /\
    (forall m, In m l12 -> raw_valid cfg g1 g2 m) /\
    (forall m, In m (map invert_mapping l12) -> raw_valid cfg g2 g1 m).
Proof. exact history_auto_valid_raw. Qed.
Print Assumptions C12_history_prune_auto_valid_raw.

Theorem C12_history_mcs_mol_valid_raw :
  forall (a : ctor_args) (cfg : config) (st : mstate) (ops : list mop) (g1 g2 : rgraph) (choice : mapping) (rds : list mop)
         (r : result),
  mk_config a = Some cfg -> NoDup (node_ids g1) -> NoDup (node_ids g2) ->
  (forall u v e, In (u, v, e) (gedges g1) -> In u (node_ids g1) /\ In v (node_ids g1)) ->
  (forall u v e, In (u, v, e) (gedges g2) -> In u (node_ids g2) /\ In v (node_ids g2)) ->
  forallb is_read rds = true ->
  find_mcs_mol_with (c_defs cfg) (c_prune cfg) (c_wc cfg) (project cfg g1) (project cfg g2) choice = Some r ->
  let stf := m_run cfg st (ops ++ MFindMol g1 g2 choice :: rds) in
  exists m, m_get stf D12 = Some [m] /\ m_get stf D21 = Some [invert_mapping m] /\ s_flag stf = Some true /\ s_last stf = length m /\
    length m = length choice /\ (forall ph, In ph m -> In ph choice) /\
    raw_valid cfg g1 g2 m /\ raw_valid cfg g2 g1 (invert_mapping m).
Proof. exact history_mol_valid_raw. Qed.
Print Assumptions C12_history_mcs_mol_valid_raw.
