From Coq Require Import List NArith.
From SK Require Import model.C12_Model proof.C12_Proof.
Theorem C12_invert_involutive : forall m : mapping, invert_mapping (invert_mapping m) = m.
Proof. exact invert_involutive. Qed.
Print Assumptions C12_invert_involutive.
