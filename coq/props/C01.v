(** C01 — ITS encoding of a mapped reaction is lossless and invertible.
    Statements only; every proof is [exact <lemma of proof/C01_Proof.v>].
    Vocabulary (model/C01_Model.v, lib/LGraph.v):  [wf] = distinct node ids, edges between present distinct
    nodes, one entry per unordered pair;  [same_nodes G H] = equal node-id sets ("atom-balanced");
    [orders_pos] = every stored bond order > 0;  [geq_sel G' G] = same atoms with equal element, aromatic,
    hcount, charge and equal bond maps;  [amap_id] = atom_map is the node id;  orders are half-units. *)
From Coq Require Import List NArith ZArith Bool.
From SK Require Import lib.LGraph lib.C01_GraphLemmas model.C01_Model proof.C01_Proof.
Local Open Scope Z_scope.

(** 1. decompose (construct (G, H)) = (G, H) *)
Theorem C01_roundtrip : forall G H : mgraph,
  wf G -> wf H -> same_nodes G H -> orders_pos G -> orders_pos H ->
  geq_sel (fst (its_decompose (its_construct G H))) G /\ amap_id (fst (its_decompose (its_construct G H))) /\
  geq_sel (snd (its_decompose (its_construct G H))) H /\ amap_id (snd (its_decompose (its_construct G H))).
Proof. exact roundtrip. Qed.
Print Assumptions C01_roundtrip.

(** 2. the ITS has exactly the union of the atoms and bonds; typesGH = the two sides' attribute tuples
       (defaults for a missing side); every bond carries (order in G or 0, order in H or 0) and their
       difference; the result is a well-formed, standard_order-consistent ITS (this is what C02 needs) *)
Theorem C01_union : forall G H : mgraph, wf G -> wf H ->
  let I := its_construct G H in
  (forall n, In n (node_ids I) <-> In n (node_ids G) \/ In n (node_ids H)) /\
  (forall n a, label I n = Some a -> i_G a = side_tuple G n /\ i_H a = side_tuple H n) /\
  (forall u v a b s, adj I u v = Some (IE a b s) <->
      a = order_in G u v /\ b = order_in H u v /\ (adj G u v <> None \/ adj H u v <> None) /\ s = a - b) /\
  std_consistent I /\ wf I.
Proof. exact union. Qed.
Print Assumptions C01_union.

(** 3. construct and decompose commute with every injective renumbering of the node ids
       (its_decompose writes atom_map := node id, hence [set_amap]) *)
Theorem C01_equivariant : forall f : N -> N, (forall a b, f a = f b -> a = b) ->
  forall (G H : mgraph) (I : its),
  its_construct (relabel f G) (relabel f H) = relabel f (its_construct G H) /\
  its_decompose (relabel f I) =
    (set_amap (relabel f (fst (its_decompose I))), set_amap (relabel f (snd (its_decompose I)))).
Proof. exact equivariant. Qed.
Print Assumptions C01_equivariant.

(** 4. "atom-balanced" is necessary: without [same_nodes] the round trip fails
       (an atom present on one side only comes back as a "*" atom on the other side) *)
Theorem C01_one_sided_refuted :
  exists G H : mgraph, wf G /\ wf H /\ orders_pos G /\ orders_pos H /\ ~ same_nodes G H /\
    ~ geq_sel (snd (its_decompose (its_construct G H))) H.
Proof. exact one_sided_refuted. Qed.
Print Assumptions C01_one_sided_refuted.

(** 5. string level, relative to the RDKit contract S1 (first premise): [parse] = rsmi_to_graph,
       [write] = graph_to_rsmi are oracles (modelled, NOT verified; monitored on the corpora).
       FULL CLAIM of the property text, not proved: for RDKit's actual parser and writer,
       its_to_rsmi (rsmi_to_its r) is atom-map-equivalent to r and has the same unmapped sides.
       Missing: S1 itself and totality of [write] (RDKit may refuse a graph) — both only tested. *)
Theorem C01_rsmi_partial : forall (rsmi : Type) (parse : rsmi -> option (mgraph * mgraph))
    (write : mgraph -> mgraph -> its -> option rsmi),
  (forall g h I s, write g h I = Some s ->
     exists g' h', parse s = Some (g', h') /\ geq_sel g' g /\ geq_sel h' h) ->
  forall r G H, parse r = Some (G, H) -> wf G -> wf H -> same_nodes G H -> orders_pos G -> orders_pos H ->
  forall I s, rsmi_to_its parse r = Some I -> its_to_rsmi write I = Some s ->
  exists G' H', parse s = Some (G', H') /\ geq_sel G' G /\ geq_sel H' H.
Proof. exact rsmi_partial. Qed.
Print Assumptions C01_rsmi_partial.
