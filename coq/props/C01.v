(** C01 — ITS encoding of a mapped reaction is lossless and invertible.
    Statements only; every proof is [exact <lemma of proof/C01_Proof.v>].
    Vocabulary (model/C01_Model.v, lib/LGraph.v):  [wf] = distinct node ids, edges between present distinct
    nodes, one entry per unordered pair;  [same_nodes G H] = equal node-id sets ("atom-balanced");
    [orders_pos] = every stored bond order > 0;  [geq_sel G' G] = same atoms with equal element, aromatic,
    hcount, charge and equal bond maps;  [amap_id] = atom_map is the node id;  orders are half-units. *)
From Coq Require Import List NArith ZArith Bool.
From SK Require Import lib.LGraph lib.C01_GraphLemmas model.C01_Model model.C01_Opts proof.C01_Proof proof.C01_OptsProof.
Local Open Scope Z_scope.

(** 1. decompose (construct (G, H)) = (G, H) *)
Theorem C01_roundtrip : forall G H : mgraph,
  wf G -> wf H -> same_nodes G H -> orders_pos G -> orders_pos H ->
  geq_sel (fst (its_decompose (its_construct G H))) G /\ amap_id (fst (its_decompose (its_construct G H))) /\
  geq_sel (snd (its_decompose (its_construct G H))) H /\ amap_id (snd (its_decompose (its_construct G H))).
Proof. exact roundtrip. Qed.
Print Assumptions C01_roundtrip.

(** 2. the ITS has exactly the union of the atoms and bonds; typesGH = the two sides' attribute tuples
       (defaults for a missing side); every bond carries (order in G or 0, order in H or 0) and their
       difference; the result is a well-formed, standard_order-consistent ITS (this is what C02 needs) *)
Theorem C01_union : forall G H : mgraph, wf G -> wf H ->
  let I := its_construct G H in
  (forall n, In n (node_ids I) <-> In n (node_ids G) \/ In n (node_ids H)) /\
  (forall n a, label I n = Some a -> i_G a = side_tuple G n /\ i_H a = side_tuple H n) /\
  (forall u v a b s, adj I u v = Some (IE a b s) <->
      a = order_in G u v /\ b = order_in H u v /\ (adj G u v <> None \/ adj H u v <> None) /\ s = a - b) /\
  std_consistent I /\ wf I.
Proof. exact union. Qed.
Print Assumptions C01_union.

(** 3. construct and decompose commute with every injective renumbering of the node ids
       (its_decompose writes atom_map := node id, hence [set_amap]) *)
Theorem C01_equivariant : forall f : N -> N, (forall a b, f a = f b -> a = b) ->
  forall (G H : mgraph) (I : its),
  its_construct (relabel f G) (relabel f H) = relabel f (its_construct G H) /\
  its_decompose (relabel f I) =
    (set_amap (relabel f (fst (its_decompose I))), set_amap (relabel f (snd (its_decompose I)))).
Proof. exact equivariant. Qed.
Print Assumptions C01_equivariant.

(** 4. "atom-balanced" is necessary: without [same_nodes] the round trip fails
       (an atom present on one side only comes back as a "*" atom on the other side) *)
Theorem C01_one_sided_refuted :
  exists G H : mgraph, wf G /\ wf H /\ orders_pos G /\ orders_pos H /\ ~ same_nodes G H /\
    ~ geq_sel (snd (its_decompose (its_construct G H))) H.
Proof. exact one_sided_refuted. Qed.
Print Assumptions C01_one_sided_refuted.

(** 5. string level, relative to the RDKit contract S1 (first premise): [parse] = rsmi_to_graph,
       [write] = graph_to_rsmi are oracles (modelled, NOT verified; monitored on the corpora).
       FULL CLAIM of the property text, not proved: for RDKit's actual parser and writer,
       its_to_rsmi (rsmi_to_its r) is atom-map-equivalent to r and has the same unmapped sides.
       Missing: S1 itself and totality of [write] (RDKit may refuse a graph) — both only tested. *)
Theorem C01_rsmi_partial : forall (rsmi : Type) (parse : rsmi -> option (mgraph * mgraph))
    (write : mgraph -> mgraph -> its -> option rsmi),
  (forall g h I s, write g h I = Some s ->
     exists g' h', parse s = Some (g', h') /\ geq_sel g' g /\ geq_sel h' h) ->
  forall r G H, parse r = Some (G, H) -> wf G -> wf H -> same_nodes G H -> orders_pos G -> orders_pos H ->
  forall I s, rsmi_to_its parse r = Some I -> its_to_rsmi write I = Some s ->
  exists G' H', parse s = Some (G', H') /\ geq_sel G' G /\ geq_sel H' H.
Proof. exact rsmi_partial. Qed.
Print Assumptions C01_rsmi_partial.

(** ------------------------------------------------------------------------------------------------
    OPTIONS of ITSConstruction.construct / ITSGraph (model/C01_Opts.v): [o_ia] = ignore_aromaticity,
    [o_bal] = balance_its, [o_dflt] = resolved attributes_defaults; [its_construct_o] = store=False,
    [its_construct_S] = store=True (top-level attributes are (G, H) pairs).  [its_construct] is the instance
    [its_construct_o default_opts] (proof/C01_OptsProof.v construct_default, by computation). *)

(** 6. the round trip holds for EVERY option value and both store modes (the order pair stays exact under
       ignore_aromaticity; only standard_order is zeroed) *)
Theorem C01_roundtrip_opts : forall (o : copts) (G H : mgraph),
  wf G -> wf H -> same_nodes G H -> orders_pos G -> orders_pos H ->
  let D := its_decompose (its_construct_o o G H) in
  let DS := its_decompose_S (its_construct_S o G H) in
  (geq_sel (fst D) G /\ amap_id (fst D) /\ geq_sel (snd D) H /\ amap_id (snd D)) /\
  (geq_sel (fst DS) G /\ amap_id (fst DS) /\ geq_sel (snd DS) H /\ amap_id (snd DS)).
Proof. exact roundtrip_opts. Qed.
Print Assumptions C01_roundtrip_opts.

(** 7. union for every option value: node set; typesGH = the two side tuples (with the resolved defaults);
       top-level attributes = the G-side values (store=False) or the (G, H) pairs (store=True); atom_map is
       inherited from the base graph chosen by balance_its, else from the other graph; every bond carries
       (order_G or 0, order_H or 0) and standard_order = [std_of ignore_aromaticity]; well-formed *)
Theorem C01_union_opts : forall (o : copts) (G H : mgraph), wf G -> wf H ->
  let I := its_construct_o o G H in
  let J := its_construct_S o G H in
  let base := if base_is_G_o o G H then G else H in
  let other := if base_is_G_o o G H then H else G in
  (forall n, (In n (node_ids I) <-> In n (node_ids G) \/ In n (node_ids H)) /\
             (In n (node_ids J) <-> In n (node_ids G) \/ In n (node_ids H))) /\
  (forall n a, label I n = Some a ->
     i_G a = side_tuple_o o G n /\ i_H a = side_tuple_o o H n /\
     i_el a = a_el (i_G a) /\ i_ch a = a_ch (i_G a) /\
     i_extra a = Some (a_arom (i_G a), a_hc (i_G a), a_nb (i_G a)) /\
     ((exists b, label base n = Some b /\ i_amap a = g_amap b) \/
      (label base n = None /\ exists b, label other n = Some b /\ i_amap a = g_amap b))) /\
  (forall n a, label J n = Some a ->
     s_G a = side_tuple_o o G n /\ s_H a = side_tuple_o o H n /\
     s_el a = (a_el (s_G a), a_el (s_H a)) /\ s_arom a = (a_arom (s_G a), a_arom (s_H a)) /\
     s_hc a = (a_hc (s_G a), a_hc (s_H a)) /\ s_ch a = (a_ch (s_G a), a_ch (s_H a)) /\
     s_nb a = (a_nb (s_G a), a_nb (s_H a)) /\
     ((exists b, label base n = Some b /\ s_amap a = g_amap b) \/
      (label base n = None /\ exists b, label other n = Some b /\ s_amap a = g_amap b))) /\
  (forall u v a b s, (adj I u v = Some (IE a b s) <->
      a = order_in G u v /\ b = order_in H u v /\ (adj G u v <> None \/ adj H u v <> None) /\ s = std_of (o_ia o) a b)) /\
  (forall u v, adj J u v = adj I u v) /\
  std_consistent_o (o_ia o) I /\ std_consistent_o (o_ia o) J /\ wf I /\ wf J.
Proof. exact union_opts. Qed.
Print Assumptions C01_union_opts.

(** 8. what ignore_aromaticity does to C02's hypothesis [std_consistent]: it holds whenever the option is off;
       in general standard_order is zero exactly on the bonds whose orders are equal or (option on) differ by less
       than one unit, and wherever it is non-zero it is the difference.  (C02_rc_edges needs std_consistent;
       C02_rc_nodes, _idem, _equivariant, _ctx_spec, _ctx_chain do not.) *)
Theorem C01_std_opts : forall (o : copts) (G H : mgraph),
  (o_ia o = false -> std_consistent (its_construct_o o G H)) /\
  (forall u v x, In (u, v, x) (gedges (its_construct_o o G H)) ->
     (e_std x = 0 <-> e_G x = e_H x \/ (o_ia o = true /\ Z.abs (e_G x - e_H x) < 2)) /\
     (e_std x <> 0 -> e_std x = e_G x - e_H x)).
Proof. exact std_opts. Qed.
Print Assumptions C01_std_opts.

(** 9. with ignore_aromaticity=True the ITS is in general NOT std_consistent (aromatic bond 1.5 -> single bond:
       order pair (1.5, 1), standard_order 0), although the round trip (theorem 6) still holds *)
Theorem C01_ia_std_refuted :
  exists G H : mgraph, wf G /\ wf H /\ same_nodes G H /\ orders_pos G /\ orders_pos H /\
    ~ std_consistent (its_construct_o (CO true false dflt_nattr) G H) /\
    adj (its_construct_o (CO true false dflt_nattr) G H) 1%N 2%N = Some (IE 3 2 0).
Proof. exact ia_not_std_consistent. Qed.
Print Assumptions C01_ia_std_refuted.

(** 10. equivariance for every option value and both store modes *)
Theorem C01_equivariant_opts : forall f : N -> N, (forall a b, f a = f b -> a = b) ->
  forall (o : copts) (G H : mgraph) (J : itsS),
  its_construct_o o (relabel f G) (relabel f H) = relabel f (its_construct_o o G H) /\
  its_construct_S o (relabel f G) (relabel f H) = relabel f (its_construct_S o G H) /\
  its_decompose_S (relabel f J) =
    (set_amap (relabel f (fst (its_decompose_S J))), set_amap (relabel f (snd (its_decompose_S J)))).
Proof. exact equivariant_opts. Qed.
Print Assumptions C01_equivariant_opts.
