From Coq Require Import List NArith ZArith Bool.
From SK Require Import lib.LGraph model.C01_Model proof.C01_Proof.
Theorem C01_stub : forall a n, g_amap (dec_node a n) = Z.of_N n. Proof. exact stub_c01. Qed.
Print Assumptions C01_stub.
