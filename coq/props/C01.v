(** C01 — ITS encoding of a mapped reaction is lossless and invertible.
    Statements only; every proof is [exact <lemma of proof/C01_Proof.v>].
    Vocabulary (model/C01_Model.v, lib/LGraph.v):  [wf] = distinct node ids, edges between present distinct
    nodes, one entry per unordered pair;  [same_nodes G H] = equal node-id sets ("atom-balanced");
    [orders_pos] = every stored bond order > 0;  [geq_sel G' G] = same atoms with equal element, aromatic,
    hcount, charge and equal bond maps;  [amap_id] = atom_map is the node id;  orders are half-units. *)
From Coq Require Import String.
From Coq Require Import List NArith ZArith Bool.
From SK Require Import lib.LGraph lib.C01_GraphLemmas model.C01_Model model.C02_Model model.C01_Opts model.C01_String model.C01_Renum model.C01_Attrs model.C01_CleanWc model.C01_Rsmi model.C01_Nbrs model.C01_Rewrite model.C01_Conv model.C01_G2M model.C01_DecRaw model.C01_HBal model.C01_M2GIdx model.C01_Prem model.C01_Builders
  proof.C01_Proof proof.C01_OptsProof proof.C01_StringProof proof.C01_StringHyd proof.C01_StringPipe proof.C01_StringEH proof.C01_StringRenum proof.C01_StringHydExt proof.C01_RenumCentre proof.C01_RenumWrite proof.C01_StringEHwf proof.C01_AttrsProof proof.C01_StringPipeH proof.C01_CleanWcProof proof.C01_RsmiProof proof.C01_NbrsProof proof.C01_RewriteProof proof.C01_ConvProof proof.C01_G2MProof proof.C01_WriteExt proof.C01_RewriteCheck proof.C01_DecRawProof proof.C01_HBalProof proof.C01_HBalString proof.C01_HBalEH proof.C01_M2GIndex proof.C01_ReadWrite proof.C01_HBalW proof.C01_PremProof proof.C01_Capstone proof.C01_ReverseWrite proof.C01_ExtOpts proof.C01_BuildersProof proof.C01_LightProof proof.C01_ZeroOrder proof.C01_M2GGeneral proof.C01_LightGen.
Import ListNotations.
Local Open Scope Z_scope.

(** 1. decompose (construct (G, H)) = (G, H) *)
Theorem C01_roundtrip : forall G H : mgraph,
  wf G -> wf H -> same_nodes G H -> orders_pos G -> orders_pos H ->
  geq_sel (fst (its_decompose (its_construct G H))) G /\ amap_id (fst (its_decompose (its_construct G H))) /\
  geq_sel (snd (its_decompose (its_construct G H))) H /\ amap_id (snd (its_decompose (its_construct G H))).
Proof. exact roundtrip. Qed.
Print Assumptions C01_roundtrip.

(** 2. the ITS has exactly the union of the atoms and bonds; typesGH = the two sides' attribute tuples
       (defaults for a missing side); every bond carries (order in G or 0, order in H or 0) and their
       difference; the result is a well-formed, standard_order-consistent ITS (this is what C02 needs) *)
Theorem C01_union : forall G H : mgraph, wf G -> wf H ->
  let I := its_construct G H in
  (forall n, In n (node_ids I) <-> In n (node_ids G) \/ In n (node_ids H)) /\
  (forall n a, label I n = Some a -> i_G a = side_tuple G n /\ i_H a = side_tuple H n) /\
  (forall u v a b s, adj I u v = Some (IE a b s) <->
      a = order_in G u v /\ b = order_in H u v /\ (adj G u v <> None \/ adj H u v <> None) /\ s = a - b) /\
  std_consistent I /\ wf I.
Proof. exact union. Qed.
Print Assumptions C01_union.

(** 3. construct and decompose commute with every injective renumbering of the node ids
       (its_decompose writes atom_map := node id, hence [set_amap]) *)
Theorem C01_equivariant : forall f : N -> N, (forall a b, f a = f b -> a = b) ->
  forall (G H : mgraph) (I : its),
  its_construct (relabel f G) (relabel f H) = relabel f (its_construct G H) /\
  its_decompose (relabel f I) =
    (set_amap (relabel f (fst (its_decompose I))), set_amap (relabel f (snd (its_decompose I)))).
Proof. exact equivariant. Qed.
Print Assumptions C01_equivariant.

(** 4. "atom-balanced" is necessary: without [same_nodes] the round trip fails
       (an atom present on one side only comes back as a "*" atom on the other side) *)
Theorem C01_one_sided_refuted :
  exists G H : mgraph, wf G /\ wf H /\ orders_pos G /\ orders_pos H /\ ~ same_nodes G H /\
    ~ geq_sel (snd (its_decompose (its_construct G H))) H.
Proof. exact one_sided_refuted. Qed.
Print Assumptions C01_one_sided_refuted.

(** 5. string level, relative to the RDKit contract S1 (first premise): [parse] = rsmi_to_graph,
       [write] = graph_to_rsmi are oracles (modelled, NOT verified; monitored on the corpora).
       FULL CLAIM of the property text, not proved: for RDKit's actual parser and writer,
       its_to_rsmi (rsmi_to_its r) is atom-map-equivalent to r and has the same unmapped sides.
       Missing: S1 itself and totality of [write] (RDKit may refuse a graph) — both only tested. 
        (Round 5: SUPERSEDED by theorems 15 / 27 / 32, whose premises are about RDKit alone; kept for the record only.) *)
Theorem C01_rsmi_partial : forall (rsmi : Type) (parse : rsmi -> option (mgraph * mgraph))
    (write : mgraph -> mgraph -> its -> option rsmi),
  (forall g h I s, write g h I = Some s ->
     exists g' h', parse s = Some (g', h') /\ geq_sel g' g /\ geq_sel h' h) ->
  forall r G H, parse r = Some (G, H) -> wf G -> wf H -> same_nodes G H -> orders_pos G -> orders_pos H ->
  forall I s, rsmi_to_its parse r = Some I -> its_to_rsmi write I = Some s ->
  exists G' H', parse s = Some (G', H') /\ geq_sel G' G /\ geq_sel H' H.
Proof. exact rsmi_partial. Qed.
Print Assumptions C01_rsmi_partial.

(** ------------------------------------------------------------------------------------------------
    OPTIONS of ITSConstruction.construct / ITSGraph (model/C01_Opts.v): [o_ia] = ignore_aromaticity,
    [o_bal] = balance_its, [o_dflt] = resolved attributes_defaults; [its_construct_o] = store=False,
    [its_construct_S] = store=True (top-level attributes are (G, H) pairs).  [its_construct] is the instance
    [its_construct_o default_opts] (proof/C01_OptsProof.v construct_default, by computation). *)

(** 6. the round trip holds for EVERY option value and both store modes (the order pair stays exact under
       ignore_aromaticity; only standard_order is zeroed) *)
Theorem C01_roundtrip_opts : forall (o : copts) (G H : mgraph),
  wf G -> wf H -> same_nodes G H -> orders_pos G -> orders_pos H ->
  let D := its_decompose (its_construct_o o G H) in
  let DS := its_decompose_S (its_construct_S o G H) in
  (geq_sel (fst D) G /\ amap_id (fst D) /\ geq_sel (snd D) H /\ amap_id (snd D)) /\
  (geq_sel (fst DS) G /\ amap_id (fst DS) /\ geq_sel (snd DS) H /\ amap_id (snd DS)).
Proof. exact roundtrip_opts. Qed.
Print Assumptions C01_roundtrip_opts.

(** 7. union for every option value: node set; typesGH = the two side tuples (with the resolved defaults);
       top-level attributes = the G-side values (store=False) or the (G, H) pairs (store=True); atom_map is
       inherited from the base graph chosen by balance_its, else from the other graph; every bond carries
       (order_G or 0, order_H or 0) and standard_order = [std_of ignore_aromaticity]; well-formed *)
Theorem C01_union_opts : forall (o : copts) (G H : mgraph), wf G -> wf H ->
  let I := its_construct_o o G H in
  let J := its_construct_S o G H in
  let base := if base_is_G_o o G H then G else H in
  let other := if base_is_G_o o G H then H else G in
  (forall n, (In n (node_ids I) <-> In n (node_ids G) \/ In n (node_ids H)) /\
             (In n (node_ids J) <-> In n (node_ids G) \/ In n (node_ids H))) /\
  (forall n a, label I n = Some a ->
     i_G a = side_tuple_o o G n /\ i_H a = side_tuple_o o H n /\
     i_el a = a_el (i_G a) /\ i_ch a = a_ch (i_G a) /\
     i_extra a = Some (a_arom (i_G a), a_hc (i_G a), a_nb (i_G a)) /\
     ((exists b, label base n = Some b /\ i_amap a = g_amap b) \/
      (label base n = None /\ exists b, label other n = Some b /\ i_amap a = g_amap b))) /\
  (forall n a, label J n = Some a ->
     s_G a = side_tuple_o o G n /\ s_H a = side_tuple_o o H n /\
     s_el a = (a_el (s_G a), a_el (s_H a)) /\ s_arom a = (a_arom (s_G a), a_arom (s_H a)) /\
     s_hc a = (a_hc (s_G a), a_hc (s_H a)) /\ s_ch a = (a_ch (s_G a), a_ch (s_H a)) /\
     s_nb a = (a_nb (s_G a), a_nb (s_H a)) /\
     ((exists b, label base n = Some b /\ s_amap a = g_amap b) \/
      (label base n = None /\ exists b, label other n = Some b /\ s_amap a = g_amap b))) /\
  (forall u v a b s, (adj I u v = Some (IE a b s) <->
      a = order_in G u v /\ b = order_in H u v /\ (adj G u v <> None \/ adj H u v <> None) /\ s = std_of (o_ia o) a b)) /\
  (forall u v, adj J u v = adj I u v) /\
  std_consistent_o (o_ia o) I /\ std_consistent_o (o_ia o) J /\ wf I /\ wf J.
Proof. exact union_opts. Qed.
Print Assumptions C01_union_opts.

(** 8. what ignore_aromaticity does to C02's hypothesis [std_consistent]: it holds whenever the option is off;
       in general standard_order is zero exactly on the bonds whose orders are equal or (option on) differ by less
       than one unit, and wherever it is non-zero it is the difference.  (C02_rc_edges needs std_consistent;
       C02_rc_nodes, _idem, _equivariant, _ctx_spec, _ctx_chain do not.) *)
Theorem C01_std_opts : forall (o : copts) (G H : mgraph),
  (o_ia o = false -> std_consistent (its_construct_o o G H)) /\
  (forall u v x, In (u, v, x) (gedges (its_construct_o o G H)) ->
     (e_std x = 0 <-> e_G x = e_H x \/ (o_ia o = true /\ Z.abs (e_G x - e_H x) < 2)) /\
     (e_std x <> 0 -> e_std x = e_G x - e_H x)).
Proof. exact std_opts. Qed.
Print Assumptions C01_std_opts.

(** 9. with ignore_aromaticity=True the ITS is in general NOT std_consistent (aromatic bond 1.5 -> single bond:
       order pair (1.5, 1), standard_order 0), although the round trip (theorem 6) still holds *)
Theorem C01_ia_std_refuted :
  exists G H : mgraph, wf G /\ wf H /\ same_nodes G H /\ orders_pos G /\ orders_pos H /\
    ~ std_consistent (its_construct_o (CO true false dflt_nattr) G H) /\
    adj (its_construct_o (CO true false dflt_nattr) G H) 1%N 2%N = Some (IE 3 2 0).
Proof. exact ia_not_std_consistent. Qed.
Print Assumptions C01_ia_std_refuted.

(** 10. equivariance for every option value and both store modes *)
Theorem C01_equivariant_opts : forall f : N -> N, (forall a b, f a = f b -> a = b) ->
  forall (o : copts) (G H : mgraph) (J : itsS),
  its_construct_o o (relabel f G) (relabel f H) = relabel f (its_construct_o o G H) /\
  its_construct_S o (relabel f G) (relabel f H) = relabel f (its_construct_S o G H) /\
  its_decompose_S (relabel f J) =
    (set_amap (relabel f (fst (its_decompose_S J))), set_amap (relabel f (snd (its_decompose_S J)))).
Proof. exact equivariant_opts. Qed.
Print Assumptions C01_equivariant_opts.

(** ------------------------------------------------------------------------------------------------
    STRING HALF (model/C01_String.v): the graph -> graph logic of rsmi_to_graph / rsmi_to_its / its_to_rsmi between the
    RDKit calls.  [rmol] = a sanitised RDKit molecule as MolToGraph reads it (atoms in index order with symbol,
    aromaticity, total H, charge, atom map, sorted neighbour symbols; bonds between indices); [wmol] = the RWMol content
    GraphToMol builds (atoms with element, charge, atom map, explicit-H count; bonds with a type code).
    [mapped_nodes] / [mapped_bonds] = the mapped atoms / the bonds between mapped atoms, keyed by atom map. *)

(** 11. MolToGraph.transform(drop_non_aam=True, use_index_as_atom_map=True) in closed form: when the mapped atoms carry
        distinct maps and no two bonds join the same pair of maps, the graph has exactly the mapped atoms as nodes (id =
        atom map, in atom order, labels = the atom's), exactly the bonds between mapped atoms as edges, unmapped atoms and
        their bonds are dropped; atom_map = node id; the index table sends atom i to its map iff it is mapped *)
Theorem C01_mol_to_graph : forall m : rmol,
  NoDup (map fst (mapped_nodes m)) -> simple (mapped_bonds m) ->
  mol_to_graph true true m = Some (LG (mapped_nodes m) (mapped_bonds m)) /\
  amap_id (LG (mapped_nodes m) (mapped_bonds m)) /\
  (forall n a, In (n, a) (mapped_nodes m) <->
     exists x, In x (rm_atoms m) /\ is_mapped x = true /\ n = ra_map x /\ a = atom_node x) /\
  (forall i, lookup_idx i (mapped_ix m) =
     match nth_error (rm_atoms m) i with Some a => if is_mapped a then Some (ra_map a) else None | None => None end).
Proof. exact mol_to_graph_full. Qed.
Print Assumptions C01_mol_to_graph.

(** 12. implicit_hydrogen(graph, preserve), AS REPAIRED by /repo commit 3ba7a77 (before it every non-preserved hydrogen was
        deleted, also a lone H / H+ / H- that is folded into no atom's hcount: its_to_rsmi lost the atom and its charge,
        known_findings.d/C01.json): a hydrogen atom stays iff its atom_map is preserved OR it has no non-hydrogen neighbour
        ([has_heavy]); every other atom stays with hcount + (hydrogen neighbours) - (preserved hydrogen neighbours), i.e. the
        decrement is once per preserved hydrogen bonded to it; the bonds are exactly the bonds between remaining atoms; and the
        hydrogen total (hcount + hydrogen neighbours) of every non-hydrogen atom is unchanged, all its other labels too *)
Theorem C01_implicit_hydrogen : forall (g : mgraph) (pres : list Z), wf g ->
  let g' := implicit_hydrogen g pres in
  (forall n, label g' n =
     match label g n with
     | None => None
     | Some a => if is_H a then (if mem n (preserved g pres) || negb (has_heavy g n) then Some a else None)
                 else Some (set_hc a (g_hc a + count_h g n - count_pres g pres n))
     end) /\
  (forall u v, adj g' u v = if negb (ih_removed g pres u) && negb (ih_removed g pres v) then adj g u v else None) /\
  (forall n a, label g n = Some a -> is_H a = false ->
     exists a', label g' n = Some a' /\ g_hc a' + count_h g' n = g_hc a + count_h g n /\
                g_el a' = g_el a /\ g_arom a' = g_arom a /\ g_ch a' = g_ch a /\ g_nb a' = g_nb a /\ g_amap a' = g_amap a).
Proof. exact implicit_hydrogen_spec. Qed.
Print Assumptions C01_implicit_hydrogen.

(** 13. GraphToMol.graph_to_mol(use_h_count=True) up to the RWMol: never fails on a well-formed graph; one atom per node
        in node order with (element, charge, atom map, hcount as explicit H count); one bond per edge in edge order, joining
        the atoms of its two nodes, typed 1 / 2 / 3 for orders 1 / 2 / 3 and AROMATIC for everything else *)
Theorem C01_graph_to_wmol : forall g : mgraph,
  (wf g -> graph_to_wmol g <> None) /\
  forall w, graph_to_wmol g = Some w ->
    fst w = map (fun p => watom_of (snd p)) (gnodes g) /\
    length (snd w) = length (gedges g) /\
    forall k u v o, nth_error (gedges g) k = Some (u, v, o) ->
      exists i j, nth_error (snd w) k = Some (i, j, bond_code o) /\
                  nth_error (node_ids g) i = Some u /\ nth_error (node_ids g) j = Some v.
Proof. exact graph_to_wmol_spec. Qed.
Print Assumptions C01_graph_to_wmol.

(** 14. what its_to_rsmi hands to GraphToMol: the two decomposed graphs (well-formed, atom_map = id), unchanged when the
        reaction centre has no hydrogen atom, otherwise with implicit_hydrogen applied, the preserved maps being exactly the
        atom maps of the hydrogen atoms of the reaction centre (theorem 12 then says what happens to every other hydrogen) *)
Theorem C01_its_to_graphs : forall I : its, wf I ->
  let d := its_decompose I in
  wf (fst d) /\ wf (snd d) /\ amap_id (fst d) /\ amap_id (snd d) /\
  (forall z, In z (hlist I) <-> exists n b, label (get_rc I) n = Some b /\ i_el b = EL_H /\ z = i_amap b) /\
  its_to_graphs I =
    match hlist I with
    | [] => d
    | _ => (implicit_hydrogen (fst d) (hlist I), implicit_hydrogen (snd d) (hlist I))
    end.
Proof. exact its_to_graphs_spec. Qed.
Print Assumptions C01_its_to_graphs.

(** 15. the string round trip relative to RDKit ALONE (replaces the oracle-level premise of theorem 5: MolToGraph,
        ITSGraph, its_decompose, get_rc, the hydrogen list, GraphToMol are now inside the model).  [rd_read] = parse +
        sanitise + atom/bond getters, [rd_write] = RWMol + sanitise + MolToSmiles are parameters with the contract
        R1 (first premise, written out): for a well-formed graph g that is the MolToGraph reading of a molecule RDKit has
        read, if RDKit writes the RWMol of g then reading the result back gives g again.
        Then for every balanced reaction without explicit hydrogen atoms whose two sides RDKit reads,
        its_to_rsmi (rsmi_to_its (r >> p)) = r' >> p' reads back as the same two mapped graphs.
        NOT proved (tested: oracle on the corpora and their rewritings): R1 itself; that its_to_rsmi succeeds; reactions
        WITH explicit mapped hydrogens (theorems 12 and 14 give the graph-level statement: reaction-centre hydrogens stay
        atoms, all others are folded into hcount without changing any atom's hydrogen total). *)
Theorem C01_rsmi_pipeline : forall (str : Type) (rd_read : str -> option rmol) (rd_write : wmol -> option str),
  (forall s0 m0 g w s, rd_read s0 = Some m0 -> wf g -> geq_sel g (graph_of m0) -> amap_id g ->
     graph_to_wmol g = Some w -> rd_write w = Some s ->
     exists m, rd_read s = Some m /\ (NoDup (map fst (mapped_nodes m)) /\ simple (mapped_bonds m)) /\ geq_sel (graph_of m) g) ->
  forall r p mr mp, rd_read r = Some mr -> rd_read p = Some mp ->
  (NoDup (map fst (mapped_nodes mr)) /\ simple (mapped_bonds mr)) ->
  (NoDup (map fst (mapped_nodes mp)) /\ simple (mapped_bonds mp)) ->
  let G := graph_of mr in let H := graph_of mp in
  wf G -> wf H -> same_nodes G H -> orders_pos G -> orders_pos H ->
  (forall n a, label G n = Some a -> is_H a = false) ->
  forall I r' p', rsmi_to_its_s rd_read r p = Some I -> its_to_rsmi_s rd_write I = Some (r', p') ->
  I = its_construct G H /\
  exists mr' mp', rd_read r' = Some mr' /\ rd_read p' = Some mp' /\
                  (NoDup (map fst (mapped_nodes mr')) /\ simple (mapped_bonds mr')) /\
                  (NoDup (map fst (mapped_nodes mp')) /\ simple (mapped_bonds mp')) /\
                  geq_sel (graph_of mr') G /\ geq_sel (graph_of mp') H.
Proof. exact rsmi_pipeline. Qed.
Print Assumptions C01_rsmi_pipeline.

(** 16. rsmi_to_its(explicit_hydrogen=True) = h_to_explicit(its, None, True) on the ITS, AS REPAIRED by /repo commit
        61e730e (before it the product half of typesGH kept its hcount while the hydrogens were added on both sides: the
        ITS no longer decomposed into the reaction, known_findings.d/C01.json).  For a well-formed ITS: every original
        atom keeps all labels except that the hydrogens it has on BOTH sides (count = min(hcount, product hcount)) leave
        hcount and both halves of typesGH; the added atoms are hydrogen atoms with fresh ids; the added bonds are (1, 1)
        bonds with standard_order 0 to a fresh atom; every bond between original atoms is unchanged.
        (How many hydrogens each atom gets: theorem 17.) *)
Theorem C01_h_to_explicit_its : forall I : its, wf I ->
  let J := fst (h_to_explicit_its I) in
  let mx0 := fold_left N.max (node_ids I) 0%N in
  (forall n a, label I n = Some a ->
     (n <= mx0)%N /\ label J n = Some (if hx_count a <=? 0 then a else hx_dec a (hx_count a))) /\
  (exists nn, node_ids J = node_ids I ++ map fst nn /\
              Forall (fun p : N * inode => (mx0 < fst p)%N /\ snd p = h_inode) nn /\
              forall p, In p nn -> In p (gnodes J)) /\
  (exists ne, gedges J = gedges I ++ ne /\
              Forall (fun e : N * N * iedge => let '(u, v, x) := e in (mx0 < v)%N /\ x = IE 2 2 0) ne) /\
  (forall u v, (u <= mx0)%N -> (v <= mx0)%N -> adj J u v = adj I u v).
Proof. exact h_to_explicit_its_spec. Qed.
Print Assumptions C01_h_to_explicit_its.

(** 17. ... and every original atom gets exactly as many hydrogen atoms (bonds (n, fresh, (1, 1, 0)) among the added bonds)
        as leave its hcount and both halves of its typesGH, c = max 0 (min hcount product-hcount): its hydrogen total is
        unchanged on both sides *)
Theorem C01_h_to_explicit_count : forall I : its, wf I -> forall n a, label I n = Some a ->
  let J := fst (h_to_explicit_its I) in
  let c := Z.max 0 (hx_count a) in
  exists ne, gedges J = gedges I ++ ne /\
    length (filter (fun e : N * N * iedge => N.eqb (fst (fst e)) n) ne) = Z.to_nat c /\
    (forall b, label J n = Some b ->
       a_hc (i_G b) + c = a_hc (i_G a) /\ a_hc (i_H b) + c = a_hc (i_H a) /\ top_hc b + c = top_hc a).
Proof. exact h_to_explicit_count. Qed.
Print Assumptions C01_h_to_explicit_count.

(** 18. with the writer option its_to_rsmi(its, explicit_hydrogen=True) nothing is folded (the decomposed graphs go to
        GraphToMol as they are), so the string round trip relative to R1 holds for EVERY balanced reaction whose sides RDKit
        reads, explicit hydrogen atoms included (no hydrogen hypothesis, compare theorem 15) *)
Theorem C01_rsmi_pipeline_explicit : forall (str : Type) (rd_read : str -> option rmol) (rd_write : wmol -> option str),
  (forall s0 m0 g w s, rd_read s0 = Some m0 -> wf g -> geq_sel g (graph_of m0) -> amap_id g ->
     graph_to_wmol g = Some w -> rd_write w = Some s ->
     exists m, rd_read s = Some m /\ (NoDup (map fst (mapped_nodes m)) /\ simple (mapped_bonds m)) /\ geq_sel (graph_of m) g) ->
  forall r p mr mp, rd_read r = Some mr -> rd_read p = Some mp ->
  (NoDup (map fst (mapped_nodes mr)) /\ simple (mapped_bonds mr)) ->
  (NoDup (map fst (mapped_nodes mp)) /\ simple (mapped_bonds mp)) ->
  let G := graph_of mr in let H := graph_of mp in
  wf G -> wf H -> same_nodes G H -> orders_pos G -> orders_pos H ->
  forall J r' p', rsmi_to_its_s rd_read r p = Some J -> its_to_rsmi_s_opt rd_write true J = Some (r', p') ->
  J = its_construct G H /\
  exists mr' mp', rd_read r' = Some mr' /\ rd_read p' = Some mp' /\
                  (NoDup (map fst (mapped_nodes mr')) /\ simple (mapped_bonds mr')) /\
                  (NoDup (map fst (mapped_nodes mp')) /\ simple (mapped_bonds mp')) /\
                  geq_sel (graph_of mr') G /\ geq_sel (graph_of mp') H.
Proof. exact rsmi_pipeline_explicit. Qed.
Print Assumptions C01_rsmi_pipeline_explicit.

(** 19. "every atom-map renumbering" inside the model of the string half: applying an injective map f (non-zero maps stay
        non-zero) to the atom maps of both molecules of a reaction gives the molecule graphs relabelled by f (atom_map
        following the node id) and the ITS relabelled by f (with atom_map = node id) - no hypothesis on the molecules.
        Together with C02_rc_equivariant the reaction centre of the renumbered reaction is the renumbered centre. *)
Theorem C01_renumber : forall f : N -> N, (forall a b, f a = f b -> a = b) -> (forall a, a <> 0%N -> f a <> 0%N) ->
  forall mr mp : rmol,
  graph_of (renum_mol f mr) = set_amap (relabel f (graph_of mr)) /\
  its_construct (graph_of (renum_mol f mr)) (graph_of (renum_mol f mp)) =
    set_iamap (relabel f (its_construct (graph_of mr) (graph_of mp))).
Proof. exact renumber. Qed.
Print Assumptions C01_renumber.

(** 20. implicit_hydrogen depends only on the labelled graph: two well-formed graphs with the same node labels and the same
        bond map (whatever the order of their node and edge lists, i.e. whatever order networkx iterates in) give results
        with the same labels and the same bond map.  (Order independence of the hydrogen bookkeeping of its_to_rsmi.) *)
Theorem C01_implicit_hydrogen_ext : forall g1 g2 : mgraph, wf g1 -> wf g2 ->
  (forall n, label g1 n = label g2 n) -> (forall u v, adj g1 u v = adj g2 u v) ->
  forall pres, geq (implicit_hydrogen g1 pres) (implicit_hydrogen g2 pres).
Proof. exact implicit_hydrogen_ext. Qed.
Print Assumptions C01_implicit_hydrogen_ext.

(** 21. ... and the reaction centre (C02's get_rc) of the renumbered reaction is the renumbered reaction centre: the clause
        "renumbering the atom maps of the reaction yields an isomorphic centre" of C02 at the level of the reaction's
        molecules (theorem 19 + C02_rc_equivariant + get_rc commutes with atom_map := node id) *)
Theorem C01_renumber_centre : forall f : N -> N, (forall a b, f a = f b -> a = b) -> (forall a, a <> 0%N -> f a <> 0%N) ->
  forall mr mp : rmol,
  get_rc (its_construct (graph_of (renum_mol f mr)) (graph_of (renum_mol f mp))) =
  set_iamap (relabel f (get_rc (its_construct (graph_of mr) (graph_of mp)))).
Proof. exact renumber_centre. Qed.
Print Assumptions C01_renumber_centre.

(** 22. ... and what its_to_rsmi hands to GraphToMol for the renumbered ITS (hydrogen list, folding, both sides) is, atom
        by atom and bond by bond, what it hands over for the original ITS, renumbered.  J = an ITS whose atom_map is the
        node id (every output of rsmi_to_its).  With 19 and 21: renumbering the atom maps of a reaction string commutes
        with the whole model of rsmi_to_its / get_rc / its_to_rsmi up to the RWMols. *)
Theorem C01_its_to_graphs_renumber : forall f : N -> N, (forall a b, f a = f b -> a = b) ->
  forall J : its, wf J -> (forall n a, label J n = Some a -> i_amap a = Z.of_N n) ->
  let A := its_to_graphs J in
  let B := its_to_graphs (set_iamap (relabel f J)) in
  let rn := fun (m : N) (a : gnode) => GN (g_el a) (g_arom a) (g_hc a) (g_ch a) (g_nb a) (Z.of_N m) in
  (forall n, label (fst B) (f n) = option_map (rn (f n)) (label (fst A) n)) /\
  (forall u v, adj (fst B) (f u) (f v) = adj (fst A) u v) /\
  (forall n, label (snd B) (f n) = option_map (rn (f n)) (label (snd A) n)) /\
  (forall u v, adj (snd B) (f u) (f v) = adj (snd A) u v).
Proof. exact its_to_graphs_renumber. Qed.
Print Assumptions C01_its_to_graphs_renumber.

(** 23. the explicit-hydrogen ITS of a well-formed ITS is well formed (distinct ids: the invented ids are fresh and
        pairwise different; one entry per bond; every bond joins two different present atoms), so theorems 14 and 22
        and the C02 theorems apply to what rsmi_to_its(explicit_hydrogen=True) returns *)
Theorem C01_h_to_explicit_wf : forall I : its, wf I -> wf (fst (h_to_explicit_its I)).
Proof. exact h_to_explicit_its_wf. Qed.
Print Assumptions C01_h_to_explicit_wf.

(** ------------------------------------------------------------------------------------------------
    CALLER-CHOSEN node_attrs (model/C01_Attrs.v): construct(G, H, node_attrs=L) writes typesGH in the ORDER of L (values
    untyped, [aval]); its_decompose reads typesGH POSITIONALLY: element = [0], aromatic = [1], hcount = [2], charge = [3]. *)

(** 24. whenever the caller's list starts with the legacy order (element, aromatic, hcount, charge) - whatever follows,
        known names, repetitions or unknown names - the positional decomposition never fails and is exactly the
        decomposition of the legacy ITS (so theorem 1 gives the round trip) *)
Theorem C01_attrs_legacy_prefix : forall (rest : list akey) (G H : mgraph),
  its_decompose_A (its_construct_A (KEl :: KAr :: KHc :: KCh :: rest) G H) =
  Some (LG (map (fun p => (fst p, untyped (snd p))) (gnodes (fst (its_decompose (its_construct G H)))))
           (gedges (fst (its_decompose (its_construct G H)))),
        LG (map (fun p => (fst p, untyped (snd p))) (gnodes (snd (its_decompose (its_construct G H)))))
           (gedges (snd (its_decompose (its_construct G H))))).
Proof. exact attrs_legacy_prefix. Qed.
Print Assumptions C01_attrs_legacy_prefix.

(** 25. for a list in another order the round trip FAILS by construction of its_decompose (not a defect of construct:
        its_decompose cannot know the list; rsmi_to_its therefore always passes the legacy list - a change that forwards the
        caller's list, seeded C01-w3-1, breaks the property).  Witness: the six names sorted alphabetically; the
        decomposition's "element" of atom 1 is the aromatic flag, its "charge" the element *)
Theorem C01_attrs_order_refuted :
  exists G H : mgraph, wf G /\ wf H /\ same_nodes G H /\ orders_pos G /\ orders_pos H /\
    exists a b, its_decompose_A (its_construct_A [KAr; KAm; KCh; KEl; KHc; KNb] G H) = Some (a, b) /\
                a <> LG (map (fun p => (fst p, untyped (snd p))) (gnodes (fst (its_decompose (its_construct G H)))))
                        (gedges (fst (its_decompose (its_construct G H)))) /\
                label a 1%N = Some (VB false, VZ 1, VZ 0, VS 70%N).
Proof. exact attrs_order_refuted. Qed.
Print Assumptions C01_attrs_order_refuted.

(** 26. rsmi_to_its(rsmi, node_attrs=L) in the model: the caller's list only selects what MolToGraph stores (a set:
        order and repetitions are irrelevant); with all six names it IS rsmi_to_its with the defaults; an unselected
        attribute reads as the core default in typesGH (which is always in the legacy order) *)
Theorem C01_rsmi_to_its_sel : forall (s : asel) (mr mp : rmol),
  rsmi_to_its_sel all_sel mr mp = rsmi_to_its_m mr mp /\
  forall g h J, rsmi_to_graph_m mr mp = Some (g, h) -> rsmi_to_its_sel s mr mp = Some J ->
    forall n b, label J n = Some b ->
      i_G b = side_tuple (fill_graph s g) n /\ i_H b = side_tuple (fill_graph s h) n /\
      (forall a, label g n = Some a -> a_el (i_G b) = (if p_el s then g_el a else EL_STAR) /\
                                       a_hc (i_G b) = (if p_hc s then g_hc a else 0) /\
                                       a_ch (i_G b) = (if p_ch s then g_ch a else 0) /\
                                       a_arom (i_G b) = (if p_ar s then g_arom a else false)).
Proof. exact rsmi_to_its_sel_spec. Qed.
Print Assumptions C01_rsmi_to_its_sel.

(** 27. the string round trip for reactions WITH explicit mapped hydrogens under the default writer, relative to a
        contract on RDKit alone (four premises, written out): for a predicate [ok] on molecule graphs ("RDKit-normal"),
        P1 what RDKit reads is ok; P2 ok depends only on the labelled graph (element, aromaticity, H count, charge, atom map,
        bonds); P3 folding explicit hydrogens into H counts (implicit_hydrogen) keeps a well-formed ok graph ok; P4 an ok,
        well-formed graph with atom_map = id that RDKit writes reads back as itself.
        Then for every balanced reaction whose sides RDKit reads, its_to_rsmi (rsmi_to_its (r >> p)) reads back, on each
        side, as the input graph with every hydrogen that is not in the reaction centre folded into its neighbour's H count
        ([smi_graph G (hlist J)]: theorem 12 says exactly what that is) - the reacting hydrogens stay atoms.
        NOT proved: P1-P4 for the real RDKit (monitored by the string oracle, which compares modulo spectator hydrogens). *)
Theorem C01_rsmi_pipeline_hydrogens : forall (str : Type) (rd_read : str -> option rmol) (rd_write : wmol -> option str)
    (ok : mgraph -> Prop),
  ((forall s m, rd_read s = Some m -> ok (graph_of m)) /\
   (forall g g', ok g ->
      ((forall n, option_map sel5 (label g' n) = option_map sel5 (label g n)) /\ (forall u v, adj g' u v = adj g u v)) -> ok g') /\
   (forall g pres, ok g -> wf g -> ok (implicit_hydrogen g pres)) /\
   (forall g w s, ok g -> wf g -> amap_id g -> graph_to_wmol g = Some w -> rd_write w = Some s ->
      exists m, rd_read s = Some m /\ (NoDup (map fst (mapped_nodes m)) /\ simple (mapped_bonds m)) /\ geq_sel (graph_of m) g)) ->
  forall r p mr mp, rd_read r = Some mr -> rd_read p = Some mp ->
  (NoDup (map fst (mapped_nodes mr)) /\ simple (mapped_bonds mr)) ->
  (NoDup (map fst (mapped_nodes mp)) /\ simple (mapped_bonds mp)) ->
  let G := graph_of mr in let H := graph_of mp in
  wf G -> wf H -> same_nodes G H -> orders_pos G -> orders_pos H ->
  forall J r' p', rsmi_to_its_s rd_read r p = Some J -> its_to_rsmi_s rd_write J = Some (r', p') ->
  J = its_construct G H /\
  exists mr' mp', rd_read r' = Some mr' /\ rd_read p' = Some mp' /\
                  (NoDup (map fst (mapped_nodes mr')) /\ simple (mapped_bonds mr')) /\
                  (NoDup (map fst (mapped_nodes mp')) /\ simple (mapped_bonds mp')) /\
                  geq_sel (graph_of mr') (smi_graph G (hlist J)) /\ geq_sel (graph_of mp') (smi_graph H (hlist J)).
Proof. exact rsmi_pipeline_hydrogens. Qed.
Print Assumptions C01_rsmi_pipeline_hydrogens.

(** 28. its_to_rsmi(its, clean_wildcards=True) = clean_wc(rsmi) (text level): the reactant side is untouched; the product side
        stays as it is when every '.'-fragment contains '*', otherwise it becomes ONE of its star-free fragments, of maximal
        length among them *)
Theorem C01_clean_wildcards : forall react prod : String.string,
  fst (clean_wc react prod) = react /\
  let sf := filter (fun f => negb (has_star f)) (split_dot prod) in
  (sf = nil -> snd (clean_wc react prod) = prod) /\
  (sf <> nil -> In (snd (clean_wc react prod)) sf /\
                forall f, In f sf -> (String.length f <= String.length (snd (clean_wc react prod)))%nat).
Proof. exact clean_wc_spec. Qed.
Print Assumptions C01_clean_wildcards.

(** 29. ... hence the option is lossy, wildcards or not: with two star-free product fragments one of them is dropped, and
        the string round trip of the property is refuted for clean_wildcards=True (by design of clean_wc; `max_frag` is not
        consulted) *)
Theorem C01_clean_wildcards_refuted :
  has_star cw_prod = false /\ split_dot cw_prod = cw_frag1 :: cw_frag2 :: nil /\
  snd (clean_wc cw_react cw_prod) = cw_frag1 /\ snd (clean_wc cw_react cw_prod) <> cw_prod.
Proof. exact clean_wc_lossy. Qed.
Print Assumptions C01_clean_wildcards_refuted.

(** 30. rsmi.split(">>") and ">>".join: joining the parts of ANY string gives the string back; no part contains ">>"; and a
        list of parts none of which contains '>' (SMILES never do) is recovered exactly by splitting their join - in particular
        f"{r}>>{p}" splits into (r, p), which is what ties its_to_rsmi's output format to rsmi_to_graph's input format *)
Theorem C01_split_join :
  (forall s : String.string, join_arrow (split_arrow s) = s) /\
  (forall s : String.string, Forall (fun p => has_arrow p = false) (split_arrow s)) /\
  (forall l : list String.string, l <> nil -> Forall (fun a => has_gt a = false) l -> split_arrow (join_arrow l) = l) /\
  (forall a b : String.string, has_gt a = false -> has_gt b = false -> rsmi_parts (String.append a (String.append ">>"%string b)) = Some (a, b)) /\
  (forall s a b, rsmi_parts s = Some (a, b) -> s = String.append a (String.append ">>"%string b)).
Proof. exact (conj join_split (conj split_parts_no_arrow (conj split_join (conj rsmi_parts_join rsmi_parts_spec)))). Qed.
Print Assumptions C01_split_join.

(** 31. failure modes of the string functions, for ANY reader/writer: a reaction string that does not split into exactly two
        parts gives (None, None) from rsmi_to_graph and an exception from rsmi_to_its; drop_non_aam without
        use_index_as_atom_map gives (None, None) for every string; rsmi_to_its never returns None; its_to_rsmi never raises
        without clean_wildcards and never returns None with it *)
Theorem C01_rsmi_failures : forall (rd_read : bool -> String.string -> option rmol) (rd_write : bool -> wmol -> option String.string),
  (forall o s, rsmi_parts s = None ->
     rsmi_to_graph_s rd_read (ro_drop o) (ro_san o) (ro_use o) s = (None, None) /\ rsmi_to_its_str rd_read o s = Raise) /\
  (forall san core eh s,
     rsmi_to_graph_s rd_read true san false s = (None, None) /\ rsmi_to_its_str rd_read (RO true san false core eh) s = Raise) /\
  (forall o s, rsmi_to_its_str rd_read o s <> RNone) /\
  (forall san eh J, its_to_rsmi_str rd_write san eh false J <> Raise /\
                    (forall cw, cw = true -> its_to_rsmi_str rd_write san eh cw J <> RNone)).
Proof.
  intros rd_read rd_write.
  exact (conj (rsmi_malformed rd_read) (conj (rsmi_drop_without_use rd_read) (conj (rsmi_to_its_not_none rd_read) (its_to_rsmi_modes rd_write)))).
Qed.
Print Assumptions C01_rsmi_failures.

(** 32. the string round trip for the WHOLE reaction string (theorem 27 lifted through split and join): the functions are
        now rsmi_to_its(s) and its_to_rsmi(its) on one string each.  Premises on RDKit: the four of theorem 27 (for the
        sanitising reader / writer) and W0 "MolToSmiles never emits '>'".  For every string s = r>>p whose sides RDKit reads as
        a balanced reaction: its_to_rsmi(rsmi_to_its(s)) = s' splits again into exactly two sides r', p' which read back as the
        input graphs with every non-centre hydrogen folded.
        NOT proved: W0 and P1-P4 for the real RDKit (monitored: oracle + kinds rs-split and rs-str); the clause "has the same
        unmapped reactants and products" of the property is theorems 61 (graph level, full) and 62 (string level, relative to
        one more contract on RDKit's canonical writer after removing the maps). *)
Theorem C01_rsmi_string_roundtrip : forall (rd_read : bool -> String.string -> option rmol)
    (rd_write : bool -> wmol -> option String.string) (ok : mgraph -> Prop),
  (forall w s, rd_write true w = Some s -> has_gt s = false) ->
  ((forall s m, rd_read true s = Some m -> ok (graph_of m)) /\
   (forall g g', ok g ->
      ((forall n, option_map sel5 (label g' n) = option_map sel5 (label g n)) /\ (forall u v, adj g' u v = adj g u v)) -> ok g') /\
   (forall g pres, ok g -> wf g -> ok (implicit_hydrogen g pres)) /\
   (forall g w s, ok g -> wf g -> amap_id g -> graph_to_wmol g = Some w -> rd_write true w = Some s ->
      exists m, rd_read true s = Some m /\ (NoDup (map fst (mapped_nodes m)) /\ simple (mapped_bonds m)) /\ geq_sel (graph_of m) g)) ->
  forall s r p mr mp, rsmi_parts s = Some (r, p) -> rd_read true r = Some mr -> rd_read true p = Some mp ->
  (NoDup (map fst (mapped_nodes mr)) /\ simple (mapped_bonds mr)) ->
  (NoDup (map fst (mapped_nodes mp)) /\ simple (mapped_bonds mp)) ->
  let G := graph_of mr in let H := graph_of mp in
  wf G -> wf H -> same_nodes G H -> orders_pos G -> orders_pos H ->
  forall J s', rsmi_to_its_str rd_read default_ropts s = Ok J -> its_to_rsmi_str rd_write true false false J = Ok s' ->
  J = its_construct G H /\
  exists r' p', rsmi_parts s' = Some (r', p') /\
  exists mr' mp', rd_read true r' = Some mr' /\ rd_read true p' = Some mp' /\
                  (NoDup (map fst (mapped_nodes mr')) /\ simple (mapped_bonds mr')) /\
                  (NoDup (map fst (mapped_nodes mp')) /\ simple (mapped_bonds mp')) /\
                  geq_sel (graph_of mr') (smi_graph G (hlist J)) /\ geq_sel (graph_of mp') (smi_graph H (hlist J)).
Proof. exact rsmi_string_roundtrip. Qed.
Print Assumptions C01_rsmi_string_roundtrip.

(** 33. the same for its_to_rsmi(its, explicit_hydrogen=True), relative to R1 and W0: both sides read back as the input graphs *)
Theorem C01_rsmi_string_roundtrip_explicit : forall (rd_read : bool -> String.string -> option rmol)
    (rd_write : bool -> wmol -> option String.string),
  (forall w s, rd_write true w = Some s -> has_gt s = false) ->
  (forall s0 m0 g w s, rd_read true s0 = Some m0 -> wf g -> geq_sel g (graph_of m0) -> amap_id g ->
     graph_to_wmol g = Some w -> rd_write true w = Some s ->
     exists m, rd_read true s = Some m /\ (NoDup (map fst (mapped_nodes m)) /\ simple (mapped_bonds m)) /\ geq_sel (graph_of m) g) ->
  forall s r p mr mp, rsmi_parts s = Some (r, p) -> rd_read true r = Some mr -> rd_read true p = Some mp ->
  (NoDup (map fst (mapped_nodes mr)) /\ simple (mapped_bonds mr)) ->
  (NoDup (map fst (mapped_nodes mp)) /\ simple (mapped_bonds mp)) ->
  let G := graph_of mr in let H := graph_of mp in
  wf G -> wf H -> same_nodes G H -> orders_pos G -> orders_pos H ->
  forall J s', rsmi_to_its_str rd_read default_ropts s = Ok J -> its_to_rsmi_str rd_write true true false J = Ok s' ->
  J = its_construct G H /\
  exists r' p', rsmi_parts s' = Some (r', p') /\
  exists mr' mp', rd_read true r' = Some mr' /\ rd_read true p' = Some mp' /\
                  (NoDup (map fst (mapped_nodes mr')) /\ simple (mapped_bonds mr')) /\
                  (NoDup (map fst (mapped_nodes mp')) /\ simple (mapped_bonds mp')) /\
                  geq_sel (graph_of mr') G /\ geq_sel (graph_of mp') H.
Proof. exact rsmi_string_roundtrip_explicit. Qed.
Print Assumptions C01_rsmi_string_roundtrip_explicit.

(** 34. the 'neighbors' attribute is computed inside the model ([fill_nb]: an RDKit molecule enters without the list):
        every atom keeps its five read-off fields, and its list is sorted by the byte order of the symbols and is a
        permutation of the symbols of the atoms at the other end of its bonds - unmapped atoms included ([nbr_idx]: j is
        listed for i iff some bond joins i and j); every node of the molecule graph of rsmi_to_graph (hence, by theorems 2
        and 7, the fifth entry of both halves of typesGH) carries exactly that list *)
Theorem C01_neighbors : forall m : rmol0,
  (forall i a, nth_error (rm_atoms (fill_nb m)) i = Some a ->
     exists a0, nth_error (rm0_atoms m) i = Some a0 /\
       ra_el a = r0_el a0 /\ ra_arom a = r0_arom a0 /\ ra_hs a = r0_hs a0 /\ ra_ch a = r0_ch a0 /\ ra_map a = r0_map a0 /\
       Sorted.Sorted (fun x y => sym_leb x y = true) (ra_nb a) /\
       Permutation.Permutation (ra_nb a) (flat_map (sym_at m) (nbr_idx (rm0_bonds m) i))) /\
  (forall i j, In j (nbr_idx (rm0_bonds m) i) <-> exists o, In (i, j, o) (rm0_bonds m) \/ In (j, i, o) (rm0_bonds m)) /\
  rm_bonds (fill_nb m) = rm0_bonds m /\
  (forall k g, In (k, g) (mapped_nodes (fill_nb m)) ->
     exists i a0, nth_error (rm0_atoms m) i = Some a0 /\ k = r0_map a0 /\ k <> 0%N /\
                  g = GN (r0_el a0) (r0_arom a0) (r0_hs a0) (r0_ch a0) (Some (nb_syms m i)) (Z.of_N k)).
Proof.
  intros m. exact (conj (neighbors_spec m) (conj (nbr_idx_in (rm0_bonds m)) (conj (fill_nb_bonds m) (graph_neighbors m)))).
Qed.
Print Assumptions C01_neighbors.

(** 35. the order used by sorted() is a total preorder that is antisymmetric on the bytes, so the stored list does not
        depend on the order in which RDKit enumerates an atom's neighbours: any two enumerations (permutations of each other)
        give lists with the same symbol bytes *)
Theorem C01_neighbors_order_independent :
  (forall a b, lex_leb a b = true \/ lex_leb b a = true) /\
  (forall a b c, lex_leb a b = true -> lex_leb b c = true -> lex_leb a c = true) /\
  (forall a b, lex_leb a b = true -> lex_leb b a = true -> a = b) /\
  (forall l1 l2, Permutation.Permutation l1 l2 -> map sym_bytes (sort_syms l1) = map sym_bytes (sort_syms l2)).
Proof. exact (conj lex_leb_total (conj lex_leb_trans (conj lex_leb_antisym sort_syms_order_independent))). Qed.
Print Assumptions C01_neighbors_order_independent.

(** 36. construct and decompose are extensional: they depend only on the label map and the bond map of their arguments
        ([geq]), i.e. not on the order in which networkx enumerates nodes and edges (nor on which of two equal-sized graphs
        is copied as the base) *)
Theorem C01_extensional :
  (forall G H G' H' : mgraph, wf G -> wf H -> wf G' -> wf H' -> geq G' G -> geq H' H ->
     geq (its_construct G' H') (its_construct G H)) /\
  (forall I I' : its, wf I -> wf I' -> geq I' I ->
     geq (fst (its_decompose I')) (fst (its_decompose I)) /\ geq (snd (its_decompose I')) (snd (its_decompose I))).
Proof. exact (conj construct_ext decompose_ext). Qed.
Print Assumptions C01_extensional.

(** 37. "every SMILES re-rooting / fragment reordering": if each side of a reaction is read as the same atoms in another
        index order ([rewritten s m m']: s renumbers the atom indices injectively, every atom keeps its six read-off fields,
        the bonds are the same bonds between the renumbered ends in either direction and any order), then the molecule
        graphs of rsmi_to_graph, the ITS of rsmi_to_its and both graphs of its_decompose are the same label and bond maps.
        (That RDKit reads a re-rooted SMILES as such a rewriting is RDKit's business: compared on the kinds rw-reroot, rw-frag.) *)
Theorem C01_rewriting_invariant : forall (sr sp : nat -> nat) (mr mr' mp mp' : rmol),
  rewritten sr mr mr' -> rewritten sp mp mp' ->
  (NoDup (map fst (mapped_nodes mr)) /\ simple (mapped_bonds mr)) -> (NoDup (map fst (mapped_nodes mr')) /\ simple (mapped_bonds mr')) ->
  (NoDup (map fst (mapped_nodes mp)) /\ simple (mapped_bonds mp)) -> (NoDup (map fst (mapped_nodes mp')) /\ simple (mapped_bonds mp')) ->
  wf (graph_of mr) -> wf (graph_of mp) -> wf (graph_of mr') -> wf (graph_of mp') ->
  geq (graph_of mr') (graph_of mr) /\ geq (graph_of mp') (graph_of mp) /\
  let I := its_construct (graph_of mr) (graph_of mp) in
  let I' := its_construct (graph_of mr') (graph_of mp') in
  rsmi_to_its_m mr' mp' = Some I' /\ rsmi_to_its_m mr mp = Some I /\
  geq I' I /\
  geq (fst (its_decompose I')) (fst (its_decompose I)) /\ geq (snd (its_decompose I')) (snd (its_decompose I)).
Proof.
  intros sr sp mr mr' mp mp' Rr Rp Or Or' Op Op' Wr Wp Wr' Wp'.
  exact (conj (rewritten_graph sr mr mr' Rr Or Or') (conj (rewritten_graph sp mp mp' Rp Op Op')
          (rewritten_its sr sp mr mr' mp mp' Rr Rp Or Or' Op Op' Wr Wp Wr' Wp'))).
Qed.
Print Assumptions C01_rewriting_invariant.

(** 38. "every reversal": for a balanced pair with atom_map = node id, the ITS of (H, G) is the ITS of (G, H) with the halves
        of typesGH swapped (top-level attributes = the new reactant side), every order pair swapped and standard_order
        negated; its decomposition is the decomposition of (G, H) with the sides exchanged *)
Theorem C01_reverse : forall G H : mgraph, wf G -> wf H -> same_nodes G H -> amap_id G -> amap_id H ->
  (forall n, label (its_construct H G) n = option_map swap_inode (label (its_construct G H) n)) /\
  (forall u v, adj (its_construct H G) u v = option_map swap_iedge (adj (its_construct G H) u v)) /\
  geq (fst (its_decompose (its_construct H G))) (snd (its_decompose (its_construct G H))) /\
  geq (snd (its_decompose (its_construct H G))) (fst (its_decompose (its_construct G H))).
Proof. exact reverse_its. Qed.
Print Assumptions C01_reverse.

(** 39. the MolToGraph converter OBJECT (state = _graph): transform never touches the state and returns the same on any
        state; reading .graph does not change the state; after ANY history of transform / transform_store / .graph calls
        on one object, .graph returns the graph of the last SUCCESSFUL transform_store and raises iff there was none; and
        every other step of a history returns what the same call returns on a fresh converter *)
Theorem C01_converter_state :
  (forall st st' d u m, fst (cstep st (OpTransform d u m)) = st /\
                        snd (cstep st (OpTransform d u m)) = snd (cstep st' (OpTransform d u m))) /\
  (forall st, fst (cstep st OpGraph) = st) /\
  (forall ops, snd (cstep (cstate_after cinit ops) OpGraph) =
               match last_store ops None with Some g => CGraph g | None => CErr end) /\
  (forall ops1 op ops2,
     nth_error (crun cinit (ops1 ++ op :: ops2)) (length ops1) =
     Some (match op with
           | OpGraph => match last_store ops1 None with Some g => CGraph g | None => CErr end
           | _ => snd (cstep cinit op)
           end)).
Proof. exact (conj transform_stateless (conj graph_read_pure (conj conv_graph_spec conv_history_spec))). Qed.
Print Assumptions C01_converter_state.

(** 40. GraphToMol.graph_to_mol on graphs that LACK attributes: with every attribute present the generic model is the
        graph_to_mol of theorem 13 for every value of (ignore_bond_order, use_h_count); an absent element / charge / atom map is
        "*" / 0 / no map (= 0), an absent hcount leaves the hydrogens to RDKit exactly as use_h_count=False does, and an absent
        bond order is the order 1 written out *)
Theorem C01_graph_to_mol_absent :
  (forall ibo uhc (g : mgraph), graph_to_wmol_g ibo uhc (lift_graph g) = graph_to_wmol_o ibo uhc g) /\
  (forall ibo uhc (g : ggraph) w, graph_to_wmol_g ibo uhc g = Some w ->
     fst w = map (fun p => watom_g uhc (snd p)) (gnodes g) /\
     (forall a, watom_g uhc a =
        WA (match gg_el a with Some e => e | None => EL_STAR end) (match gg_ch a with Some c => c | None => 0 end)
           (match gg_amap a with Some m => m | None => 0 end)
           (match gg_hc a with Some h => if uhc then h else -1 | None => -1 end)) /\
     graph_to_wmol_g ibo uhc g =
     graph_to_wmol_g ibo uhc (LG (gnodes g) (map (fun e : N * N * option Z => let '(u, v, o) := e in (u, v, Some (dflt 2 o))) (gedges g)))).
Proof. exact (conj g2m_lift g2m_absent). Qed.
Print Assumptions C01_graph_to_mol_absent.

(** 41. ... and on the WRITER side: what its_to_rsmi hands to GraphToMol depends only on the label and bond maps of the ITS
        (reaction centre, the SET of its hydrogens' atom maps, the folding of all other hydrogens), so a reaction written with
        its sides re-rooted / reordered gives the same preserve set and the same two graphs to write *)
Theorem C01_written_invariant :
  (forall I I' : its, wf I -> wf I' -> geq I' I ->
     (forall z, In z (hlist I') <-> In z (hlist I)) /\
     geq (fst (its_to_graphs I')) (fst (its_to_graphs I)) /\ geq (snd (its_to_graphs I')) (snd (its_to_graphs I))) /\
  (forall (sr sp : nat -> nat) (mr mr' mp mp' : rmol),
     rewritten sr mr mr' -> rewritten sp mp mp' ->
     (NoDup (map fst (mapped_nodes mr)) /\ simple (mapped_bonds mr)) -> (NoDup (map fst (mapped_nodes mr')) /\ simple (mapped_bonds mr')) ->
     (NoDup (map fst (mapped_nodes mp)) /\ simple (mapped_bonds mp)) -> (NoDup (map fst (mapped_nodes mp')) /\ simple (mapped_bonds mp')) ->
     wf (graph_of mr) -> wf (graph_of mp) -> wf (graph_of mr') -> wf (graph_of mp') ->
     let I := its_construct (graph_of mr) (graph_of mp) in
     let I' := its_construct (graph_of mr') (graph_of mp') in
     (forall z, In z (hlist I') <-> In z (hlist I)) /\
     geq (fst (its_to_graphs I')) (fst (its_to_graphs I)) /\ geq (snd (its_to_graphs I')) (snd (its_to_graphs I))).
Proof. exact written_invariant_all. Qed.
Print Assumptions C01_written_invariant.

(** 42. the executable test the correspondence runs on what RDKit reads from a SMILES and from its re-rooted / fragment-shuffled
        rewriting (kind rw-premise; renumbering derived from the atom maps) is sound for the hypothesis [rewritten] of theorems
        37 and 41: whenever it evaluates to true, that hypothesis holds for the two readings *)
Theorem C01_rewritten_test_sound : forall (sl : list nat) (m m' : rmol),
  rewrittenb sl m m' = true -> rewritten (s_of sl) m m'.
Proof. exact rewrittenb_sound. Qed.
Print Assumptions C01_rewritten_test_sound.

(** 43. its_decompose with EVERY branch (nodes without typesGH are skipped, an empty product tuple skips the product side,
        edges without order are skipped, add_edge creates attribute-less end nodes that are missing): on a well-formed ITS of
        the model it is exactly the its_decompose of theorem 1 - no node is created by add_edge and no edge is merged; and the
        node pass in closed form *)
Theorem C01_decompose_raw :
  (forall I : its, wf I ->
     its_decompose_raw (embed_its I) = (some_nodes (fst (its_decompose I)), some_nodes (snd (its_decompose I)))) /\
  (forall (I : rits) n (o : option gnode),
     (In (n, o) (raw_nodes (fun t => Some (fst t)) I) <-> exists g h, In (n, Some (g, h)) (gnodes I) /\ o = Some (dec_node g n)) /\
     (In (n, o) (raw_nodes snd I) <-> exists g h, In (n, Some (g, Some h)) (gnodes I) /\ o = Some (dec_node h n))).
Proof. exact (conj decompose_raw_embed raw_nodes_spec). Qed.
Print Assumptions C01_decompose_raw.

(** 44. implicit_hydrogen (as repaired) conserves the number of hydrogens: with [h_total] = one per hydrogen ATOM + the hcount
        of every other atom, folding changes nothing - for every well-formed graph in which no hydrogen bridges two
        non-hydrogen atoms ([one_parent]) and EVERY preserve list; hence each graph its_to_rsmi hands to GraphToMol stands for as many
        hydrogens as the decomposed graph of that side.  (The defect repaired by /repo 3ba7a77 was a violation of
        exactly this law: the old rule, [implicit_hydrogen_old] in proof/C01_HBalProof.v, loses a lone proton - witness in
        C01_hydrogen_balance_nonvacuous: total 3 before, 2 after.) *)
Theorem C01_hydrogen_balance :
  (forall (g : mgraph) (pres : list Z), wf g -> one_parent g -> h_total (implicit_hydrogen g pres) = h_total g) /\
  (forall I : its, wf I ->
     (one_parent (fst (its_decompose I)) -> h_total (fst (its_to_graphs I)) = h_total (fst (its_decompose I))) /\
     (one_parent (snd (its_decompose I)) -> h_total (snd (its_to_graphs I)) = h_total (snd (its_decompose I)))).
Proof. exact (conj hydrogen_balance its_to_graphs_balance). Qed.
Print Assumptions C01_hydrogen_balance.

(** 45. no hydrogen is lost or created by its_to_rsmi . rsmi_to_its: under the premises of theorem 32 (RDKit contract P1-P4, W0)
        and for sides without bridging hydrogens, each side of the written string reads back as a graph standing for exactly as
        many hydrogens (hydrogen atoms + hcounts) as the corresponding side of the input - explicit mapped hydrogens, reacting
        or not, lone or bonded, included *)
Theorem C01_string_hydrogen_balance : forall (rd_read : bool -> String.string -> option rmol)
    (rd_write : bool -> wmol -> option String.string) (ok : mgraph -> Prop),
  (forall w s, rd_write true w = Some s -> has_gt s = false) ->
  ((forall s m, rd_read true s = Some m -> ok (graph_of m)) /\
   (forall g g', ok g ->
      ((forall n, option_map sel5 (label g' n) = option_map sel5 (label g n)) /\ (forall u v, adj g' u v = adj g u v)) -> ok g') /\
   (forall g pres, ok g -> wf g -> ok (implicit_hydrogen g pres)) /\
   (forall g w s, ok g -> wf g -> amap_id g -> graph_to_wmol g = Some w -> rd_write true w = Some s ->
      exists m, rd_read true s = Some m /\ (NoDup (map fst (mapped_nodes m)) /\ simple (mapped_bonds m)) /\ geq_sel (graph_of m) g)) ->
  forall s r p mr mp, rsmi_parts s = Some (r, p) -> rd_read true r = Some mr -> rd_read true p = Some mp ->
  (NoDup (map fst (mapped_nodes mr)) /\ simple (mapped_bonds mr)) ->
  (NoDup (map fst (mapped_nodes mp)) /\ simple (mapped_bonds mp)) ->
  let G := graph_of mr in let H := graph_of mp in
  wf G -> wf H -> same_nodes G H -> orders_pos G -> orders_pos H -> one_parent G -> one_parent H ->
  forall J s', rsmi_to_its_str rd_read default_ropts s = Ok J -> its_to_rsmi_str rd_write true false false J = Ok s' ->
  exists r' p' mr' mp', rsmi_parts s' = Some (r', p') /\ rd_read true r' = Some mr' /\ rd_read true p' = Some mp' /\
    h_total (graph_of mr') = h_total G /\ h_total (graph_of mp') = h_total H.
Proof. exact string_hydrogen_balance. Qed.
Print Assumptions C01_string_hydrogen_balance.

(** 46. h_to_explicit on an ITS (rsmi_to_its(explicit_hydrogen=True), as repaired by /repo 61e730e) conserves the number of
        hydrogens on BOTH sides: the decomposition of the explicit-hydrogen ITS stands, side by side, for as many hydrogens
        (hydrogen atoms + hcounts) as the decomposition of the ITS it was made from - provided no atom that is a hydrogen on
        that side has hydrogens of its own to expand ([h_safe]; always so for RDKit readings).  The first defect (before
        61e730e the product half kept its hcount) was a violation of exactly this law on the product side. *)
Theorem C01_h_to_explicit_balance : forall I : its, wf I ->
  (h_safe i_G (gnodes I) ->
     h_total (fst (its_decompose (fst (h_to_explicit_its I)))) = h_total (fst (its_decompose I))) /\
  (h_safe i_H (gnodes I) ->
     h_total (snd (its_decompose (fst (h_to_explicit_its I)))) = h_total (snd (its_decompose I))).
Proof. exact h_to_explicit_balance. Qed.
Print Assumptions C01_h_to_explicit_balance.

(** 47. MolToGraph.transform with its DEFAULT flags (drop_non_aam=False, use_index_as_atom_map=False - also the defaults of
        smiles_to_graph): no hypothesis on the atom maps is needed; if no two bonds join the same pair of atoms, the result is
        EXACTLY every atom keyed by index + 1 in atom order (labels of the atom, atom_map = its map number, 0 when unmapped) and
        every bond between existing atoms keyed the same way, in bond order (compare theorem 11 for the flags of rsmi_to_graph) *)
Theorem C01_mol_to_graph_index : forall m : rmol,
  (simple (index_bonds m) -> mol_to_graph false false m = Some (index_graph m)) /\
  (forall i a, nth_error (rm_atoms m) i = Some a -> label (index_graph m) (N.of_nat i + 1) = Some (atom_node a)).
Proof. intros m. exact (conj (mol_to_graph_index m) (index_graph_label m)). Qed.
Print Assumptions C01_mol_to_graph_index.

(** 48. GraphToMol after MolToGraph with nothing in between: for a molecule with distinct maps on its mapped atoms and at most
        one bond per pair, the RWMol content GraphToMol builds from the graph MolToGraph made of it is that molecule's mapped
        part: its mapped atoms in atom order with (element, charge, atom map, total H as the explicit count) and one bond per
        bond between mapped atoms, in bond order, joining the same two atoms with the type of its order.  (Aromatic flags and
        'neighbors' are not handed on.)  This reduces the RDKit contract R1 to a statement about RDKit alone. *)
Theorem C01_read_write_content : forall m : rmol,
  (NoDup (map fst (mapped_nodes m)) /\ simple (mapped_bonds m)) -> (forall u v o, In (u, v, o) (mapped_bonds m) -> u <> v) ->
  exists w, graph_to_wmol (graph_of m) = Some w /\
    fst w = map (fun a => WA (ra_el a) (ra_ch a) (Z.of_N (ra_map a)) (ra_hs a)) (filter is_mapped (rm_atoms m)) /\
    length (snd w) = length (mapped_bonds m) /\
    forall k u v o, nth_error (mapped_bonds m) k = Some (u, v, o) ->
      exists i j a b, nth_error (snd w) k = Some (i, j, bond_code o) /\
        nth_error (filter is_mapped (rm_atoms m)) i = Some a /\ ra_map a = u /\
        nth_error (filter is_mapped (rm_atoms m)) j = Some b /\ ra_map b = v.
Proof. exact read_write_content. Qed.
Print Assumptions C01_read_write_content.

(** 49. ... and the RWMol content GraphToMol hands to RDKit stands for as many hydrogens (hydrogen atoms + explicit H counts) as
        the graph it was built from; for the two RWMols of its_to_rsmi: as many as the decomposed sides of the ITS *)
Theorem C01_rwmol_hydrogen_total :
  (forall (g : mgraph) w, wf g -> graph_to_wmol g = Some w ->
     sumZ (fun a => if N.eqb (w_el a) EL_H then 1 else w_hs a) (fst w) = h_total g) /\
  (forall (I : its) wr wp, wf I -> its_to_wmols I = Some (wr, wp) ->
     (one_parent (fst (its_decompose I)) ->
        sumZ (fun a => if N.eqb (w_el a) EL_H then 1 else w_hs a) (fst wr) = h_total (fst (its_decompose I))) /\
     (one_parent (snd (its_decompose I)) ->
        sumZ (fun a => if N.eqb (w_el a) EL_H then 1 else w_hs a) (fst wp) = h_total (snd (its_decompose I)))).
Proof. exact (conj wmol_total its_to_wmols_total). Qed.
Print Assumptions C01_rwmol_hydrogen_total.

(** 50. the executable test the correspondence evaluates on what RDKit reads from the two sides of every corpus reaction, its
        re-rootings and the hand-made reactions (kind str-prem) is sound for ALL reaction-side hypotheses of the string theorems
        15, 18, 27, 32, 33, 45: whenever it evaluates to true, both readings have distinct maps and simple bonds, both molecule
        graphs are well formed, carry the same atom-map set and positive orders, and no hydrogen bridges two other atoms *)
Theorem C01_reaction_test_sound : forall mr mp : rmol, reaction_okb mr mp = true ->
  (NoDup (map fst (mapped_nodes mr)) /\ simple (mapped_bonds mr)) /\ (NoDup (map fst (mapped_nodes mp)) /\ simple (mapped_bonds mp)) /\
  wf (graph_of mr) /\ wf (graph_of mp) /\ same_nodes (graph_of mr) (graph_of mp) /\
  orders_pos (graph_of mr) /\ orders_pos (graph_of mp) /\ one_parent (graph_of mr) /\ one_parent (graph_of mp).
Proof. exact reaction_okb_sound. Qed.
Print Assumptions C01_reaction_test_sound.

(** 51. ... and the second test of the same kind is sound for the hypothesis [h_safe] of theorem 46, on both sides of the ITS of
        the two readings *)
Theorem C01_eh_test_sound : forall mr mp : rmol, eh_okb mr mp = true ->
  h_safe i_G (gnodes (its_construct (graph_of mr) (graph_of mp))) /\ h_safe i_H (gnodes (its_construct (graph_of mr) (graph_of mp))).
Proof. exact eh_okb_sound. Qed.
Print Assumptions C01_eh_test_sound.

(** 52. capstone: for every pair of RDKit readings that passes the executable test of kind str-prem - computed by the model on
        every corpus reaction - the conclusions of the graph-level theorems hold of the very values the correspondence compares
        with the implementation: rsmi_to_its is the ITS of the two molecule graphs, it is well formed, its decomposition
        returns the two graphs (element, aromaticity, hydrogen count, charge, every bond) with atom_map = node id, the two
        graphs handed to GraphToMol stand for exactly the hydrogens of the input sides, and both RWMols are built *)
Theorem C01_capstone : forall mr mp : rmol, reaction_okb mr mp = true ->
  let G := graph_of mr in let H := graph_of mp in
  let I := its_construct G H in
  rsmi_to_its_m mr mp = Some I /\ wf I /\
  geq_sel (fst (its_decompose I)) G /\ geq_sel (snd (its_decompose I)) H /\
  amap_id (fst (its_decompose I)) /\ amap_id (snd (its_decompose I)) /\
  h_total (fst (its_to_graphs I)) = h_total G /\ h_total (snd (its_to_graphs I)) = h_total H /\
  (exists wr wp, its_to_wmols I = Some (wr, wp)).
Proof. exact capstone. Qed.
Print Assumptions C01_capstone.

(** 53. "every reversal" on the WRITER side: for a balanced pair with atom_map = node id in which no atom changes its element,
        the reversed reaction has the same preserve set (the hydrogens of its reaction centre) and its_to_rsmi hands to
        GraphToMol, side for side exchanged, the same two graphs as for the reaction itself *)
Theorem C01_reverse_written : forall G H : mgraph, wf G -> wf H -> same_nodes G H -> amap_id G -> amap_id H ->
  (forall n a b, label G n = Some a -> label H n = Some b -> g_el a = g_el b) ->
  (forall z, In z (hlist (its_construct H G)) <-> In z (hlist (its_construct G H))) /\
  geq (fst (its_to_graphs (its_construct H G))) (snd (its_to_graphs (its_construct G H))) /\
  geq (snd (its_to_graphs (its_construct H G))) (fst (its_to_graphs (its_construct G H))).
Proof. exact reverse_written. Qed.
Print Assumptions C01_reverse_written.

(** 54. theorem 36 for EVERY option value of ITSConstruction.construct (ignore_aromaticity, balance_its, attributes_defaults)
        and both store modes: the ITS depends only on the label and bond maps of the two graphs *)
Theorem C01_extensional_opts : forall (o : copts) (G H G' H' : mgraph), wf G -> wf H -> wf G' -> wf H' -> geq G' G -> geq H' H ->
  geq (its_construct_o o G' H') (its_construct_o o G H) /\ geq (its_construct_S o G' H') (its_construct_S o G H).
Proof. exact construct_ext_opts. Qed.
Print Assumptions C01_extensional_opts.

(** 55. the legacy builder _create_detailed_graph (behind MolToGraph.mol_to_graph(light_weight=False)) with its own bond loop
        `if b and e:` IS transform, for every molecule and every flag combination: no node id is ever 0 *)
Theorem C01_detailed_builder : forall (drop use : bool) (m : rmol), detailed_graph drop use m = mol_to_graph drop use m.
Proof. exact detailed_is_transform. Qed.
Print Assumptions C01_detailed_builder.

(** 56. the legacy builder _create_light_weight_graph (one loop over the atoms, each atom adds its own bonds, add_edge may
        create the other end before its attributes are known; every bond is upserted from both ends): with the flags of
        rsmi_to_graph, for every molecule with distinct maps on its mapped atoms and at most one bond per pair of them, the
        result has exactly the labels and the bonds of transform ([graph_of m], theorem 11) - every node it creates is a mapped
        atom and ends with that atom's labels, no attribute-less node survives, every bond between mapped atoms is there with
        its order and nothing else.  (Invariants of the nested loop: an atom that has had its turn carries its attributes,
        add_edge never overwrites a node, every key is an atom map; an edge is present iff one of its ends has had its turn,
        the last matching bond of the atom decides, and the order per pair is unique.)  For molecules without bonds the builder
        is the node loop of transform, node for node, for EVERY flag combination.  Other flag combinations with bonds:
        compared on every m2g case with api = light (incl. molecules with no / every other atom mapped), not proved. *)
Theorem C01_light_builder :
  (forall m : rmol, (NoDup (map fst (mapped_nodes m)) /\ simple (mapped_bonds m)) -> forall g', light_graph true true m = Some g' ->
     (forall n, label g' n = option_map Some (label (graph_of m) n)) /\ (forall u v, adj g' u v = adj (graph_of m) u v)) /\
  (forall (drop use : bool) (m : rmol), rm_bonds m = nil ->
     light_graph drop use m = option_map some_nodes (mol_to_graph drop use m)).
Proof. exact (conj light_is_transform light_no_bonds). Qed.
Print Assumptions C01_light_builder.

(** 57. the hypothesis [orders_pos] of the round trip (theorems 1 and 6) is needed: a stored bond of order 0 (RDKit
        BondType.ZERO; outside "every bond with its order" of the property) is kept by construct as the pair (0, 0) and
        dropped by its_decompose - compared on the kind `malformed` (order-0 edges), not an alarm *)
Theorem C01_order_zero_refuted :
  wf ex_z /\ same_nodes ex_z ex_z /\ ~ orders_pos ex_z /\
  adj (its_construct ex_z ex_z) 1%N 2%N = Some (IE 0 0 0) /\
  adj (fst (its_decompose (its_construct ex_z ex_z))) 1%N 2%N = None /\ adj ex_z 1%N 2%N = Some 0.
Proof. exact order_zero_refuted. Qed.
Print Assumptions C01_order_zero_refuted.

(** 58. MolToGraph.transform in closed form for EVERY flag combination the code accepts: if the ids of the atoms that are
        kept ([kept_atom]: all atoms, or the mapped ones under drop_non_aam) are pairwise distinct - automatic for the default
        flags (theorem 47), "distinct maps" for the flags of rsmi_to_graph (theorem 11), and the condition under which a map
        number never collides with an index + 1 for (drop_non_aam=False, use_index_as_atom_map=True) - and no two bonds join
        the same pair of ids, the result is exactly the kept atoms keyed by their id in atom order and the bonds between kept
        atoms in bond order *)
Theorem C01_mol_to_graph_general : forall (drop use : bool) (m : rmol), drop && negb use = false ->
  NoDup (map fst (gen_nodes drop use m)) -> simple (gen_bonds drop use m) ->
  mol_to_graph drop use m = Some (LG (gen_nodes drop use m) (gen_bonds drop use m)).
Proof. exact mol_to_graph_general. Qed.
Print Assumptions C01_mol_to_graph_general.

(** 59. the light-weight builder for EVERY flag combination the classmethod accepts: under the hypotheses of theorem 58 (ids of
        the kept atoms pairwise distinct, no two bonds on one pair of ids) MolToGraph.mol_to_graph(light_weight=True) and
        transform agree - both return a graph, with the same labels (no attribute-less node survives) and the same bonds.
        Theorem 56 is the instance drop_non_aam = use_index_as_atom_map = True. *)
Theorem C01_light_builder_general : forall (m : rmol) (drop use : bool),
  NoDup (map fst (gen_nodes drop use m)) -> simple (gen_bonds drop use m) -> drop && negb use = false ->
  exists g g', mol_to_graph drop use m = Some g /\ light_graph drop use m = Some g' /\
    (forall n, label g' n = option_map Some (label g n)) /\ (forall u v, adj g' u v = adj g u v).
Proof. exact light_is_transform_general. Qed.
Print Assumptions C01_light_builder_general.

(** 60. summary for the classmethod MolToGraph.mol_to_graph(mol, drop_non_aam, light_weight, use_index_as_atom_map): under the
        hypotheses of theorem 58 both of its builders return what transform returns - the detailed one the identical graph
        (for it no hypothesis is needed, theorem 55), the light-weight one the same labels and bonds *)
Theorem C01_builders_agree : forall (m : rmol) (drop use : bool),
  NoDup (map fst (gen_nodes drop use m)) -> simple (gen_bonds drop use m) -> drop && negb use = false ->
  exists g g', mol_to_graph drop use m = Some g /\ detailed_graph drop use m = Some g /\ light_graph drop use m = Some g' /\
    g = LG (gen_nodes drop use m) (gen_bonds drop use m) /\
    (forall n, label g' n = option_map Some (label g n)) /\ (forall u v, adj g' u v = adj g u v).
Proof. exact builders_agree. Qed.
Print Assumptions C01_builders_agree.

(** ---- round 6: the clause "the string round trip returns a reaction with the SAME UNMAPPED reactants and products" ---- *)
From SK Require Import proof.C01_UnmappedDefs proof.C01_Unmapped.

(** 61. graph level, FULL strength, no RDKit premise.  For every balanced pair (well formed, same node set, positive orders,
        atom_map = node id) the two graphs its_to_rsmi hands to the writer are
        (a) the input graphs with the non-centre hydrogens folded, on element, aromaticity, hydrogen count, charge and every
            bond - the identity on everything except atom_map;
        (b) hence the same UNMAPPED molecules as the inputs ([unmapped_eq]: equal as labelled graphs once the atom map is
            dropped and, as RemoveHs does, every hydrogen hanging on another atom is made implicit - folding in two steps is
            folding at once, [fold_twice]);
        (c) with the same fragments: two atoms are connected in the one iff they are connected in the other, so the multiset of
            unmapped fragment graphs is the same, fragment by fragment on the same atoms *)
Theorem C01_unmapped_graph : forall G H : mgraph,
  wf G -> wf H -> same_nodes G H -> orders_pos G -> orders_pos H -> amap_id G -> amap_id H ->
  let I := its_construct G H in
  (geq_sel (fst (its_to_graphs I)) (smi_graph G (hlist I)) /\ geq_sel (snd (its_to_graphs I)) (smi_graph H (hlist I))) /\
  (unmapped_eq (fst (its_to_graphs I)) G /\ unmapped_eq (snd (its_to_graphs I)) H) /\
  (forall u v, (conn (fold_all (fst (its_to_graphs I))) u v <-> conn (fold_all G) u v) /\
               (conn (fold_all (snd (its_to_graphs I))) u v <-> conn (fold_all H) u v)).
Proof. exact unmapped_graph. Qed.
Print Assumptions C01_unmapped_graph.

(** 62. string level, relative to the written-out contracts on RDKit: W0 and P1-P4 of theorem 32, and
        CU "the unmapped form [unm] of a side RDKit reads (atom maps removed, RemoveHs, canonical SMILES of the fragments) is a
            function of the unmapped molecule graph": two sides whose readings are [unmapped_eq] have the same unmapped form
        (weaker than invariance under graph isomorphism: only readings that agree atom map by atom map are compared).
        Then for every string s = r>>p whose sides RDKit reads as a balanced reaction, its_to_rsmi(rsmi_to_its(s)) = r'>>p' with
        unm r' = unm r and unm p' = unm p: the same unmapped reactants and the same unmapped products, side by side.
        NOT proved: W0, P1-P4, CU for the real RDKit (CU is evaluated on every corpus reaction by kind str-unm, theorem 63). *)
Theorem C01_unmapped_string : forall (rd_read : bool -> String.string -> option rmol)
    (rd_write : bool -> wmol -> option String.string) (ok : mgraph -> Prop) (U : Type) (unm : String.string -> U),
  (forall w s, rd_write true w = Some s -> has_gt s = false) ->
  ((forall s m, rd_read true s = Some m -> ok (graph_of m)) /\
   (forall g g', ok g ->
      ((forall n, option_map sel5 (label g' n) = option_map sel5 (label g n)) /\ (forall u v, adj g' u v = adj g u v)) -> ok g') /\
   (forall g pres, ok g -> wf g -> ok (implicit_hydrogen g pres)) /\
   (forall g w s, ok g -> wf g -> amap_id g -> graph_to_wmol g = Some w -> rd_write true w = Some s ->
      exists m, rd_read true s = Some m /\ (NoDup (map fst (mapped_nodes m)) /\ simple (mapped_bonds m)) /\ geq_sel (graph_of m) g)) ->
  (forall s s' m m', rd_read true s = Some m -> rd_read true s' = Some m' ->
     (NoDup (map fst (mapped_nodes m)) /\ simple (mapped_bonds m)) -> (NoDup (map fst (mapped_nodes m')) /\ simple (mapped_bonds m')) ->
     unmapped_eq (graph_of m') (graph_of m) -> unm s' = unm s) ->
  forall s r p mr mp, rsmi_parts s = Some (r, p) -> rd_read true r = Some mr -> rd_read true p = Some mp ->
  (NoDup (map fst (mapped_nodes mr)) /\ simple (mapped_bonds mr)) ->
  (NoDup (map fst (mapped_nodes mp)) /\ simple (mapped_bonds mp)) ->
  let G := graph_of mr in let H := graph_of mp in
  wf G -> wf H -> same_nodes G H -> orders_pos G -> orders_pos H ->
  forall J s', rsmi_to_its_str rd_read default_ropts s = Ok J -> its_to_rsmi_str rd_write true false false J = Ok s' ->
  exists r' p' mr' mp', rsmi_parts s' = Some (r', p') /\ rd_read true r' = Some mr' /\ rd_read true p' = Some mp' /\
    unmapped_eq (graph_of mr') G /\ unmapped_eq (graph_of mp') H /\ unm r' = unm r /\ unm p' = unm p.
Proof. exact unmapped_string. Qed.
Print Assumptions C01_unmapped_string.

(** 63. the executable test the correspondence evaluates on the RDKit readings of the input sides and of the sides its_to_rsmi
        wrote (kind str-unm) is sound for [unmapped_eq] - the hypothesis of contract CU: whenever it is true, CU obliges RDKit to
        give both sides the same unmapped form, and the implementation side of the same case checks that it does *)
Theorem C01_unmapped_test_sound :
  (forall g g' : mgraph, wf g -> wf g' -> geq_selb g g' = true -> geq_sel g g') /\
  (forall m m' : rmol, (NoDup (map fst (mapped_nodes m)) /\ simple (mapped_bonds m)) ->
     (NoDup (map fst (mapped_nodes m')) /\ simple (mapped_bonds m')) ->
     (forall u v o, In (u, v, o) (mapped_bonds m) -> u <> v) -> (forall u v o, In (u, v, o) (mapped_bonds m') -> u <> v) ->
     unmapped_eqb m m' = true -> unmapped_eq (graph_of m) (graph_of m')).
Proof. exact (conj geq_selb_sound unmapped_eqb_sound). Qed.
Print Assumptions C01_unmapped_test_sound.

(** 64. theorem 62 for the writer option its_to_rsmi(its, explicit_hydrogen=True) (SynKit folds nothing; RemoveHs folds when the
        unmapped form is taken), relative to R1, W0 and CU *)
Theorem C01_unmapped_string_explicit : forall (rd_read : bool -> String.string -> option rmol)
    (rd_write : bool -> wmol -> option String.string) (U : Type) (unm : String.string -> U),
  (forall w s, rd_write true w = Some s -> has_gt s = false) ->
  (forall s0 m0 g w s, rd_read true s0 = Some m0 -> wf g -> geq_sel g (graph_of m0) -> amap_id g ->
     graph_to_wmol g = Some w -> rd_write true w = Some s ->
     exists m, rd_read true s = Some m /\ (NoDup (map fst (mapped_nodes m)) /\ simple (mapped_bonds m)) /\ geq_sel (graph_of m) g) ->
  (forall s s' m m', rd_read true s = Some m -> rd_read true s' = Some m' ->
     (NoDup (map fst (mapped_nodes m)) /\ simple (mapped_bonds m)) -> (NoDup (map fst (mapped_nodes m')) /\ simple (mapped_bonds m')) ->
     unmapped_eq (graph_of m') (graph_of m) -> unm s' = unm s) ->
  forall s r p mr mp, rsmi_parts s = Some (r, p) -> rd_read true r = Some mr -> rd_read true p = Some mp ->
  (NoDup (map fst (mapped_nodes mr)) /\ simple (mapped_bonds mr)) ->
  (NoDup (map fst (mapped_nodes mp)) /\ simple (mapped_bonds mp)) ->
  let G := graph_of mr in let H := graph_of mp in
  wf G -> wf H -> same_nodes G H -> orders_pos G -> orders_pos H ->
  forall J s', rsmi_to_its_str rd_read default_ropts s = Ok J -> its_to_rsmi_str rd_write true true false J = Ok s' ->
  exists r' p' mr' mp', rsmi_parts s' = Some (r', p') /\ rd_read true r' = Some mr' /\ rd_read true p' = Some mp' /\
    unmapped_eq (graph_of mr') G /\ unmapped_eq (graph_of mp') H /\ unm r' = unm r /\ unm p' = unm p.
Proof. exact unmapped_string_explicit. Qed.
Print Assumptions C01_unmapped_string_explicit.
