(** C12 -- executable model of MCSMatcher (synkit/Graph/Matcher/mcs_matcher.py and the
    older copy synkit/Graph/MTG/mcs_matcher.py).  Definitions only; proofs are in proof/C12_Proof.v.

    Modelled, structure-following:
      generic_node_match(node_attrs, node_defaults, ==)          [node_match]
      MCSMatcher._edge_match (both copies)                        [edge_match, edge_match_mtg]
      MCSMatcher._prune_graph                                     [prune_graph]
      MCSMatcher._prepare_orientation                             [prepare_orientation]
      MCSMatcher._search_subgraphs (size-descending loop over k-subsets of the pattern's nodes,
        GraphMatcher(host, sub_pat).subgraph_isomorphisms_iter(), the [seen] set, the level_found /
        best_size bookkeeping, the early exit in maximum mode, the final filter and sort,
        _last_size)                                               [search_subgraphs]
      MCSMatcher.find_common_subgraph / get_mappings(direction)   [find_common_subgraph, get_mappings]
      MTG copy: find_common_subgraph (no orientation swap)        [find_common_subgraph_mtg]
    networkx VF2 (induced sub-graph isomorphisms of one k-subset) is modelled by the verified
    enumerator [Mono.monos] with [induced := true]; only the SET of its results matters because
    the code sorts the final list (the correspondence compares the ordered final list).
      MCSMatcher._componentwise_mcs / find_rc_mapping(side='its', component=True) (round 3):
        nx.connected_components in node order, stable sort by size (descending), pairwise search on
        the induced copies, first mapping of each sorted local list, dict.update      [componentwise, find_rc_component]
      prune_automorphisms=True: WHICH mappings survive depends on VF2's enumeration order (the first one per host node
        set); what does not depend on it -- orientation, last_size, subsets tried and the SET of host node sets that
        keep a representative -- is modelled                                        [host_set, host_sets, run_matcher_auto]
      find_common_subgraph(mcs_mol=True) / _find_mcs_mol: WHICH isomorphism maps a component onto its partner is VF2's
        choice; which components are matched with which (greedy, size-sorted, first unused isomorphic partner of the same
        size), last_size and the number of matcher objects are modelled                 [mol_pairs, find_mcs_mol_pairs]
    Not modelled: the representative kept under prune_automorphisms, the isomorphism chosen inside a matched pair of mcs_mol. *)
From Coq Require Import List NArith ZArith Bool Arith.
From SK Require Import lib.Tok lib.LGraph lib.Mono lib.Reach.
Import ListNotations.

(** node attributes: value of the element key (used only by wildcard pruning) and the values of
    the configured node_attrs (None = attribute missing); edge attributes: the values of the
    configured edge_attrs in half-units (None = missing). *)
Definition nattr := (option N * list (option N))%type.
Definition eattr := list (option Z).
Definition graph := lgraph nattr eattr.
Definition mapping := list (N * N).          (* (pattern node, host node) pairs *)

(* ---------- generic_node_match(attrs, defaults, eq comparators) ---------- *)
Definition getd (d : N) (o : option N) : N := match o with Some x => x | None => d end.

Fixpoint attrs_match (defs : list N) (h p : list (option N)) : bool :=
  match defs, h, p with
  | [], _, _ => true
  | d :: ds, a :: hs, b :: ps => N.eqb (getd d a) (getd d b) && attrs_match ds hs ps
  | _ :: _, _, _ => false
  end.

(** labels as seen by Mono: [label g u : option nattr] *)
Definition node_match (defs : list N) (h p : option nattr) : bool :=
  match h, p with
  | Some (_, ha), Some (_, pa) => attrs_match defs ha pa
  | _, _ => false
  end.

(* ---------- MCSMatcher._edge_match (Matcher copy): per configured attribute, both missing -> skip,
   one missing -> float(None) raises -> hv != pv -> False, both numeric -> float equality ---------- *)
Fixpoint edge_match (h p : eattr) : bool :=
  match h, p with
  | hv :: hs, pv :: ps =>
      match hv, pv with
      | None, None => edge_match hs ps
      | Some a, Some b => Z.eqb a b && edge_match hs ps
      | _, _ => false
      end
  | _, _ => true
  end.

(** MTG copy, one attribute (after repair /repo 24a0150; before it float(None) raised TypeError -> False, so two bonds that
    both lack the order never matched): both missing -> match, one missing -> no match, numbers by float equality *)
Definition edge_match_mtg (h p : eattr) : bool :=
  match h, p with
  | None :: _, None :: _ => true
  | Some a :: _, Some b :: _ => Z.eqb a b
  | _, _ => false
  end.

(* ---------- _prune_graph ---------- *)
Definition is_wc (wc : N) (a : nattr) : bool :=
  match fst a with Some e => N.eqb e wc | None => false end.

Definition prune_graph (prune : bool) (wc : N) (g : graph) : graph :=
  if prune then
    induced_sub g (map fst (filter (fun p => negb (is_wc wc (snd p))) (gnodes g)))
  else g.

(* ---------- _prepare_orientation ---------- *)
Definition n_nodes (g : graph) : nat := length (gnodes g).
Definition prepare_orientation (g1 g2 : graph) : graph * graph * bool :=
  if (n_nodes g1 <=? n_nodes g2)%nat then (g1, g2, true) else (g2, g1, false).

(* ---------- itertools.combinations(nodes, k) (same order) ---------- *)
Fixpoint combs (l : list N) (k : nat) {struct l} : list (list N) :=
  match k, l with
  | O, _ => [[]]
  | S _, [] => []
  | S k', x :: r => map (cons x) (combs r k') ++ combs r k
  end.

(* ---------- key = tuple(sorted(inv.items())) : insertion sort by (pattern node, host node) ---------- *)
Definition pair_ltb (a b : N * N) : bool :=
  N.ltb (fst a) (fst b) || (N.eqb (fst a) (fst b) && N.ltb (snd a) (snd b)).
Definition pair_eqb (a b : N * N) : bool := N.eqb (fst a) (fst b) && N.eqb (snd a) (snd b).

Fixpoint insert_pair (x : N * N) (l : mapping) : mapping :=
  match l with
  | [] => [x]
  | y :: r => if pair_ltb y x then y :: insert_pair x r else x :: l
  end.
Definition sort_items (m : mapping) : mapping := fold_right insert_pair [] m.

Fixpoint map_eqb (a b : mapping) : bool :=
  match a, b with
  | [], [] => true
  | x :: a', y :: b' => pair_eqb x y && map_eqb a' b'
  | _, _ => false
  end.

(** Python tuple comparison of two sorted item tuples: lexicographic, a proper prefix is smaller *)
Fixpoint items_ltb (a b : mapping) : bool :=
  match a, b with
  | [], [] => false
  | [], _ :: _ => true
  | _ :: _, [] => false
  | x :: a', y :: b' => pair_ltb x y || (pair_eqb x y && items_ltb a' b')
  end.

(** sort key (-len(d), tuple(sorted(d.items()))) *)
Definition result_ltb (a b : mapping) : bool :=
  (length b <? length a)%nat || ((length a =? length b)%nat && items_ltb a b).

Fixpoint insert_result (x : mapping) (l : list mapping) : list mapping :=
  match l with
  | [] => [x]
  | y :: r => if result_ltb x y then x :: l else y :: insert_result x r
  end.
Definition sort_results (l : list mapping) : list mapping := fold_right insert_result [] l.

(* ---------- one level of _search_subgraphs ---------- *)
Section Search.
Variable nm : option nattr -> option nattr -> bool.   (* node_match host pattern *)
Variable em : eattr -> eattr -> bool.                 (* edge_match host pattern *)

(** GraphMatcher(host, pattern.subgraph(nodes).copy()).subgraph_isomorphisms_iter(), each result
    inverted to pattern->host and keyed by its sorted items.  The enumerator only looks at the
    pattern's adjacency between listed nodes, which is that of the induced copy. *)
Definition sub_isos (pattern host : graph) (nodes : list N) : list mapping :=
  map sort_items
      (monos nodes (node_ids host) (label pattern) (label host) (LGraph.adj pattern) (LGraph.adj host) nm em true).

Definition level (pattern host : graph) (k : nat) : list mapping :=
  flat_map (sub_isos pattern host) (combs (node_ids pattern) k).

(** the [seen] set: with prune_automorphisms off every seen key is also appended, so membership in
    [seen] is membership in the list built so far *)
Definition seen (m : mapping) (acc : list mapping) : bool := existsb (map_eqb m) acc.

Fixpoint add_new (acc : list mapping) (cands : list mapping) : list mapping * bool :=
  match cands with
  | [] => (acc, false)
  | m :: r =>
      if seen m acc then add_new acc r
      else let '(acc', _) := add_new (acc ++ [m]) r in (acc', true)
  end.

(** for k in range(max_k, 0, -1): ... ; state = (mappings, best_size, #GraphMatcher built) *)
Fixpoint search_loop (mcs : bool) (pattern host : graph) (k : nat)
         (acc : list mapping) (best tried : nat) : list mapping * nat * nat :=
  match k with
  | O => (acc, best, tried)
  | S k' =>
      if mcs && negb (best =? 0)%nat && (k <? best)%nat then (acc, best, tried)
      else
        let tried' := (tried + length (combs (node_ids pattern) k))%nat in
        let '(acc', level_found) := add_new acc (level pattern host k) in
        if level_found then
          if mcs then (acc', k, tried')
          else search_loop mcs pattern host k' acc' k tried'
        else search_loop mcs pattern host k' acc' best tried'
  end.

Definition search_subgraphs (pattern host : graph) (mcs : bool) : list mapping * nat * nat :=
  let max_k := Nat.min (n_nodes pattern) (n_nodes host) in
  let '(maps, best, tried) := search_loop mcs pattern host max_k [] 0 0 in
  let maps1 := if mcs && negb (best =? 0)%nat then filter (fun m => (length m =? best)%nat) maps else maps in
  let maps2 := sort_results maps1 in
  let last := if negb (best =? 0)%nat then best else match maps2 with m :: _ => length m | [] => O end in
  (maps2, last, tried).

End Search.

(* ---------- find_common_subgraph / get_mappings ---------- *)
Record result := { r_maps : list mapping; r_last : nat; r_tried : nat; r_pattern_is_g1 : bool }.

Definition find_common_subgraph (defs : list N) (prune : bool) (wc : N) (g1 g2 : graph) (mcs : bool) : result :=
  let g1u := prune_graph prune wc g1 in
  let g2u := prune_graph prune wc g2 in
  let '(pattern, host, p1) := prepare_orientation g1u g2u in
  let '(maps, last, tried) := search_subgraphs (node_match defs) edge_match pattern host mcs in
  {| r_maps := maps; r_last := last; r_tried := tried; r_pattern_is_g1 := p1 |}.

Definition invert_mapping (m : mapping) : mapping := map (fun ph => (snd ph, fst ph)) m.

Inductive direction := PatternToHost | G1toG2 | G2toG1.

Definition get_mappings (d : direction) (r : result) : list mapping :=
  match d with
  | PatternToHost => r_maps r
  | G1toG2 => if r_pattern_is_g1 r then r_maps r else map invert_mapping (r_maps r)
  | G2toG1 => if r_pattern_is_g1 r then map invert_mapping (r_maps r) else r_maps r
  end.

(** MTG copy: G1 is always the pattern, no pruning *)
Definition find_common_subgraph_mtg (defs : list N) (g1 g2 : graph) (mcs : bool) : list mapping * nat * nat :=
  search_subgraphs (node_match defs) edge_match_mtg g1 g2 mcs.

(* ---------- component-wise mode: find_rc_mapping(..., side='its', component=True) ---------- *)
(** one connected component: saturation closure of lib/Reach.v from one node (fuel |V|+1 always suffices) *)
Definition comp_closure (g : graph) (u : N) : list N :=
  match saturate (nbrs g) (S (n_nodes g)) [u] with Some c => c | None => [] end.

(** nx.connected_components(G): nodes in insertion order, one component per node not yet seen *)
Fixpoint comps_go (g : graph) (todo seen : list N) : list (list N) :=
  match todo with
  | [] => []
  | u :: rest => if LGraph.mem u seen then comps_go g rest seen
                 else let c := comp_closure g u in c :: comps_go g rest (c ++ seen)
  end.
Definition components (g : graph) : list (list N) := comps_go g (node_ids g) [].

(** list.sort(key=number_of_nodes, reverse=True): stable, larger first *)
Fixpoint insert_desc (c : list N) (l : list (list N)) : list (list N) :=
  match l with
  | [] => [c]
  | d :: r => if (length d <? length c)%nat then c :: l else d :: insert_desc c r
  end.
Definition sort_comps (l : list (list N)) : list (list N) := fold_left (fun acc c => insert_desc c acc) l [].

Section Component.
Variable nm : option nattr -> option nattr -> bool.
Variable em : eattr -> eattr -> bool.

(** one pair of components: orientation, search, first mapping of the sorted list, reported G1 -> G2 *)
Definition comp_pair (g1 g2 : graph) (mcs : bool) (c1 c2 : list N) : mapping * nat :=
  let '(pattern, host, p1) := prepare_orientation (induced_sub g1 c1) (induced_sub g2 c2) in
  let '(maps, _, tried) := search_subgraphs nm em pattern host mcs in
  match maps with
  | [] => ([], tried)
  | best :: _ => (if p1 then best else invert_mapping best, tried)
  end.

Fixpoint comp_fold (g1 g2 : graph) (mcs : bool) (ps : list (list N * list N)) (acc : mapping) (tried : nat) : mapping * nat :=
  match ps with
  | [] => (acc, tried)
  | (c1, c2) :: r => let '(m, t) := comp_pair g1 g2 mcs c1 c2 in comp_fold g1 g2 mcs r (acc ++ m) (tried + t)
  end.

Definition componentwise (g1 g2 : graph) (mcs : bool) : mapping * nat :=
  comp_fold g1 g2 mcs (combine (sort_comps (components g1)) (sort_comps (components g2))) [] 0.
End Component.

Definition find_rc_component (defs : list N) (prune : bool) (wc : N) (g1 g2 : graph) (mcs : bool) : result :=
  let '(combined, tried) := componentwise (node_match defs) edge_match (prune_graph prune wc g1) (prune_graph prune wc g2) mcs in
  {| r_maps := [combined]; r_last := length combined; r_tried := tried; r_pattern_is_g1 := true |}.

(* ---------- find_common_subgraph(mcs_mol=True): greedy matching of whole components ---------- *)
Section Mol.
Variable nm : option nattr -> option nattr -> bool.
Variable em : eattr -> eattr -> bool.

(** GraphMatcher(G1.subgraph(c1), G2.subgraph(c2)).is_isomorphic() for components of equal size *)
Definition comp_iso (g1 g2 : graph) (c1 c2 : list N) : bool :=
  match monos c1 c2 (label g1) (label g2) (LGraph.adj g1) (LGraph.adj g2) nm em true with
  | [] => false
  | _ :: _ => true
  end.

Definition set_used (c : list N) (used : list (list N)) : bool :=
  existsb (fun d => forallb (fun x => LGraph.mem x d) c && forallb (fun x => LGraph.mem x c) d) used.

(** inner loop: first unused component of G2 of the same size that is isomorphic; counts the matcher objects built *)
Fixpoint mol_find (g1 g2 : graph) (c1 : list N) (cands used : list (list N)) : option (list N) * nat :=
  match cands with
  | [] => (None, O)
  | c2 :: r =>
      if negb (length c2 =? length c1)%nat || set_used c2 used then mol_find g1 g2 c1 r used
      else if comp_iso g1 g2 c1 c2 then (Some c2, 1%nat)
      else let '(res, n) := mol_find g1 g2 c1 r used in (res, S n)
  end.

Fixpoint mol_pairs (g1 g2 : graph) (l1 l2 used : list (list N)) : list (list N * list N) * nat :=
  match l1 with
  | [] => ([], O)
  | c1 :: r =>
      let '(res, n) := mol_find g1 g2 c1 l2 used in
      match res with
      | Some c2 => let '(ps, n') := mol_pairs g1 g2 r l2 (c2 :: used) in ((c1, c2) :: ps, (n + n')%nat)
      | None => let '(ps, n') := mol_pairs g1 g2 r l2 used in (ps, (n + n')%nat)
      end
  end.
End Mol.

Definition find_mcs_mol_pairs (defs : list N) (prune : bool) (wc : N) (g1 g2 : graph) : list (list N * list N) * nat :=
  let g1u := prune_graph prune wc g1 in
  let g2u := prune_graph prune wc g2 in
  mol_pairs (node_match defs) edge_match g1u g2u (sort_comps (components g1u)) (sort_comps (components g2u)) [].

(* ---------- prune_automorphisms: host node sets ---------- *)
Fixpoint insertN (x : N) (l : list N) : list N :=
  match l with
  | [] => [x]
  | y :: r => if N.leb x y then x :: l else y :: insertN x r
  end.
Definition host_set (m : mapping) : list N := fold_right insertN [] (map snd m).
Fixpoint nlist_eqb (a b : list N) : bool :=
  match a, b with
  | [], [] => true
  | x :: a', y :: b' => N.eqb x y && nlist_eqb a' b'
  | _, _ => false
  end.
Fixpoint dedupe_sets (l : list (list N)) : list (list N) :=
  match l with
  | [] => []
  | x :: r => if existsb (nlist_eqb x) r then dedupe_sets r else x :: dedupe_sets r
  end.
(** host node sets that keep a representative = host node sets of the unpruned result (pattern -> host orientation) *)
Definition host_sets (maps : list mapping) : list (list N) := dedupe_sets (map host_set maps).

(** VF2's choice as an explicit parameter (round 4).  [choices] = for every host node set the mapping (pattern -> host) that
    VF2 enumerates FIRST, in any order (the harness obtains them from networkx alone).  Choices that are not mappings of the
    unpruned result (e.g. of levels the maximum mode never reaches) are ignored; the remaining ones must represent every
    host node set exactly once -- otherwise the parameter is rejected.  The kept list is sorted like every result. *)
Fixpoint nodup_sets (l : list (list N)) : bool :=
  match l with
  | [] => true
  | x :: r => negb (existsb (nlist_eqb x) r) && nodup_sets r
  end.
Definition apply_choices (maps choices : list mapping) : option (list mapping) :=
  let cs := filter (fun c => seen c maps) (map sort_items choices) in
  if nodup_sets (map host_set cs) && forallb (fun hs => existsb (nlist_eqb hs) (map host_set cs)) (host_sets maps)
  then Some (sort_results cs) else None.

(* ---------- observables ---------- *)
Definition tmap (m : mapping) : tok := tset (tpair tN tN) m.

Definition run_matcher (defs : list N) (prune : bool) (wc : N) (g1 g2 : graph) (mcs : bool) : tok :=
  let r := find_common_subgraph defs prune wc g1 g2 mcs in
  L [tbool (r_pattern_is_g1 r); tnat (r_last r); tnat (r_tried r);
     tlist tmap (get_mappings PatternToHost r);
     tlist tmap (get_mappings G1toG2 r);
     tlist tmap (get_mappings G2toG1 r)].

Definition run_matcher_auto_with (defs : list N) (prune : bool) (wc : N) (g1 g2 : graph) (mcs : bool)
           (choices : list mapping) : tok :=
  let r := find_common_subgraph defs prune wc g1 g2 mcs in
  match apply_choices (r_maps r) choices with
  | None => L [tbool (r_pattern_is_g1 r); tnat (r_last r); tnat (r_tried r); I (-1)]
  | Some kept =>
      let r' := {| r_maps := kept; r_last := r_last r; r_tried := r_tried r; r_pattern_is_g1 := r_pattern_is_g1 r |} in
      L [tbool (r_pattern_is_g1 r'); tnat (r_last r'); tnat (r_tried r');
         tlist tmap (get_mappings PatternToHost r');
         tlist tmap (get_mappings G1toG2 r');
         tlist tmap (get_mappings G2toG1 r')]
  end.

Definition run_matcher_auto (defs : list N) (prune : bool) (wc : N) (g1 g2 : graph) (mcs : bool) : tok :=
  let r := find_common_subgraph defs prune wc g1 g2 mcs in
  L [tbool (r_pattern_is_g1 r); tnat (r_last r); tnat (r_tried r); tset (tlist tN) (host_sets (r_maps r))].

Definition run_mcs_mol (defs : list N) (prune : bool) (wc : N) (g1 g2 : graph) : tok :=
  let '(ps, n) := find_mcs_mol_pairs defs prune wc g1 g2 in
  L [tbool true; tnat (fold_right (fun p acc => (length (fst p) + acc)%nat) O ps); tnat n;
     tset (fun p => L [tset tN (fst p); tset tN (snd p)]) ps].

Definition run_component (defs : list N) (prune : bool) (wc : N) (g1 g2 : graph) (mcs : bool) : tok :=
  let r := find_rc_component defs prune wc g1 g2 mcs in
  L [tbool (r_pattern_is_g1 r); tnat (r_last r); tnat (r_tried r);
     tlist tmap (get_mappings PatternToHost r);
     tlist tmap (get_mappings G1toG2 r);
     tlist tmap (get_mappings G2toG1 r)].

Definition run_mtg (defs : list N) (g1 g2 : graph) (mcs : bool) : tok :=
  let '(maps, last, tried) := find_common_subgraph_mtg defs g1 g2 mcs in
  L [tnat last; tnat tried; tlist tmap maps].
