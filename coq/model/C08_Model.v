(** C08 — executable model of graph canonicalisation (definitions only).

    Follows, function by function, the code as it is now in /repo:
      synkit/Graph/canon_graph.py (= Graph/Canon/canon_graph.py)
          _default_node_key/_default_edge_key, _canon_generic, _canon_wl (colours are an input),
          _canon_nauty, _serialise
      synkit/Graph/Canon/canon_algs.py  canon_morgan (labels are an input)
      synkit/Graph/Canon/nauty.py       _initial_partition, _node_signature, _refine, _search (pruning,
                                        children ordered by atom_map), _build_label, _build_partial_label,
                                        canonical_form
    Signatures are flattened to integer lists (strings are made prefix-free by a terminator, so that the
    lexicographic order on the flat list is Python's order on the tuples); labels and serialisations are
    strings = lists of code points ordered lexicographically (Python str order).
    Bond orders and standard_order are in half-units (1.0 -> 2, 1.5 -> 3, -0.5 -> -1).
    Refinement, individualisation and "first non-singleton cell" are the generic functions of lib/IRCore.v:
    the code's sorted(...) calls inside _refine/_search are no-ops there because every cell is created sorted
    (initial partition) and only ever filtered — the correspondence compares every _refine input and output. *)
From Coq Require Import String Ascii.
From Coq Require Import List NArith ZArith Bool Arith.
From SK Require Import lib.Tok lib.LGraph lib.IRSortKeys lib.IRCore lib.IRSearch lib.StrJoin.
From SK Require lib.IRInst.
Import ListNotations.
Open Scope string_scope. Open Scope list_scope. Open Scope nat_scope.

Notation lexleb := IRInst.lexleb.
Notation memN := IRInst.memN.

(* ------------------------------------------------------------------ data *)
Record nattr := NA { el : list N; ar : bool; ch : Z; hc : Z; am : option Z }.
(* et = the "after" order of an ITS / reaction-centre edge: [Some b] means order = the tuple (eo, b) (round 3);
   [EA o s] builds a scalar-order edge as before *)
Record eattr := EA3 { eo : Z; es : option Z; et : option Z }.
Definition EA (o : Z) (s : option Z) : eattr := EA3 o s None.
Definition graph := lgraph nattr eattr.

Definition lit (s : string) : str := map N_of_ascii (list_ascii_of_string s).

(* ------------------------------------------------------------------ rendering (Python str()/repr()) *)
Fixpoint digits_uint (d : Decimal.uint) : str :=
  match d with
  | Decimal.Nil => []
  | Decimal.D0 d => 48%N :: digits_uint d | Decimal.D1 d => 49%N :: digits_uint d
  | Decimal.D2 d => 50%N :: digits_uint d | Decimal.D3 d => 51%N :: digits_uint d
  | Decimal.D4 d => 52%N :: digits_uint d | Decimal.D5 d => 53%N :: digits_uint d
  | Decimal.D6 d => 54%N :: digits_uint d | Decimal.D7 d => 55%N :: digits_uint d
  | Decimal.D8 d => 56%N :: digits_uint d | Decimal.D9 d => 57%N :: digits_uint d
  end.
Definition decN (n : N) : str := digits_uint (N.to_uint n).
Definition decZ (z : Z) : str := if (z <? 0)%Z then 45%N :: decN (Z.abs_N z) else decN (Z.abs_N z).
(* repr of the float h/2 *)
Definition fl (h : Z) : str :=
  let a := Z.abs_N h in
  (if (h <? 0)%Z then [45%N] else []) ++ decN (N.div a 2) ++ [46%N] ++ (if N.eqb (N.modulo a 2) 0 then [48%N] else [53%N]).
Definition pybool (b : bool) : str := if b then lit "True" else lit "False".
Definition pyrepr (s : str) : str := [39%N] ++ s ++ [39%N].       (* quote-free ASCII strings only *)

(* ------------------------------------------------------------------ sorting by an integer-list key *)
Definition b2z (b : bool) : Z := if b then 1%Z else 0%Z.
Definition enc_str (s : str) : list Z := map (fun c => (Z.of_N c + 1)%Z) s ++ [0%Z].   (* prefix-free, order preserving *)

Fixpoint insert_by {A} (key : A -> list Z) (x : A) (l : list A) : list A :=
  match l with
  | [] => [x]
  | y :: r => if lexleb (key x) (key y) then x :: l else y :: insert_by key x r
  end.
Definition sort_by {A} (key : A -> list Z) (l : list A) : list A := fold_right (insert_by key) [] l.   (* stable *)

(* ------------------------------------------------------------------ keys of canon_graph.py *)
(* _default_node_key = (element, charge, aromatic, hcount) *)
Definition nkey (a : nattr) : list Z := enc_str (el a) ++ [ch a; b2z (ar a); hc a].
Definition nkey_id (p : N * nattr) : list Z := nkey (snd p) ++ [Z.of_N (fst p)].
(* _default_edge_key = (sorted (u, v), order, standard_order or 0) *)
Definition std0 (a : eattr) : Z := match es a with Some s => s | None => 0%Z end.
Definition ekey (e : N * N * eattr) : list Z :=
  let '(u, v, a) := e in [Z.of_N (N.min u v); Z.of_N (N.max u v); eo a; std0 a].

(* ------------------------------------------------------------------ relabelling by an order *)
Definition mapping_of (order : list N) : list (N * N) := combine order (map N.of_nat (seq 1 (length order))).
Definition apply_map (m : list (N * N)) (v : N) : N := match assoc v m with Some x => x | None => 0%N end.
Definition attr_of (g : graph) (v : N) : nattr :=
  match label g v with Some a => a | None => NA [] false 0 0 None end.
(* new graph with the nodes inserted in canonical order (generic / wl / morgan build it that way) *)
Definition rebuild (g : graph) (order : list N) : graph :=
  let f := apply_map (mapping_of order) in
  LG (map (fun v => (f v, attr_of g v)) order)
     (map (fun e => let '(a, b, x) := e in (f a, f b, x)) (gedges g)).

Definition canon_generic (g : graph) : graph := rebuild g (map fst (sort_by nkey_id (gnodes g))).

(* wl / morgan: order by (colour or label rank, degree, id); the ranks come from the implementation *)
Definition inc (g : graph) (v : N) : list (N * eattr) :=
  flat_map (fun e => let '(a, b, x) := e in
                     (if N.eqb a v then [(b, x)] else []) ++ (if N.eqb b v then [(a, x)] else [])) (gedges g).
Definition degree (g : graph) (v : N) : Z := Z.of_nat (length (inc g v)).
Definition rank_of (ranks : list (N * Z)) (v : N) : Z := match assoc v ranks with Some r => r | None => 0%Z end.
Definition canon_rank (ranks : list (N * Z)) (g : graph) : graph :=
  rebuild g (sort_by (fun v => [rank_of ranks v; degree g v; Z.of_N v]) (node_ids g)).

(* ------------------------------------------------------------------ _serialise *)
Definition sep2 : str := lit ", ".
Definition node_item (p : N * nattr) : str :=
  let a := snd p in
  decN (fst p) ++ lit ":" ++ lit "(" ++ pyrepr (el a) ++ sep2 ++ decZ (ch a) ++ sep2 ++ pybool (ar a) ++ sep2 ++ decZ (hc a) ++ lit ")".
(* str()/repr() of the order value: a float, or a tuple of two floats *)
Definition ord_str (a : eattr) : str :=
  match et a with None => fl (eo a) | Some b => lit "(" ++ fl (eo a) ++ sep2 ++ fl b ++ lit ")" end.
Definition edge_item (e : N * N * eattr) : str :=
  let '(u, v, a) := e in
  let pr := lit "(" ++ decN (N.min u v) ++ sep2 ++ decN (N.max u v) ++ lit ")" in
  pr ++ lit ":" ++ lit "(" ++ pr ++ sep2 ++ ord_str a ++ sep2 ++ (match es a with Some s => fl s | None => lit "0" end) ++ lit ")".
Definition ser_nodes (g : graph) : list (N * nattr) := sort_by nkey_id (gnodes g).
Definition ser_edges (g : graph) : list (N * N * eattr) := sort_by ekey (gedges g).
Definition serialise (g : graph) : str :=
  lit "N[" ++ join 59%N (map node_item (ser_nodes g)) ++ lit "]|E[" ++ join 59%N (map edge_item (ser_edges g)) ++ lit "]".

(* ------------------------------------------------------------------ nauty.py *)
(* node_attrs = [element, aromatic, charge, hcount]; edge_attrs = [order, standard_order] *)
Definition acode (g : graph) (v : N) : list Z :=
  let a := attr_of g v in enc_str (el a) ++ [b2z (ar a); ch a; hc a].
(* per attribute (present?, value or 0) — repair of round 2: a missing standard_order stays comparable; on graphs whose
   edges all carry or all lack the attribute the order of the codes is unchanged *)
(* a tuple-valued order enters the refinement signature SORTED (tuple(sorted(round(float(x), 3) ...))) *)
Definition ecode (a : eattr) : list Z :=
  match et a with
  | None => [eo a; (match es a with Some _ => 1 | None => 0 end)%Z; std0 a]
  | Some b => [Z.min (eo a) b; Z.max (eo a) b; (match es a with Some _ => 1 | None => 0 end)%Z; std0 a]
  end.

(* _node_signature: (node attrs, degree, neighbours per cell, sorted multiset of edge attrs) *)
Definition sigN (g : graph) (P : partition) (v : N) : list Z :=
  acode g v ++ [degree g v] ++ map (fun c => IRInst.cnt c (map fst (inc g v))) P
          ++ concat (sort_by (fun x => x) (map (fun p => ecode (snd p)) (inc g v))).

Definition sorted_ids (g : graph) : list N := sort_by (fun v => [Z.of_N v]) (node_ids g).
(* _initial_partition: buckets by attribute tuple, sorted by the tuple, each bucket sorted by id *)
Definition init_partition (g : graph) : partition :=
  match gnodes g with
  | [] => []
  | _ => split_cell lexleb (fun _ v => acode g v) [] (sorted_ids g)
  end.

Definition rfuel (g : graph) : nat := S (length (gnodes g)).
Definition nrefine (g : graph) (P : partition) : partition := refine lexleb (sigN g) (rfuel g) P.

(* labels *)
Definition node_str (g : graph) (v : N) : str :=
  let a := attr_of g v in join 58%N [el a; pybool (ar a); decZ (ch a); decZ (hc a)].
Definition node_seg (g : graph) (p : list N) : str := join 124%N (map (node_str g) p).
Definition edge_bit (g : graph) (ab : N * N) : str :=
  match adj g (fst ab) (snd ab) with
  | Some x => lit "1:" ++ ord_str x ++ lit ":" ++ (match es x with Some s => fl s | None => [] end)
  | None => lit "0::"
  end.
Fixpoint pairs (l : list N) : list (N * N) :=
  match l with [] => [] | x :: r => map (pair x) r ++ pairs r end.
Definition nlabel (g : graph) (p : list N) : str :=
  node_seg g p ++ lit "||" ++ join 124%N (map (edge_bit g) (pairs p)).
Definition npartial (g : graph) (pre : list N) : str := node_seg g pre ++ repeat 123%N 1000.

(* Python str order *)
Definition strleb (a b : str) : bool := lexleb (map Z.of_N a) (map Z.of_N b).

(* children of the target cell: sorted(cell, key = atom_map or the node id), stable *)
Definition amkey (g : graph) (v : N) : Z := match am (attr_of g v) with Some m => m | None => Z.of_N v end.
Definition children (g : graph) (c : cell) : list N := sort_by (fun v => [amkey g v]) c.

(* leaf permutation: prefix + the remaining nodes in partition order *)
Definition mkleaf (pre : list N) (c : list N) : list N := pre ++ filter (fun v => negb (memN v pre)) c.

Definition nacc := acc str.
Definition nvisit (g : graph) : nacc -> list N -> nacc := visit strleb (nlabel g).
Definition npruned (g : graph) : nacc -> list N -> bool := pruned strleb (npartial g).

Fixpoint nsearch (g : graph) (fuel : nat) (P : partition) (pre : list N) (a : nacc) : nacc :=
  match fuel with
  | 0 => a
  | S f =>
      let P' := nrefine g P in
      match first_big P' with
      | None => nvisit g a (mkleaf pre (concat P'))
      | Some i => fold_left (fun a v => if npruned g a (pre ++ [v]) then a
                                        else nsearch g f (individualise P' i v) (pre ++ [v]) a)
                            (children g (nth i P' [])) a
      end
  end.

(* the same search, additionally recording every _refine input/output in call order *)
Definition trace := list (partition * partition).
Fixpoint nsearch_tr (g : graph) (fuel : nat) (P : partition) (pre : list N) (s : nacc * trace) : nacc * trace :=
  match fuel with
  | 0 => s
  | S f =>
      let P' := nrefine g P in
      let tr := snd s ++ [(P, P')] in
      match first_big P' with
      | None => (nvisit g (fst s) (mkleaf pre (concat P')), tr)
      | Some i => fold_left (fun s v => if npruned g (fst s) (pre ++ [v]) then s
                                        else nsearch_tr g f (individualise P' i v) (pre ++ [v]) s)
                            (children g (nth i P' [])) (fst s, tr)
      end
  end.

Definition sfuel (g : graph) : nat := S (length (gnodes g)).
Definition nauty_acc (g : graph) : nacc := nsearch g (sfuel g) (init_partition g) [] (None, []).
Definition nauty_perm (g : graph) : list N := match fst (nauty_acc g) with Some (_, p) => p | None => [] end.
Definition nauty_label (g : graph) : option str := option_map fst (fst (nauty_acc g)).
(* canonical_form: nx.relabel_nodes(G, {v: i+1}) keeps the insertion order of G *)
Definition canon_nauty (g : graph) : graph := relabel (apply_map (mapping_of (nauty_perm g))) g.

(* ------------------------------------------------------------------ signatures *)
Definition ser_generic (g : graph) : str := serialise (canon_generic g).
Definition ser_rank (r : list (N * Z)) (g : graph) : str := serialise (canon_rank r g).
Definition ser_nauty (g : graph) : str := serialise (canon_nauty g).

(* ------------------------------------------------------------------ observables *)
Definition tstrN (s : str) : tok := tlist tN s.
Definition tZ (z : Z) : tok := I z.
Definition tgraph (g : graph) : tok :=
  L [ tset (fun p : N * nattr => let a := snd p in L [tN (fst p); tstrN (el a); tbool (ar a); tZ (ch a); tZ (hc a); topt tZ (am a)]) (gnodes g);
      tset (fun e : N * N * eattr => let '(u, v, a) := e in L [tN (N.min u v); tN (N.max u v); tZ (eo a); topt tZ (es a); topt tZ (et a)]) (gedges g) ].
Definition tpart (P : partition) : tok := tlist (tlist tN) P.

Definition run_generic (g : graph) : tok :=
  let cg := canon_generic g in L [tgraph cg; tstrN (serialise cg); tstrN (ser_generic cg)].
Definition run_rank (r : list (N * Z)) (g : graph) : tok :=
  let cg := canon_rank r g in L [tgraph cg; tstrN (serialise cg)].
Definition run_nauty (g : graph) : tok :=
  let s := nsearch_tr g (sfuel g) (init_partition g) [] ((None, []), []) in
  let a := fst s in
  let perm := match fst a with Some (_, p) => p | None => [] end in
  let lab := match fst a with Some (l, _) => l | None => [] end in
  let cg := relabel (apply_map (mapping_of perm)) g in
  L [tlist tN perm; tstrN lab; tlist (fun io : partition * partition => L [tpart (fst io); tpart (snd io)]) (snd s);
     tlist (tlist tN) (snd a); tgraph cg; tstrN (serialise cg); tstrN (ser_nauty cg)].

Fixpoint str_eqb (a b : str) : bool :=
  match a, b with
  | [], [] => true
  | x :: a', y :: b' => N.eqb x y && str_eqb a' b'
  | _, _ => false
  end.
Fixpoint index_of (s : str) (l : list str) (k : nat) : option nat :=
  match l with [] => None | x :: r => if str_eqb s x then Some k else index_of s r (S k) end.
(* index of the first occurrence among the distinct strings, in order of appearance *)
Fixpoint pattern (seen : list str) (l : list str) : list nat :=
  match l with
  | [] => []
  | s :: r => match index_of s seen 0 with
              | Some k => k :: pattern seen r
              | None => length seen :: pattern (seen ++ [s]) r
              end
  end.

Definition run_case (items : list (graph * list (N * Z) * list (N * Z))) (others : list graph) : tok :=
  let rows := map (fun it => let '(g, wl, mg) := it in L [run_generic g; run_rank wl g; run_rank mg g; run_nauty g]) items in
  let sers := flat_map (fun it => let '(g, wl, mg) := it in [ser_generic g; ser_rank wl g; ser_rank mg g; ser_nauty g]) items
              ++ flat_map (fun h => [ser_generic h; ser_nauty h]) others in
  L [L rows; tlist tnat (pattern [] sers)].

(* ------------------------------------------------------------------ value objects (round 2; additions only) *)
(* SynGraph.__eq__/__hash__: signature of the raw graph; CanonicalGraph: signature of the canonical graph;
   SynRule.__eq__ (after repair 6662066): (left, right) signatures and the reaction-centre signature.
   The digest is not modelled: equality of digests is equality of the serialisation strings under the monitored
   premise that the digest does not collide on the strings compared. *)
Definition syngraph_eqb (ser : graph -> str) (g h : graph) : bool := str_eqb (ser g) (ser h).
Definition cangraph_eqb (canon : graph -> graph) (ser : graph -> str) (g h : graph) : bool :=
  str_eqb (ser (canon g)) (ser (canon h)).
Definition synrule_eqb (ser : graph -> str) (a b : graph * graph * graph) : bool :=      (* (rc, left, right) *)
  str_eqb (ser (snd (fst a))) (ser (snd (fst b))) && str_eqb (ser (snd a)) (ser (snd b))
  && str_eqb (ser (fst (fst a))) (ser (fst (fst b))).

(* equality verdicts of the wrappers of the base presentation against every other presentation / mutant *)
Definition run_vo (g : graph) (hs : list graph) : tok :=
  tlist (fun h => L [tbool (syngraph_eqb ser_generic g h); tbool (cangraph_eqb canon_generic ser_generic g h);
                     tbool (syngraph_eqb ser_nauty g h); tbool (cangraph_eqb canon_nauty ser_nauty g h)]) hs.
Definition run_case2 (items : list (graph * list (N * Z) * list (N * Z))) (others : list graph) : tok :=
  match items with
  | [] => L [run_case items others; L []]
  | (g, _, _) :: rest => L [run_case items others; run_vo g (map (fun it => fst (fst it)) rest ++ others)]
  end.
(* whole-family batches: equality pattern of the signatures, per back-end *)
Definition run_batch (gs : list graph) : tok :=
  L [tlist tnat (pattern [] (map ser_generic gs)); tlist tnat (pattern [] (map ser_nauty gs))].

(* SynRule.__eq__ exercised on rules assembled from fragment graphs (rc, left, right): (g,g,g) against
   (h,g,g), (g,h,g), (g,g,h) - each verdict isolates one of the three compared signatures *)
Definition run_rule_vo (g : graph) (hs : list graph) : tok :=
  tlist (fun h => L (flat_map (fun ser : graph -> str =>
                                 [tbool (synrule_eqb ser (g, g, g) (h, g, g)); tbool (synrule_eqb ser (g, g, g) (g, h, g));
                                  tbool (synrule_eqb ser (g, g, g) (g, g, h))]) [ser_generic; ser_nauty])) hs.
Definition run_case3 (items : list (graph * list (N * Z) * list (N * Z))) (others rule_hs : list graph) : tok :=
  match items with
  | [] => L [run_case2 items others; L []]
  | (g, _, _) :: _ => L [run_case2 items others; run_rule_vo g rule_hs]
  end.

(* NautyCanonicalizer.graph_signature: the digest of the label of the canonical graph read in the order 1..N *)
Definition graph_sig_label (g : graph) : str := nlabel (canon_nauty g) (sorted_ids (canon_nauty g)).
Definition run_case4 (items : list (graph * list (N * Z) * list (N * Z))) (others rule_hs : list graph) : tok :=
  L [run_case3 items others rule_hs;
     tlist (fun it : graph * list (N * Z) * list (N * Z) => tstrN (graph_sig_label (fst (fst it)))) items;
     tlist tnat (pattern [] (map (fun it : graph * list (N * Z) * list (N * Z) => graph_sig_label (fst (fst it))) items
                             ++ map graph_sig_label others))].

(* NautyCanonicalizer(edge_attrs=["order"]) (standard_order not selected): the search on the graph with every
   standard_order removed; the label text of that selection has one field less per edge bit ("1:o" / "0:" instead of
   "1:o:" / "0::"), which does not change the order of two labels, so the canonical permutation is the same (compared
   with the implementation on every run) *)
Definition strip_std (g : graph) : graph :=
  LG (gnodes g) (map (fun e : N * N * eattr => let '(u, v, a) := e in (u, v, EA3 (eo a) None (et a))) (gedges g)).
Definition run_case5 (items : list (graph * list (N * Z) * list (N * Z))) (others rule_hs : list graph) : tok :=
  L [run_case4 items others rule_hs;
     tlist (fun it : graph * list (N * Z) * list (N * Z) => tlist tN (nauty_perm (strip_std (fst (fst it))))) items].

(* NautyCanonicalizer.compute_orbits (union-find over the positions of the best permutation, fed with the reported
   permutations): the classes of the equivalence generated by the pairs (best_i, reported_i).  [rep] maps a node to the
   representative of its class; uniting a and b redirects the class of b to the representative of a. *)
Definition union_rep (a b : N) (rep : N -> N) : N -> N :=
  let ra := rep a in let rb := rep b in fun z => let rz := rep z in if N.eqb rz rb then ra else rz.
Definition orbit_rep (first : list N) (auts : list (list N)) : N -> N :=
  fold_left (fun rep q => fold_left (fun rep ab => union_rep (fst ab) (snd ab) rep) (combine first q) rep) auts (fun z => z).
Definition orbit_classes (first : list N) (auts : list (list N)) : list (list N) :=
  let rep := orbit_rep first auts in
  map (fun k => filter (fun v => N.eqb (rep v) k) first) (nodup N.eq_dec (map rep first)).
Definition nauty_orbits (g : graph) : list (list N) := orbit_classes (nauty_perm g) (snd (nauty_acc g)).
Definition run_case6 (items : list (graph * list (N * Z) * list (N * Z))) (others rule_hs : list graph) : tok :=
  L [run_case5 items others rule_hs;
     tlist (fun it : graph * list (N * Z) * list (N * Z) => tset (tset tN) (nauty_orbits (fst (fst it)))) items].

(* ------------------------------------------------------------------ max_depth (round 5; additions only) *)
(* _search(..., depth, max_depth): "if max_depth is not None and depth > max_depth: return True" on entry (depth = length of the
   prefix), and "if self._search(...): return True" in the loop over the children - the first node deeper than max_depth
   abandons the WHOLE search; canonical_form then uses the best leaf found so far (RuntimeError when there is none) and
   reports early_stop = True.  The accumulator is paired with the early-stop flag. *)
Fixpoint nsearch_md (md : nat) (g : graph) (fuel : nat) (P : partition) (pre : list N) (a : nacc) : nacc * bool :=
  match fuel with
  | 0 => (a, false)
  | S f =>
      if Nat.ltb md (length pre) then (a, true) else
      let P' := nrefine g P in
      match first_big P' with
      | None => (nvisit g a (mkleaf pre (concat P')), false)
      | Some i => fold_left (fun (s : nacc * bool) v => if snd s then s
                                        else if npruned g (fst s) (pre ++ [v]) then s
                                        else nsearch_md md g f (individualise P' i v) (pre ++ [v]) (fst s))
                            (children g (nth i P' [])) (a, false)
      end
  end.
Definition nauty_md (md : nat) (g : graph) : nacc * bool := nsearch_md md g (sfuel g) (init_partition g) [] (None, []).
(* canonical_form(G, return_perm=True, max_depth=md): None = RuntimeError, else (perm, early_stop) *)
Definition canon_md (md : nat) (g : graph) : option (list N * bool) :=
  match fst (fst (nauty_md md g)) with Some (_, p) => Some (p, snd (nauty_md md g)) | None => None end.
Definition run_md (g : graph) (mds : list nat) : tok :=
  tlist (fun md => topt (fun pb : list N * bool => L [tlist tN (fst pb); tbool (snd pb)]) (canon_md md g)) mds.
(* the base presentation under max_depth = each of [mds] (the harness sends 0, 1, 2 and the number of nodes) *)
Definition run_case7 (items : list (graph * list (N * Z) * list (N * Z))) (others rule_hs : list graph) (mds : list nat) : tok :=
  L [run_case6 items others rule_hs;
     match items with [] => L [] | it :: _ => run_md (fst (fst it)) mds end].
