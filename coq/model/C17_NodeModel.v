(** C17 — node layer of synkit/CRN/Props/utils.py:_species_and_reaction_order and
    stoich.py:build_S_minus_plus: the code works on a bipartite graph whose nodes carry IDENTIFIERS
    (integers 1..N+M of the hypergraph export, prefixed strings, or whatever a caller chose) next to their
    labels; the row / column index of a node is looked up by its identifier, the matrices are filled arc by
    arc.  model/C17_Model.v abstracts identifiers away (a species IS its label, a reaction its edge id);
    this file models the identifier level, proof/C17_Nodes.v proves that for every injective identifier
    assignment it computes the same labels and the same matrices.  Definitions only.

    Identifiers are numbers here; what matters is only that they can be compared for equality (dict keys). *)
From Coq Require Import List NArith ZArith Bool Arith.
From SK Require Import lib.Tok lib.IRSortKeys lib.C17_Farkas model.C17_Model.
Import ListNotations.

Record bnode := BNode { bn_id : N; bn_label : str }.
Record barc := BArc { ba_species : N; ba_rxn : N; ba_stoich : Z; ba_role : role }.
Record bgraph := BG { bg_species : list bnode;      (* species nodes, in G.nodes order *)
                      bg_rxns : list bnode;         (* reaction nodes, in G.nodes order; label = rule *)
                      bg_arcs : list barc }.        (* G.edges(data=True) with the species / reaction end told apart *)

(** hypergraph_to_bipartite under a node-identifier assignment ([ids]: species label -> id, [idr]: edge id -> id) *)
Definition export (ids idr : str -> N) (net : list rxn) (iso : list str) : bgraph :=
  BG (map (fun s => BNode (ids s) s) (species_set net iso))
     (map (fun e => BNode (idr (rid e)) (rrule e)) (edges_sorted net))
     (map (fun a => BArc (ids (a_species a)) (idr (a_rxn a)) (a_stoich a) (a_role a)) (bip_arcs net)).

(** _species_and_reaction_order: nodes sorted by label (stable), labels listed, index dict node id -> position *)
Definition nodes_sorted (l : list bnode) : list bnode := isort (fun a b => strleb (bn_label a) (bn_label b)) l.
Definition node_labels (l : list bnode) : list str := map bn_label (nodes_sorted l).
Definition node_index (l : list bnode) : list (N * nat) :=
  combine (map bn_id (nodes_sorted l)) (seq 0 (length l)).
Fixpoint index_get (d : list (N * nat)) (u : N) : option nat :=
  match d with
  | [] => None
  | (v, i) :: d' => if N.eqb v u then Some i else index_get d' u
  end.

(** M[i][j] += c *)
Fixpoint row_add (r : list Z) (j : nat) (c : Z) : list Z :=
  match r, j with
  | [], _ => []
  | x :: r', O => (x + c)%Z :: r'
  | x :: r', S j' => x :: row_add r' j' c
  end.
Fixpoint mat_add (M : list (list Z)) (i j : nat) (c : Z) : list (list Z) :=
  match M, i with
  | [], _ => []
  | r :: M', O => row_add r j c :: M'
  | r :: M', S i' => r :: mat_add M' i' j c
  end.
Definition zeros (m n : nat) : list (list Z) := repeat (repeat 0%Z n) m.

(** build_S_minus_plus: one pass over the arcs *)
Definition fill (ro : role) (G : bgraph) : list (list Z) :=
  let si := node_index (bg_species G) in
  let ri := node_index (bg_rxns G) in
  fold_left (fun M a =>
               if role_eqb (ba_role a) ro
               then match index_get si (ba_species a), index_get ri (ba_rxn a) with
                    | Some i, Some j => mat_add M i j (ba_stoich a)
                    | _, _ => M
                    end
               else M)
            (bg_arcs G) (zeros (length (bg_species G)) (length (bg_rxns G))).

Definition build_S_nodes (G : bgraph) : list (list Z) := msub (fill Product G) (fill Reactant G).

(** observable: the observable of [run] with the slots that the code computes at the identifier level (species labels,
    reaction labels, S, S_minus, S_plus) REPLACED by the identifier-level computation on the export under the node
    identifiers the real graph carries ([sid] aligned with species_set, [rids] with edges_sorted) *)
Definition look (keys : list str) (vals : list N) (k : str) : N :=
  match find (fun p => streqb (fst p) k) (combine keys vals) with Some p => snd p | None => 0%N end.

Definition graph_of (net : list rxn) (iso : list str) (sid rids : list N) : bgraph :=
  export (look (species_set net iso) sid) (look (map rid (edges_sorted net)) rids) net iso.

(** the four premises of [C17_verdicts_sound] (a flag of the external numerics that is set must be true), checked on THIS input against
    the certified truths: scan of the left basis / LP of _positive_conservation_law_from_basis -> a law exists; LP of is_consistent
    accepted / scan of the right basis -> a flux exists.  The implementation side of the slot is four Trues: a premise that fails on
    some input is a correspondence break. *)
Definition premises_ok (n : nat) (S : list (list Z)) (cc fc : fcert) (nm : numerics) : list bool :=
  let tc := match decide_conservative n S cc with Some true => true | _ => false end in
  let tf := match decide_consistent n S fc with Some true => true | _ => false end in
  [implb (nm_scanL nm) tc; implb (nm_lpL nm) tc; implb (Nat.eqb (nm_lpR nm) 0) tf; implb (nm_scanR nm) tf].

Definition run_ids (net : list rxn) (iso : list str) (rc : rcert) (cc fc : fcert) (nm : numerics) (sid rids : list N) : tok :=
  let G := graph_of net iso sid rids in
  match run net iso rc cc fc nm with
  | L (t0 :: _ :: _ :: _ :: _ :: _ :: rest) =>
      L (t0 :: tlist tstrN (node_labels (bg_species G)) :: tlist tstrN (node_labels (bg_rxns G))
            :: tmat (build_S_nodes G) :: tmat (fill Reactant G) :: tmat (fill Product G)
            :: rest ++ [tlist tbool (premises_ok (length (reaction_order net)) (build_S net iso) cc fc nm)])
  | t => t
  end.
