(** C16 — executable model of the network view converters
      synkit/CRN/Hypergraph/conversion.py   hypergraph_to_bipartite / bipartite_to_hypergraph,
                                            hypergraph_to_species_graph / species_graph_to_hypergraph,
                                            hypergraph_to_rxn_strings / rxns_to_hypergraph
      synkit/CRN/Hypergraph/rxn.py          RXNSide.from_str
      synkit/CRN/Hypergraph/hypergraph.py   add_rxn_from_str / parse_rxns
    on top of the store model of C15 (a hypergraph value is a [net]; imports rebuild it with [add]).
    Definitions only; proofs are in proof/C16_*.v.

    Conventions.  Text is [string] (bytes; ASCII + the printer's own U+2205 as its three UTF-8 bytes); the
    tokeniser works on [list ascii].  A networkx DiGraph is a finite map of nodes to attribute records
    (every attribute optional; [add_node]/[add_edge] on an existing key MERGE attributes as networkx does)
    and a finite map of arcs.  Node ids are [N + string] (integer_ids=True / False).  Where the Python
    result cannot depend on dict/set iteration order (sums, unions, minima, maps keyed by distinct ids) the
    model folds over the finite map; where it can (printed line order, integer numbering, order of add_rxn
    calls) the model sorts exactly as the code does.  Things the code derives from [hash()] (ids of
    reaction nodes without an id attribute, arcs without [via]) are reported as [EUnmodelled]. *)
From stdpp Require Import gmap strings sets pretty sorting.
From Coq Require Import Ascii.
From SK Require Import lib.Tok model.C15_Model.
Local Open Scope string_scope.

(** * Text *)
Notation chars := (list ascii).
Definition to_chars : string → chars := list_ascii_of_string.
Definition of_chars : chars → string := string_of_list_ascii.
Definition sb (l : list N) : string := of_chars (ascii_of_N <$> l).     (* harness literal for non-printable text *)

Definition code (a : ascii) : N := N_of_ascii a.
(** str.isspace / re \s on ASCII: TAB LF VT FF CR, FS GS RS US, SPACE *)
Definition py_space (a : ascii) : bool :=
  let n := code a in ((9 <=? n) && (n <=? 13) || (28 <=? n) && (n <=? 32))%N.
Definition is_digit (a : ascii) : bool := let n := code a in ((48 <=? n) && (n <=? 57))%N.
Definition is_alpha (a : ascii) : bool :=
  let n := code a in ((65 <=? n) && (n <=? 90) || (97 <=? n) && (n <=? 122))%N.
Definition is_char (c a : ascii) : bool := bool_decide (a = c).

Fixpoint take_while (P : ascii → bool) (l : chars) : chars :=
  match l with a :: t => if P a then a :: take_while P t else [] | [] => [] end.
Fixpoint drop_while (P : ascii → bool) (l : chars) : chars :=
  match l with a :: t => if P a then drop_while P t else l | [] => [] end.
Definition lstrip (l : chars) : chars := drop_while py_space l.
Definition rstrip (l : chars) : chars := reverse (drop_while py_space (reverse l)).
Definition strip (l : chars) : chars := rstrip (lstrip l).

(** str.split(sep) for a one-character separator class: always at least one piece *)
Fixpoint split_by (P : ascii → bool) (l : chars) : list chars :=
  match l with
  | [] => [[]]
  | a :: t => if P a then [] :: split_by P t
              else match split_by P t with p :: ps => (a :: p) :: ps | [] => [[a]] end
  end.
(** str.split() without argument: runs of white space separate, no empty pieces *)
Definition py_words (l : chars) : list chars := filter (λ p, p ≠ []) (split_by py_space l).

Fixpoint join (sep : chars) (xs : list chars) : chars :=
  match xs with
  | [] => []
  | [x] => x
  | x :: xs' => x ++ sep ++ join sep xs'
  end.

(** s.split(c, 1) when c occurs: text before / after the first occurrence *)
Fixpoint split_first (P : ascii → bool) (l : chars) : chars * chars :=
  match l with
  | [] => ([], [])
  | a :: t => if P a then ([], t) else let '(x, y) := split_first P t in (a :: x, y)
  end.
(** core.split(">>", 1); None when ">>" does not occur *)
Fixpoint split_arrow (l : chars) : option (chars * chars) :=
  match l with
  | [] => None
  | a :: t => match t with
              | b :: t' => if is_char ">" a && is_char ">" b then Some ([], t')
                           else (λ p : chars * chars, (a :: p.1, p.2)) <$> split_arrow t
              | [] => None
              end
  end.

Definition digit_val (a : ascii) : N := (code a - 48)%N.
Definition digits_val (l : chars) : N := foldl (λ acc a, 10 * acc + digit_val a)%N 0%N l.

(** re.match of  ^(\d+)([A-Za-z].ANY)$  (ANY = any run of characters) on a blank-free token *)
Definition coef_split (tok : chars) : option (N * chars) :=
  match take_while is_digit tok, drop_while is_digit tok with
  | (_ :: _) as d, (a :: _) as rest => if is_alpha a then Some (digits_val d, rest) else None
  | _, _ => None
  end.

(** int(token): optional sign, decimal digits, single underscores between digits *)
Fixpoint int_digits (acc : N) (prev_digit : bool) (l : chars) : option N :=
  match l with
  | [] => if prev_digit then Some acc else None
  | a :: t => if is_digit a then int_digits (10 * acc + digit_val a)%N true t
              else if is_char "_" a && prev_digit then int_digits acc false t
              else None
  end.
Definition py_int (tok : chars) : option Z :=
  match tok with
  | a :: t => if is_char "-" a then (λ n, (- Z.of_N n)%Z) <$> int_digits 0 false t
              else if is_char "+" a then Z.of_N <$> int_digits 0 false t
              else Z.of_N <$> int_digits 0 false tok
  | [] => None
  end.

(** the printer's sign for an empty side, U+2205 in UTF-8 *)
Definition empty_sign : string := sb [226; 136; 133]%N.

(** * RXNSide.from_str *)
(** out[sp] = out.get(sp, 0) + c  guarded by  c > 0 *)
Definition side_add (out : side) (sp : string) (c : Z) : side :=
  if (0 <? c)%Z
  then <[ sp := match out !! sp with Some p => (p + Z.to_pos c)%positive | None => Z.to_pos c end ]> out
  else out.

Definition replace_star (l : chars) : chars := (λ a, if is_char "*" a then " "%char else a) <$> l.

(** one '+'-separated chunk; None = the IndexError of [toks[0]] on a chunk made of '*' only *)
Definition proc_part (out : side) (part : chars) : option side :=
  let toks := py_words (strip (replace_star part)) in
  match toks with
  | [] => None
  | [tok] => match coef_split tok with
             | Some (c, sp) => Some (side_add out (of_chars sp) (Z.of_N c))
             | None => Some (side_add out (of_chars tok) 1)
             end
  | t0 :: rest => match py_int t0 with
                  | Some c => Some (side_add out (of_chars (join [" "%char] rest)) c)
                  | None => Some (side_add out (of_chars (join [" "%char] toks)) 1)
                  end
  end.

Definition from_chars (sd : chars) : option side :=
  let sd := strip sd in
  if decide (sd = [] ∨ sd = to_chars empty_sign) then Some ∅
  else foldl (λ acc p, acc ≫= λ out, proc_part out p) (Some ∅)
             (filter (λ p, p ≠ []) (strip <$> split_by (is_char "+") sd)).
Definition from_str (s : string) : option side := from_chars (to_chars s).

(** * add_rxn_from_str / parse_rxns *)
Inductive cerr := EKey | EValue | EIndex | EInternal | EUnmodelled.
Definition of_err (e : err) : cerr :=
  match e with KeyError => EKey | ValueError => EValue | InternalError => EInternal end.

(** re.search of  rule \s* = \s* ([^\s]+)  in meta: leftmost anchor at which the pattern matches *)
Definition rule_at (l : chars) : option chars :=
  match l with
  | a1 :: a2 :: a3 :: a4 :: t =>
      if is_char "r" a1 && is_char "u" a2 && is_char "l" a3 && is_char "e" a4 then
        match drop_while py_space t with
        | e :: t2 => if is_char "=" e then
                       match take_while (λ a, negb (py_space a)) (drop_while py_space t2) with
                       | [] => None
                       | g => Some g
                       end
                     else None
        | [] => None
        end
      else None
  | _ => None
  end.
Fixpoint rule_search (l : chars) : option chars :=
  match rule_at l with
  | Some g => Some g
  | None => match l with [] => None | _ :: t => rule_search t end
  end.

Definition add_from_str (s : net) (reaction : string) (rule : option string) (parse_suffix : bool)
  : net * option cerr :=
  let rc := to_chars reaction in
  let '(core, rule_local) :=
    if parse_suffix && bool_decide ("|"%char ∈ rc) then
      let '(core, meta) := split_first (is_char "|") rc in
      (core, match rule with
             | None => of_chars <$> rule_search (strip meta)
             | Some r => Some r
             end)
    else (rc, rule) in
  match split_arrow (strip core) with
  | None => (s, Some EValue)
  | Some (lft, rgt) =>
      match from_chars lft with
      | None => (s, Some EIndex)
      | Some l =>
          match from_chars rgt with
          | None => (s, Some EIndex)
          | Some r => let '(s', er, _) := add s l r (default "" rule_local) None in (s', of_err <$> er)
          end
      end
  end.

(** the rule add_rxn_from_str reads from the suffix of a line (text after the first "|"), if any: the same test parse_rxns
    makes before it falls back to its [default_rule] (repo fix of round 5: before, a line without a rule suffix got add_rxn's
    "r" whatever [default_rule] said) *)
Definition suffix_rule (line : string) : option chars :=
  let rc := to_chars line in
  if bool_decide ("|"%char ∈ rc) then rule_search (strip (split_first (is_char "|") rc).2) else None.
Definition rule_or_default (line default_rule : string) : option string :=
  match suffix_rule line with Some _ => None | None => Some default_rule end.

(** re.search of  \| \s* rule \s* = \s* [^\s]+  in a line (used by parse_rxns to decide whether a suffix may override
    an explicit per-line rule) *)
Fixpoint bar_rule_search (l : chars) : bool :=
  match l with
  | [] => false
  | a :: t => (is_char "|" a && bool_decide (is_Some (rule_at (drop_while py_space t)))) || bar_rule_search t
  end.

(** one (line, explicit_rule) item of parse_rxns; [explicit = None] is a plain string (or a tuple/mapping entry whose
    rule is None) *)
Definition parse_item (s : net) (line : string) (explicit : option string) (default_rule : string)
    (parse_suffix prefer_suffix : bool) : net * option cerr :=
  match explicit with
  | Some r =>
      if prefer_suffix && parse_suffix then
        if bar_rule_search (to_chars line) then add_from_str s line None true
        else add_from_str s line (Some r) false
      else add_from_str s line (Some r) false
  | None => if parse_suffix then add_from_str s line (rule_or_default line default_rule) true
            else add_from_str s line (Some default_rule) false
  end.

(** parse_rxns on (line, rule) items: Iterable[Tuple], Mapping.items(), or lines zipped with [rules] *)
Definition parse_items (s : net) (items : list (string * option string)) (default_rule : string)
    (parse_suffix prefer_suffix : bool) : net * option cerr :=
  foldl (λ acc it,
           match acc with
           | (s, Some e) => (s, Some e)
           | (s, None) => parse_item s it.1 it.2 default_rule parse_suffix prefer_suffix
           end) (s, None) items.

(** parse_rxns on an iterable of plain strings (the only form rxns_to_hypergraph produces): no explicit
    per-line rule, so [prefer_suffix] is never consulted; [default_rule] is the rule of every line that carries no
    rule suffix (or of every line, when suffix parsing is off). *)
Definition parse_rxns (s : net) (lines : list string) (default_rule : string) (parse_suffix prefer_suffix : bool)
  : net * option cerr :=
  foldl (λ acc line,
           match acc with
           | (s, Some e) => (s, Some e)
           | (s, None) => if parse_suffix then add_from_str s line (rule_or_default line default_rule) true
                          else add_from_str s line (Some default_rule) false
           end) (s, None) lines.
Definition rxns_to_hypergraph (lines : list string) (default_rule : string) (ps pf : bool) : net * option cerr :=
  parse_rxns empty_net lines default_rule ps pf.

(** * hypergraph_to_rxn_strings *)
Definition sle (a b : string) : Prop := String.leb a b = true.
Global Instance sle_dec : RelDecision sle := λ a b, decide (String.leb a b = true).
Definition sort_strings (l : list string) : list string := merge_sort sle l.
Definition key_le {A} (a b : string * A) : Prop := sle a.1 b.1.
Global Instance key_le_dec {A} : RelDecision (@key_le A) := λ a b, decide (String.leb a.1 b.1 = true).
Definition sort_by_key {A} (l : list (string * A)) : list (string * A) := merge_sort key_le l.

Definition fmt_term (p : string * positive) : string :=
  if decide (p.2 = 1%positive) then p.1 else pretty (Npos p.2) +:+ p.1.
Definition fmt_side (sd : side) : string :=
  if decide (sd = ∅) then empty_sign
  else of_chars (join (to_chars " + ") (to_chars ∘ fmt_term <$> sort_by_key (map_to_list sd))).

Definition fmt_line (include_rule include_id : bool) (e : string) (rx : rxn) : string :=
  let line := fmt_side (r_lhs rx) +:+ " >> " +:+ fmt_side (r_rhs rx) in
  let parts := ((if include_rule && negb (bool_decide (r_rule rx = "")) then ["rule=" +:+ r_rule rx] else [])
                ++ (if include_id then ["id=" +:+ e] else []))%list in
  match parts with
  | [] => line
  | _ => line +:+ " | " +:+ of_chars (join [" "%char] (to_chars <$> parts))
  end.

Definition hypergraph_to_rxn_strings (H : net) (include_rule include_id sort : bool) : list string :=
  let items := if sort then sort_by_key (map_to_list (edges H)) else edge_seq H in
  (λ p, fmt_line include_rule include_id p.1 p.2) <$> items.

(** * Bipartite view *)
Definition nid := (N + string)%type.
Record bnode := BNode { bn_bip : option Z; bn_label : option string; bn_kind : option string;
                        bn_mol : option string; bn_eid : option string }.
Record barc := BArc { ba_stoich : option Z; ba_role : option string }.
Record bgraph := BGraph { b_nodes : gmap nid bnode; b_arcs : gmap (nid * nid) barc }.

Definition opt_upd {A} (new old : option A) : option A := match new with Some x => Some x | None => old end.
(** G.add_node(n, **new) on an existing node: attribute-wise update *)
Definition bnode_upd (new old : bnode) : bnode :=
  BNode (opt_upd (bn_bip new) (bn_bip old)) (opt_upd (bn_label new) (bn_label old)) (opt_upd (bn_kind new) (bn_kind old))
        (opt_upd (bn_mol new) (bn_mol old)) (opt_upd (bn_eid new) (bn_eid old)).
Definition barc_upd (new old : barc) : barc :=
  BArc (opt_upd (ba_stoich new) (ba_stoich old)) (opt_upd (ba_role new) (ba_role old)).

Record bflags := BFlags {
  f_sp : option string; f_rp : option string; f_bv_s : Z; f_bv_r : Z;
  f_stoich : bool; f_role : bool; f_isolated : bool; f_int : bool; f_eid : bool; f_mol : bool }.

Record est := Est { e_nodes : gmap nid bnode; e_arcs : gmap (nid * nid) barc; e_smap : gmap string nid; e_next : N }.

Definition sp_attrs (fl : bflags) (H : net) (s : string) : bnode :=
  BNode (Some (f_bv_s fl)) (Some s) (Some "species") (if f_mol fl then mol H !! s else None) None.
Definition rx_attrs (fl : bflags) (e rule : string) : bnode :=
  BNode (Some (f_bv_r fl)) (Some rule) (Some "reaction") None (if f_eid fl then Some e else None).

Definition add_sp_node (fl : bflags) (H : net) (st : est) (s : string) : est * nid :=
  match e_smap st !! s with
  | Some n => (st, n)
  | None =>
      let n : nid := if f_int fl then inl (e_next st) else inr (default "" (f_sp fl) +:+ s) in
      let nx := if f_int fl then (e_next st + 1)%N else e_next st in
      let nodes := match e_nodes st !! n with Some _ => e_nodes st | None => <[ n := sp_attrs fl H s ]> (e_nodes st) end in
      (Est nodes (e_arcs st) (<[ s := n ]> (e_smap st)) nx, n)
  end.
Definition add_rxn_node (fl : bflags) (st : est) (e rule : string) : est * nid :=
  let n : nid := if f_int fl then inl (e_next st) else inr (default "" (f_rp fl) +:+ e) in
  let nx := if f_int fl then (e_next st + 1)%N else e_next st in
  let old := default (BNode None None None None None) (e_nodes st !! n) in
  (Est (<[ n := bnode_upd (rx_attrs fl e rule) old ]> (e_nodes st)) (e_arcs st) (e_smap st) nx, n).
Definition add_arc (st : est) (u v : nid) (a : barc) : est :=
  let old := default (BArc None None) (e_arcs st !! (u, v)) in
  Est (e_nodes st) (<[ (u, v) := barc_upd a old ]> (e_arcs st)) (e_smap st) (e_next st).
Definition arc_attrs (fl : bflags) (c : positive) (role : string) : barc :=
  BArc (if f_stoich fl then Some (Z.pos c) else None) (if f_role fl then Some role else None).

Definition export_rxn (fl : bflags) (H : net) (st : est) (p : string * rxn) : est :=
  let '(st1, rnd) := add_rxn_node fl st p.1 (r_rule p.2) in
  let st2 := foldl (λ st sc, let '(st', u) := add_sp_node fl H st sc.1 in
                             add_arc st' u rnd (arc_attrs fl sc.2 "reactant")) st1 (map_to_list (r_lhs p.2)) in
  foldl (λ st sc, let '(st', v) := add_sp_node fl H st sc.1 in
                  add_arc st' rnd v (arc_attrs fl sc.2 "product")) st2 (map_to_list (r_rhs p.2)).

Definition species_iter (fl : bflags) (H : net) : list string :=
  sort_strings (elements (if f_isolated fl then species H
                          else filter (λ s, default ∅ (s_in H !! s) ≠ ∅ ∨ default ∅ (s_out H !! s) ≠ ∅) (species H))).

Definition export_state (fl : bflags) (H : net) : est :=
  let st0 := foldl (λ st s, (add_sp_node fl H st s).1) (Est ∅ ∅ ∅ 1%N) (species_iter fl H) in
  foldl (export_rxn fl H) st0 (sort_by_key (map_to_list (edges H))).
Definition hypergraph_to_bipartite (fl : bflags) (H : net) : bgraph :=
  let st := export_state fl H in BGraph (e_nodes st) (e_arcs st).

(** ** facades: conversion._as_bipartite (its own keyword defaults: integer ids!) and backend._CRNGraphBackend.G *)
Definition as_bipartite (sp rp : option string) (int_ st : option bool) (H : net) : bgraph :=
  hypergraph_to_bipartite (BFlags (Some (default "S:" sp)) (Some (default "R:" rp)) 0 1 (default true st) true true
                                  (default true int_) false false) H.
Definition backend_bipartite (int_ st : bool) (H : net) : bgraph :=
  hypergraph_to_bipartite (BFlags None None 0 1 st true true int_ false false) H.

(** ** import *)
Record iflags := IFlags { i_sp : string; i_rp : string; i_default_rule : string; i_mol : bool }.
Definition default_iflags (mol_attr : bool) : iflags := IFlags "S:" "R:" "r" mol_attr.

Definition nid_str (n : nid) : string := match n with inl k => pretty k | inr s => s end.     (* str(node) *)
Definition nid_le (a b : nid) : Prop :=
  match a, b with
  | inl x, inl y => (x ≤ y)%N
  | inr x, inr y => sle x y
  | inl _, inr _ => True
  | inr _, inl _ => False
  end.
Global Instance nid_le_dec : RelDecision nid_le.
Proof. intros [x|x] [y|y]; simpl; apply _. Defined.
Definition starts_with (p : string) (n : nid) : bool :=
  match n with inr s => bool_decide (String.prefix p s = true) | inl _ => false end.

Definition classify (fl : iflags) (G : bgraph) : gset nid * gset nid :=
  let untagged (nd : bnode) := bn_kind nd ≠ Some "species" ∧ bn_kind nd ≠ Some "reaction" in
  let sp := dom (filter (λ p : nid * bnode,
                   bn_kind p.2 = Some "species" ∨ (untagged p.2 ∧ starts_with (i_sp fl) p.1 = true)) (b_nodes G)) in
  let rx := dom (filter (λ p : nid * bnode,
                   bn_kind p.2 = Some "reaction"
                   ∨ (untagged p.2 ∧ starts_with (i_sp fl) p.1 = false ∧ starts_with (i_rp fl) p.1 = true)) (b_nodes G)) in
  if decide (sp = ∅ ∧ rx = ∅) then
    (* permissive guess: out-degree > 0 -> species, in-degree > 0 -> reaction *)
    (set_map fst (dom (b_arcs G)), set_map snd (dom (b_arcs G)))
  else (sp, rx).

Definition node_label (G : bgraph) (n : nid) : string :=
  default (nid_str n) (b_nodes G !! n ≫= bn_label).

(** reactants_map / products_map of one reaction node: the (label, int(stoich or 1)) contributions of the arcs
    from / to species nodes, then  m[label] = m.get(label, 0) + sto *)
Definition side_contribs (G : bgraph) (spn : gset nid) (rnd : nid) (incoming : bool) : list (string * Z) :=
  omap (λ p : nid * nid * barc,
          let other := if incoming then p.1.1 else p.1.2 in
          let this := if incoming then p.1.2 else p.1.1 in
          if decide (this = rnd ∧ other ∈ spn) then Some (node_label G other, default 1%Z (ba_stoich p.2)) else None)
       (map_to_list (b_arcs G)).
Definition sum_map (l : list (string * Z)) : gmap string Z :=
  foldl (λ acc lz, <[ lz.1 := (default 0 (acc !! lz.1) + lz.2)%Z ]> acc) ∅ l.
Definition side_map (G : bgraph) (spn : gset nid) (rnd : nid) (incoming : bool) : gmap string Z :=
  sum_map (side_contribs G spn rnd incoming).

Definition import_rxn (fl : iflags) (G : bgraph) (spn : gset nid) (acc : net * option cerr) (rnd : nid)
  : net * option cerr :=
  match acc with
  | (s, Some e) => (s, Some e)
  | (s, None) =>
      let rm := side_map G spn rnd true in
      let pm := side_map G spn rnd false in
      let nd := default (BNode None None None None None) (b_nodes G !! rnd) in
      (* a node without arcs from / to species nodes is skipped, whatever its attributes *)
      if decide (rm = ∅ ∧ pm = ∅) then (s, None)
      else match bn_eid nd with
           | None => (s, Some EUnmodelled)          (* id synthesised from hash(payload) AND used *)
           | Some e =>
               let '(s', er, _) := add s (normalize (map_to_list rm)) (normalize (map_to_list pm))
                                       (default (i_default_rule fl) (bn_label nd)) (Some e) in
               (s', of_err <$> er)
           end
  end.

Definition set_mol (s : net) (x m : string) : net :=
  Net (species s) (edges s) (order s) (s_in s) (s_out s) (counters s) (<[ x := m ]> (mol s)) (kept s).

Definition import_mols (G : bgraph) (spn : gset nid) (s : net) : net :=
  foldl (λ acc n, match b_nodes G !! n ≫= bn_mol with
                  | Some m => let lbl := node_label G n in
                              if decide (lbl ∈ species acc) then set_mol acc lbl m else acc
                  | None => acc
                  end) s (elements spn).

Definition bipartite_to_hypergraph (fl : iflags) (G : bgraph) : net * option cerr :=
  let '(spn, rxn_nodes) := classify fl G in
  match foldl (import_rxn fl G spn) (empty_net, None) (merge_sort nid_le (elements rxn_nodes)) with
  | (s, Some e) => (s, Some e)
  | (s, None) => (if i_mol fl then import_mols G spn s else s, None)
  end.

(** * Species graph view *)
Record snode := SNode { sn_label : option string; sn_kind : option string; sn_mol : option string }.
Record sarc := SArc { sa_via : gset string; sa_rules : gset string; sa_r : Z; sa_p : Z;
                      sa_rmap : gmap string Z; sa_pmap : gmap string Z }.
Record sgraph := SGraph { g_nodes : gmap string snode; g_arcs : gmap (string * string) sarc }.

Definition ensure_node (x : string) (nodes : gmap string snode) : gmap string snode :=
  match nodes !! x with Some _ => nodes | None => <[ x := SNode None None None ]> nodes end.

Definition collapse_pair (e rule : string) (G : sgraph) (r : string) (rc : positive) (p : string) (pc : positive) : sgraph :=
  let a := match g_arcs G !! (r, p) with
           | Some d => SArc ({[ e ]} ∪ sa_via d) ({[ rule ]} ∪ sa_rules d) (Z.min (sa_r d) (Z.pos rc)) (Z.min (sa_p d) (Z.pos pc))
                            (<[ e := Z.pos rc ]> (sa_rmap d)) (<[ e := Z.pos pc ]> (sa_pmap d))
           | None => SArc {[ e ]} {[ rule ]} (Z.pos rc) (Z.pos pc) {[ e := Z.pos rc ]} {[ e := Z.pos pc ]}
           end in
  SGraph (ensure_node p (ensure_node r (g_nodes G))) (<[ (r, p) := a ]> (g_arcs G)).

Definition collapse_rxn (e : string) (rx : rxn) (G : sgraph) : sgraph :=
  foldl (λ G rc, foldl (λ G pc, collapse_pair e (r_rule rx) G rc.1 rc.2 pc.1 pc.2) G (map_to_list (r_rhs rx)))
        G (map_to_list (r_lhs rx)).

Definition hypergraph_to_species_graph (include_mol : bool) (H : net) : sgraph :=
  let nodes := foldl (λ acc s, <[ s := SNode (Some s) (Some "species") (if include_mol then mol H !! s else None) ]> acc)
                     ∅ (elements (species H)) in
  foldl (λ G p, collapse_rxn p.1 p.2 G) (SGraph nodes ∅) (map_to_list (edges H)).

(** ** import *)
Record sentry := SEntry { se_r : gmap string Z; se_p : gmap string Z; se_rules : gset string; se_clash : bool }.
Definition snode_label (G : sgraph) (x : string) : string := default x (g_nodes G !! x ≫= sn_label).

(** reactants[s].append(c) with only vals[0] used later: the first value wins; the model flags a clash when two
    different values meet (then the Python result would depend on arc iteration order) *)
Definition put_first (m : gmap string Z) (s : string) (c : Z) : gmap string Z * bool :=
  match m !! s with
  | Some c' => (m, bool_decide (c' ≠ c))
  | None => (<[ s := c ]> m, false)
  end.

Definition group_one (G : sgraph) (uv : string * string) (a : sarc) (acc : gmap string sentry) (e : string)
  : gmap string sentry :=
  let ent := default (SEntry ∅ ∅ ∅ false) (acc !! e) in
  let sr := default (sa_r a) (sa_rmap a !! e) in
  let sp := default (sa_p a) (sa_pmap a !! e) in
  let '(rm, c1) := put_first (se_r ent) (snode_label G uv.1) sr in
  let '(pm, c2) := put_first (se_p ent) (snode_label G uv.2) sp in
  <[ e := SEntry rm pm (se_rules ent ∪ sa_rules a) (se_clash ent || c1 || c2) ]> acc.

Definition group_arc (G : sgraph) (acc : gmap string sentry * bool) (p : string * string * sarc)
  : gmap string sentry * bool :=
  if decide (sa_via p.2 = ∅) then (acc.1, true)            (* synthetic id from hash((u, v)) *)
  else (foldl (group_one G p.1 p.2) acc.1 (elements (sa_via p.2)), acc.2).

Definition species_graph_entries (G : sgraph) : gmap string sentry * bool :=
  foldl (group_arc G) (∅, false) (map_to_list (g_arcs G)).

Definition species_graph_to_hypergraph (pick : gset string → string) (default_rule : string) (mol_attr : bool) (G : sgraph)
  : net * option cerr :=
  let '(ents, unmodelled) := species_graph_entries G in
  if unmodelled || bool_decide (map_Exists (λ _ ent, se_clash ent = true) ents) then (empty_net, Some EUnmodelled)
  else
    match foldl (λ (acc : net * option cerr) (p : string * sentry),
                   match acc with
                   | (s, Some e) => (s, Some e)
                   | (s, None) =>
                       let rule := if decide (se_rules p.2 = ∅) then default_rule else pick (se_rules p.2) in
                       let '(s', er, _) := add s (normalize (map_to_list (se_r p.2))) (normalize (map_to_list (se_p p.2)))
                                               rule (Some p.1) in (s', of_err <$> er)
                   end) (empty_net, None) (sort_by_key (map_to_list ents)) with
    | (s, Some e) => (s, Some e)
    | (s, None) =>
        (if mol_attr then
           foldl (λ acc (xn : string * snode),
                    match sn_mol xn.2 with
                    | Some m => let lbl := default xn.1 (sn_label xn.2) in
                                if decide (lbl ∈ species acc) then set_mol acc lbl m else acc
                    | None => acc
                    end) s (map_to_list (g_nodes G))
         else s, None)
    end.

(** * Building the input network exactly as the harness builds the CRNHyperGraph *)
Definition mk_net (kept : list string) (rxns : list (option string * string * list (string * Z) * list (string * Z)))
    (mols : list (string * string)) : net :=
  let s1 := foldl (λ s x, match add s (normalize [(x, 1%Z)]) ∅ "k" (Some "__k") with
                          | (s', None, _) => (remove_species s' x false).1
                          | (_, Some _, _) => s
                          end) empty_net kept in
  let s2 := foldl (λ s (q : option string * string * list (string * Z) * list (string * Z)),
                     let '(eid, rule, l, r) := q in (add s (normalize l) (normalize r) rule eid).1.1) s1 rxns in
  foldl (λ s xm, (assign_mol s xm.1 xm.2).1) s2 mols.

(** * Observables *)
Definition tcerr (e : cerr) : tok :=
  match e with EKey => I 1 | EValue => I 2 | EInternal => I 3 | EIndex => I 4 | EUnmodelled => I 9 end.
Definition tnet16 (rule_of : string → rxn → tok) (order_of : net → list string) (s : net) : tok :=
  L [ tgset (species s);
      tset (λ p, L [tstr p.1; rule_of p.1 p.2; tside (r_lhs p.2); tside (r_rhs p.2)]) (map_to_list (edges s));
      tlist tstr (order_of s);
      tidx (s_in s); tidx (s_out s);
      tset (λ p, L [tstr p.1; tstr p.2]) (map_to_list (mol s)) ].
Definition tnet_plain : net → tok := tnet16 (λ _ rx, tstr (r_rule rx)) order.
Definition tres (f : net → tok) (r : net * option cerr) : tok :=
  match r with (s, None) => L [I 0; f s] | (_, Some e) => L [tcerr e] end.

Definition tnid (n : nid) : tok := match n with inl k => L [I 0; tN k] | inr s => L [I 1; tstr s] end.
Definition tbgraph (G : bgraph) : tok :=
  L [ tset (λ p : nid * bnode, L [tnid p.1; topt I (bn_bip p.2); topt tstr (bn_label p.2); topt tstr (bn_kind p.2);
                                  topt tstr (bn_mol p.2); topt tstr (bn_eid p.2)]) (map_to_list (b_nodes G));
      tset (λ p : nid * nid * barc, L [tnid p.1.1; tnid p.1.2; topt I (ba_stoich p.2); topt tstr (ba_role p.2)])
           (map_to_list (b_arcs G)) ].
Definition tzmap (m : gmap string Z) : tok := tset (λ p, L [tstr p.1; I p.2]) (map_to_list m).
Definition tsgraph (G : sgraph) : tok :=
  L [ tset (λ p : string * snode, L [tstr p.1; topt tstr (sn_label p.2); topt tstr (sn_kind p.2); topt tstr (sn_mol p.2)])
           (map_to_list (g_nodes G));
      tset (λ p : string * string * sarc, L [tstr p.1.1; tstr p.1.2; tgset (sa_via p.2); tgset (sa_rules p.2); I (sa_r p.2); I (sa_p p.2);
                                             tzmap (sa_rmap p.2); tzmap (sa_pmap p.2)]) (map_to_list (g_arcs G)) ].

Inductive view :=
| VBip (fl : bflags) (do_import mol_attr : bool)
| VStr (include_rule include_id sort : bool) (default_rule : string) (parse_suffix prefer_suffix : bool)
| VSg (include_mol mol_attr : bool)
| VSide (s : string)
| VLine (line : string) (rule : option string) (parse_suffix : bool)
| VParse (lines : list string) (default_rule : string) (parse_suffix prefer_suffix : bool)
| VSgX (include_mol : bool)                                   (* export only: _as_species_graph, backend *)
| VAsBip (sp rp : option string) (int_ st : option bool)      (* absent keyword = None *)
| VBackend (include_rule int_ st : bool)
| VBipI (fl : bflags) (ifl : iflags)                          (* import with non-default import options *)
| VItems (items : list (string * option string)) (default_rule : string) (parse_suffix prefer_suffix : bool).

Definition pick_first (X : gset string) : string := default "" (head (elements X)).

Definition run_view (H : net) (v : view) : tok :=
  match v with
  | VBip fl do_import mol_attr =>
      let G := hypergraph_to_bipartite fl H in
      L (tbgraph G :: if do_import then [tres tnet_plain (bipartite_to_hypergraph (default_iflags mol_attr) G)] else [])
  | VSg include_mol mol_attr =>
      let G := hypergraph_to_species_graph include_mol H in
      let ents := (species_graph_entries G).1 in
      (* the rule is an arbitrary element of the merged rule set: shown only when that set is a singleton *)
      let rule_of (e : string) (rx : rxn) :=
        let U : gset string := default ∅ (se_rules <$> ents !! e) in
        L [tstr (if decide (size U = 1%nat) then r_rule rx else ""); tbool (bool_decide (r_rule rx ∈ U))] in
      L [tsgraph G; tres (tnet16 rule_of (λ s, sort_strings (order s)))
                         (species_graph_to_hypergraph pick_first "r" mol_attr G)]
  | VStr ir ii srt dr ps pf =>
      let lines := hypergraph_to_rxn_strings H ir ii srt in
      L [tlist tstr lines; tres tnet_plain (rxns_to_hypergraph lines dr ps pf)]
  | VSide s => match from_str s with Some sd => L [I 0; tside sd] | None => L [I 4] end
  | VLine line rule ps => tres tnet_plain (add_from_str empty_net line rule ps)
  | VParse lines dr ps pf => tres tnet_plain (rxns_to_hypergraph lines dr ps pf)
  | VSgX include_mol => L [tsgraph (hypergraph_to_species_graph include_mol H)]
  | VBipI fl ifl =>
      let G := hypergraph_to_bipartite fl H in L [tbgraph G; tres tnet_plain (bipartite_to_hypergraph ifl G)]
  | VAsBip sp rp int_ st => L [tbgraph (as_bipartite sp rp int_ st H)]
  | VBackend include_rule int_ st =>
      if include_rule then L [tbgraph (backend_bipartite int_ st H)] else L [tsgraph (hypergraph_to_species_graph false H)]
  | VItems items dr ps pf => tres tnet_plain (parse_items empty_net items dr ps pf)
  end.

(** in-place edits of the network between two batches of views (public mutators; an error leaves the state the code leaves) *)
Inductive edit :=
| EAdd (eid : option string) (rule : string) (l r : list (string * Z))
| ERmRxn (e : string)
| ERmSp (x : string) (prune : bool)
| EMol (x m : string)
| EMolMap (mp : list (string * string)) (strict clear : bool)                                   (* H.set_mol_map(mp, strict=, clear_existing=) *)
| EMerge (kept : list string) (rxns : list (option string * string * list (string * Z) * list (string * Z)))
         (mols : list (string * string)) (prefix : bool).                                        (* H.merge(<another network>, prefix_edges=) *)
Definition apply_edit (s : net) (ed : edit) : net :=
  match ed with
  | EAdd eid rule l r => (add s (normalize l) (normalize r) rule eid).1.1
  | ERmRxn e => (remove_rxn s e).1
  | ERmSp x p => (remove_species s x p).1
  | EMol x m => (assign_mol s x m).1
  | EMolMap mp strict clear => (set_mol_map s mp strict clear).1
  | EMerge kept rxns mols prefix => (merge s (mk_net kept rxns mols) prefix).1
  end.

(** the network is observed before and after the views (the implementation runs them all on ONE object: an export that
    mutated it would show here) *)
Definition run_case (H : net) (vs : list view) : tok := L (tnet_plain H :: (run_view H <$> vs) ++ [tnet_plain H]).

(** a history: views, then in-place edits of the same object, then views again *)
Definition run_case2 (H : net) (vs : list view) (eds : list edit) (vs2 : list view) : tok :=
  L [run_case H vs; run_case (foldl apply_edit H eds) vs2].
