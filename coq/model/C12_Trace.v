(** C12 -- round 5: INTERMEDIATE VALUES of MCSMatcher._search_subgraphs.  Definitions only; proofs in proof/C12_Trace.v.
    For every GraphMatcher object the search builds -- one per k-subset of the pattern's nodes, levels in descending order,
    subsets in itertools.combinations order -- the trace records the subset and HOW MANY isomorphisms
    subgraph_isomorphisms_iter() yields for it.  The correspondence compares this trace with what the implementation's
    (instrumented) GraphMatcher objects report, so the monitored premise about networkx VF2 is checked per k-subset
    (same NUMBER of induced sub-graph isomorphisms as the verified enumerator), and the order in which levels and subsets
    are visited and the point of the early exit are compared directly. *)
From Coq Require Import List NArith ZArith Bool Arith.
From SK Require Import lib.Tok lib.LGraph lib.Mono model.C12_Model.
Import ListNotations.

Section Trace.
Variable nm : option nattr -> option nattr -> bool.
Variable em : eattr -> eattr -> bool.

Definition level_trace (pattern host : graph) (k : nat) : list (list N * nat) :=
  map (fun nodes => (nodes, length (sub_isos nm em pattern host nodes))) (combs (node_ids pattern) k).

(** the levels the loop visits: all of them in all-sizes mode; in maximum mode down to the first level with a result *)
Fixpoint trace_loop (mcs : bool) (pattern host : graph) (k : nat) : list (list N * nat) :=
  match k with
  | O => []
  | S k' =>
      let lv := level_trace pattern host k in
      if mcs && existsb (fun p => negb (snd p =? 0)%nat) lv then lv else lv ++ trace_loop mcs pattern host k'
  end.

Definition search_trace (pattern host : graph) (mcs : bool) : list (list N * nat) :=
  trace_loop mcs pattern host (Nat.min (n_nodes pattern) (n_nodes host)).
End Trace.

Definition fcs_trace (defs : list N) (prune : bool) (wc : N) (g1 g2 : graph) (mcs : bool) : list (list N * nat) :=
  let '(pattern, host, _) := prepare_orientation (prune_graph prune wc g1) (prune_graph prune wc g2) in
  search_trace (node_match defs) edge_match pattern host mcs.

Definition mtg_trace (defs : list N) (g1 g2 : graph) (mcs : bool) : list (list N * nat) :=
  search_trace (node_match defs) edge_match_mtg g1 g2 mcs.

Definition ttrace (t : list (list N * nat)) : tok := tlist (fun p => L [tset tN (fst p); tnat (snd p)]) t.

(** the single-call observables of C12_Model.v with the trace appended *)
Definition run_matcher_tr (defs : list N) (prune : bool) (wc : N) (g1 g2 : graph) (mcs : bool) : tok :=
  let r := find_common_subgraph defs prune wc g1 g2 mcs in
  L [tbool (r_pattern_is_g1 r); tnat (r_last r); tnat (r_tried r);
     tlist tmap (get_mappings PatternToHost r);
     tlist tmap (get_mappings G1toG2 r);
     tlist tmap (get_mappings G2toG1 r);
     ttrace (fcs_trace defs prune wc g1 g2 mcs)].

Definition run_mtg_tr (defs : list N) (g1 g2 : graph) (mcs : bool) : tok :=
  let '(maps, last, tried) := find_common_subgraph_mtg defs g1 g2 mcs in
  L [tnat last; tnat tried; tlist tmap maps; ttrace (mtg_trace defs g1 g2 mcs)].
