(** C12 -- the MTG copy's mcs_mol mode (synkit/Graph/MTG/mcs_matcher.py: find_common_subgraph(G1, G2, mcs_mol=True) ->
    _find_mcs_mol): the same greedy matching of whole connected components as the Matcher copy, with the MTG edge matcher and no
    pruning; VF2's choice of the isomorphism inside a matched pair is an INPUT validated by [apply_mol_choice].  Definitions only. *)
From Coq Require Import List NArith ZArith Bool Arith.
From SK Require Import lib.Tok lib.LGraph lib.Mono model.C12_Model model.C12_Check.
Import ListNotations.

Definition find_mcs_mol_pairs_mtg (defs : list N) (g1 g2 : graph) : list (list N * list N) * nat :=
  mol_pairs (node_match defs) edge_match_mtg g1 g2 (sort_comps (components g1)) (sort_comps (components g2)) [].

Definition find_mcs_mol_with_mtg (defs : list N) (g1 g2 : graph) (choice : mapping) : option (list mapping * nat * nat) :=
  let '(ps, n) := find_mcs_mol_pairs_mtg defs g1 g2 in
  match apply_mol_choice (node_match defs) edge_match_mtg g1 g2 ps choice with
  | Some m => Some ([m], length m, n)
  | None => None
  end.

(** single-call observable: [last_size, #GraphMatcher objects, mappings] *)
Definition run_mcs_mol_with_mtg (defs : list N) (g1 g2 : graph) (choice : mapping) : tok :=
  match find_mcs_mol_with_mtg defs g1 g2 choice with
  | Some (maps, last, n) => L [tnat last; tnat n; tlist tmap maps]
  | None => L [I (-2)]
  end.
