(** C13 -- executable model of the clustering code.  Definitions only; proofs in proof/C13_*.v.

    Modelled, structure-following:
      synkit/Graph/Matcher/graph_cluster.py   GraphCluster.iterative_cluster (attributes_sorted, visited set,
                                              clusters, rule_to_cluster), GraphCluster.fit          [gc_iterative, gc_fit]
      synkit/Graph/Matcher/batch_cluster.py   BatchCluster.lib_check / batch_dicts / cluster / fit  [lib_check, chunks, cluster, fit]
      synkit/Graph/Matcher/graph_morphism.py  graph_isomorphism = nx.is_isomorphic(node_match, edge_match)
                                              with generic_node_match([element, charge], ["*", 0]) and
                                              generic_edge_match("order", 1)                         [graph_iso]
    The clustering functions take the isomorphism test [iso] as a parameter (Section variable); the
    theorems only need it to be an equivalence relation.  nx.is_isomorphic is modelled by the verified
    enumerator Mono.monos (induced, equal node counts); the degree-sequence pre-check inside networkx is a
    necessary condition of isomorphism and is not reproduced.
    synkit.Utils.utils.stratified_random_sample (random.sample, seed 1) is external randomness: its choices
    are the argument [picks] of [fit]. *)
From Coq Require Import List NArith ZArith Bool Arith.
From SK Require Import lib.Tok lib.LGraph lib.Mono.
Import ListNotations.

Definition nattr := list (option N).            (* values of element, charge (None = missing) *)
Definition eattr := option (list Z).            (* order in half-units; a tuple (ITS order pair) is a list; None = missing *)
Definition graph := lgraph nattr eattr.

Record item := MkItem { it_id : N; it_attr : list Z; it_graph : graph }.

(** how the pre-grouping attribute is read: attribute_key=None | str values | list values *)
Inductive attr_mode := ANone | AStr | AList | AMixed.
(** AMixed (round 4, after the repair of the per-list normalisation): every value is normalised on its own.  The
    encoder tags the value: 0 :: codes = str, 1 :: elements = list or tuple (read as a multiset), 2 = attribute absent,
    3 :: item codes = dict / OrderedDict (read as the multiset of its items), 5 :: [n] = int. *)

(* ---------- graph_isomorphism ---------- *)
Definition getd (d : N) (o : option N) : N := match o with Some x => x | None => d end.

Fixpoint attrs_match (defs : list N) (h p : list (option N)) : bool :=
  match defs, h, p with
  | [], _, _ => true
  | d :: ds, a :: hs, b :: ps => N.eqb (getd d a) (getd d b) && attrs_match ds hs ps
  | _ :: _, _, _ => false
  end.

Definition node_match (labelled : bool) (defs : list N) (h p : option nattr) : bool :=
  match h, p with
  | Some ha, Some pa => if labelled then attrs_match defs ha pa else true
  | _, _ => false
  end.

Fixpoint zlist_eqb (a b : list Z) : bool :=
  match a, b with
  | [], [] => true
  | x :: a', y :: b' => Z.eqb x y && zlist_eqb a' b'
  | _, _ => false
  end.

(** generic_edge_match("order", 1, eq): missing order defaults to 1 (= 2 half-units) *)
Definition order_or_default (e : eattr) : list Z := match e with Some o => o | None => [2%Z] end.
Definition edge_match (labelled : bool) (h p : eattr) : bool :=
  if labelled then zlist_eqb (order_or_default h) (order_or_default p) else true.

(** nx.is_isomorphic(G1, G2, node_match, edge_match): GraphMatcher(G1, G2), matchers called as (G1 attrs, G2 attrs) *)
Definition graph_iso (labelled : bool) (defs : list N) (g1 g2 : graph) : bool :=
  (length (gnodes g1) =? length (gnodes g2))%nat &&
  match monos (node_ids g2) (node_ids g1) (label g2) (label g1) (LGraph.adj g2) (LGraph.adj g1)
              (node_match labelled defs) (edge_match labelled) true with
  | [] => false
  | _ :: _ => true
  end.

Definition item_iso (labelled : bool) (defs : list N) (x y : item) : bool :=
  graph_iso labelled defs (it_graph x) (it_graph y).

(* ---------- attribute keys ---------- *)
Fixpoint insertZ (x : Z) (l : list Z) : list Z :=
  match l with
  | [] => [x]
  | y :: r => if (x <=? y)%Z then x :: l else y :: insertZ x r
  end.
Definition sortZ (l : list Z) : list Z := fold_right insertZ [] l.

(** GraphCluster.iterative_cluster: [1]*n | attributes | [sorted(v) for v in attributes] *)
Definition norm_value (a : list Z) : list Z :=
  match a with
  | 1%Z :: r => 1%Z :: sortZ r
  | 3%Z :: r => 3%Z :: sortZ r
  | _ => a
  end.
Definition gc_key (mode : attr_mode) (x : item) : list Z :=
  match mode with ANone => [] | AStr => it_attr x | AList => sortZ (it_attr x) | AMixed => norm_value (it_attr x) end.
(** BatchCluster.lib_check / _attribute_key: sorted(value) if isinstance(value, list) else value
    (after repair 6f9daf3; before it the raw list was compared) *)
Definition bc_key (mode : attr_mode) (x : item) : list Z :=
  match mode with ANone => [] | AStr => it_attr x | AList => sortZ (it_attr x) | AMixed => norm_value (it_attr x) end.

Definition memb (i : nat) (l : list nat) : bool := existsb (Nat.eqb i) l.

Fixpoint assoc_nat {V} (k : nat) (l : list (nat * V)) : option V :=
  match l with
  | [] => None
  | (k', v) :: r => if Nat.eqb k k' then Some v else assoc_nat k r
  end.

Fixpoint enum_from {X} (i : nat) (l : list X) : list (nat * X) :=
  match l with [] => [] | x :: r => (i, x) :: enum_from (S i) r end.

Section Cluster.
Variable iso : item -> item -> bool.      (* iso_function(representative, candidate) *)
Variable mode : attr_mode.

(* ---------- GraphCluster.iterative_cluster ---------- *)
(** state of the inner loop: (cluster, visited, rule_to_cluster) *)
Definition gc_state := (list nat * list nat * list (nat * nat))%type.

Fixpoint gc_inner (xi : item) (c : nat) (rest : list (nat * item)) (st : gc_state) : gc_state :=
  match rest with
  | [] => st
  | (j, xj) :: r =>
      let '(cluster, visited, r2c) := st in
      if zlist_eqb (gc_key mode xi) (gc_key mode xj) && negb (memb j visited) then
        if iso xi xj then gc_inner xi c r (cluster ++ [j], j :: visited, r2c ++ [(j, c)])
        else gc_inner xi c r st
      else gc_inner xi c r st
  end.

Fixpoint gc_outer (todo : list (nat * item)) (visited : list nat) (clusters : list (list nat))
         (r2c : list (nat * nat)) : list (list nat) * list (nat * nat) :=
  match todo with
  | [] => (clusters, r2c)
  | (i, xi) :: rest =>
      if memb i visited then gc_outer rest visited clusters r2c
      else
        let c := length clusters in
        let '(cluster, visited', r2c') := gc_inner xi c rest ([i], i :: visited, r2c ++ [(i, c)]) in
        gc_outer rest visited' (clusters ++ [cluster]) r2c'
  end.

Definition gc_iterative (rules : list item) : list (list nat) * list (nat * nat) :=
  gc_outer (enum_from 0 rules) [] [] [].

(** GraphCluster.fit: entry["class"] = rule_to_cluster.get(index, None) *)
Definition gc_fit (data : list item) : list (option nat) :=
  let r2c := snd (gc_iterative data) in
  map (fun ix => assoc_nat (fst ix) r2c) (enum_from 0 data).

(* ---------- BatchCluster ---------- *)
Definition template := (item * Z)%type.

Definition lib_check (x : item) (ts : list template) : Z * list template :=
  let sub := filter (fun t => zlist_eqb (bc_key mode (fst t)) (bc_key mode x)) ts in
  match find (fun t => iso (fst t) x) sub with
  | Some t => (snd t, ts)
  | None =>
      let c := (fold_right Z.max (-1) (map snd ts) + 1)%Z in
      (c, ts ++ [(x, c)])
  end.

Fixpoint cluster (data : list item) (ts : list template) : list Z * list template :=
  match data with
  | [] => ([], ts)
  | x :: r =>
      let '(c, ts1) := lib_check x ts in
      let '(cs, ts2) := cluster r ts1 in
      (c :: cs, ts2)
  end.

(** batch_dicts: input_list[i : i + batch_size] for i in range(0, len, batch_size) *)
Fixpoint chunks_fuel {X} (fuel b : nat) (l : list X) : list (list X) :=
  match fuel, l with
  | _, [] => []
  | O, _ => []
  | S f, _ => firstn b l :: chunks_fuel f b (skipn b l)
  end.
Definition chunks {X} (b : nat) (l : list X) : list (list X) := chunks_fuel (length l) b l.

Fixpoint cluster_batches (batches : list (list item)) (ts : list template) : list Z * list template :=
  match batches with
  | [] => ([], ts)
  | b :: r =>
      let '(cs, ts1) := cluster b ts in
      let '(cs', ts2) := cluster_batches r ts1 in
      (cs ++ cs', ts2)
  end.

(** stratified_random_sample(data, "class", 1, seed=1): classes in first-appearance order, one member each,
    chosen at position [pick] of the class's member list *)
Fixpoint first_keys (seen : list Z) (cs : list Z) : list Z :=
  match cs with
  | [] => []
  | c :: r => if existsb (Z.eqb c) seen then first_keys seen r else c :: first_keys (c :: seen) r
  end.

Definition members (data : list item) (cs : list Z) (k : Z) : list item :=
  map fst (filter (fun xc => Z.eqb (snd xc) k) (combine data cs)).

Definition strat_sample (data : list item) (cs : list Z) (picks : list nat) : list template :=
  flat_map (fun kp => match nth_error (members data cs (fst kp)) (snd kp) with
                      | Some x => [(x, fst kp)]
                      | None => []
                      end)
           (combine (first_keys [] cs) picks).

Definition class_z (o : option nat) : Z := match o with Some c => Z.of_nat c | None => (-1)%Z end.

Definition fit (data : list item) (ts : list template) (batch_size : option nat) (picks : list nat)
  : list Z * list template :=
  let batches := match batch_size with Some b => chunks b data | None => [data] end in
  match batches with
  | [batch] =>
      match ts with
      | [] => let cs := map class_z (gc_fit batch) in (cs, strat_sample batch cs picks)
      | _ :: _ => cluster batch ts
      end
  | _ => cluster_batches batches ts
  end.

End Cluster.

(* ---------- histories ---------- *)
Inductive op :=
| OGcIter (idxs : list nat) (labelled : bool)
| OGcFit (idxs : list nat)
| OTemplates (ts : list (nat * Z))
| OReset
| OLibCheck (idx : nat)
| OCluster (idxs : list nat)
| OFit (idxs : list nat) (batch_size : option nat) (picks : list nat).

Definition dummy : item := MkItem 0 [] (LG [] []).
Definition pick (pool : list item) (i : nat) : item := nth i pool dummy.

Definition ttemplates (ts : list template) : tok :=
  tlist (fun t => L [tN (it_id (fst t)); I (snd t)]) ts.
Definition tclasses (cs : list Z) : tok := tlist I cs.

Definition step (star zero : N) (mode : attr_mode) (pool : list item) (ts : list template) (o : op)
  : tok * list template :=
  let iso := item_iso true [star; zero] in
  match o with
  | OGcIter idxs labelled =>
      let '(clusters, r2c) := gc_iterative (item_iso labelled [star; zero]) mode (map (pick pool) idxs) in
      (L [tlist (tset tnat) clusters; tset (tpair tnat tnat) r2c; ttemplates ts], ts)
  | OGcFit idxs =>
      (L [tlist (fun o => I (class_z o)) (gc_fit iso mode (map (pick pool) idxs)); ttemplates ts], ts)
  | OTemplates l =>
      let ts' := map (fun ic => (pick pool (fst ic), snd ic)) l in
      (L [L []; ttemplates ts'], ts')
  | OReset => (L [L []; ttemplates []], [])
  | OLibCheck i =>
      let '(c, ts') := lib_check iso mode (pick pool i) ts in
      (L [tclasses [c]; ttemplates ts'], ts')
  | OCluster idxs =>
      let '(cs, ts') := cluster iso mode (map (pick pool) idxs) ts in
      (L [tclasses cs; ttemplates ts'], ts')
  | OFit idxs bs picks =>
      let '(cs, ts') := fit iso mode (map (pick pool) idxs) ts bs picks in
      (L [tclasses cs; ttemplates ts'], ts')
  end.

Fixpoint play (star zero : N) (mode : attr_mode) (pool : list item) (ts : list template) (ops : list op) : list tok :=
  match ops with
  | [] => []
  | o :: r => let '(t, ts') := step star zero mode pool ts o in t :: play star zero mode pool ts' r
  end.

Definition run (star zero : N) (mode : attr_mode) (pool : list item) (ops : list op) : tok :=
  L (play star zero mode pool [] ops).
