(** C01 — executable model of the STRING half: the graph -> graph logic between the RDKit calls of
      synkit/IO/chem_converter.py      rsmi_to_graph / smiles_to_graph, rsmi_to_its, its_to_rsmi, graph_to_rsmi, graph_to_smi
      synkit/IO/mol_to_graph.py        MolToGraph.transform (node_attrs = element, aromatic, hcount, charge, neighbors,
                                       atom_map; edge_attrs = order; profile minimal)
      synkit/Graph/Hyrogen/_misc.py    implicit_hydrogen (reindex=False)
      synkit/IO/graph_to_mol.py        GraphToMol.graph_to_mol (use_h_count=True), get_bond_type_from_order
    RDKit itself (Chem.MolFromSmiles, SanitizeMol, Atom/Bond getters, RWMol construction, MolToSmiles) is NOT modelled:
    an RDKit molecule enters the model as the record [rmol] that the harness reads off the sanitised Mol with plain
    RDKit getters, and leaves it as the record [wmol] (what GraphToMol hands to RWMol before sanitisation).
    Definitions only; proofs in proof/C01_String*.v. *)
From Coq Require Import List NArith ZArith Bool.
From SK Require Import lib.Tok lib.LGraph model.C01_Model model.C02_Model.
Import ListNotations.
Local Open Scope Z_scope.

(** ** an RDKit molecule as MolToGraph sees it *)
Record ratom := RA {
  ra_el : N;            (* GetSymbol, interned *)
  ra_arom : bool;       (* GetIsAromatic *)
  ra_hs : Z;            (* GetTotalNumHs *)
  ra_ch : Z;            (* GetFormalCharge *)
  ra_map : N;           (* GetAtomMapNum, 0 = unmapped *)
  ra_nb : list N }.     (* sorted(nb.GetSymbol() for nb in GetNeighbors()) *)
(** atoms in index order (GetIdx = position); bonds = (begin index, end index, GetBondTypeAsDouble in half-units) *)
Record rmol := RM { rm_atoms : list ratom; rm_bonds : list (nat * nat * Z) }.

(** ** MolToGraph.transform(mol, drop_non_aam, use_index_as_atom_map) *)

(** atom_map if (use_index_as_atom_map and atom_map != 0) else atom.GetIdx() + 1 *)
Definition atom_id (use : bool) (idx : nat) (a : ratom) : N :=
  if use && negb (N.eqb (ra_map a) 0) then ra_map a else (N.of_nat idx + 1)%N.

(** props filtered by node_attrs *)
Definition atom_node (a : ratom) : gnode :=
  GN (ra_el a) (ra_arom a) (ra_hs a) (ra_ch a) (Some (ra_nb a)) (Z.of_N (ra_map a)).

(** networkx add_node: a new id is appended, an existing id keeps its position and gets the new attributes *)
Fixpoint upsert {V : Type} (k : N) (v : V) (l : list (N * V)) : list (N * V) :=
  match l with
  | [] => [(k, v)]
  | (k', v') :: r => if N.eqb k k' then (k', v) :: r else (k', v') :: upsert k v r
  end.

Definition m2g_state := (list (N * gnode) * list (nat * N))%type.   (* G's nodes, index_to_id *)

Definition m2g_atom (drop use : bool) (st : m2g_state) (ia : nat * ratom) : m2g_state :=
  let '(idx, a) := ia in
  if drop && N.eqb (ra_map a) 0 then st
  else (upsert (atom_id use idx a) (atom_node a) (fst st), snd st ++ [(idx, atom_id use idx a)]).

Fixpoint lookup_idx (i : nat) (l : list (nat * N)) : option N :=
  match l with
  | [] => None
  | (j, n) :: r => if Nat.eqb i j then Some n else lookup_idx i r
  end.

Definition same_pair (a b u v : N) : bool := (N.eqb a u && N.eqb b v) || (N.eqb a v && N.eqb b u).

(** networkx add_edge(u, v, order=o): a new pair is appended, an existing pair gets the new attribute *)
Definition upsert_edge (u v : N) (o : Z) (es : list (N * N * Z)) : list (N * N * Z) :=
  match find_edge u v es with
  | None => es ++ [(u, v, o)]
  | Some _ => map (fun e => let '(a, b, x) := e in if same_pair a b u v then (a, b, o) else e) es
  end.

Definition m2g_bond (ix : list (nat * N)) (es : list (N * N * Z)) (b : nat * nat * Z) : list (N * N * Z) :=
  let '(bi, ei, o) := b in
  match lookup_idx bi ix, lookup_idx ei ix with
  | Some u, Some v => upsert_edge u v o es
  | _, _ => es
  end.

Definition enumerate {X : Type} (l : list X) : list (nat * X) := combine (seq 0 (length l)) l.

(** None = the ValueError "drop_non_aam and use_index_as_atom_map must both be True" *)
Definition mol_to_graph (drop use : bool) (m : rmol) : option mgraph :=
  if drop && negb use then None
  else
    let st := fold_left (m2g_atom drop use) (enumerate (rm_atoms m)) ([], []) in
    Some (LG (fst st) (fold_left (m2g_bond (snd st)) (rm_bonds m) [])).

(** rsmi_to_graph / rsmi_to_its with their defaults (drop_non_aam=True, use_index_as_atom_map=True, core=False,
    explicit_hydrogen=False), given the two sanitised molecules *)
Definition rsmi_to_graph_m (mr mp : rmol) : option (mgraph * mgraph) :=
  match mol_to_graph true true mr, mol_to_graph true true mp with
  | Some g, Some h => Some (g, h)
  | _, _ => None
  end.
Definition rsmi_to_its_m (mr mp : rmol) : option its :=
  match rsmi_to_graph_m mr mp with Some (g, h) => Some (its_construct g h) | None => None end.

(** ** implicit_hydrogen(graph, preserve_atom_maps, reindex=False) *)
Definition is_Hn (g : mgraph) (n : N) : bool :=
  match label g n with Some a => N.eqb (g_el a) EL_H | None => false end.
Definition set_hc (a : gnode) (h : Z) : gnode := GN (g_el a) (g_arom a) h (g_ch a) (g_nb a) (g_amap a).
Definition memZ (z : Z) (l : list Z) : bool := existsb (Z.eqb z) l.

(** sum(1 for neighbor in neighbors(node) if element == "H") *)
Definition count_h (g : mgraph) (n : N) : Z := Z.of_nat (length (filter (is_Hn g) (nbrs g n))).

(** first pass: hcount := explicit hydrogen neighbours + hcount, on every non-hydrogen node *)
Definition ih_pass1 (g : mgraph) : list (N * gnode) :=
  map (fun p => if N.eqb (g_el (snd p)) EL_H then p
                else (fst p, set_hc (snd p) (count_h g (fst p) + g_hc (snd p)))) (gnodes g).

(** hydrogens whose atom_map is in preserve_atom_maps *)
Definition preserved (g : mgraph) (pres : list Z) : list N :=
  map fst (filter (fun p => N.eqb (g_el (snd p)) EL_H && memZ (g_amap (snd p)) pres) (gnodes g)).

Definition dec_hc (n : N) (ns : list (N * gnode)) : list (N * gnode) :=
  map (fun p => if N.eqb (fst p) n then (fst p, set_hc (snd p) (g_hc (snd p) - 1)) else p) ns.

(** second pass, one preserved hydrogen: every non-hydrogen neighbour loses one from its hcount *)
Definition ih_pass2_h (g : mgraph) (ns : list (N * gnode)) (h : N) : list (N * gnode) :=
  fold_left (fun ns nb => if is_Hn g nb then ns else dec_hc nb ns) (nbrs g h) ns.

(** any(element != "H" for neighbor in neighbors(node)) *)
Definition has_heavy (g : mgraph) (n : N) : bool := existsb (fun m => negb (is_Hn g m)) (nbrs g n).

(** third pass (as repaired by /repo 3ba7a77): remove_nodes_from(hydrogens that are not preserved AND have a non-hydrogen
    neighbour); a hydrogen with no such neighbour was folded into nobody's hcount and stays *)
Definition ih_removed (g : mgraph) (pres : list Z) (n : N) : bool :=
  is_Hn g n && negb (mem n (preserved g pres)) && has_heavy g n.

Definition implicit_hydrogen (g : mgraph) (pres : list Z) : mgraph :=
  let ns := fold_left (ih_pass2_h g) (preserved g pres) (ih_pass1 g) in
  LG (filter (fun p => negb (ih_removed g pres (fst p))) ns)
     (filter (fun e => let '(u, v, _) := e in negb (ih_removed g pres u) && negb (ih_removed g pres v)) (gedges g)).

(** graph_to_smi: implicit_hydrogen only when preserve_atom_maps is non-empty *)
Definition smi_graph (g : mgraph) (pres : list Z) : mgraph :=
  match pres with [] => g | _ => implicit_hydrogen g pres end.

(** ** GraphToMol.graph_to_mol(graph, sanitize, use_h_count=True) up to the RWMol *)
Record watom := WA { w_el : N; w_ch : Z; w_map : Z; w_hs : Z }.   (* Atom(element), SetFormalCharge, SetAtomMapNum,
                                                                    SetNoImplicit(True) + SetNumExplicitHs(hcount) *)
Definition wmol := (list watom * list (nat * nat * N))%type.      (* bonds: begin index, end index, bond type code *)

(** get_bond_type_from_order(abs(order)): 1 -> SINGLE (1), 2 -> DOUBLE (2), 3 -> TRIPLE (3), anything else -> AROMATIC (12) *)
Definition bond_code (o : Z) : N :=
  let a := Z.abs o in
  if a =? 2 then 1%N else if a =? 4 then 2%N else if a =? 6 then 3%N else 12%N.

Fixpoint index_of (n : N) (l : list N) : option nat :=
  match l with
  | [] => None
  | k :: r => if N.eqb n k then Some O else option_map S (index_of n r)
  end.

Fixpoint w_bonds (ids : list N) (es : list (N * N * Z)) : option (list (nat * nat * N)) :=
  match es with
  | [] => Some []
  | (u, v, o) :: r =>
      match index_of u ids, index_of v ids, w_bonds ids r with
      | Some i, Some j, Some bs => Some ((i, j, bond_code o) :: bs)
      | _, _, _ => None                                   (* KeyError in node_to_idx *)
      end
  end.

Definition graph_to_wmol (g : mgraph) : option wmol :=
  match w_bonds (node_ids g) (gedges g) with
  | Some bs => Some (map (fun p => WA (g_el (snd p)) (g_ch (snd p)) (g_amap (snd p)) (g_hc (snd p))) (gnodes g), bs)
  | None => None
  end.

(** ** graph_to_rsmi(r, p, its, sanitize, explicit_hydrogen=False) / its_to_rsmi up to the two RWMols *)

(** [d["atom_map"] for _, d in get_rc(its).nodes(data=True) if d.get("element") == "H"] *)
Definition hlist (I : its) : list Z :=
  map (fun p => i_amap (snd p)) (filter (fun p => N.eqb (i_el (snd p)) EL_H) (gnodes (get_rc I))).

Definition its_to_graphs (I : its) : mgraph * mgraph :=
  let d := its_decompose I in
  (smi_graph (fst d) (hlist I), smi_graph (snd d) (hlist I)).

Definition its_to_wmols (I : its) : option (wmol * wmol) :=
  match graph_to_wmol (fst (its_to_graphs I)), graph_to_wmol (snd (its_to_graphs I)) with
  | Some a, Some b => Some (a, b)
  | _, _ => None
  end.

(** ** observables *)
Definition twatom (a : watom) : tok := L [tN (w_el a); tZ (w_ch a); tZ (w_map a); tZ (w_hs a)].
(** bonds are observed through the atoms they join (both orientations), so that the observable does not depend on
    the node order of the graph (networkx adds the nodes missing from the base graph in set order) *)
Definition twbond (ats : list watom) (b : nat * nat * N) : list tok :=
  let '(i, j, c) := b in
  let at_ k := match nth_error ats k with Some a => twatom a | None => L [] end in
  [L [at_ i; at_ j; tN c]; L [at_ j; at_ i; tN c]].
Definition twmol (w : wmol) : tok :=
  L [tset twatom (fst w); L (I SETMARK :: flat_map (twbond (fst w)) (snd w))].

(** a reaction-string case: both molecule graphs, the ITS, the two graphs handed to GraphToMol by its_to_rsmi and
    the two RWMol contents *)
Definition run_str (mr mp : rmol) : tok :=
  match rsmi_to_graph_m mr mp with
  | None => L []
  | Some (g, h) =>
      let I := its_construct g h in
      let gs := its_to_graphs I in
      L [tmgraph g; tmgraph h; tits I; tset tZ (hlist I); tmgraph (fst gs); tmgraph (snd gs);
         topt twmol (graph_to_wmol (fst gs)); topt twmol (graph_to_wmol (snd gs))]
  end.

(** MolToGraph.transform alone, every flag combination *)
Definition run_m2g (drop use : bool) (m : rmol) : tok := topt tmgraph (mol_to_graph drop use m).

(** implicit_hydrogen + GraphToMol alone on a synthetic molecule graph *)
Definition run_ih (g : mgraph) (pres : list Z) : tok :=
  L [tmgraph (implicit_hydrogen g pres); tmgraph (smi_graph g pres); topt twmol (graph_to_wmol (smi_graph g pres))].

(** ** vocabulary of the theorems (proof/C01_StringProof.v, props/C01.v) *)
Definition is_mapped (a : ratom) : bool := negb (N.eqb (ra_map a) 0).
(** the mapped atoms as graph nodes, in atom order *)
Definition mapped_nodes (m : rmol) : list (N * gnode) :=
  flat_map (fun a => if is_mapped a then [(ra_map a, atom_node a)] else []) (rm_atoms m).
(** atom index -> atom map, for the mapped atoms *)
Definition mapped_ix (m : rmol) : list (nat * N) :=
  flat_map (fun ia : nat * ratom => if is_mapped (snd ia) then [(fst ia, ra_map (snd ia))] else []) (enumerate (rm_atoms m)).
(** the bonds whose two atoms are mapped, as graph edges between the atom maps, in bond order *)
Definition mapped_bonds (m : rmol) : list (N * N * Z) :=
  flat_map (fun b : nat * nat * Z =>
              match lookup_idx (fst (fst b)) (mapped_ix m), lookup_idx (snd (fst b)) (mapped_ix m) with
              | Some u, Some v => [(u, v, snd b)]
              | _, _ => []
              end) (rm_bonds m).

(** number of preserved hydrogens bonded to n *)
Definition count_pres (g : mgraph) (pres : list Z) (n : N) : Z :=
  Z.of_nat (length (filter (fun h => mem n (nbrs g h)) (preserved g pres))).
Definition is_H (a : gnode) : bool := N.eqb (g_el a) EL_H.
Definition watom_of (a : gnode) : watom := WA (g_el a) (g_ch a) (g_amap a) (g_hc a).

(** the graph MolToGraph.transform(drop_non_aam=True, use_index_as_atom_map=True) returns on a molecule whose mapped
    atoms carry distinct maps and whose bonds join distinct atom pairs ([rmol_ok]; theorem C01_mol_to_graph) *)
Definition graph_of (m : rmol) : mgraph := LG (mapped_nodes m) (mapped_bonds m).

(** ** the two string functions, relative to RDKit: [rd_read] = MolFromSmiles(sanitize=False) + SanitizeMol + the
    getters MolToGraph uses; [rd_write] = RWMol construction + SanitizeMol + MolToSmiles.  NOT modelled: parameters. *)
Section RDKit.
  Variable str : Type.
  Variable rd_read : str -> option rmol.
  Variable rd_write : wmol -> option str.
  (** rsmi_to_its(r >> p) *)
  Definition rsmi_to_its_s (r p : str) : option its :=
    match rd_read r, rd_read p with
    | Some mr, Some mp => rsmi_to_its_m mr mp
    | _, _ => None
    end.
  (** its_to_rsmi(its) = r' >> p' *)
  Definition its_to_rsmi_s (I : its) : option (str * str) :=
    match its_to_wmols I with
    | Some (wr, wp) => match rd_write wr, rd_write wp with Some a, Some b => Some (a, b) | _, _ => None end
    | None => None
    end.
End RDKit.
Arguments rsmi_to_its_s [str] rd_read r p.
Arguments its_to_rsmi_s [str] rd_write I.

(** ** rsmi_to_its(explicit_hydrogen=True) = h_to_explicit(its, None, True) on the ITS
    (synkit/Graph/Hyrogen/_misc.py h_to_explicit + normalize_edge_orders, as repaired: on an ITS node only the
    hydrogens present on BOTH sides become explicit atoms, and both halves of typesGH lose them) *)
Definition h_inode : inode :=
  IN EL_H 0 0 (Some (false, 0, [])) (NA EL_H false 0 0 []) (NA EL_H false 0 0 []).   (* 'neighbors' is absent on these nodes *)
Definition set_hc_n (a : nattr) (h : Z) : nattr := NA (a_el a) (a_arom a) h (a_ch a) (a_nb a).
(** H2.nodes[heavy].get("hcount", 0) *)
Definition top_hc (a : inode) : Z := match i_extra a with Some (_, hc, _) => hc | None => 0 end.
(** count = min(hcount, typesGH[1][2]) *)
Definition hx_count (a : inode) : Z := Z.min (top_hc a) (a_hc (i_H a)).
(** hcount -= count; typesGH[0][2] -= count; typesGH[1][2] -= count *)
Definition hx_dec (a : inode) (c : Z) : inode :=
  IN (i_el a) (i_ch a) (i_amap a)
     (match i_extra a with Some (ar, hc, nb) => Some (ar, hc - c, nb) | None => None end)
     (set_hc_n (i_G a) (a_hc (i_G a) - c)) (set_hc_n (i_H a) (a_hc (i_H a) - c)).

Definition hx_state := (list (N * inode) * list (N * N * iedge) * N)%type.    (* H2's nodes, edges, max_node *)

(** one iteration of "for heavy in nodes" *)
Definition hx_step (st : hx_state) (heavy : N) : hx_state :=
  let '(ns, es, mx) := st in
  match assoc heavy ns with
  | None => st
  | Some a =>
      let c := hx_count a in
      if c <=? 0 then st
      else
        let new := map (fun i => (mx + N.of_nat i)%N) (seq 1 (Z.to_nat c)) in
        (map (fun q => if N.eqb (fst q) heavy then (fst q, hx_dec (snd q) c) else q) ns ++ map (fun n => (n, h_inode)) new,
         es ++ map (fun n => (heavy, n, IE 2 2 0)) new,            (* order=1.0 -> (1.0, 1.0), standard_order 0.0 *)
         (mx + N.of_nat (Z.to_nat c))%N)
  end.

(** the explicit-hydrogen ITS and the ids of the hydrogen atoms it invented *)
Definition h_to_explicit_its (I : its) : its * list N :=
  let mx0 := fold_left N.max (node_ids I) 0%N in
  let '(ns, es, _) := fold_left hx_step (node_ids I) (gnodes I, gedges I, mx0) in
  (LG ns es, filter (fun n => N.ltb mx0 n) (map fst ns)).

Definition rsmi_to_its_eh (mr mp : rmol) : option (its * list N) :=
  match rsmi_to_its_m mr mp with Some J => Some (h_to_explicit_its J) | None => None end.

(** observable of an explicit-hydrogen ITS: top-level 'neighbors' is reported as present / absent only *)
Definition tinode_eh (new : list N) (p : N * inode) : tok :=
  let a := snd p in
  L [tN (fst p); tN (i_el a); tZ (i_ch a); tZ (i_amap a);
     topt (fun x : bool * Z * list N => L [tbool (fst (fst x)); tZ (snd (fst x))]) (i_extra a);
     tbool (negb (mem (fst p) new)); tnattr (i_G a); tnattr (i_H a)].

Definition run_str_eh (mr mp : rmol) : tok :=
  match rsmi_to_its_eh mr mp with
  | None => L []
  | Some (J, new) =>
      let gs := its_to_graphs J in
      L [L [tset (tinode_eh new) (gnodes J); tset tiedge (gedges J)]; tset tZ (hlist J); tmgraph (fst gs); tmgraph (snd gs);
         topt twmol (graph_to_wmol (fst gs)); topt twmol (graph_to_wmol (snd gs))]
  end.

(** ** the remaining options of the two string functions
    its_to_rsmi(explicit_hydrogen=True): graph_to_smi on the decomposed graphs, nothing is folded;
    rsmi_to_its(core=True): the reaction centre of the ITS *)
Definition its_to_graphs_opt (eh : bool) (J : its) : mgraph * mgraph :=
  if eh then its_decompose J else its_to_graphs J.
Definition rsmi_to_its_core (mr mp : rmol) : option its := option_map get_rc (rsmi_to_its_m mr mp).

Definition run_str_opts (mr mp : rmol) : tok :=
  match rsmi_to_its_m mr mp, rsmi_to_its_core mr mp with
  | Some J, Some C =>
      let gs := its_to_graphs_opt true J in
      L [tits C; tmgraph (fst gs); tmgraph (snd gs); topt twmol (graph_to_wmol (fst gs)); topt twmol (graph_to_wmol (snd gs))]
  | _, _ => L []
  end.

Definition its_to_wmols_opt (eh : bool) (J : its) : option (wmol * wmol) :=
  match graph_to_wmol (fst (its_to_graphs_opt eh J)), graph_to_wmol (snd (its_to_graphs_opt eh J)) with
  | Some a, Some b => Some (a, b)
  | _, _ => None
  end.
Section RDKitOpt.
  Variable str : Type.
  Variable rd_write : wmol -> option str.
  (** its_to_rsmi(its, explicit_hydrogen=eh) *)
  Definition its_to_rsmi_s_opt (eh : bool) (J : its) : option (str * str) :=
    match its_to_wmols_opt eh J with
    | Some (wr, wp) => match rd_write wr, rd_write wp with Some a, Some b => Some (a, b) | _, _ => None end
    | None => None
    end.
End RDKitOpt.
Arguments its_to_rsmi_s_opt [str] rd_write eh J.

(** ** attribute selections of rsmi_to_graph / smiles_to_graph / MolToGraph(node_attrs, edge_attrs)
    MolToGraph computes the same atoms and bonds whatever the selection; node_attrs / edge_attrs only decide which
    attributes are STORED ({k: v for k, v in props.items() if k in node_attrs}: a set test, order and repetitions do not
    matter).  The observable prints a selected attribute as [x] and an unselected one as []. *)
Record asel := AS { p_el : bool; p_ar : bool; p_hc : bool; p_ch : bool; p_nb : bool; p_am : bool }.
Definition all_sel : asel := AS true true true true true true.
Definition tsel {X} (b : bool) (f : X -> tok) (x : X) : tok := if b then L [f x] else L [].
Definition tgnode_sel (s : asel) (p : N * gnode) : tok :=
  let a := snd p in
  L [tN (fst p); tsel (p_el s) tN (g_el a); tsel (p_ar s) tbool (g_arom a); tsel (p_hc s) tZ (g_hc a);
     tsel (p_ch s) tZ (g_ch a); tsel (p_nb s) (topt (tlist tN)) (g_nb a); tsel (p_am s) tZ (g_amap a)].
Definition tgedge_sel (eo : bool) (e : N * N * Z) : tok :=
  let '(u, v, o) := e in L [tN (N.min u v); tN (N.max u v); tsel eo tZ o].
Definition tmgraph_sel (s : asel) (eo : bool) (g : mgraph) : tok :=
  L [tset (tgnode_sel s) (gnodes g); tset (tgedge_sel eo) (gedges g)].

(** rsmi_to_graph(rsmi, drop_non_aam, sanitize=True, use_index_as_atom_map, node_attrs, edge_attrs): (None, None) when a
    side cannot be converted (the ValueError of MolToGraph is swallowed by smiles_to_graph) *)
Definition run_r2g (drop use : bool) (s : asel) (eo : bool) (mr mp : rmol) : tok :=
  L [topt (tmgraph_sel s eo) (mol_to_graph drop use mr); topt (tmgraph_sel s eo) (mol_to_graph drop use mp)].

(** ** graph_to_rsmi(r, p, its=None, explicit_hydrogen=False): the ITS is built from r and p themselves *)
Definition graph_to_rsmi_graphs (g h : mgraph) (oJ : option its) : mgraph * mgraph :=
  let J := match oJ with Some J => J | None => its_construct g h end in
  (smi_graph g (hlist J), smi_graph h (hlist J)).

(** ** GraphToMol.graph_to_mol(graph, ignore_bond_order, sanitize, use_h_count): without use_h_count no explicit-H count is
    set (reported as -1) and RDKit is left to add implicit hydrogens; ignore_bond_order makes every bond SINGLE *)
Definition graph_to_wmol_o (ibo uhc : bool) (g : mgraph) : option wmol :=
  match graph_to_wmol g with
  | Some (ats, bs) =>
      Some (map (fun a => WA (w_el a) (w_ch a) (w_map a) (if uhc then w_hs a else -1)) ats,
            map (fun b : nat * nat * N => let '(i, j, c) := b in (i, j, if ibo then 1%N else c)) bs)
  | None => None
  end.

Definition run_g2m (ibo uhc : bool) (g : mgraph) : tok := topt twmol (graph_to_wmol_o ibo uhc g).

(** graph_to_rsmi with and without the ITS argument, on the graphs of rsmi_to_graph *)
Definition run_g2r (mr mp : rmol) : tok :=
  match rsmi_to_graph_m mr mp with
  | None => L []
  | Some (g, h) =>
      let a := graph_to_rsmi_graphs g h None in
      let b := graph_to_rsmi_graphs g h (Some (its_construct g h)) in
      L [tmgraph (fst a); tmgraph (snd a); tmgraph (fst b); tmgraph (snd b)]
  end.

(** ** rsmi_to_its(rsmi, node_attrs=L) for a caller's list L that contains atom_map: MolToGraph stores only the selected
    attributes, ITSGraph then fills typesGH (always in the legacy order element, aromatic, hcount, charge, neighbors,
    whatever the ORDER of L) with the core defaults for the attributes the graphs do not carry *)
Definition fill_sel (s : asel) (a : gnode) : gnode :=
  GN (if p_el s then g_el a else EL_STAR) (if p_ar s then g_arom a else false) (if p_hc s then g_hc a else 0)
     (if p_ch s then g_ch a else 0) (if p_nb s then g_nb a else None) (g_amap a).
Definition fill_graph (s : asel) (g : mgraph) : mgraph := LG (map (fun p => (fst p, fill_sel s (snd p))) (gnodes g)) (gedges g).
Definition rsmi_to_its_sel (s : asel) (mr mp : rmol) : option its :=
  match rsmi_to_graph_m mr mp with
  | Some (g, h) => Some (its_construct (fill_graph s g) (fill_graph s h))
  | None => None
  end.
(** the ITS and what its_to_rsmi then writes *)
Definition run_str_sel (s : asel) (mr mp : rmol) : tok :=
  match rsmi_to_its_sel s mr mp with
  | None => L []
  | Some J => let gs := its_to_graphs J in
              L [tits J; tmgraph (fst (its_decompose J)); tmgraph (snd (its_decompose J)); tmgraph (fst gs); tmgraph (snd gs)]
  end.
