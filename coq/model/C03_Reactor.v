(** C03 — SynReactor as the STATE MACHINE it is (round 5): the lazily cached attributes

        _rule, _mappings (+ _flag_pattern_has_explicit_H), _its, _smarts          syn_reactor.py:115-121

    behind the properties rule / mappings / its_list / smarts_list and the derived views (mapping_count, smiles_list,
    its, smarts, _mappings_prop), and the string half of the serialisation: _to_smarts' None handling, the `if value`
    filter, reverse_reaction on the backward direction, `split(">>")[-1]` of smiles_list.

    Oracle inputs (not modelled): the matcher's mappings and re-matches ([i_calls], VF2), the visiting orders of the
    hydrogen-transfer groups ([i_tbls], see C03_Order.v), and RDKit's graph_to_smi on the two sides of an ITS graph
    ([i_ser]: position in its_list and graph |-> (reactant SMILES, product SMILES), None = RDKit refused).

    Faithful details:
    * `mappings` sets the explicit-hydrogen flag only to True (never back to False); `its_list` evaluates
      `self.mappings` BEFORE it reads the flag, so a fresh reactor asked for its_list first takes the right route.
    * `its_list` assigns `self._its = []`, EXTENDS it per mapping, and only then replaces it by the list of _explicit_h
      results: if _explicit_h raises (StopIteration: a group has more hydrogens to give than to take), the read raises
      and the cache KEEPS the glued graphs — the next read of its_list does not raise and returns them without the
      explicit-hydrogen stage.  (Stale partial state after an exception; [step] reproduces it, C03_reads_after_crash
      states it.  Templates made from reactions never crash: every stripped hydrogen has one donor and one recipient.)
    Definitions only. *)
From Coq Require Import List NArith ZArith Bool.
From SK Require Import lib.Tok lib.LGraph model.C03_Model model.C03_Order.
Import ListNotations.
Local Open Scope Z_scope.

(** ** strings: bytes *)
Definition str := list N.
Definition GT : N := 62%N.                                    (* ">" *)

(** Python's s.split(">>"): left to right, non-overlapping *)
Fixpoint split_gt_aux (cur : str) (s : str) : list str :=
  match s with
  | [] => [rev cur]
  | a :: r => match r with
              | b :: r' => if N.eqb a GT && N.eqb b GT then rev cur :: split_gt_aux [] r' else split_gt_aux (a :: cur) r
              | [] => [rev (a :: cur)]
              end
  end.
Definition split_gt (s : str) : list str := split_gt_aux [] s.
Definition join_gt (a b : str) : str := a ++ [GT; GT] ++ b.

(** synkit.Chem.utils.reverse_reaction *)
Definition reverse_reaction (s : str) : str :=
  match split_gt s with
  | [a; b] => join_gt b a
  | _ => s
  end.
(** s.split(">>")[-1] *)
Definition last_part (s : str) : str := last (split_gt s) [].

(** SynReactor._to_smarts after RDKit: None if either side failed *)
Definition to_smarts (rp : option str * option str) : option str :=
  match rp with
  | (Some r, Some p) => Some (join_gt r p)
  | _ => None
  end.
Definition truthy (s : str) : bool := match s with [] => false | _ => true end.

(** ** inputs of one reactor *)
Definition call := (mapping * option (list mapping))%type.
Record rin := RI {
  i_invert : bool;
  i_explicit : bool;                               (* explicit_h *)
  i_host : hostg;
  i_rule : option triple;                          (* what _wrap_template returns (None = it raises) *)
  i_calls : list call;                             (* the kept mappings, each with the re-matches _glue_graph would find *)
  i_tbls : list (list (list (list N)));            (* per call, per (re)mapping: recorded visiting orders *)
  i_ser : nat -> its -> option str * option str    (* RDKit on its_decompose of the i-th graph of its_list *)
}.

(** ** the caches *)
Record rstate := RS {
  s_rule : option (option triple);
  s_maps : option (list call);
  s_flag : bool;
  s_its : option (list its);
  s_smarts : option (list str)
}.
Definition rs0 : rstate := RS None None false None None.

Inductive rop := Orule | Omappings | Ocount | Oits | Osmarts | Osmiles.
Inductive rval :=
| Vrule (r : triple) | Vmaps (l : list mapping) | Vnat (n : nat) | Vits (l : list its) | Vstrs (l : list str) | Vraise.

(** ** one mapping through _glue_graph, the route chosen by the FLAG (not by what the oracle holds) *)
Definition glue_call (flag : bool) (host : hostg) (rc : its) (ct : call * list (list (list N))) : list (its * list (list N)) :=
  let c := fst ct in
  let '(hb, ms) := if flag
                   then (h_to_explicit host (map snd (fst c)), match snd c with Some rs => rs | None => [] end)
                   else (host, [fst c]) in
  flat_map (fun xt : mapping * list (list N) => match glue hb rc (fst xt) with Some g => [(g, snd xt)] | None => [] end)
           (zip_pad [] ms (snd ct)).

Definition glue_all (flag : bool) (host : hostg) (rc : its) (calls : list call) (tbls : list (list (list (list N)))) : list (its * list (list N)) :=
  flat_map (glue_call flag host rc) (zip_pad [] calls tbls).

(** the explicit-hydrogen stage over the whole list: None = some _explicit_h raised *)
Fixpoint explicit_all (gs : list (its * list (list N))) : option (list its) :=
  match gs with
  | [] => Some []
  | (g, tbl) :: r => match explicit_h_ord (ord_of tbl) g, explicit_all r with
                     | Some (g', _), Some r' => Some (g' :: r')
                     | _, _ => None
                     end
  end.

(** smarts_list from the its list *)
Fixpoint mapi {A B} (f : nat -> A -> B) (i : nat) (l : list A) : list B :=
  match l with [] => [] | a :: r => f i a :: mapi f (S i) r end.
Definition smarts_of (invert : bool) (ser : nat -> its -> option str * option str) (gs : list its) : list str :=
  let l := flat_map (fun o : option str => match o with Some s => if truthy s then [s] else [] | None => [] end)
                    (mapi (fun i g => to_smarts (ser i g)) O gs) in
  if invert then map reverse_reaction l else l.

(** ** the properties *)
Definition rd_rule (inp : rin) (st : rstate) : rstate * option triple :=
  match s_rule st with
  | Some r => (st, r)
  | None => (RS (Some (i_rule inp)) (s_maps st) (s_flag st) (s_its st) (s_smarts st), i_rule inp)
  end.

Definition rd_maps (inp : rin) (st : rstate) : rstate * option (list call) :=
  match s_maps st with
  | Some m => (st, Some m)
  | None =>
      let '(st1, r) := rd_rule inp st in
      match r with
      | None => (st1, None)
      | Some (rc, l, r') =>
          (RS (s_rule st1) (Some (i_calls inp)) (s_flag st1 || has_XH l) (s_its st1) (s_smarts st1), Some (i_calls inp))
      end
  end.

(** its_list: (new state, None = raises | Some list) *)
Definition rd_its (inp : rin) (st : rstate) : rstate * option (list its) :=
  match s_its st with
  | Some gs => (st, Some gs)
  | None =>
      let '(st1, r) := rd_rule inp st in                      (* self.rule.rc.raw *)
      match r with
      | None => (st1, None)
      | Some (rc, l, r') =>
          let '(st2, m) := rd_maps inp st1 in                  (* for m in self.mappings *)
          match m with
          | None => (st2, None)
          | Some calls =>
              let glued := glue_all (s_flag st2) (i_host inp) rc calls (i_tbls inp) in
              if i_explicit inp then
                match explicit_all glued with
                | Some gs => (RS (s_rule st2) (s_maps st2) (s_flag st2) (Some gs) (s_smarts st2), Some gs)
                | None => (RS (s_rule st2) (s_maps st2) (s_flag st2) (Some (map fst glued)) (s_smarts st2), None)
                end
              else (RS (s_rule st2) (s_maps st2) (s_flag st2) (Some (map fst glued)) (s_smarts st2), Some (map fst glued))
          end
      end
  end.

Definition rd_smarts (inp : rin) (st : rstate) : rstate * option (list str) :=
  match s_smarts st with
  | Some s => (st, Some s)
  | None =>
      let '(st1, r) := rd_its inp st in
      match r with
      | None => (st1, None)
      | Some gs => let s := smarts_of (i_invert inp) (i_ser inp) gs in
                   (RS (s_rule st1) (s_maps st1) (s_flag st1) (s_its st1) (Some s), Some s)
      end
  end.

Definition step (inp : rin) (st : rstate) (op : rop) : rstate * rval :=
  match op with
  | Orule => let '(st', r) := rd_rule inp st in (st', match r with Some t => Vrule t | None => Vraise end)
  | Omappings => let '(st', r) := rd_maps inp st in (st', match r with Some cs => Vmaps (map fst cs) | None => Vraise end)
  | Ocount => let '(st', r) := rd_maps inp st in (st', match r with Some cs => Vnat (length cs) | None => Vraise end)
  | Oits => let '(st', r) := rd_its inp st in (st', match r with Some gs => Vits gs | None => Vraise end)
  | Osmarts => let '(st', r) := rd_smarts inp st in (st', match r with Some s => Vstrs s | None => Vraise end)
  | Osmiles => let '(st', r) := rd_smarts inp st in (st', match r with Some s => Vstrs (map last_part s) | None => Vraise end)
  end.

Fixpoint run_ops (inp : rin) (st : rstate) (ops : list rop) : list rval :=
  match ops with
  | [] => []
  | op :: r => let '(st', v) := step inp st op in v :: run_ops inp st' r
  end.

(** ** what every read must return, as a function of the inputs alone *)
Definition spec_flag (inp : rin) : bool := match i_rule inp with Some (_, l, _) => has_XH l | None => false end.
Definition spec_glued (inp : rin) : list (its * list (list N)) :=
  match i_rule inp with
  | Some (rc, _, _) => glue_all (spec_flag inp) (i_host inp) rc (i_calls inp) (i_tbls inp)
  | None => []
  end.
Definition spec_its (inp : rin) : option (list its) :=
  match i_rule inp with
  | None => None
  | Some _ => if i_explicit inp then explicit_all (spec_glued inp) else Some (map fst (spec_glued inp))
  end.
Definition spec_smarts (inp : rin) : option (list str) :=
  match spec_its inp with Some gs => Some (smarts_of (i_invert inp) (i_ser inp) gs) | None => None end.
Definition spec_val (inp : rin) (op : rop) : rval :=
  match op with
  | Orule => match i_rule inp with Some t => Vrule t | None => Vraise end
  | Omappings => match i_rule inp with Some _ => Vmaps (map fst (i_calls inp)) | None => Vraise end
  | Ocount => match i_rule inp with Some _ => Vnat (length (i_calls inp)) | None => Vraise end
  | Oits => match spec_its inp with Some gs => Vits gs | None => Vraise end
  | Osmarts => match spec_smarts inp with Some s => Vstrs s | None => Vraise end
  | Osmiles => match spec_smarts inp with Some s => Vstrs (map last_part s) | None => Vraise end
  end.

(** the hypothesis of the capstone theorem (proof/C03_Capstone.v, its_list_sound), evaluated on every scripted case: the
    matcher's answers for one kept mapping are valid matches — on the direct route the mapping itself on the substrate, on
    the expanded route every re-match on the hydrogen-expanded substrate (which must be well formed) *)
Definition call_okb (flag : bool) (host : hostg) (rc : its) (c : call) : bool :=
  if flag then
    match snd c with
    | Some rs => let hb := h_to_explicit host (map snd (fst c)) in wf_hostb hb && forallb (match_rcb hb rc) rs
    | None => true
    end
  else match_rcb host rc (fst c).
Definition hyps_okb (inp : rin) : bool :=
  match i_rule inp with
  | Some (rc, l, _) => wf_hostb (i_host inp) && wf_rcb rc && forallb (call_okb (has_XH l) (i_host inp) rc) (i_calls inp)
  | None => true
  end.

(** ** observables *)
Definition tstr_b (s : str) : tok := tlist tN s.
(** a final ITS graph is compared through the atoms it shares with its glued predecessor (new H atoms get ids in the
    order of the migrations, which depends on the order of the groups): nodes / edges restricted to the ids of the i-th
    glued graph, plus the number of further atoms *)
Definition only_old_m (old : list N) (g : molg) : molg :=
  LG (filter (fun p => mem (fst p) old) (gnodes g))
     (filter (fun e => let '(a, b, _) := e in mem a old && mem b old) (gedges g)).
(** ... and the two molecule graphs its_decompose makes of it (what _to_smarts hands to RDKit), restricted likewise, with
    the number of further bonds on each side *)
Definition tits_old (old : list N) (g : its) : tok :=
  let o := only_old old g in
  let l := fst (its_decompose g) in
  let r := snd (its_decompose g) in
  let lo := only_old_m old l in
  let ro := only_old_m old r in
  L [tset tinode (gnodes o); tset tiedge (gedges o); tnat (length (gnodes g) - length (gnodes o));
     tmolg lo; tmolg ro; tnat (length (gedges l) - length (gedges lo)); tnat (length (gedges r) - length (gedges ro))].
Fixpoint tits_olds (olds : list (list N)) (l : list its) : list tok :=
  match l with
  | [] => []
  | g :: r => tits_old (hd [] olds) g :: tits_olds (tl olds) r
  end.
Definition trval (olds : list (list N)) (v : rval) : tok :=
  match v with
  | Vrule (rc, l, r) => L [I 0; tits rc; tmolg l; tmolg r]
  | Vmaps l => L [I 1; tlist tmap l]
  | Vnat n => L [I 2; tnat n]
  | Vits l => L [I 3; L (tits_olds olds l)]
  | Vstrs l => L [I 4; tlist tstr_b l]
  | Vraise => L [I 5]
  end.
Definition op_of (n : N) : rop :=
  match n with
  | 0%N => Orule | 1%N => Omappings | 2%N => Ocount | 3%N => Oits | 4%N => Osmarts | _ => Osmiles
  end.

(** SynReactor._wrap_template: the rule the reactor works with, from a template graph / string ([synrule_obj] = false) or
    from a SynRule object the caller built in the reactor's hydrogen mode *)
Definition mk_rule (invert implicit_temp synrule_obj : bool) (tpl : its) : option triple :=
  if synrule_obj
  then match synrule tpl (negb implicit_temp) with
       | None => None
       | Some rule0 => wrap_template_rule invert implicit_temp rule0
       end
  else synrule (if invert then invert_template tpl else tpl) (negb implicit_temp).

(** one reactor, a script of reads; [sers]: the RDKit strings by position in its_list *)
Definition run_reads (invert implicit_temp explicit_stage synrule_obj : bool) (host : hostg) (tpl : its)
                     (calls : list call) (tbls : list (list (list (list N)))) (sers : list (option str * option str))
                     (ops : list N) : tok :=
  let rule := mk_rule invert implicit_temp synrule_obj tpl in
  let inp := RI invert explicit_stage host rule calls tbls (fun i _ => nth i sers (None, None)) in
  (* "old" atoms of the i-th result = the atoms of the i-th glued graph (everything that is not created by _explicit_h);
     the harness restricts to the same sets *)
  let olds := map (fun gt : its * list (list N) => node_ids (fst gt)) (spec_glued inp) in
  L [tlist (trval olds) (run_ops inp rs0 (map op_of ops)); tbool (hyps_okb inp)].
