(** C01 — vocabulary of the hydrogen balance of implicit_hydrogen (theorem C01_hydrogen_balance): the number of hydrogens a
    molecule graph stands for = one per hydrogen ATOM + the hcount of every other atom.  Definitions only. *)
From Coq Require Import List NArith ZArith Bool.
From SK Require Import lib.LGraph model.C01_Model model.C01_String.
Import ListNotations.
Local Open Scope Z_scope.

Definition sumZ {X} (f : X -> Z) (l : list X) : Z := fold_right (fun x acc => f x + acc) 0 l.

(** what node n contributes: 1 if it is a hydrogen atom, its hcount otherwise *)
Definition h_weight (g : mgraph) (n : N) : Z :=
  match label g n with Some a => if is_H a then 1 else g_hc a | None => 0 end.
Definition h_total (g : mgraph) : Z := sumZ (h_weight g) (node_ids g).

(** every hydrogen atom is bonded to at most one non-hydrogen atom (no bridging hydrogens) *)
Definition one_parent (g : mgraph) : Prop :=
  forall h, is_Hn g h = true -> (length (filter (fun m => negb (is_Hn g m)) (nbrs g h)) <= 1)%nat.

(** ** the same count on one side of an ITS (typesGH half [sel]): theorem C01_h_to_explicit_balance *)
Definition iw (sel : inode -> nattr) (a : inode) : Z := if N.eqb (a_el (sel a)) EL_H then 1 else a_hc (sel a).
Definition its_h_total (sel : inode -> nattr) (I : its) : Z := sumZ (fun p : N * inode => iw sel (snd p)) (gnodes I).
(** an atom that is a hydrogen on that side has no hydrogens of its own to expand (always so for RDKit readings) *)
Definition h_safe (sel : inode -> nattr) (ns : list (N * inode)) : Prop :=
  forall n a, In (n, a) ns -> a_el (sel a) = EL_H -> hx_count a <= 0.
