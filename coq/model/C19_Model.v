(** C19 — executable model of synkit/CRN/Props/deficiency.py (DeficiencyAnalyzer: _complex_vectors,
    compute_summary, _is_weakly_reversible, compute_linkage_deficiencies, check_regularity and the deficiency
    zero / one front ends), AFTER the repair of the edge walk (/repo 0eb35ff: in- and out-arcs of a reaction node).
    Definitions only; proofs in proof/C19_*.v.  Built on model/C17_Model.v (species order, bipartite arcs).

    networkx connected_components / is_strongly_connected / strongly_connected_components are modelled by the
    saturation closure of lib/Reach.v; numpy matrix_rank by certificate-checked exact ranks. *)
From Coq Require Import List NArith ZArith Bool Arith.
From SK Require Import lib.Tok lib.Reach lib.C17_Farkas model.C17_Model.
Import ListNotations.

(** lhs / rhs vector of a reaction node over species_index: sum of the stoich of its incident arcs with that role *)
Definition cvec (ro : role) (net : list rxn) (iso : list str) (e : rxn) : list Z :=
  map (fun s => entry ro (bip_arcs net) s (rid e)) (species_order net iso).

(** the walk BEFORE the repair: G.edges(r) on a DiGraph = out-arcs of r only; reactant arcs point INTO r, so only
    product arcs were seen (kept for the documentation theorem C19_outarcs_only_refuted) *)
Definition cvec_outarcs_only (ro : role) (net : list rxn) (iso : list str) (e : rxn) : list Z :=
  map (fun s => entry ro (filter (fun a => role_eqb (a_role a) Product) (bip_arcs net)) s (rid e)) (species_order net iso).

(** undirected bipartite input (nx.Graph / nx.MultiGraph): the incidences carry role and stoich but no direction.  Since /repo
    a58b70a _as_bipartite orients each incidence by its role, which gives exactly [bip_arcs] (so [cvec] applies).  BEFORE that
    repair it built nx.DiGraph(U) — both directions for every incidence — and the walk over the in- and out-arcs of a reaction
    node met every incidence twice (kept for the documentation theorem C19_undirected_input_refuted) *)
Definition cvec_undirected_doubled (ro : role) (net : list rxn) (iso : list str) (e : rxn) : list Z :=
  map (fun s => entry ro (bip_arcs net ++ bip_arcs net) s (rid e)) (species_order net iso).

Fixpoint veqb (u v : list Z) : bool :=
  match u, v with
  | [], [] => true
  | x :: u', y :: v' => Z.eqb x y && veqb u' v'
  | _, _ => false
  end.
Fixpoint index_of (v : list Z) (cs : list (list Z)) : option nat :=
  match cs with
  | [] => None
  | c :: cs' => if veqb c v then Some 0%nat else option_map S (index_of v cs')
  end.
(** add_complex: idx_map lookup, else append *)
Definition add_complex (cs : list (list Z)) (v : list Z) : list (list Z) * nat :=
  match index_of v cs with
  | Some k => (cs, k)
  | None => (cs ++ [v], length cs)
  end.
Definition arc_mem (a : nat * nat) (l : list (nat * nat)) : bool :=
  existsb (fun b => Nat.eqb (fst a) (fst b) && Nat.eqb (snd a) (snd b)) l.

Section Walk.
Variable vec : role -> rxn -> list Z.
Definition cstep (st : list (list Z) * list (nat * nat)) (e : rxn) : list (list Z) * list (nat * nat) :=
  let '(cs, arcs) := st in
  let '(cs1, u) := add_complex cs (vec Reactant e) in
  let '(cs2, v) := add_complex cs1 (vec Product e) in
  (cs2, if arc_mem (u, v) arcs then arcs else arcs ++ [(u, v)]).
End Walk.

(** (complex list, arcs of the complex graph); reaction nodes are visited in node order = sorted edge ids *)
Definition complex_graph (net : list rxn) (iso : list str) : list (list Z) * list (nat * nat) :=
  fold_left (cstep (fun ro e => cvec ro net iso e)) (edges_sorted net) ([], []).
Definition complex_graph_outarcs_only (net : list rxn) (iso : list str) : list (list Z) * list (nat * nat) :=
  fold_left (cstep (fun ro e => cvec_outarcs_only ro net iso e)) (edges_sorted net) ([], []).

Definition complex_graph_undirected_doubled (net : list rxn) (iso : list str) : list (list Z) * list (nat * nat) :=
  fold_left (cstep (fun ro e => cvec_undirected_doubled ro net iso e)) (edges_sorted net) ([], []).

(** adjacency of the complex graph (nodes = complex indices as N) *)
Definition nn (k : nat) : N := N.of_nat k.
Definition succs (arcs : list (nat * nat)) (u : N) : list N :=
  flat_map (fun a => if N.eqb (nn (fst a)) u then [nn (snd a)] else []) arcs.
Definition preds (arcs : list (nat * nat)) (u : N) : list N :=
  flat_map (fun a => if N.eqb (nn (snd a)) u then [nn (fst a)] else []) arcs.
Definition und_nbr (arcs : list (nat * nat)) (u : N) : list N := succs arcs u ++ preds arcs u.

Definition closure (nbr : N -> list N) (k : nat) (u : N) : list N :=
  match saturate nbr (S k) [u] with Some R => R | None => [] end.

(** nx.connected_components(CG.to_undirected()): nodes in insertion order, one closure per unseen node *)
Fixpoint classes_go (nbr : N -> list N) (k : nat) (todo seen : list N) : list (list N) :=
  match todo with
  | [] => []
  | u :: rest => if mem u seen then classes_go nbr k rest seen
                 else let c := closure nbr k u in c :: classes_go nbr k rest (c ++ seen)
  end.
Definition linkage_classes (arcs : list (nat * nat)) (k : nat) : list (list N) :=
  classes_go (und_nbr arcs) k (map nn (seq 0 k)) [].

Definition subset (a b : list N) : bool := forallb (fun x => mem x b) a.
(** nx.is_strongly_connected(G.subgraph(comp)) for a connected component comp *)
Definition strongly_connected (arcs : list (nat * nat)) (k : nat) (c : list N) : bool :=
  match c with
  | [] => true
  | u :: _ => subset c (closure (succs arcs) k u) && subset c (closure (preds arcs) k u)
  end.
Definition weakly_reversible (arcs : list (nat * nat)) (k : nat) : bool :=
  forallb (strongly_connected arcs k) (linkage_classes arcs k).

(** check_regularity: every linkage class has exactly one terminal strongly connected component *)
Definition scc (arcs : list (nat * nat)) (k : nat) (v : N) : list N :=
  filter (fun x => mem x (closure (preds arcs) k v)) (closure (succs arcs) k v).
Definition is_terminal (arcs : list (nat * nat)) (k : nat) (v : N) : bool :=
  subset (closure (succs arcs) k v) (closure (preds arcs) k v).
Definition is_rep (arcs : list (nat * nat)) (k : nat) (c : list N) (v : N) : bool :=
  match find (fun x => mem x (scc arcs k v)) c with Some x => N.eqb x v | None => false end.
Definition terminal_count (arcs : list (nat * nat)) (k : nat) (c : list N) : nat :=
  length (filter (fun v => is_rep arcs k c v && is_terminal arcs k v) c).
Definition regular (arcs : list (nat * nat)) (k : nat) : bool :=
  forallb (fun c => Nat.eqb (terminal_count arcs k c) 1) (linkage_classes arcs k).

(** _linkage_class_stoich_rank: the non-zero difference vectors y' - y of the arcs inside the class *)
Definition is_zero_vec (v : list Z) : bool := forallb (fun t => Z.eqb t 0) v.
Definition class_diffs (cs : list (list Z)) (arcs : list (nat * nat)) (c : list N) : list (list Z) :=
  flat_map (fun a => if mem (nn (fst a)) c && mem (nn (snd a)) c
                     then let d := vsub (nth (snd a) cs []) (nth (fst a) cs []) in
                          if is_zero_vec d then [] else [d]
                     else []) arcs.

(** nondegeneracy_test: total coefficient of a complex; int(max(complex_sizes)) if complex_sizes else 0 *)
Definition complex_size (c : list Z) : Z := fold_right Z.add 0%Z c.
Definition max_complex_size (cs : list (list Z)) : Z :=
  match cs with
  | [] => 0%Z
  | c :: rest => fold_left (fun acc c' => Z.max acc (complex_size c')) rest (complex_size c)
  end.

Record summary := Summary { n_species : nat; n_reactions : nat; n_complexes : nat; n_linkage : nat; stoich_rank : nat;
                            deficiency : Z; weakly_rev : bool }.

Definition deficiency_of (nc nl r : nat) : Z := (Z.of_nat nc - Z.of_nat nl - Z.of_nat r)%Z.

Definition compute_summary (net : list rxn) (iso : list str) (r : nat) : summary :=
  let '(cs, arcs) := complex_graph net iso in
  let k := length cs in
  let nl := length (linkage_classes arcs k) in
  Summary (length (species_order net iso)) (length (reaction_order net)) k nl r (deficiency_of k nl r) (weakly_reversible arcs k).

(** delta_l = n_l - 1 - s_l with s_l the (certified) rank of the class's difference vectors *)
Definition linkage_deficiencies (classes : list (list N)) (ranks : list nat) : list Z :=
  map (fun p => (Z.of_nat (length (fst p)) - 1 - Z.of_nat (snd p))%Z) (combine classes ranks).

Definition zsum (l : list Z) : Z := fold_right Z.add 0%Z l.
Definition check_deficiency_zero (s : summary) : bool := Z.eqb (deficiency s) 0 && weakly_rev s.
Definition check_deficiency_one (s : summary) (ld : list Z) : bool :=
  Z.eqb (deficiency s) 1 && Nat.eqb (length ld) (n_linkage s) && forallb (fun d => Z.leb d 1) ld && Z.eqb (zsum ld) 1.
Definition deficiency_one_hypotheses (s : summary) (ld : list Z) (reg : bool) : bool :=
  Z.eqb (deficiency s) 1 && Z.eqb (zsum ld) 1 && (negb (Nat.eqb (length ld) 0) && forallb (fun d => Z.leb d 1) ld) && reg.

(** all rank certificates (S and one per linkage class) validated by the proved checker *)
Definition certs_ok (net : list rxn) (iso : list str) (rc : rcert) (ccs : list rcert) : bool :=
  let '(cs, arcs) := complex_graph net iso in
  let m := length (species_order net iso) in
  let classes := linkage_classes arcs (length cs) in
  rank_checked m (length (reaction_order net)) (build_S net iso) rc &&
  Nat.eqb (length ccs) (length classes) &&
  forallb (fun p => let D := class_diffs cs arcs (fst p) in rank_checked (length D) m D (snd p)) (combine classes ccs).

Definition tarc (a : nat * nat) : tok := L [tnat (fst a); tnat (snd a)].

(** the two exact outputs of nondegeneracy_test: nullity of S^T (number of species - rank) and the largest complex size *)
Definition tnondeg2 (s : summary) (cs : list (list Z)) : tok :=
  L [tnat (n_species s - stoich_rank s); I (max_complex_size cs)].

Definition run19_flag (flag : bool) (net : list rxn) (iso : list str) (rc : rcert) (ccs : list rcert) : tok :=
  match net with
  | [] => L [I 2%Z]
  | _ =>
    let '(cs, arcs) := complex_graph net iso in
    let k := length cs in
    let classes := linkage_classes arcs k in
    let s := compute_summary net iso (rc_r rc) in
    let ld := linkage_deficiencies classes (map rc_r ccs) in
    let reg := regular arcs k in
    L [ I 0%Z;
        tmat cs;
        tset tarc arcs;
        tlist (tset tN) classes;
        L [tnat (n_species s); tnat (n_reactions s); tnat (n_complexes s); tnat (n_linkage s); tnat (stoich_rank s);
           I (deficiency s); tbool (weakly_rev s)];
        tlist I ld;
        tbool flag;
        tbool reg;
        tbool (check_deficiency_zero s);
        tbool (check_deficiency_one s ld);
        tbool (deficiency_one_hypotheses s ld reg);
        tnondeg2 s cs ]
  end.
Definition run19 (net : list rxn) (iso : list str) (rc : rcert) (ccs : list rcert) : tok :=
  run19_flag (certs_ok net iso rc ccs) net iso rc ccs.

(** A call history on ONE DeficiencyAnalyzer object whose network is edited between the calls.  The object stores
    _summary, _complexes, _idx_map, _complex_graph, _linkage_deficiencies and _structural_one_result; each analysis
    (compute_crn_deficiency, or compute_summary + compute_linkage_deficiencies + run_deficiency_one_algorithm) OVERWRITES
    every one of them from the current network and reads none of the old values.  State machine: the state is the stored
    answer; a step ignores the old state. *)
Definition hist_step := (list rxn * list str * rcert * list rcert)%type.
Definition step19 (st : tok) (x : hist_step) : tok :=
  run19 (fst (fst (fst x))) (snd (fst (fst x))) (snd (fst x)) (snd x).
Definition run19_hist (steps : list hist_step) : tok :=
  L (snd (fold_left (fun acc x => let st' := step19 (fst acc) x in (st', snd acc ++ [st'])) steps (L [], []))).

(** The analyzer as a STAGED state machine (round 3).  Stored fields: the summary with its complex list / complex graph,
    the linkage deficiencies, the deficiency-one result.  Stages:
      compute_summary                 recomputes the first group from the CURRENT network and (since /repo 7d0fc98) DROPS the two
                                      derived groups; [do_summary_old] is the stage before that repair (derived groups kept)
      compute_linkage_deficiencies    needs a summary (RuntimeError otherwise: state unchanged); works on the STORED complex graph
      run_deficiency_one_algorithm    computes the missing stages first, then stores (hypotheses_satisfied, regular)
    Routes used by callers: 0 = compute_crn_deficiency = summary; linkage; one,  1 = the same three calls by hand,
    2 = summary; one.  ValueError (no reaction) leaves the state untouched. *)
Record astate := AState { a_sum : option (list (list Z) * list (nat * nat) * summary);
                          a_ld : option (list Z); a_one : option (bool * bool) }.
Definition a_init : astate := AState None None None.
Definition hs_net (x : hist_step) : list rxn := fst (fst (fst x)).
Definition hs_iso (x : hist_step) : list str := snd (fst (fst x)).
Definition hs_rc (x : hist_step) : rcert := snd (fst x).
Definition hs_ccs (x : hist_step) : list rcert := snd x.

Definition fresh_sum (x : hist_step) : list (list Z) * list (nat * nat) * summary :=
  (fst (complex_graph (hs_net x) (hs_iso x)), snd (complex_graph (hs_net x) (hs_iso x)),
   compute_summary (hs_net x) (hs_iso x) (rc_r (hs_rc x))).
Definition do_summary (x : hist_step) (st : astate) : astate := AState (Some (fresh_sum x)) None None.
Definition do_summary_old (x : hist_step) (st : astate) : astate := AState (Some (fresh_sum x)) (a_ld st) (a_one st).
Definition do_linkage (x : hist_step) (st : astate) : astate :=
  match a_sum st with
  | None => st
  | Some (cs, arcs, s) =>
      AState (a_sum st) (Some (linkage_deficiencies (linkage_classes arcs (length cs)) (map rc_r (hs_ccs x)))) (a_one st)
  end.
Definition do_one_with (summ : hist_step -> astate -> astate) (x : hist_step) (st : astate) : astate :=
  let st1 := match a_sum st with None => summ x st | Some _ => st end in
  let st2 := match a_ld st1 with None => do_linkage x st1 | Some _ => st1 end in
  match a_sum st2, a_ld st2 with
  | Some (cs, arcs, s), Some ld =>
      let reg := regular arcs (length cs) in
      AState (a_sum st2) (a_ld st2) (Some (deficiency_one_hypotheses s ld reg, reg))
  | _, _ => st2
  end.
Definition route_with (summ : hist_step -> astate -> astate) (style : nat) (x : hist_step) (st : astate) : astate :=
  match style with
  | 2%nat => do_one_with summ x (summ x st)
  | _ => do_one_with summ x (do_linkage x (summ x st))
  end.
Definition route := route_with do_summary.
Definition route_old := route_with do_summary_old.

(** what the adapter reads from the object (same layout as run19) *)
Definition obs_of_state (x : hist_step) (st : astate) : tok :=
  match a_sum st, a_ld st, a_one st with
  | Some (cs, arcs, s), Some ld, Some (hyp, reg) =>
    L [ I 0%Z; tmat cs; tset tarc arcs; tlist (tset tN) (linkage_classes arcs (length cs));
        L [tnat (n_species s); tnat (n_reactions s); tnat (n_complexes s); tnat (n_linkage s); tnat (stoich_rank s);
           I (deficiency s); tbool (weakly_rev s)];
        tlist I ld;
        tbool (certs_ok (hs_net x) (hs_iso x) (hs_rc x) (hs_ccs x));
        tbool reg; tbool (check_deficiency_zero s); tbool (check_deficiency_one s ld); tbool hyp;
        tnondeg2 s cs ]
  | _, _, _ => L [I 3%Z]
  end.

(** a history: per step the route taken by the RE-USED analyzer, then a brand-new analyzer (route 0 from the initial state);
    both answers are recorded *)
Definition sm_step (acc : astate * list tok) (sx : nat * hist_step) : astate * list tok :=
  match hs_net (snd sx) with
  | [] => (fst acc, snd acc ++ [L [I 2%Z]; L [I 2%Z]])
  | _ => let st' := route (fst sx) (snd sx) (fst acc) in
         (st', snd acc ++ [obs_of_state (snd sx) st'; obs_of_state (snd sx) (route 0 (snd sx) a_init)])
  end.
Definition run19_sm (steps : list (nat * hist_step)) : tok := L (snd (fold_left sm_step steps (a_init, []))).
