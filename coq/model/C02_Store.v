(** C02 (rounds 4-5) — get_rc and the RadiusExpand context on ITS graphs whose TOP-LEVEL labels may be (reactant, product)
    PAIRS, as ITSConstruction.construct(G, H) writes them with its own default store=True
    (element = ("C","C"), charge = (0,-1), aromatic / hcount / neighbors pairs; atom_map scalar; typesGH as usual).
    get_rc copies label VALUES whatever their shape; only two tests look inside a node: _is_hh_pair / _is_hydrogen reads the
    top-level element ("H", or the pair ("H","H") since the round-5 repair 01341f7), _add_charge_change_nodes reads typesGH.
    The functions are written once, generically in the node type ([get_rc_g]); [get_rc_S] is the instance for [snode].
    proof/C02_Store.v: lock-step agreement with [get_rc_x] of model/C02_Model.v on the flattened graph, labels copied
    unchanged.  Definitions only.  Imports C01's store=True construction (model/C01_Opts.v) read-only. *)
From Coq Require Import List NArith ZArith Bool.
From SK Require Import lib.Tok lib.LGraph lib.Reach model.C01_Model model.C01_Opts model.C02_Model.
Import ListNotations.
Local Open Scope Z_scope.

(** ** get_rc, generic in the node type *)
Section Generic.
Variable A : Type.
Variable sel selhh : A -> A.        (* _ensure_node / _carry_node_attrs ; _ensure_node_hh *)
Variable ish : A -> bool.           (* ITS.nodes[n].get("element") == "H" *)
Variable cc : A -> bool.            (* typesGH present and gh[0][3] != gh[1][3] *)
Definition ggraph := lgraph A xedge.

Definition has_key_g (n : N) (ns : list (N * A)) : bool := match assoc n ns with Some _ => true | None => false end.
Definition ensure_g (f : A -> A) (g : ggraph) (n : N) (ns : list (N * A)) : list (N * A) :=
  if has_key_g n ns then ns else match label g n with Some a => ns ++ [(n, f a)] | None => ns end.
Definition is_h_g (g : ggraph) (u : N) : bool := match label g u with Some a => ish a | None => false end.
Definition is_hh_g (g : ggraph) (u v : N) : bool := is_h_g g u && is_h_g g v.
Definition state_g := (list (N * A) * list (N * N * xedge))%type.

Definition step_changed_g (keep : bool) (g : ggraph) (st : state_g) (e : N * N * xedge) : state_g :=
  let '(u, v, x) := e in
  if include_x keep x
  then (ensure_g sel g v (ensure_g sel g u (fst st)), snd st ++ [(u, v, out_edge x)])
  else st.
Definition step_hh_g (g : ggraph) (st : state_g) (e : N * N * xedge) : state_g :=
  let '(u, v, x) := e in
  if is_hh_g g u v
  then (ensure_g selhh g v (ensure_g selhh g u (fst st)),
        match find_edge u v (snd st) with Some _ => snd st | None => snd st ++ [(u, v, out_edge x)] end)
  else st.
Definition step_charge_g (ns : list (N * A)) (p : N * A) : list (N * A) :=
  if cc (snd p) && negb (has_key_g (fst p) ns) then ns ++ [(fst p, sel (snd p))] else ns.
Definition step_reconnect_g (ns : list (N * A)) (es : list (N * N * xedge)) (e : N * N * xedge) : list (N * N * xedge) :=
  let '(u, v, x) := e in
  if has_key_g u ns && has_key_g v ns && match find_edge u v es with Some _ => false | None => true end
  then es ++ [(u, v, out_edge_rec x)] else es.

Definition get_rc_g (disconnected keep : bool) (g : ggraph) : ggraph :=
  let st1 := fold_left (step_changed_g keep g) (gedges g) ([], []) in
  let st2 := fold_left (step_hh_g g) (gedges g) st1 in
  if disconnected
  then let ns3 := fold_left step_charge_g (gnodes g) (fst st2) in
       LG ns3 (fold_left (step_reconnect_g ns3) (gedges g) (snd st2))
  else LG (fst st2) (snd st2).
End Generic.
Arguments has_key_g {A} n ns.
Arguments ensure_g {A} f g n ns.
Arguments is_h_g {A} ish g u.
Arguments is_hh_g {A} ish g u v.
Arguments step_changed_g {A} sel keep g st e.
Arguments step_hh_g {A} selhh ish g st e.
Arguments step_charge_g {A} sel cc ns p.
Arguments step_reconnect_g {A} ns es e.
Arguments get_rc_g {A} sel selhh ish cc disconnected keep g.

(** ** nodes whose labels are scalars or pairs *)
Inductive lab (T : Type) : Type := Sc (v : T) | Pr (a b : T).
Arguments Sc {T} v.
Arguments Pr {T} a b.

Record snode := SN {
  n_el : option (lab N); n_ch : option (lab Z); n_amap : option Z;
  n_arom : option (lab bool); n_hc : option (lab Z); n_nb : option (lab (list N));
  n_gh : option (nattr * nattr) }.
Definition sits := lgraph snode xedge.

Definition selS (K : keysel) (a : snode) : snode :=
  SN (pick (k_el K) (n_el a)) (pick (k_ch K) (n_ch a)) (pick (k_amap K) (n_amap a))
     (pick (k_arom K) (n_arom a)) (pick (k_hc K) (n_hc a)) (pick (k_nb K) (n_nb a)) (pick (k_gh K) (n_gh a)).
Definition selS_hh (K : keysel) (a : snode) : snode :=
  SN (pick (k_el K) (n_el a)) (pick (k_ch K) (n_ch a)) (pick (k_amap K) (n_amap a))
     (pick (k_arom K) (n_arom a)) (pick (k_hc K) (n_hc a)) (pick (k_nb K) (n_nb a))
     (Some (match n_gh a with Some t => t | None => HH_FALLBACK end)).
(** _is_hydrogen(element): the string "H", or the (reactant, product) pair ("H", "H")  (repair of round 5: before it, only
    the scalar was recognised and get_rc dropped the unchanged H-H bonds of every store=True ITS) *)
Definition ish_lab (l : lab N) : bool :=
  match l with Sc e => N.eqb e EL_H | Pr p q => N.eqb p EL_H && N.eqb q EL_H end.
Definition ish_S (a : snode) : bool := match n_el a with Some l => ish_lab l | None => false end.
Definition cc_S (a : snode) : bool := match n_gh a with Some (tg, th) => negb (a_ch tg =? a_ch th) | None => false end.

Definition get_rc_S (K : keysel) (disconnected keep : bool) (g : sits) : sits :=
  get_rc_g (selS K) (selS_hh K) ish_S cc_S disconnected keep g.

(** flattening to the nodes of model/C02_Model.v: scalars stay, a pair keeps its reactant side — except an element pair
    ("H", q) with q other than "H", which becomes "*" (the H test needs "H" on both sides).  So an element pair with equal
    sides flattens to that element: the flattened store=True node IS the store=False node ([flat_twin] in proof/C02_Store.v) *)
Definition fl {T} (l : lab T) : T := match l with Sc v => v | Pr a _ => a end.
Definition fl_el (l : lab N) : N :=
  match l with Sc v => v | Pr p q => if N.eqb p EL_H && negb (N.eqb q EL_H) then EL_STAR else p end.
Definition flat (a : snode) : xnode :=
  XN (option_map fl_el (n_el a)) (option_map fl (n_ch a)) (n_amap a) (option_map fl (n_arom a)) (option_map fl (n_hc a))
     (option_map fl (n_nb a)) (n_gh a).

(** embeddings: a store=False ITS node (all scalars), a store=True ITS node of C01 (all pairs) *)
Definition sn_of_x (a : xnode) : snode :=
  SN (option_map Sc (x_el a)) (option_map Sc (x_ch a)) (x_amap a) (option_map Sc (x_arom a)) (option_map Sc (x_hc a))
     (option_map Sc (x_nb a)) (x_gh a).
Definition sn_of_S (a : inodeS) : snode :=
  SN (Some (Pr (fst (s_el a)) (snd (s_el a)))) (Some (Pr (fst (s_ch a)) (snd (s_ch a)))) (Some (s_amap a))
     (Some (Pr (fst (s_arom a)) (snd (s_arom a)))) (Some (Pr (fst (s_hc a)) (snd (s_hc a))))
     (Some (Pr (fst (s_nb a)) (snd (s_nb a)))) (Some (s_G a, s_H a)).
Definition emb_S (g : itsS) : sits := gmap sn_of_S (fun e : iedge => (e, @None bool)) g.
(** the store=False twin of a store=True ITS node: every pair reduced to its reactant side (what ITSGraph stores) *)
Definition twin (a : inodeS) : inode :=
  IN (fst (s_el a)) (fst (s_ch a)) (s_amap a) (Some (fst (s_arom a), fst (s_hc a), fst (s_nb a))) (s_G a) (s_H a).

(** ** RadiusExpand on such graphs (generic in the node type: only ids and bonds matter) *)
Definition knn_g {A B} (g : lgraph A B) (seeds : list N) (k : nat) : list N :=
  Nat.iter k (step (nbrs g)) (add_all seeds []).
Definition extract_k_S (g : sits) (k : nat) : sits :=
  match k with
  | O => get_rc_S K_default false false g
  | _ => induced_sub g (knn_g g (node_ids (get_rc_S K_default false false g)) k)
  end.
Definition unequal_nodes_g {A} (g : lgraph A xedge) : list N :=
  fold_left (fun S (e : N * N * xedge) => let '(u, v, x) := e in if unequal (fst x) then add_all [u; v] S else S) (gedges g) [].

(** ** observables *)
Definition tlab {T} (f : T -> tok) (l : lab T) : tok := match l with Sc v => L [f v] | Pr a b => L [f a; f b] end.
Definition tsnode (p : N * snode) : tok :=
  let a := snd p in
  L [tN (fst p); topt (tlab tN) (n_el a); topt (tlab tZ) (n_ch a); topt tZ (n_amap a); topt (tlab tbool) (n_arom a);
     topt (tlab tZ) (n_hc a); topt (tlab (tlist tN)) (n_nb a);
     topt (fun t : nattr * nattr => L [tnattr (fst t); tnattr (snd t)]) (n_gh a)].
Definition tsits (g : sits) : tok := L [tset tsnode (gnodes g); tset txedge (gedges g)].

Definition run_S1 (K : keysel) (disc keep : bool) (g : sits) : tok :=
  let rc := get_rc_S K disc keep g in L [tsits rc; tsits (get_rc_S K disc keep rc)].
(** all four (disconnected, keep_mtg) settings, then the contexts of radius 0..3 (full labels) and find_unequal_order_edges *)
Definition run_S_all (K : keysel) (g : sits) : tok :=
  L [run_S1 K false false g; run_S1 K false true g; run_S1 K true false g; run_S1 K true true g;
     tlist (fun k => tsits (extract_k_S g k)) [0; 1; 2; 3]%nat;
     tset tN (unequal_nodes_g g)].

(** ** vocabulary of the context theorems, generic in the node and bond types (the instances for [its] are [walk] / [dist_le]
    of model/C02_Model.v) *)
Inductive walk_g {A B} (g : lgraph A B) : N -> N -> nat -> Prop :=
| walk_g_here s : walk_g g s s O
| walk_g_step s u n m : walk_g g s u m -> adj g u n <> None -> walk_g g s n (S m).
Definition dist_le_g {A B} (g : lgraph A B) (seeds : list N) (k : nat) (n : N) : Prop :=
  exists s m, In s seeds /\ (m <= k)%nat /\ walk_g g s n m.
(** find_nearest_neighbors followed by extract_subgraph, for ANY list of start atoms *)
Definition ball_sub {A B} (g : lgraph A B) (seeds : list N) (k : nat) : lgraph A B := induced_sub g (knn_g g seeds k).

(** ** n_knn = -1 on graphs of any label shape: longest_radius_extension reads only the bonds (standard_order == 0) and the
    adjacency order, so it is [lre] of model/C02_Model.v on the SKELETON of the graph (same atom ids, a placeholder label,
    bonds without the is_mtg flag) *)
Definition skel_node : inode := IN EL_STAR 0 0 None (NA EL_STAR false 0 0 []) (NA EL_STAR false 0 0 []).
Definition skel {A} (g : lgraph A xedge) : its := gmap (fun _ : A => skel_node) (@fst iedge (option bool)) g.

(** extract_k(its, n_knn) for every integer option value, on such graphs *)
Definition extract_k_S_z (g : sits) (k : Z) : sits :=
  if k =? 0 then get_rc_S K_default false false g
  else let rcn := node_ids (get_rc_S K_default false false g) in
       let k' := if k =? -1 then length (lre (skel g) rcn) else Z.to_nat k in
       ball_sub g rcn k'.

(** longest_radius_extension(I, list(get_rc(I).nodes())) and extract_k(I, -1), then two more option values *)
Definition run_S_lre (g : sits) : tok :=
  let rcn := node_ids (get_rc_S K_default false false g) in
  L [tlist tN rcn; tlist tN (lre (skel g) rcn); tsits (extract_k_S_z g (-1)); tsits (extract_k_S_z g (-2)); tsits (extract_k_S_z g 2)].
