(** C01 — executable model of the OPTIONS of
      synkit/Graph/ITS/its_construction.py  ITSConstruction.construct / ITSGraph
        ignore_aromaticity   (_compute_standard_order: |order_G - order_H| < 1 is stored as standard_order 0)
        balance_its          (which graph is deep-copied as the base: the smaller or the larger one)
        store                (top-level node attributes: the G-side value, or the (G, H) pair)
        attributes_defaults  (the values used for a node missing on one side / a missing 'neighbors' attribute)
      and of its_decompose on the ITS graphs of either [store] value.
    [node_attrs] is the list ITSGraph passes and construct uses by default
    (element, aromatic, hcount, charge, neighbors); other selections are not modelled.
    model/C01_Model.v is unchanged: [its_construct] is the instance [its_construct_o default_opts]
    (lemma construct_default in proof/C01_OptsProof.v).  Definitions only. *)
From Coq Require Import List NArith ZArith Bool.
From SK Require Import lib.Tok lib.LGraph model.C01_Model.
Import ListNotations.
Local Open Scope Z_scope.

(** ** options *)
Record copts := CO {
  o_ia : bool;          (* ignore_aromaticity *)
  o_bal : bool;         (* balance_its *)
  o_dflt : nattr }.     (* _resolve_defaults(attributes_defaults, CORE_NODE_DEFAULTS) restricted to node_attrs *)

(** ITSGraph(G, H): ignore_aromaticity=False, balance_its=False, attributes_defaults=None *)
Definition default_opts : copts := CO false false dflt_nattr.

(** tuple(G.nodes[n].get(attr, node_defaults.get(attr)) for attr in node_attrs) *)
Definition tuple_of_d (d : nattr) (a : gnode) : nattr :=
  NA (g_el a) (g_arom a) (g_hc a) (g_ch a) (match g_nb a with Some l => l | None => a_nb d end).

Definition side_tuple_o (o : copts) (G : mgraph) (n : N) : nattr :=
  match label G n with Some a => tuple_of_d (o_dflt o) a | None => o_dflt o end.

(** (balance_its and len(G) <= len(H)) or (not balance_its and len(G) >= len(H))  ->  base = G *)
Definition base_is_G_o (o : copts) (G H : mgraph) : bool :=
  if o_bal o then (length (gnodes G) <=? length (gnodes H))%nat
  else (length (gnodes H) <=? length (gnodes G))%nat.

(** _compute_standard_order: o_g - o_h, zeroed when ignore_aromaticity and abs(...) < 1
    (half-units: |a - b| < 2) *)
Definition std_of (ia : bool) (a b : Z) : Z :=
  if ia && (Z.abs (a - b) <? 2) then 0 else a - b.
Definition mk_iedge_o (o : copts) (oG oH : Z) : iedge := IE oG oH (std_of (o_ia o) oG oH).

(** ** construct, generic in the node record that is built ([mk n amap]) *)
Definition its_construct_gen {A : Type} (mk : N -> Z -> A) (o : copts) (G H : mgraph) : lgraph A iedge :=
  let base := if base_is_G_o o G H then G else H in
  let other := if base_is_G_o o G H then H else G in
  let ns := gnodes base ++ filter (fun p => negb (has_node base (fst p))) (gnodes other) in
  LG (map (fun p => (fst p, mk (fst p) (g_amap (snd p)))) ns)
     (map (fun e => let '(u, v, x) := e in (u, v, mk_iedge_o o x (order_in H u v))) (gedges G)
      ++ map (fun e => let '(u, v, x) := e in (u, v, mk_iedge_o o 0 x)) (filter (absent_in G) (gedges H))).

(** store=False: ITS.nodes[n][attr] = g_tuple[i] *)
Definition its_node_o (o : copts) (G H : mgraph) (n : N) (amap : Z) : inode :=
  let g := side_tuple_o o G n in
  IN (a_el g) (a_ch g) amap (Some (a_arom g, a_hc g, a_nb g)) g (side_tuple_o o H n).

Definition its_construct_o (o : copts) (G H : mgraph) : its := its_construct_gen (its_node_o o G H) o G H.

(** store=True: ITS.nodes[n][attr] = (g_tuple[i], h_tuple[i]) for the five attributes; atom_map is inherited *)
Record inodeS := INS {
  s_amap : Z;
  s_el : N * N; s_arom : bool * bool; s_hc : Z * Z; s_ch : Z * Z; s_nb : list N * list N;
  s_G : nattr; s_H : nattr }.
Definition itsS := lgraph inodeS iedge.

Definition its_node_S (o : copts) (G H : mgraph) (n : N) (amap : Z) : inodeS :=
  let g := side_tuple_o o G n in
  let h := side_tuple_o o H n in
  INS amap (a_el g, a_el h) (a_arom g, a_arom h) (a_hc g, a_hc h) (a_ch g, a_ch h) (a_nb g, a_nb h) g h.

Definition its_construct_S (o : copts) (G H : mgraph) : itsS := its_construct_gen (its_node_S o G H) o G H.

(** ** its_decompose reads typesGH and 'order' only: generic in the node record *)
Definition dec_side_gen {A : Type} (sel_n : A -> nattr) (sel_e : iedge -> Z) (I : lgraph A iedge) : mgraph :=
  LG (map (fun p => (fst p, dec_node (sel_n (snd p)) (fst p))) (gnodes I))
     (flat_map (fun e => let '(u, v, x) := e in
                         if 0 <? sel_e x then [(u, v, sel_e x)] else []) (gedges I)).
Definition its_decompose_S (I : itsS) : mgraph * mgraph := (dec_side_gen s_G e_G I, dec_side_gen s_H e_H I).

(** ** vocabulary *)
(** standard_order on every edge is what _compute_standard_order(ignore_aromaticity=ia) writes *)
Definition std_consistent_o (ia : bool) {A : Type} (I : lgraph A iedge) : Prop :=
  forall u v x, In (u, v, x) (gedges I) -> e_std x = std_of ia (e_G x) (e_H x).

(** ** observables *)
Definition tcopair {X Y} (f : X -> tok) (g : Y -> tok) (p : X * Y) : tok := L [f (fst p); g (snd p)].
Definition tinodeS (p : N * inodeS) : tok :=
  let a := snd p in
  L [tN (fst p); tZ (s_amap a);
     L [tN (fst (s_el a)); tN (snd (s_el a))];
     L [tbool (fst (s_arom a)); tbool (snd (s_arom a))];
     L [tZ (fst (s_hc a)); tZ (snd (s_hc a))];
     L [tZ (fst (s_ch a)); tZ (snd (s_ch a))];
     L [tlist tN (fst (s_nb a)); tlist tN (snd (s_nb a))];
     tnattr (s_G a); tnattr (s_H a)].
Definition titsS (I : itsS) : tok := L [tset tinodeS (gnodes I); tset tiedge (gedges I)].

(** one case with options: the ITS (store = False / True) and both decomposed graphs *)
Definition run_o (o : copts) (G H : mgraph) : tok :=
  let I := its_construct_o o G H in
  L [tits I; tmgraph (fst (its_decompose I)); tmgraph (snd (its_decompose I))].
Definition run_S (o : copts) (G H : mgraph) : tok :=
  let I := its_construct_S o G H in
  L [titsS I; tmgraph (fst (its_decompose_S I)); tmgraph (snd (its_decompose_S I))].
