(** C09 — executable model (definitions only; proofs in proof/C09_Str*.v) of the STRING-level logic of the anchors that
    surrounds the RDKit calls:

      synkit/Chem/Reaction/standardize.py   Standardize.remove_atom_mapping / filter_valid_molecules / standardize_rsmi /
                                            fit / categorize_reactions:  rsmi.split(">>"), side.split("."), the filter of
                                            the fragments RDKit rejects, sorted(), ".".join, the None / ValueError cases,
                                            the forwarding of remove_aam / ignore_stereo, std.replace("[HH]", "[H][H]")
      synkit/Chem/Reaction/balance_check.py parse_reaction / rsmi_balance_check (split, formula of both sides, ==)
      synkit/Chem/Reaction/canon_rsmi.py    expand_aam: the numbers given to the unmapped atoms
                                            (max(existing, default=0) + 1, one counter over reactant and product atoms)
      synkit/Chem/Reaction/aam_validator.py check_equivariant_graph (itertools.combinations, count) and
                                            smiles_check = (count == 1) on the two graphs
      CanonRSMI.canonical_rsmi              = writer(canonical reactant graph) + ">>" + writer(canonical product graph)

    RDKit enters as ORACLE FUNCTIONS on strings (arguments of the model functions; the harness ships them as finite tables
    computed by calling RDKit directly):
      canon st f  = Some (Chem.MolToSmiles(m, isomericSmiles=st))  if MolFromSmiles(f, sanitize=False) and SanitizeMol succeed
      clean side  = Some (MolToSmiles of the side with every map number cleared), None = unreadable
      formula x   = Some (CalcMolFormula), None = unreadable.
    Strings are lists of bytes ([StrJoin.str] = list N); Python compares str by code point = UTF-8 byte order. *)
From Coq Require Import List NArith ZArith Bool.
From SK Require Import lib.Tok lib.StrJoin lib.LGraph model.C01_Model model.C02_Model model.C09_Model.
From SK Require model.C08_Model model.C01_Opts.
Import ListNotations.

Definition GT : N := 62%N.     (* '>' *)
Definition DOT : N := 46%N.    (* '.' *)
Definition GG : str := [GT; GT].

(** * str.split *)
Definition cons_first (c : N) (l : list str) : list str :=
  match l with [] => [[c]] | x :: r => (c :: x) :: r end.
(** s.split(">>"): non-overlapping, left to right *)
Fixpoint split_gg (s : str) : list str :=
  match s with
  | [] => [[]]
  | c :: r =>
      match r with
      | d :: r' => if (N.eqb c GT && N.eqb d GT)%bool then [] :: split_gg r' else cons_first c (split_gg r)
      | [] => [[c]]
      end
  end.
(** s.split(sep) for a one-character separator *)
Fixpoint split_ch (sep : N) (s : str) : list str :=
  match s with
  | [] => [[]]
  | c :: r => if N.eqb c sep then [] :: split_ch sep r else cons_first c (split_ch sep r)
  end.

(** sorted(list of str) *)
Definition skey (s : str) : list Z := map Z.of_N s.
Definition sort_strs (l : list str) : list str := C08_Model.sort_by skey l.

(** * Standardize *)
(** [Chem.MolToSmiles(m, isomericSmiles=stereo) for m in filter_valid_molecules(side.split("."))] *)
Definition valid_frags (canon : str -> option str) (side : str) : list str :=
  flat_map (fun f => match canon f with Some c => [c] | None => [] end) (split_ch DOT side).

Inductive sres := SErr (* ValueError *) | SNone (* None *) | SSome (s : str).

(** the two sides after filtering; [None] = ValueError of the unpacking of rsmi.split(">>") *)
Definition std_sides (canon : str -> option str) (s : str) : option (list str * list str) :=
  match split_gg s with
  | [a; b] => Some (valid_frags canon a, valid_frags canon b)
  | _ => None
  end.
Definition is_nil {A} (l : list A) : bool := match l with [] => true | _ => false end.
Definition standardize_rsmi (canon : str -> option str) (s : str) : sres :=
  match std_sides canon s with
  | None => SErr
  | Some (ra, pb) =>
      if (is_nil ra || is_nil pb)%bool then SNone
      else SSome (join DOT (sort_strs ra) ++ GG ++ join DOT (sort_strs pb))
  end.

(** remove_atom_mapping(rsmi): ValueError unless exactly two parts and both sides readable *)
Definition remove_atom_mapping (clean : str -> option str) (s : str) : option str :=
  match split_gg s with
  | [a; b] => match clean a, clean b with Some x, Some y => Some (x ++ GG ++ y) | _, _ => None end
  | _ => None
  end.

(** std.replace("[HH]", "[H][H]") *)
Definition HH2 : str := [91; 72; 93; 91; 72; 93]%N.
Fixpoint replace_HH (s : str) : str :=
  match s with
  | [] => []
  | a :: r1 =>
      match r1 with
      | b :: (c :: (d :: r4)) =>
          if (N.eqb a 91 && N.eqb b 72 && N.eqb c 72 && N.eqb d 93)%bool then HH2 ++ replace_HH r4 else a :: replace_HH r1
      | _ => a :: replace_HH r1
      end
  end.

(** Standardize.fit(rsmi, remove_aam, ignore_stereo); [canon st] = the writer oracle with isomericSmiles = st *)
Definition std_fit (clean : str -> option str) (canon : bool -> str -> option str) (remove_aam ignore_stereo : bool) (s : str) : sres :=
  match (if remove_aam then remove_atom_mapping clean s else Some s) with
  | None => SErr
  | Some s1 =>
      match standardize_rsmi (canon (negb ignore_stereo)) s1 with
      | SSome t => SSome (replace_HH t)
      | x => x
      end
  end.

(** categorize_reactions(reactions, target): tgt = standardize_rsmi(target, stereo=False); a reaction equal to None never matches *)
Definition categorize (canon : bool -> str -> option str) (rs : list str) (target : str) : option (list str * list str) :=
  match standardize_rsmi (canon false) target with
  | SErr => None
  | SNone => Some ([], rs)
  | SSome t => Some (filter (fun r => C08_Model.str_eqb r t) rs, filter (fun r => negb (C08_Model.str_eqb r t)) rs)
  end.

(** * BalanceReactionCheck.rsmi_balance_check, string level: formula "" for an unreadable side; ValueError unless two parts *)
Definition formula_or_empty (formula : str -> option str) (x : str) : str := match formula x with Some f => f | None => [] end.
Definition rsmi_balance_check (formula : str -> option str) (s : str) : option bool :=
  match split_gg s with
  | [a; b] => Some (C08_Model.str_eqb (formula_or_empty formula a) (formula_or_empty formula b))
  | _ => None
  end.

(** * CanonRSMI.expand_aam: the numbers *)
(** [maps] = the map numbers of all atoms, reactant molecules first, in RDKit's atom order (0 = unmapped) *)
Definition next_id (maps : list Z) : Z := (fold_left Z.max (filter (fun m => 0 <? m) maps) 0 + 1)%Z.
Fixpoint assign (next : Z) (maps : list Z) : list Z :=
  match maps with
  | [] => []
  | m :: r => if (m =? 0)%Z then next :: assign (next + 1)%Z r else m :: assign next r
  end.
Definition expand_numbers (maps : list Z) : list Z := assign (next_id maps) maps.
(** per side: the first [nR] atoms are the reactant atoms *)
Definition expand_sides (nR : nat) (maps : list Z) : list Z * list Z :=
  (firstn nR (expand_numbers maps), skipn nR (expand_numbers maps)).

(** * AAMValidator.check_equivariant_graph: [(i, j) for i, j in combinations(range(n), 2) if is_isomorphic(g_i, g_j)] *)
Fixpoint pairs_from (i j : nat) (g : its) (rest : list its) : list (nat * nat) :=
  match rest with
  | [] => []
  | h :: r => (if is_isomorphic g h then [(i, j)] else []) ++ pairs_from i (S j) g r
  end.
Fixpoint equiv_pairs_from (i : nat) (gs : list its) : list (nat * nat) :=
  match gs with
  | [] => []
  | g :: r => pairs_from i (S i) g r ++ equiv_pairs_from (S i) r
  end.
Definition check_equivariant_graph (gs : list its) : list (nat * nat) * nat :=
  (equiv_pairs_from 0 gs, length (equiv_pairs_from 0 gs)).
(** smiles_check: count == 1 on [graph of the mapped string; graph of the ground truth] *)
Definition smiles_check_count (g1 g2 : its) : bool := Nat.eqb (snd (check_equivariant_graph [g1; g2])) 1.

(** smiles_check(mapped, truth, check_method, ignore_aromaticity) with its option handling: check_method.upper() == "RC" selects
    the reaction centres, EVERY other string the full ITS graphs; [None] = rsmi_to_graph could not read the string (the
    try / except of smiles_check answers False) *)
Definition upper_b (c : N) : N := if (N.leb 97 c && N.leb c 122)%bool then (c - 32)%N else c.
Definition is_rc (m : str) : bool := C08_Model.str_eqb (map upper_b m) [82; 67]%N.
Definition smiles_check_full (m : str) (ia : bool) (r1 r2 : option (mgraph * mgraph)) : bool :=
  match r1, r2 with
  | Some (G1, H1), Some (G2, H2) =>
      if is_rc m
      then smiles_check_count (get_rc (C01_Opts.its_construct_o (vopts ia) G1 H1)) (get_rc (C01_Opts.its_construct_o (vopts ia) G2 H2))
      else smiles_check_count (C01_Opts.its_construct_o (vopts ia) G1 H1) (C01_Opts.its_construct_o (vopts ia) G2 H2)
  | _, _ => false
  end.

(** AAMValidator.validate_smiles(data, ground_truth_col, mapped_cols, check_method, ignore_aromaticity, n_jobs, verbose,
    ignore_tautomers=True): for every mapper column k the check_pair verdicts over the records (record order; check_pair =
    smiles_check(record[mapped_col], record[ground_truth_col], method, ia)), the number of True ones and the number of records
    (accuracy = round(100 * count / n, 2), 0.0 without records: a float the harness derives from the exact pair) *)
Definition orow : Type := (option (mgraph * mgraph) * list (option (mgraph * mgraph)))%type.   (* ground truth, mapped columns *)
Definition validate_column (m : str) (ia : bool) (k : nat) (rows : list orow) : list bool * nat * nat :=
  let res := map (fun r : orow => smiles_check_full m ia (nth k (snd r) None) (fst r)) rows in
  (res, length (filter (fun b : bool => b) res), length rows).
Definition validate_smiles (m : str) (ia : bool) (ncols : nat) (rows : list orow) : list (list bool * nat * nat) :=
  map (fun k => validate_column m ia k rows) (seq 0 ncols).

(** smiles_check_tautomer(mapped, truth, method, ia) = any(smiles_check(mapped, t, method, ia) for t in enumerate_tautomers(truth));
    [tauts] = the parsed tautomer strings (RDKit's enumeration: oracle input; the first entry is the ground truth itself),
    None = the enumeration failed and the function answers None.
    check_pair(record, mapped_col, truth_col, method, ia, ignore_tautomers) picks one of the two. *)
Definition ograph : Type := option (mgraph * mgraph).
Definition smiles_check_tautomer (m : str) (ia : bool) (r1 : ograph) (tauts : option (list ograph)) : option bool :=
  match tauts with
  | None => None
  | Some l => Some (existsb (fun t => smiles_check_full m ia r1 t) l)
  end.
Definition check_pair (m : str) (ia it : bool) (r1 r2 : ograph) (tauts : option (list ograph)) : option bool :=
  if it then Some (smiles_check_full m ia r1 r2) else smiles_check_tautomer m ia r1 tauts.
(** validate_smiles with both flags: a record = (ground truth, its tautomers, mapped columns) *)
Definition orowT : Type := (ograph * option (list ograph) * list ograph)%type.
Definition validate_column_t (m : str) (ia it : bool) (k : nat) (rows : list orowT) : list (option bool) :=
  map (fun r : orowT => check_pair m ia it (nth k (snd r) None) (fst (fst r)) (snd (fst r))) rows.
Definition validate_smiles_t (m : str) (ia it : bool) (ncols : nat) (rows : list orowT) : list (list (option bool)) :=
  map (fun k => validate_column_t m ia it k rows) (seq 0 ncols).

(** FixAAM.fix_aam_rsmi at graph level: every map number (= node id of the parsed graph) is increased by one *)
Definition fix_aam_graph (G : mgraph) : mgraph := set_amap (relabel N.succ G).

(** NormalizeAAM.extract_subgraph(graph, indices) = graph.subgraph(indices).copy(): the induced subgraph *)
Definition extract_subgraph (G : mgraph) (indices : list N) : mgraph := induced_sub G indices.
(** NormalizeAAM.reset_indices_and_atom_map(subgraph): new ids 1.. in node order, atom_map := new id, edges carried over
    (as a labelled graph; the insertion order of the result is not part of the observable) *)
Definition reset_indices_by (order : list N) (G : mgraph) : mgraph := set_amap (relabel (sigma_of order) G).
(** [order] = list(subgraph.nodes()): for a graph built node by node it is the insertion order [node_ids G]; for the copy of a
    networkx subgraph VIEW it is the iteration order of a Python set when fewer nodes are kept than the graph has (networkx
    FilterAtlas.__iter__) - an oracle input of the model there *)
Definition reset_indices (G : mgraph) : mgraph := reset_indices_by (node_ids G) G.

(** * canonical_rsmi = f"{graph_to_smi(Gc)}>>{graph_to_smi(Hc)}" for a writer [W] (RDKit: oracle) *)
Definition canonical_rsmi (W : mgraph -> str) (r : option (mgraph * list (N * N) * mgraph)) : option str :=
  match r with
  | Some (Gc, _, Hc) => Some (W Gc ++ GG ++ W Hc)
  | None => None
  end.

(** * run functions *)
(** string literal -> bytes (case files write strings as Coq string literals: parsed much faster than lists of numbers) *)
Definition sl (s : String.string) : str := C08_Model.lit s.
Definition tbytes (s : str) : tok := tlist tN s.
Definition tsres (r : sres) : tok :=
  match r with SErr => L [I (-1)] | SNone => L [] | SSome s => L [tbytes s] end.
Fixpoint slookup (t : list (str * option str)) (s : str) : option str :=
  match t with
  | [] => None
  | (k, v) :: r => if C08_Model.str_eqb s k then v else slookup r s
  end.
(** every way of calling the standardiser on one string (the six modes of the harness) + the intermediate values:
    the two filtered fragment lists per stereo mode, remove_atom_mapping, categorize *)
Definition run_std (clean : list (str * option str)) (canon0 canon1 : list (str * option str)) (others : list str) (s : str) : tok :=
  let cl := slookup clean in
  let cn := fun st : bool => if st then slookup canon1 else slookup canon0 in
  L [ tsres (std_fit cl cn true true s);          (* fit() *)
      tsres (std_fit cl cn true false s);         (* fit(remove_aam=True, ignore_stereo=False) *)
      tsres (std_fit cl cn false true s);         (* fit(remove_aam=False) *)
      tsres (std_fit cl cn false false s);        (* fit(r, False, False) *)
      tsres (standardize_rsmi (cn false) s);
      tsres (standardize_rsmi (cn true) s);
      topt tbytes (remove_atom_mapping cl s);
      match std_sides (cn false) s with
      | Some (a, b) => L [tlist tbytes a; tlist tbytes b]
      | None => L [I (-1)]
      end;
      match categorize cn others s with
      | Some (a, b) => L [tlist tbytes a; tlist tbytes b]
      | None => L [I (-1)]
      end ].
Definition run_bal_str (formula : list (str * option str)) (s : str) : tok :=
  match rsmi_balance_check (slookup formula) s with Some b => tbool b | None => I (-1) end.
Definition run_expand (nR : nat) (maps : list Z) : tok :=
  L [tlist I (fst (expand_sides nR maps)); tlist I (snd (expand_sides nR maps))].
Definition run_validate (m : str) (ia : bool) (ncols : nat) (rows : list orow) : tok :=
  tlist (fun c : list bool * nat * nat => L [tlist tbool (fst (fst c)); tnat (snd (fst c)); tnat (snd c); I 1]) (validate_smiles m ia ncols rows).
Definition run_validate_t (m : str) (ia it : bool) (ncols : nat) (rows : list orowT) : tok :=
  tlist (tlist (topt tbool)) (validate_smiles_t m ia it ncols rows).
Definition run_fixaam (G H : mgraph) : tok := L [tmgraph (fix_aam_graph G); tmgraph (fix_aam_graph H)].
Definition run_subgraph (G : mgraph) (keep order : list N) : tok :=
  L [tmgraph (extract_subgraph G keep); tmgraph (reset_indices_by order (extract_subgraph G keep)); tmgraph (reset_indices G)].
Definition run_equiv (gs : list its) : tok :=
  L [tlist (fun p : nat * nat => L [tnat (fst p); tnat (snd p)]) (fst (check_equivariant_graph gs)); tnat (snd (check_equivariant_graph gs))].
