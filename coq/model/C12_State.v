(** C12 -- the MCSMatcher OBJECT (synkit/Graph/Matcher/mcs_matcher.py) as a state machine, with the option handling of the
    constructor, the attribute selection of the two matchers and the ITS facade inside the model (round 5).
    Definitions only; proofs in proof/C12_State.v.  The search itself is model/C12_Model.v.

    Modelled here, structure-following:
      MCSMatcher.__init__          node_attrs None -> ["element"], node_defaults None -> ["*"] * len, length test (ValueError),
                                   edge_attrs or ["order"] (None AND the empty list), the stored options          [mk_config]
      generic_node_match(attrs, defaults, ==) on the RAW attribute dictionaries: data.get(attr, default)           [node_match_raw]
      MCSMatcher._edge_match on the RAW dictionaries: .get(name) on both sides, both None -> skip, float() of both
        (a value that float() rejects -- tuple, list, non-numeric str, None -- raises -> fall back to !=)          [edge_match_raw]
      the cache _mappings / _last_size / _last_pattern_is_G1 (None until a search ran), reset at the start of both
        search entry points                                                                                         [mstate, s_init]
      find_common_subgraph(G1, G2, mcs)                                                                             [m_find]
      find_rc_mapping(rc1, rc2, side, mcs, component): side.lower() is done by the encoder (str -> [side]); side selection
        r / l / op / its, unknown side -> ValueError AFTER the cache was reset; component mode; forwarding         [m_rc]
      get_mappings(direction): the stored list for "pattern_to_host" OR while no search has run (any string, also an
        unknown one); ValueError for an unknown direction afterwards; G1_to_G2 / G2_to_G1 by the flag             [m_get]
      properties mappings, last_size, num_mappings, mapping_direction                                               [m_views]
    External (inputs of the model): its_decompose (the four sides are handed over), VF2's choices in the modes
    prune_automorphisms / mcs_mol (such steps are [HExternal]: the value-determined part of their answer is computed by the
    functions of C12_Model.v, the object's state after them is not tracked). *)
From Coq Require Import List NArith ZArith Bool Arith.
From SK Require Import lib.Tok lib.LGraph lib.Mono lib.Reach model.C12_Model model.C12_Trace model.C12_Check model.C12_CheckMtg.
Import ListNotations.

(* ---------- raw attribute dictionaries ---------- *)
(** an edge attribute value as float() sees it: castable (int, float, bool, numeric str; in half-units) or not castable
    (tuple, list, other str ...; interned by ==).  NaN is outside the domain. *)
Inductive evalue := ENum (z : Z) | EOther (c : N).
Definition rnattr := list (N * N).          (* node attribute dict: key code -> value code *)
Definition reattr := list (N * evalue).     (* edge attribute dict *)
Definition rgraph := lgraph rnattr reattr.

(** codes the encoder pins: node key "element" = 0, edge key "order" = 0, node value "*" = 0 *)
Definition K_ELEMENT : N := 0.
Definition K_ORDER : N := 0.
Definition V_STAR : N := 0.

(* ---------- MCSMatcher.__init__ ---------- *)
Record ctor_args := { a_node_attrs : option (list N); a_node_defaults : option (list N); a_edge_attrs : option (list N);
                      a_prune_wc : bool; a_prune_auto : bool; a_wildcard : N; a_element_key : N }.
Record config := { c_names : list N; c_defs : list N; c_enames : list N;
                   c_prune : bool; c_auto : bool; c_wc : N; c_ekey : N }.

Definition mk_config (a : ctor_args) : option config :=          (* None = ValueError *)
  let names := match a_node_attrs a with Some l => l | None => [K_ELEMENT] end in
  let defs := match a_node_defaults a with Some l => l | None => repeat V_STAR (length names) end in
  if negb (length defs =? length names)%nat then None
  else Some {| c_names := names; c_defs := defs;
               c_enames := match a_edge_attrs a with Some (x :: r) => x :: r | _ => [K_ORDER] end;
               c_prune := a_prune_wc a; c_auto := a_prune_auto a; c_wc := a_wildcard a; c_ekey := a_element_key a |}.

(* ---------- the matchers on raw dictionaries ---------- *)
(** generic_node_match: all(op(d1.get(attr, d), d2.get(attr, d)) for attr, d, op in zip(attrs, defaults, ops)) *)
Fixpoint node_match_raw (names defs : list N) (h p : rnattr) : bool :=
  match names, defs with
  | k :: ks, d :: ds => N.eqb (getd d (LGraph.assoc k h)) (getd d (LGraph.assoc k p)) && node_match_raw ks ds h p
  | _, _ => true
  end.

Definition evalue_eqb (a b : evalue) : bool :=
  match a, b with
  | ENum x, ENum y => Z.eqb x y
  | EOther x, EOther y => N.eqb x y
  | _, _ => false
  end.

Fixpoint edge_match_raw (names : list N) (h p : reattr) : bool :=
  match names with
  | [] => true
  | k :: ks =>
      match LGraph.assoc k h, LGraph.assoc k p with
      | None, None => edge_match_raw ks h p                                  (* continue *)
      | Some (ENum a), Some (ENum b) => Z.eqb a b && edge_match_raw ks h p  (* float(hv) != float(pv) *)
      | Some a, Some b => evalue_eqb a b && edge_match_raw ks h p           (* float() raised: hv != pv *)
      | _, _ => false                                                       (* float(None) raised, None != value *)
      end
  end.

(** the same selection done once per graph: what C12_Model.v works on.  Castable and non-castable edge values get disjoint
    codes (even / odd), so equality of the codes is [evalue_eqb]. *)
Definition evalue_code (v : evalue) : Z :=
  match v with ENum z => (2 * z)%Z | EOther c => (2 * Z.of_N c + 1)%Z end.
Definition project_node (cfg : config) (a : rnattr) : nattr :=
  (LGraph.assoc (c_ekey cfg) a, map (fun k => LGraph.assoc k a) (c_names cfg)).
Definition project_edge (cfg : config) (a : reattr) : eattr :=
  map (fun k => option_map evalue_code (LGraph.assoc k a)) (c_enames cfg).
Definition project (cfg : config) (g : rgraph) : graph :=
  LG (map (fun na => (fst na, project_node cfg (snd na))) (gnodes g))
     (map (fun e => (fst e, project_edge cfg (snd e))) (gedges g)).

(* ---------- the cache ---------- *)
Record mstate := { s_maps : list mapping; s_last : nat; s_flag : option bool }.
Definition s_init : mstate := {| s_maps := []; s_last := 0; s_flag := None |}.
Definition state_of (r : result) : mstate :=
  {| s_maps := r_maps r; s_last := r_last r; s_flag := Some (r_pattern_is_g1 r) |}.

Inductive dir := DP2H | D12 | D21 | DBad.
Inductive side := SR | SL | SOp | SIts | SBad.

(** get_mappings(direction): None = ValueError *)
Definition m_get (st : mstate) (d : dir) : option (list mapping) :=
  match d, s_flag st with
  | DP2H, _ => Some (s_maps st)
  | _, None => Some (s_maps st)
  | DBad, Some _ => None
  | D12, Some f => Some (if f then s_maps st else map invert_mapping (s_maps st))
  | D21, Some f => Some (if f then map invert_mapping (s_maps st) else s_maps st)
  end.

(** find_common_subgraph(G1, G2, mcs=mcs): new cache, number of GraphMatcher objects built *)
Definition m_find (cfg : config) (g1 g2 : rgraph) (mcs : bool) : mstate * nat :=
  let r := find_common_subgraph (c_defs cfg) (c_prune cfg) (c_wc cfg) (project cfg g1) (project cfg g2) mcs in
  (state_of r, r_tried r).

(** the four graphs its_decompose returns for (rc1, rc2) are inputs *)
Record rc_input := { rc_1 : rgraph; rc_2 : rgraph; rc_l1 : rgraph; rc_r1 : rgraph; rc_l2 : rgraph; rc_r2 : rgraph }.
Definition pick_sides (x : rc_input) (sd : side) : option (rgraph * rgraph) :=
  match sd with
  | SIts => Some (rc_1 x, rc_2 x)
  | SR => Some (rc_r1 x, rc_r2 x)
  | SL => Some (rc_l1 x, rc_l2 x)
  | SOp => Some (rc_r1 x, rc_l2 x)
  | SBad => None
  end.

(** find_rc_mapping(rc1, rc2, side, mcs, component) (mcs_mol False): None = ValueError, raised after the reset *)
Definition m_rc (cfg : config) (x : rc_input) (sd : side) (mcs component : bool) : mstate * option nat :=
  match pick_sides x sd with
  | None => (s_init, None)
  | Some (ga, gb) =>
      if component then
        let r := find_rc_component (c_defs cfg) (c_prune cfg) (c_wc cfg) (project cfg ga) (project cfg gb) mcs in
        (state_of r, Some (r_tried r))
      else let '(st, n) := m_find cfg ga gb mcs in (st, Some n)
  end.

(* ---------- operations on one matcher object ---------- *)
Inductive mop :=
| MFind (g1 g2 : rgraph) (mcs : bool)
| MRc (x : rc_input) (sd : side) (mcs component : bool)
| MReads (ds : list dir)
| MFindAuto (g1 g2 : rgraph) (mcs : bool) (choices : list mapping)
| MFindMol (g1 g2 : rgraph) (choice : mapping)
| MRcMol (x : rc_input) (sd : side) (choice : mapping).     (* find_rc_mapping(..., mcs_mol=True, component=False) *)
(** [MFindMol]: find_common_subgraph(G1, G2, mcs_mol=True).  WHICH isomorphism maps a matched component onto its partner is VF2's
    choice: [choice] (the combined G1 -> G2 mapping, obtained by the harness from networkx alone) is an input, validated by
    [apply_mol_choice] of C12_Check.v against the greedy component pairing of the model; a rejected parameter is reported. *)
(** [MFindAuto]: find_common_subgraph on an object constructed with prune_automorphisms=True.  WHICH mapping represents a host
    node set is VF2's enumeration order: [choices] (for every host node set the mapping VF2 enumerates first, obtained by the
    harness from networkx alone) is an input, validated by [apply_choices] of C12_Model.v; a rejected parameter is reported. *)

Definition tmaps (l : list mapping) : tok := tlist tmap l.
Definition tanswer (o : option (list mapping)) : tok := match o with Some l => tmaps l | None => I (-1) end.
Definition tflag (o : option bool) : tok := match o with Some b => tbool b | None => I (-1) end.

(** what a caller can see of the cache: flag, last_size, num_mappings, the three standard reads *)
Definition m_views (st : mstate) : list tok :=
  [tflag (s_flag st); tnat (s_last st); tnat (length (s_maps st));
   tanswer (m_get st DP2H); tanswer (m_get st D12); tanswer (m_get st D21)].

(** the observable of a search call: the layout of [run_matcher_tr] -- flag, last_size, number of GraphMatcher objects, the three
    reads, and (plain search only) the trace of k-subsets with the number of isomorphisms each yields (model/C12_Trace.v) *)
Definition search_tok (st' : mstate) (n : nat) (tr : list tok) : tok :=
  L ([tflag (s_flag st'); tnat (s_last st'); tnat n;
      tanswer (m_get st' DP2H); tanswer (m_get st' D12); tanswer (m_get st' D21)] ++ tr).

Definition find_tok (cfg : config) (g1 g2 : rgraph) (mcs : bool) : mstate * tok :=
  let '(st', n) := m_find cfg g1 g2 mcs in
  (st', search_tok st' n
          [ttrace (fcs_trace (c_defs cfg) (c_prune cfg) (c_wc cfg) (project cfg g1) (project cfg g2) mcs)]).

Definition mol_tok (cfg : config) (g1 g2 : rgraph) (choice : mapping) : mstate * tok :=
  match find_mcs_mol_with (c_defs cfg) (c_prune cfg) (c_wc cfg) (project cfg g1) (project cfg g2) choice with
  | Some r => (state_of r, search_tok (state_of r) (r_tried r) [])
  | None => (s_init, L [I (-2)])
  end.

(** one call: new state and the observable *)
Definition m_step (cfg : config) (st : mstate) (o : mop) : mstate * tok :=
  match o with
  | MFind g1 g2 mcs => find_tok cfg g1 g2 mcs
  | MRc x sd mcs component =>
      match pick_sides x sd with
      | None => (s_init, L (I (-1) :: m_views s_init))
      | Some (ga, gb) =>
          if component then
            match m_rc cfg x sd mcs true with
            | (st', Some n) => (st', search_tok st' n [])
            | (st', None) => (st', L (I (-1) :: m_views st'))
            end
          else find_tok cfg ga gb mcs
      end
  | MReads ds => (st, L (tlist (fun d => tanswer (m_get st d)) ds :: m_views st))
  | MFindAuto g1 g2 mcs choices =>
      let r := find_common_subgraph (c_defs cfg) (c_prune cfg) (c_wc cfg) (project cfg g1) (project cfg g2) mcs in
      match apply_choices (r_maps r) choices with
      | Some kept =>
          let st' := {| s_maps := kept; s_last := r_last r; s_flag := Some (r_pattern_is_g1 r) |} in
          (st', search_tok st' (r_tried r)
                  [ttrace (fcs_trace (c_defs cfg) (c_prune cfg) (c_wc cfg) (project cfg g1) (project cfg g2) mcs)])
      | None => (s_init, L [I (-2)])
      end
  | MFindMol g1 g2 choice => mol_tok cfg g1 g2 choice
  | MRcMol x sd choice =>
      match pick_sides x sd with
      | None => (s_init, L (I (-1) :: m_views s_init))
      | Some (ga, gb) => mol_tok cfg ga gb choice
      end
  end.

(* ---------- the keyword arguments of the two search entry points as the caller wrote them (wave 4) ---------- *)
(** None = the argument was omitted; the defaults of the signatures -- find_common_subgraph(G1, G2, *, mcs=False, mcs_mol=False),
    find_rc_mapping(rc1, rc2, *, side="op", mcs=True, mcs_mol=False, component=True) -- and the dispatch order of the two bodies
    (find_common_subgraph: mcs_mol first, then mcs is ignored; find_rc_mapping: component first, then mcs_mol is ignored) are
    applied by the model.  [choices] / [choice]: VF2's first results (see MFindAuto / MFindMol), used only by the modes that need them. *)
Definition dflt {X} (d : X) (o : option X) : X := match o with Some x => x | None => d end.
Record fcs_kw := { fk_mcs : option bool; fk_mol : option bool }.
Record rc_kw := { rk_side : option side; rk_mcs : option bool; rk_mol : option bool; rk_component : option bool }.

Inductive mcall :=
| CFind (g1 g2 : rgraph) (kw : fcs_kw) (choices : list mapping) (choice : mapping)
| CRc (x : rc_input) (kw : rc_kw) (choice : mapping)
| CReads (ds : list dir).

Definition resolve (auto : bool) (c : mcall) : mop :=
  match c with
  | CFind g1 g2 kw choices choice =>
      if dflt false (fk_mol kw) then MFindMol g1 g2 choice
      else if auto then MFindAuto g1 g2 (dflt false (fk_mcs kw)) choices
      else MFind g1 g2 (dflt false (fk_mcs kw))
  | CRc x kw choice =>
      let sd := dflt SOp (rk_side kw) in
      let mcs := dflt true (rk_mcs kw) in
      if dflt true (rk_component kw) then MRc x sd mcs true
      else if dflt false (rk_mol kw) then MRcMol x sd choice
      else MRc x sd mcs false
  | CReads ds => MReads ds
  end.

(** the cache after a sequence of calls on ONE object (what the history theorems speak about; [h_play] below threads the same
    [m_step] through several objects) *)
Fixpoint m_run (cfg : config) (st : mstate) (ops : list mop) : mstate :=
  match ops with
  | [] => st
  | o :: r => m_run cfg (fst (m_step cfg st o)) r
  end.

Definition is_read (o : mop) : bool := match o with MReads _ => true | _ => false end.

(* ---------- histories over several matcher objects ---------- *)
Inductive hop :=
| HNew (ci : nat)                       (* a new matcher object of configuration ci replaces the old one *)
| HCall (ci : nat) (o : mop)
| HCallKw (ci : nat) (c : mcall)        (* a call as the caller wrote it; defaults and dispatch resolved by the model *)
| HExternal (ci : nat) (t : tok).       (* a search in a VF2-order dependent mode: answer computed elsewhere, state not tracked *)

Fixpoint set_nth {X} (i : nat) (x : X) (l : list X) : list X :=
  match i, l with
  | _, [] => []
  | O, _ :: r => x :: r
  | S i', y :: r => y :: set_nth i' x r
  end.

Definition dummy_config : config :=
  {| c_names := [K_ELEMENT]; c_defs := [V_STAR]; c_enames := [K_ORDER]; c_prune := false; c_auto := false; c_wc := V_STAR; c_ekey := K_ELEMENT |}.

Fixpoint h_play (cfgs : list config) (sts : list mstate) (ops : list hop) : list tok :=
  match ops with
  | [] => []
  | HNew ci :: r => h_play cfgs (set_nth ci s_init sts) r
  | HCall ci o :: r =>
      let '(st', t) := m_step (nth ci cfgs dummy_config) (nth ci sts s_init) o in
      L [t; tbool true] :: h_play cfgs (set_nth ci st' sts) r
  | HCallKw ci c :: r =>
      let cfg := nth ci cfgs dummy_config in
      let '(st', t) := m_step cfg (nth ci sts s_init) (resolve (c_auto cfg) c) in
      L [t; tbool true] :: h_play cfgs (set_nth ci st' sts) r
  | HExternal ci t :: r => L [t; tbool true] :: h_play cfgs (set_nth ci s_init sts) r
  end.

Definition tconfig (c : config) : tok :=
  L [tlist tN (c_names c); tlist tN (c_defs c); tlist tN (c_enames c); tbool (c_prune c); tbool (c_auto c); tN (c_wc c); tN (c_ekey c)].

(** a history: constructor calls first (their normalised options are part of the observable; a ValueError ends the history),
    then the calls *)
Definition run_history (args : list ctor_args) (ops : list hop) : tok :=
  let cs := map mk_config args in
  if forallb (fun o => match o with Some _ => true | None => false end) cs then
    let cfgs := flat_map (fun o => match o with Some c => [c] | None => [] end) cs in
    L (h_play cfgs (map (fun _ => s_init) cfgs) ops)
  else L [I (-1)].

(** constructor alone: the stored options, or ValueError *)
Definition run_ctor (a : ctor_args) : tok :=
  match mk_config a with Some c => tconfig c | None => I (-1) end.

(* ====================================================================== the MTG copy as an object ========== *)
(** synkit/Graph/MTG/mcs_matcher.py: __init__ (names None -> ["element"], defaults None -> ["*"] * len; NO length test --
    generic_node_match zips names, defaults and comparators, so the shortest list decides), one edge attribute,
    _edge_match (after repair /repo 24a0150): both values missing -> True, float() of both, an exception (one value missing, or a
    value float() rejects) -> ==;
    cache = (_mappings, _last_size), cleared at the start of find_common_subgraph; find_rc_mapping = right side of rc1
    against left side of rc2; get_mappings() = the stored list. *)
Record mtg_args := { ma_names : option (list N); ma_defs : option (list N); ma_edge : N }.

Definition mk_config_mtg (a : mtg_args) : config :=
  let names := match ma_names a with Some l => l | None => [K_ELEMENT] end in
  let defs := match ma_defs a with Some l => l | None => repeat V_STAR (length names) end in
  let n := Nat.min (length names) (length defs) in
  {| c_names := firstn n names; c_defs := firstn n defs; c_enames := [ma_edge a];
     c_prune := false; c_auto := false; c_wc := V_STAR; c_ekey := K_ELEMENT |}.

Definition edge_match_mtg_raw (k : N) (h p : reattr) : bool :=
  match LGraph.assoc k h, LGraph.assoc k p with
  | None, None => true                                      (* both bonds lack the attribute (repair /repo 24a0150) *)
  | Some (ENum a), Some (ENum b) => Z.eqb a b               (* float(hv) == float(pv) *)
  | Some a, Some b => evalue_eqb a b                        (* float() raised: hv == pv *)
  | _, _ => false
  end.

Definition project_edge_mtg (cfg : config) (a : reattr) : eattr :=
  map (fun k => option_map evalue_code (LGraph.assoc k a)) (c_enames cfg).
Definition project_mtg (cfg : config) (g : rgraph) : graph :=
  LG (map (fun na => (fst na, project_node cfg (snd na))) (gnodes g))
     (map (fun e => (fst e, project_edge_mtg cfg (snd e))) (gedges g)).

Record tstate := { t_maps : list mapping; t_last : nat }.
Definition t_init : tstate := {| t_maps := []; t_last := 0 |}.

Inductive top :=
| TFind (g1 g2 : rgraph) (mcs : bool)
| TRc (x : rc_input) (mcs : bool)
| TRead
| TFindMol (g1 g2 : rgraph) (choice : mapping)      (* find_common_subgraph(G1, G2, mcs_mol=True); VF2's isomorphisms are an input *)
| TRcMol (x : rc_input) (choice : mapping).         (* find_rc_mapping(rc1, rc2, mcs_mol=True): forwarded to the right / left sides *)

Definition t_find (cfg : config) (g1 g2 : rgraph) (mcs : bool) : tstate * nat :=
  let r := find_common_subgraph_mtg (c_defs cfg) (project_mtg cfg g1) (project_mtg cfg g2) mcs in
  ({| t_maps := fst (fst r); t_last := snd (fst r) |}, snd r).

Definition t_find_tok (cfg : config) (g1 g2 : rgraph) (mcs : bool) : tstate * tok :=
  let '(st', n) := t_find cfg g1 g2 mcs in
  (st', L [tnat (t_last st'); tnat n; tmaps (t_maps st');
           ttrace (mtg_trace (c_defs cfg) (project_mtg cfg g1) (project_mtg cfg g2) mcs)]).

Definition t_mol_tok (cfg : config) (g1 g2 : rgraph) (choice : mapping) : tstate * tok :=
  match find_mcs_mol_with_mtg (c_defs cfg) (project_mtg cfg g1) (project_mtg cfg g2) choice with
  | Some (maps, last, n) => ({| t_maps := maps; t_last := last |}, L [tnat last; tnat n; tmaps maps])
  | None => (t_init, L [I (-2)])
  end.

Definition t_step (cfg : config) (st : tstate) (o : top) : tstate * tok :=
  match o with
  | TFind g1 g2 mcs => t_find_tok cfg g1 g2 mcs
  | TRc x mcs => t_find_tok cfg (rc_r1 x) (rc_l2 x) mcs
  | TRead => (st, L [tnat (t_last st); tmaps (t_maps st)])
  | TFindMol g1 g2 choice => t_mol_tok cfg g1 g2 choice
  | TRcMol x choice => t_mol_tok cfg (rc_r1 x) (rc_l2 x) choice
  end.

Fixpoint t_run (cfg : config) (st : tstate) (ops : list top) : tstate :=
  match ops with
  | [] => st
  | o :: r => t_run cfg (fst (t_step cfg st o)) r
  end.
Definition t_is_read (o : top) : bool := match o with TRead => true | _ => false end.

Fixpoint t_play (cfg : config) (st : tstate) (ops : list top) : list tok :=
  match ops with
  | [] => []
  | o :: r => let '(st', t) := t_step cfg st o in L [t; tbool true] :: t_play cfg st' r
  end.

Definition run_history_mtg (a : mtg_args) (ops : list top) : tok := L (t_play (mk_config_mtg a) t_init ops).
Definition run_ctor_mtg (a : mtg_args) : tok :=
  let c := mk_config_mtg a in L [tlist tN (c_names c); tlist tN (c_defs c); tlist tN (c_enames c)].
