(** C11 (round 6) — do C11's and C03's representations of ONE rule centre agree?  [g] : C11's graph (interned labels, e.g.
    [to_rule_graph [K_atom_map] ag] built from the attribute dictionaries of rule.rc.raw), [rc] : C03's typed ITS graph of
    the same object.  [agreeb g rc]: same node list; atoms u, v carry equal labels in [g] iff in [rc] (every attribute of
    the ITS node - before/after atom types, hcount, h_pairs - against every dictionary entry but atom_map); the bond test
    of the enumerator (lib/Mono.v [edge_ok]: both pairs unbonded, or both bonded with equal labels) gives the same answer.
    Evaluated by the correspondence on every rule application whose rule centre is in C03's domain; premise of
    C11_prune_same_glue (proof/C11_GlueBridge.v).  Definitions only. *)
From Coq Require Import List NArith ZArith Bool.
From SK Require Import lib.Tok lib.LGraph lib.Mono.
From SK Require model.C11_Model.
From SK Require Import model.C03_Model model.C05_Model.
Import ListNotations.

Definition agreeb (g : C11_Model.graph) (rc : its) : bool :=
  let ids := node_ids rc in
  C11_Model.leqb (node_ids g) ids &&
  forallb (fun u => forallb (fun v =>
     Bool.eqb (C11_Model.oeqb (C11_Model.lab_of C11_Model.n_full g v) (C11_Model.lab_of C11_Model.n_full g u))
              (oinode_eqb (label rc v) (label rc u))) ids) ids &&
  forallb (fun p => forallb (fun h => forallb (fun p' => forallb (fun h' =>
     Bool.eqb (edge_ok (C11_Model.adj_of C11_Model.e_full g) (C11_Model.adj_of C11_Model.e_full g) N.eqb true p h (p', h'))
              (edge_ok (LGraph.adj rc) (LGraph.adj rc) iedge_eqb true p h (p', h'))) ids) ids) ids) ids.
