(** C01 — vocabulary of theorem C01_mol_to_graph_index: the graph MolToGraph.transform returns with its DEFAULT flags
    (drop_non_aam=False, use_index_as_atom_map=False; also the defaults of chem_converter.smiles_to_graph): every atom, keyed by
    its index + 1.  Definitions only. *)
From Coq Require Import List NArith ZArith Bool.
From SK Require Import lib.LGraph model.C01_Model model.C01_String.
Import ListNotations.

Definition index_nodes (m : rmol) : list (N * gnode) :=
  map (fun ia : nat * ratom => ((N.of_nat (fst ia) + 1)%N, atom_node (snd ia))) (enumerate (rm_atoms m)).
(** bonds between existing atoms, keyed by index + 1, in bond order *)
Definition index_bonds (m : rmol) : list (N * N * Z) :=
  flat_map (fun b : nat * nat * Z =>
              if Nat.ltb (fst (fst b)) (length (rm_atoms m)) && Nat.ltb (snd (fst b)) (length (rm_atoms m))
              then [((N.of_nat (fst (fst b)) + 1)%N, (N.of_nat (snd (fst b)) + 1)%N, snd b)] else []) (rm_bonds m).
Definition index_graph (m : rmol) : mgraph := LG (index_nodes m) (index_bonds m).

(** ** every flag combination at once (theorem C01_mol_to_graph_general): the atoms that are kept, keyed by their id *)
Definition kept_atom (drop : bool) (a : ratom) : bool := negb (drop && N.eqb (ra_map a) 0).
Definition gen_nodes (drop use : bool) (m : rmol) : list (N * gnode) :=
  flat_map (fun ia : nat * ratom => if kept_atom drop (snd ia) then [(atom_id use (fst ia) (snd ia), atom_node (snd ia))] else [])
           (enumerate (rm_atoms m)).
Definition gen_ix (drop use : bool) (m : rmol) : list (nat * N) :=
  flat_map (fun ia : nat * ratom => if kept_atom drop (snd ia) then [(fst ia, atom_id use (fst ia) (snd ia))] else [])
           (enumerate (rm_atoms m)).
Definition gen_bonds (drop use : bool) (m : rmol) : list (N * N * Z) :=
  flat_map (fun b : nat * nat * Z =>
              match lookup_idx (fst (fst b)) (gen_ix drop use m), lookup_idx (snd (fst b)) (gen_ix drop use m) with
              | Some u, Some v => [(u, v, snd b)]
              | _, _ => []
              end) (rm_bonds m).
