(** C17 — executable model of synkit/CRN/Props/stoich.py (build_S_minus_plus, build_S, the integer /
    boolean results of the analysis) and synkit/CRN/Props/utils.py (_species_and_reaction_order), on top of
    the bipartite export synkit/CRN/Hypergraph/conversion.py:hypergraph_to_bipartite and of
    CRNHyperGraph.incidence_matrix.  Definitions only; proofs are in proof/C17_*.v.

    Structure followed:
      H.species (a set)              -> [species_set]   (sorted, duplicate free)
      sorted(H.edges.items())        -> [edges_sorted]  (stable insertion sort by id; ids are dict keys)
      bipartite arcs with role/stoich-> [bip_arcs]      (species -> reaction = reactant, reaction -> species = product)
      sorted(species, key=label)     -> [species_order] (second, stable sort: the label IS the species name)
      sorted(reactions, key=label)   -> [reaction_order](stable sort by RULE label of the id-sorted node list)
      S_minus[i,j] += coeff per arc  -> [entry]         (sum over the arcs joining species i and reaction j)
      S = S_plus - S_minus           -> [build_S]
    numpy matrix_rank / scipy null_space / linprog are NOT modelled: the model returns the exact values
    justified by certificates that are validated here by proved checkers (lib/RankBridge.check_rank,
    lib/C17_Farkas checkers); the implementation's float results are compared with these. *)
From Coq Require Import List NArith ZArith Bool Arith.
From SK Require Import lib.Tok lib.IRSortKeys lib.C17_Farkas.
Require SK.lib.RankBridge.
Import ListNotations.

(** strings = code points, compared like Python str *)
Definition str := list N.
Fixpoint strleb (a b : str) : bool :=
  match a, b with
  | [], _ => true
  | _ :: _, [] => false
  | x :: a', y :: b' => if N.ltb x y then true else if N.eqb x y then strleb a' b' else false
  end.
Fixpoint streqb (a b : str) : bool :=
  match a, b with
  | [], [] => true
  | x :: a', y :: b' => N.eqb x y && streqb a' b'
  | _, _ => false
  end.

(** stable insertion sort (Python's sorted is stable) *)
Section ISort.
Variable A : Type.
Variable leb : A -> A -> bool.
Fixpoint insert (x : A) (l : list A) : list A :=
  match l with
  | [] => [x]
  | y :: l' => if leb x y then x :: l else y :: insert x l'
  end.
Definition isort (l : list A) : list A := fold_right insert [] l.
End ISort.
Arguments insert {A}.
Arguments isort {A}.

(** a stored reaction: (id, rule, reactant side, product side); sides are dicts species -> positive count *)
Definition side := list (str * Z).
Definition rxn := (str * str * side * side)%type.
Definition rid (r : rxn) : str := fst (fst (fst r)).
Definition rrule (r : rxn) : str := snd (fst (fst r)).
Definition rlhs (r : rxn) : side := snd (fst r).
Definition rrhs (r : rxn) : side := snd r.

Definition rxn_species (r : rxn) : list str := map fst (rlhs r) ++ map fst (rrhs r).
(** H.species = occurring species + species kept without incidence ([iso]) *)
Definition species_set (net : list rxn) (iso : list str) : list str :=
  sort_dedup strleb (flat_map rxn_species net ++ iso).
Definition edges_sorted (net : list rxn) : list rxn := isort (fun a b => strleb (rid a) (rid b)) net.

(** hypergraph_to_bipartite *)
Inductive role := Reactant | Product.
Definition role_eqb (a b : role) : bool :=
  match a, b with Reactant, Reactant | Product, Product => true | _, _ => false end.
Record arc := Arc { a_species : str; a_rxn : str; a_stoich : Z; a_role : role }.
Definition arcs_of (r : rxn) : list arc :=
  map (fun p => Arc (fst p) (rid r) (snd p) Reactant) (rlhs r) ++
  map (fun p => Arc (fst p) (rid r) (snd p) Product) (rrhs r).
Definition bip_arcs (net : list rxn) : list arc := flat_map arcs_of (edges_sorted net).

(** _species_and_reaction_order *)
Definition species_order (net : list rxn) (iso : list str) : list str := isort strleb (species_set net iso).
Definition reaction_order (net : list rxn) : list rxn :=
  isort (fun a b => strleb (rrule a) (rrule b)) (edges_sorted net).

(** build_S_minus_plus: accumulated coefficient of the arcs with the given role between species s and reaction e *)
Definition entry (ro : role) (arcs : list arc) (s e : str) : Z :=
  fold_right (fun a acc => if streqb (a_species a) s && streqb (a_rxn a) e && role_eqb (a_role a) ro
                           then a_stoich a + acc else acc)%Z 0%Z arcs.
Definition S_side (ro : role) (net : list rxn) (iso : list str) : list (list Z) :=
  map (fun s => map (fun e => entry ro (bip_arcs net) s (rid e)) (reaction_order net)) (species_order net iso).
Definition S_minus := S_side Reactant.
Definition S_plus := S_side Product.
Definition vsub (u v : list Z) : list Z := map (fun p => (fst p - snd p)%Z) (combine u v).
Definition msub (A B : list (list Z)) : list (list Z) := map (fun p => vsub (fst p) (snd p)) (combine A B).
Definition build_S (net : list rxn) (iso : list str) : list (list Z) := msub (S_plus net iso) (S_minus net iso).

(** CRNHyperGraph.incidence_matrix(sparse=False): rows sorted(species), columns sorted(edge ids);
    mat[s, j] -= c over reactants, += c over products *)
Definition side_acc (sign : Z) (s : str) (sd : side) (acc : Z) : Z :=
  fold_left (fun acc p => if streqb (fst p) s then (acc + sign * snd p)%Z else acc) sd acc.
Definition incidence (net : list rxn) (iso : list str) : list (list Z) :=
  map (fun s => map (fun e => side_acc 1 s (rrhs e) (side_acc (-1) s (rlhs e) 0%Z)) (edges_sorted net))
      (species_set net iso).

(** exact analysis justified by certificates *)
Record rcert := RCert { rc_r : nat; rc_A : list (list Z); rc_B : list (list Z);
                        rc_A2 : list (list Z); rc_B2 : list (list Z); rc_d : Z }.
Definition rank_checked (m n : nat) (S : list (list Z)) (c : rcert) : bool :=
  RankBridge.check_rank m n (rc_r c) S (rc_A c) (rc_B c) (rc_A2 c) (rc_B2 c) (rc_d c).

(** Answers of the external numerics (scipy null_space / HiGHS linprog), recorded from the real run and fed to the
    model as ORACLE INPUTS (they are floating-point facts, not modelled):
      nm_scanL : some column of the float left-kernel basis is sign definite (all > eps or all < -eps)
      nm_lpL   : the LP of _positive_conservation_law_from_basis returned success with B a > eps
      nm_lpR   : LP of is_consistent: 0 = success and relative residual <= 1e-8, 1 = success but residual too large,
                 2 = no success (infeasible / unbounded / error)
      nm_scanR : some column of the float right-kernel basis is sign definite *)
Record numerics := Num { nm_scanL : bool; nm_lpL : bool; nm_lpR : nat; nm_scanR : bool }.

(** is_conservative / compute_conservativity / summary.is_conservative  (k = dim of the left kernel):
      empty basis -> False; a sign-definite basis column -> True; k = 1 -> False; otherwise the LP's answer,
      where "no success" (in particular: UNBOUNDED) is read as "no strictly positive law". *)
Definition conservative_verdict (k : nat) (nm : numerics) : bool :=
  if (k =? 0)%nat then false
  else if nm_scanL nm then true
  else if (k =? 1)%nat then false
  else nm_lpL nm.

(** is_consistent (kr = dim of the right kernel): LP success -> residual test decides; otherwise the fall-back scan of
    the right kernel basis: empty -> False, a sign-definite column -> True, else None (inconclusive). *)
Definition consistent_verdict (kr : nat) (nm : numerics) : option bool :=
  match nm_lpR nm with
  | 0%nat => Some true
  | 1%nat => Some false
  | _ => if (kr =? 0)%nat then Some false else if nm_scanR nm then Some true else None
  end.

(** observable *)
Definition tstrN (s : str) : tok := tlist tN s.
Definition tmat (M : list (list Z)) : tok := tlist (tlist I) M.
Definition BADCERT : tok := L [I 99%Z].
Definition tcert (o : option bool) : tok := match o with Some b => tbool b | None => BADCERT end.

Definition run (net : list rxn) (iso : list str) (rc : rcert) (cc fc : fcert) (nm : numerics) : tok :=
  match net with
  | [] => L [I 2%Z]                        (* _split_species_reactions raises ValueError: no reaction nodes *)
  | _ =>
    let S := build_S net iso in
    let m := length (species_order net iso) in
    let n := length (reaction_order net) in
    let r := rc_r rc in
    L [ I 0%Z;
        tlist tstrN (species_order net iso);
        tlist tstrN (map rrule (reaction_order net));
        tmat S; tmat (S_minus net iso); tmat (S_plus net iso);
        tlist tstrN (species_set net iso);
        tlist tstrN (map rid (edges_sorted net));
        tmat (incidence net iso);
        tbool (rank_checked m n S rc);
        tnat r;
        L [tnat m; tnat (m - r)]; L [tnat n; tnat (n - r)];
        tcert (decide_conservative n S cc);          (* certified truth: a strictly positive conservation law exists *)
        tcert (decide_consistent n S fc);            (* certified truth: a strictly positive steady flux exists *)
        tbool (conservative_verdict (m - r) nm);
        topt tbool (consistent_verdict (n - r) nm) ]
  end.
