(** C14 — fit calls whose ENTRY LIST differs from call to call on one BatchReactor object, and the facade
    synkit/Synthesis/Reactor/benchmark.py built on it:

      Benchmark.fit(rules):  fw_out = BatchReactor.fit(rules, invert=False)      with host_key = 'r' (reactant sides)
                             self._host_key = 'p'
                             bw_out = BatchReactor.fit(rules, invert=True)       on the SAME object, same applier and cache,
                             self._host_key = 'r'                                  the entries now read at 'p' (product sides)
                             entry['fw'], entry['bw'] = the two outputs of the entry

    The client program of a call is [fit_prog] of model/C14_Model.v; a call carries its own entry contents.
    Definitions only; proofs in proof/C14_Bench.v. *)
From Coq Require Import NArith List Bool Arith.
Import ListNotations.
From SK Require Import lib.Tok model.C14_Model.
Local Open Scope N_scope.

Definition call2 := (list rspec * bool * list N)%type.      (* rules, direction, entry contents of THIS call *)

Fixpoint calls_prog2 (nx : N) (calls : list call2) : list cop :=
  match calls with
  | [] => []
  | (rs, inv, subs) :: r => let '(ops, n') := fit_prog nx rs inv subs in ops ++ calls_prog2 n' r
  end.

Definition batch_prog2 (pool : list N) (calls : list call2) : list cop :=
  map CAlloc pool ++ calls_prog2 (N.of_nat (length pool)) calls
  ++ map (fun k => CRelease (N.of_nat k)) (seq 0 (length pool)).

Fixpoint fit_outputs2 (dd : bool) (calls : list call2) (results : list (list N)) : list (list (list N)) :=
  match calls with
  | [] => []
  | (rs, _, subs) :: r => let '(gs, rest) := chop (length subs) (length rs) results in
                          map (entry_out dd) gs :: fit_outputs2 dd r rest
  end.

(** one Benchmark.fit call = a forward fit over the reactant sides, then a backward fit over the product sides *)
Definition bench_calls (rules : list rspec) (subs_r subs_p : list N) : list call2 :=
  [(rules, false, subs_r); (rules, true, subs_p)].

(** what Benchmark.fit writes into the entries: per entry (fw, bw) *)
Definition bench_entries (outs : list (list (list N))) : list (list N * list N) :=
  match outs with
  | [fw; bw] => combine fw bw
  | _ => []
  end.

Definition run_bench (c : cfg) (t : table) (pool : list N) (fits : list (list rspec * list N * list N)) (tr : list event) : tok :=
  let calls := flat_map (fun f => let '(rules, sr, sp) := f in bench_calls rules sr sp) fits in
  let '(ok, outs, fin) := run (list N) (tbl_exec t) CURRENT_PINNED (c_cache c) (c_max c) (init _) tr in
  L [tbool (cops_eqb (client_view tr) (batch_prog2 pool calls)); tbool ok; tok_answers outs;
     tok_keys (c_cache c) (cache fin);
     tlist (tlist (tlist tN)) (fit_outputs2 (c_dedupe c) calls (map snd outs))].
