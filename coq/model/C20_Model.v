(** C20 — executable model of
      synkit/CRN/Petri/structure.py   (_incident_arcs, _is_siphon_indices, _is_trap_indices, _minimal_sets,
                                       find_siphons, find_traps)
      synkit/CRN/Petri/net.py         (PetriNet.add_place / add_transition / enabled / fire / marking_to_tuple)
      synkit/CRN/Path/realizability.py(PathwayRealizability.build_petri_net_from_flow / is_realizable)
    Definitions only (stdlib lists); proofs are in proof/C20_*.v.

    Conventions.  Species labels are interned by the harness to their rank in the sorted label list
    (so label order = order on [nat]).  Python sets of indices are lists; Python dicts are association
    lists in insertion order; tuples are lists.  Python ints are [Z]. *)
From Coq Require Import ZArith NArith List Bool Arith.
Import ListNotations.
From SK Require Import lib.Tok.
Local Open Scope nat_scope.

(** * Part 1 — siphons and traps (structure.py) *)

Definition side := list (nat * Z).            (* species rank, stoichiometric coefficient *)
Definition rxn := (side * side)%type.         (* reactants, products *)

Inductive role := Reactant | Product.
Definition role_eqb (a b : role) : bool :=
  match a, b with Reactant, Reactant => true | Product, Product => true | _, _ => false end.

Record arc := Arc { a_src : nat; a_dst : nat; a_role : role; a_stoich : Z }.

(** the bipartite species/reaction DiGraph as far as this property reads it: species nodes with
    their label, reaction nodes, arcs with role and stoich; all in networkx iteration order *)
Record bgraph := BG { g_species : list (nat * nat); g_reactions : list nat; g_arcs : list arc }.

(** hypergraph_to_bipartite(integer_ids=True): species 1..n in label order, then the reactions *)
Definition sp_node (i : nat) : nat := S i.
Definition rx_node (n j : nat) : nat := S (n + j).

Definition arcs_of_rxn (n j : nat) (r : rxn) : list arc :=
  map (fun sc => Arc (sp_node (fst sc)) (rx_node n j) Reactant (snd sc)) (fst r) ++
  map (fun sc => Arc (rx_node n j) (sp_node (fst sc)) Product (snd sc)) (snd r).

Fixpoint arcs_from (n j : nat) (rs : list rxn) : list arc :=
  match rs with
  | [] => []
  | r :: rs' => arcs_of_rxn n j r ++ arcs_from n (S j) rs'
  end.

Definition bipartite_of (n : nat) (rs : list rxn) : bgraph :=
  BG (map (fun i => (sp_node i, i)) (seq 0 n))
     (map (rx_node n) (seq 0 (length rs)))
     (arcs_from n 0 rs).

(** What _as_bipartite makes of an UNDIRECTED bipartite graph (repo a58b70a): every incidence is oriented by its
    role — species -> reaction for a reactant, reaction -> species for a product — whichever way the undirected edge
    happens to be stored.  (An undirected simple graph holds ONE edge per species/reaction pair, so a species on both
    sides of a reaction is outside this input format; the harness never builds such inputs.) *)
Definition orient_arc (rnodes : list nat) (a : arc) : arc :=
  let src_is_rxn := existsb (Nat.eqb (a_src a)) rnodes in
  let s := if src_is_rxn then a_dst a else a_src a in
  let r := if src_is_rxn then a_src a else a_dst a in
  match a_role a with
  | Product => Arc r s (a_role a) (a_stoich a)
  | Reactant => Arc s r (a_role a) (a_stoich a)
  end.
Definition flip (a : arc) : arc := Arc (a_dst a) (a_src a) (a_role a) (a_stoich a).
(** the undirected view of a directed export stores each edge in an arbitrary direction (here: all reversed) *)
Definition undirected_view (G : bgraph) : bgraph := BG (g_species G) (g_reactions G) (map flip (g_arcs G)).
Definition orient_undirected (G : bgraph) : bgraph :=
  BG (g_species G) (g_reactions G) (map (orient_arc (g_reactions G)) (g_arcs G)).

(** _species_order: stable sort of the species nodes by label *)
Fixpoint insert_by_label (x : nat * nat) (l : list (nat * nat)) : list (nat * nat) :=
  match l with
  | [] => [x]
  | y :: l' => if snd x <? snd y then x :: l else y :: insert_by_label x l'
  end.
Definition sort_by_label (l : list (nat * nat)) : list (nat * nat) :=
  fold_right insert_by_label [] l.

Definition species_nodes_sorted (G : bgraph) : list nat := map fst (sort_by_label (g_species G)).
Definition species_labels (G : bgraph) : list nat := map snd (sort_by_label (g_species G)).

Definition mem (x : nat) (l : list nat) : bool := existsb (Nat.eqb x) l.

(** _incident_arcs on a directed graph: in_edges(r) ++ out_edges(r) *)
Definition incident (G : bgraph) (r : nat) : list arc :=
  filter (fun a => a_dst a =? r) (g_arcs G) ++ filter (fun a => a_src a =? r) (g_arcs G).

(** s_node = v if u == r else u *)
Definition other (r : nat) (a : arc) : nat := if a_src a =? r then a_dst a else a_src a.

(** the inner [for ... break] loops: does reaction r touch S_nodes with the given role? *)
Definition touches (G : bgraph) (S_nodes : list nat) (r : nat) (ro : role) : bool :=
  existsb (fun a => mem (other r a) S_nodes && role_eqb (a_role a) ro && (0 <? a_stoich a)%Z)
          (incident G r).

Definition nodes_of (sns S_idx : list nat) : list nat := map (fun i => nth i sns 0) S_idx.

Definition is_siphon_indices (G : bgraph) (sns rnodes S_idx : list nat) : bool :=
  match S_idx with
  | [] => false
  | _ => let S_nodes := nodes_of sns S_idx in
         forallb (fun r => if touches G S_nodes r Product then touches G S_nodes r Reactant else true) rnodes
  end.

Definition is_trap_indices (G : bgraph) (sns rnodes S_idx : list nat) : bool :=
  match S_idx with
  | [] => false
  | _ => let S_nodes := nodes_of sns S_idx in
         forallb (fun r => if touches G S_nodes r Reactant then touches G S_nodes r Product else true) rnodes
  end.

(** _minimal_sets *)
Definition subset (T X : list nat) : bool := forallb (fun x => mem x X) T.

Fixpoint minimal_sets_go (cands out : list (list nat)) : list (list nat) :=
  match cands with
  | [] => out
  | X :: rest =>
      if existsb (fun T => subset T X) out then minimal_sets_go rest out
      else minimal_sets_go rest (filter (fun T => negb (subset X T)) out ++ [X])
  end.
Definition minimal_sets (cands : list (list nat)) : list (list nat) := minimal_sets_go cands [].

(** itertools.combinations(l, k) in its (lexicographic) order *)
Fixpoint combs (k : nat) (l : list nat) {struct l} : list (list nat) :=
  match k, l with
  | 0, _ => [[]]
  | S _, [] => []
  | S k', x :: l' => map (cons x) (combs k' l') ++ combs k l'
  end.

Definition candidates (pred : list nat -> bool) (n max_size : nat) : list (list nat) :=
  flat_map (fun k => filter pred (combs k (seq 0 n))) (seq 1 max_size).

(** _split_species_reactions raises ValueError when either node class is empty *)
Definition split_ok (G : bgraph) : bool :=
  match g_species G, g_reactions G with
  | [], _ => false
  | _, [] => false
  | _, _ => true
  end.

Definition find_sets (pred : bgraph -> list nat -> list nat -> list nat -> bool)
           (G : bgraph) (max_size : option nat) : option (list (list nat)) :=
  if split_ok G then
    let sns := species_nodes_sorted G in
    let labels := species_labels G in
    let n_s := length labels in
    let ms := match max_size with None => n_s | Some k => k end in
    let cands := candidates (pred G sns (g_reactions G)) n_s ms in
    Some (map (fun S_idx => map (fun i => nth i labels 0) S_idx) (minimal_sets cands))
  else None.

Definition find_siphons := find_sets is_siphon_indices.
Definition find_traps := find_sets is_trap_indices.

(** * Part 2 — PetriNet (net.py) *)

Definition dict := list (N * Z).

Fixpoint get (d : dict) (p : N) : Z :=                         (* d.get(p, 0) *)
  match d with
  | [] => 0%Z
  | (q, c) :: d' => if N.eqb q p then c else get d' p
  end.

Fixpoint set (d : dict) (p : N) (c : Z) : dict :=              (* d[p] = c *)
  match d with
  | [] => [(p, c)]
  | (q, c') :: d' => if N.eqb q p then (q, c) :: d' else (q, c') :: set d' p c
  end.

Record transition := T { t_id : N; t_pre : dict; t_post : dict }.
Record petri := PN { pn_places : list N;                       (* _place_index order *)
                     pn_trans : list transition }.             (* dict insertion order *)

Definition empty_petri : petri := PN [] [].

Definition memN (x : N) (l : list N) : bool := existsb (N.eqb x) l.

Definition add_place (net : petri) (p : N) : petri :=
  if memN p (pn_places net) then net else PN (pn_places net ++ [p]) (pn_trans net).

Fixpoint upsert (ts : list transition) (t : transition) : list transition :=   (* transitions[tid] = t *)
  match ts with
  | [] => [t]
  | u :: ts' => if N.eqb (t_id u) (t_id t) then t :: ts' else u :: upsert ts' t
  end.

Definition add_transition (net : petri) (tid : N) (pre post : dict) : petri :=
  let net1 := fold_left add_place (map fst pre ++ map fst post) net in
  PN (pn_places net1) (upsert (pn_trans net1) (T tid pre post)).

Fixpoint find_trans (ts : list transition) (tid : N) : option transition :=
  match ts with
  | [] => None
  | u :: ts' => if N.eqb (t_id u) tid then Some u else find_trans ts' tid
  end.

Definition enabled_t (t : transition) (m : dict) : bool :=
  forallb (fun pw => negb (get m (fst pw) <? snd pw)%Z) (t_pre t).

Definition fire_t (t : transition) (m : dict) : dict :=
  let m1 := fold_left (fun m pw => set m (fst pw) (get m (fst pw) - snd pw)%Z) (t_pre t) m in
  fold_left (fun m pw => set m (fst pw) (get m (fst pw) + snd pw)%Z) (t_post t) m1.

Definition marking_to_tuple (net : petri) (m : dict) : list Z :=
  map (fun p => get m p) (pn_places net).

(** * Part 3 — pathway realizability (realizability.py) *)

(** place names: species s |-> 3s, "__ext__<e>" |-> 3e+1, "__target__<e>" |-> 3e+2 *)
Definition sp_place (s : N) : N := (3 * s)%N.
Definition ext_place (e : N) : N := (3 * e + 1)%N.
Definition tgt_place (e : N) : N := (3 * e + 2)%N.

Definition edge := (dict * dict)%type.          (* tail, head: species |-> multiplicity *)

Definition pos_part (d : dict) : dict :=
  map (fun sw => (sp_place (fst sw), snd sw)) (filter (fun sw => (0 <? snd sw)%Z) d).

Record built := Built { b_net : petri; b_M0 : dict; b_MT : dict }.

Definition build_edge (st : built) (jef : N * edge * Z) : built :=
  let '(j, (tail, head), fval) := jef in
  let pre := pos_part tail in
  let post := pos_part head in
  let ve := ext_place j in
  let net1 := add_place (b_net st) ve in
  let pre_with_supply := set pre ve 1 in
  let ve_t := tgt_place j in
  let net2 := add_place net1 ve_t in
  let post_with_target := set post ve_t 1 in
  let net3 := add_transition net2 j pre_with_supply post_with_target in
  Built net3 (set (b_M0 st) ve fval) (set (b_MT st) ve_t fval).

Fixpoint index_from {A} (j : N) (l : list A) : list (N * A) :=
  match l with [] => [] | x :: l' => (j, x) :: index_from (N.succ j) l' end.

Fixpoint zip_flow (es : list (N * edge)) (fl : list Z) : list (N * edge * Z) :=
  match es with
  | [] => []
  | e :: es' => (e, hd 0%Z fl) :: zip_flow es' (tl fl)
  end.

Definition build_petri_net_from_flow (vertices : list N) (edges : list edge) (flow : list Z) : built :=
  let net0 := fold_left add_place (map sp_place vertices) empty_petri in
  let M0 := fold_left (fun m v => set m (sp_place v) 0%Z) vertices [] in
  fold_left build_edge (zip_flow (index_from 0%N edges) flow) (Built net0 M0 M0).

Definition tuple := list Z.
Fixpoint tuple_eqb (a b : tuple) : bool :=
  match a, b with
  | [], [] => true
  | x :: a', y :: b' => Z.eqb x y && tuple_eqb a' b'
  | _, _ => false
  end.
Definition tmem (t : tuple) (vs : list tuple) : bool := existsb (tuple_eqb t) vs.

Inductive verdict := Found (s : list N) | NotFound | OutOfFuel.

(** result of the inner [for tid in net.transitions] loop; the two counters record how often
    [enabled] and [fire] were called (observable through wrappers in the harness) *)
Inductive step_out :=
| SFound (s : list N) (nen nfire : N)
| SCont (visited : list tuple) (news : list (tuple * list N)) (nen nfire : N).

Fixpoint expand (net : petri) (ts : list transition) (marking : dict) (sq : list N) (target : tuple)
         (visited : list tuple) (news : list (tuple * list N)) (nen nfire : N) : step_out :=
  match ts with
  | [] => SCont visited news nen nfire
  | t :: ts' =>
      if enabled_t t marking then
        let new_mark := fire_t t marking in
        let new_tuple := marking_to_tuple net new_mark in
        if tuple_eqb new_tuple target then SFound (sq ++ [t_id t]) (nen + 1) (nfire + 1)
        else if tmem new_tuple visited
             then expand net ts' marking sq target visited news (nen + 1) (nfire + 1)
             else expand net ts' marking sq target (new_tuple :: visited)
                         (news ++ [(new_tuple, sq ++ [t_id t])]) (nen + 1) (nfire + 1)
      else expand net ts' marking sq target visited news (nen + 1) nfire
  end.

Record bfs_out := BfsOut { bo_verdict : verdict; bo_nen : N; bo_nfire : N }.

(** the [while q] loop; [fuel] only makes the recursion structural: the loop leaves as soon as
    [states > max_states], so [max_states + 1] iterations always suffice (proved: bfs_fuel_enough) *)
Fixpoint bfs (fuel : nat) (net : petri) (target : tuple) (max_states max_depth : N)
         (q : list (tuple * list N)) (visited : list tuple) (states nen nfire : N) : bfs_out :=
  match fuel with
  | O => BfsOut OutOfFuel nen nfire
  | S fuel' =>
      match q with
      | [] => BfsOut NotFound nen nfire
      | (mtuple, sq) :: q' =>
          let states' := (states + 1)%N in
          if (max_states <? states')%N then BfsOut NotFound nen nfire
          else if (max_depth <? N.of_nat (length sq))%N
               then bfs fuel' net target max_states max_depth q' visited states' nen nfire
               else
                 let marking := combine (pn_places net) mtuple in
                 match expand net (pn_trans net) marking sq target visited [] nen nfire with
                 | SFound s ne nf => BfsOut (Found s) ne nf
                 | SCont visited' news ne nf =>
                     bfs fuel' net target max_states max_depth (q' ++ news) visited' states' ne nf
                 end
      end
  end.

Definition markings_equal (M0 MT : dict) : bool :=
  forallb (fun p => Z.eqb (get M0 p) (get MT p)) (map fst MT ++ map fst M0).

Definition is_realizable (b : built) (max_states max_depth : N) : bfs_out :=
  let net := b_net b in
  if markings_equal (b_M0 b) (b_MT b) then BfsOut (Found []) 0 0
  else
    let start := marking_to_tuple net (b_M0 b) in
    let target := marking_to_tuple net (b_MT b) in
    bfs (S (N.to_nat max_states)) net target max_states max_depth [(start, [])] [start] 0 0 0.

(** * Part 4 — call HISTORIES on one PathwayRealizability object (realizability.py)

    The object's mutable fields: [flow], the built net with its two markings ([_petri],
    [_initial_marking], [_target_marking]: all three set together by [build_petri_net_from_flow] and
    cleared together by [load_hypergraph_and_flow]) and [_certificate].  [vertices]/[edges] are fixed
    for a history (a reload keeps them and replaces the flow). *)

Record pr_state := PR { pr_flow : list Z; pr_built : option built; pr_cert : option (list N) }.

Inductive pr_op :=
| OpReal (max_states max_depth : N)    (* is_realizable(max_states, max_depth) *)
| OpScaled (k_max : nat)               (* is_scaled_realizable(k_max) *)
| OpCert                               (* the [certificate] property *)
| OpBuild                              (* build_petri_net_from_flow() *)
| OpLoad (flow : list Z)               (* load_hypergraph_and_flow(vertices, edges, flow) *)
| OpBorrow (max_borrow_each : nat).    (* is_borrow_realizable(max_borrow_each) *)

Inductive pr_ans :=
| AReal (v : verdict)
| AScaled (k : option N)
| ACert (c : option (list N))
| ABorrow (b : option (list Z))        (* the borrow vector over sorted(vertices), or None *)
| ADone
| AErr.                                (* RuntimeError: Petri net not built *)

Definition DEFAULT_MAX_STATES : N := 100000.
Definition DEFAULT_MAX_DEPTH : N := 10000.
(** RealizabilityConfig: the bounds used when is_realizable is called without bounds — by the caller, and by the scaled and
    borrow searches, which always call it that way *)
Record pr_config := Cfg { cfg_states : N; cfg_depth : N }.
Definition cfg_default : pr_config := Cfg DEFAULT_MAX_STATES DEFAULT_MAX_DEPTH.

Definition pr_loaded (flow : list Z) : pr_state := PR flow None None.

(** [build_petri_net_from_flow]: net and markings from the CURRENT flow, certificate cleared *)
Definition do_build (V : list N) (E : list edge) (st : pr_state) : pr_state :=
  PR (pr_flow st) (Some (build_petri_net_from_flow V E (pr_flow st))) None.

Definition set_flow (st : pr_state) (fl : list Z) : pr_state := PR fl (pr_built st) (pr_cert st).

(** [is_realizable]: reads net and markings (error when not built), writes only the certificate *)
Definition do_real (st : pr_state) (ms md : N) : pr_state * pr_ans :=
  match pr_built st with
  | None => (st, AErr)
  | Some b =>
      let v := bo_verdict (is_realizable b ms md) in
      (PR (pr_flow st) (pr_built st) (match v with Found s => Some s | _ => None end), AReal v)
  end.

(** the [for k in range(1, k_max + 1)] loop of [is_scaled_realizable]; [n] = iterations left.
    Each iteration overwrites the flow with k * saved, rebuilds and searches with the default bounds;
    on success and after the loop the saved flow is restored AND the net rebuilt. *)
Fixpoint scaled_loop (cf : pr_config) (V : list N) (E : list edge) (saved : list Z) (st : pr_state) (k : N) (n : nat)
  : pr_state * pr_ans :=
  match n with
  | O => (do_build V E (set_flow st saved), AScaled None)
  | S n' =>
      let st1 := do_build V E (set_flow st (map (Z.mul (Z.of_N k)) saved)) in
      let '(st2, a) := do_real st1 (cfg_states cf) (cfg_depth cf) in
      match a with
      | AReal (Found _) => (do_build V E (set_flow st2 saved), AScaled (Some k))
      | _ => scaled_loop cf V E saved st2 (N.succ k) n'
      end
  end.

(** [is_borrow_realizable]: sorted(self.vertices), itertools.product(range(max_borrow_each + 1), repeat = #species)
    (first coordinate slowest); every round rebuilds the net, adds the borrowed tokens to both markings, searches with
    the default bounds and then puts the SAVED markings back (saved before the loop, after building if nothing was
    built). *)
Fixpoint ins_vertex (v : N) (l : list N) : list N :=
  match l with
  | [] => [v]
  | x :: l' => if (v <? x)%N then v :: l else if (v =? x)%N then l else x :: ins_vertex v l'
  end.
Definition sorted_vertices (V : list N) : list N := fold_right ins_vertex [] V.

Fixpoint borrow_vectors (mb : nat) (n : nat) : list (list Z) :=
  match n with
  | O => [[]]
  | S n' => flat_map (fun v => map (cons (Z.of_nat v)) (borrow_vectors mb n')) (seq 0 (S mb))
  end.

Definition add_borrow (m : dict) (species : list N) (comb : list Z) : dict :=
  fold_left (fun m sv => if (snd sv =? 0)%Z then m
                         else set m (sp_place (fst sv)) (get m (sp_place (fst sv)) + snd sv)%Z)
            (combine species comb) m.

Fixpoint borrow_loop (cf : pr_config) (V : list N) (E : list edge) (species : list N) (M0s MTs : dict) (st : pr_state)
         (combs : list (list Z)) : pr_state * pr_ans :=
  match combs with
  | [] => (st, ABorrow None)
  | comb :: combs' =>
      let st1 := do_build V E st in
      match pr_built st1 with
      | None => (st1, AErr)                      (* unreachable: do_build always builds *)
      | Some b1 =>
          let b' := Built (b_net b1) (add_borrow (b_M0 b1) species comb) (add_borrow (b_MT b1) species comb) in
          let v := bo_verdict (is_realizable b' (cfg_states cf) (cfg_depth cf)) in
          let st2 := PR (pr_flow st1) (Some (Built (b_net b1) M0s MTs))
                        (match v with Found s => Some s | _ => None end) in
          match v with
          | Found _ => (st2, ABorrow (Some comb))
          | _ => borrow_loop cf V E species M0s MTs st2 combs'
          end
      end
  end.

Definition do_borrow (cf : pr_config) (V : list N) (E : list edge) (st : pr_state) (mb : nat) : pr_state * pr_ans :=
  let st0 := match pr_built st with None => do_build V E st | Some _ => st end in
  match pr_built st0 with
  | None => (st0, AErr)
  | Some b0 =>
      let species := sorted_vertices V in
      borrow_loop cf V E species (b_M0 b0) (b_MT b0) st0 (borrow_vectors mb (length species))
  end.

Definition pr_step (cf : pr_config) (V : list N) (E : list edge) (st : pr_state) (op : pr_op) : pr_state * pr_ans :=
  match op with
  | OpReal ms md => do_real st ms md
  | OpScaled k_max => scaled_loop cf V E (pr_flow st) st 1%N k_max
  | OpCert => (st, ACert (pr_cert st))
  | OpBuild => (do_build V E st, ADone)
  | OpLoad fl => (pr_loaded fl, ADone)
  | OpBorrow mb => do_borrow cf V E st mb
  end.

(** a history: the answers in call order, each with the object's state right after the call *)
Fixpoint pr_run (cf : pr_config) (V : list N) (E : list edge) (st : pr_state) (ops : list pr_op) : list (pr_ans * pr_state) :=
  match ops with
  | [] => []
  | op :: ops' => let '(st', a) := pr_step cf V E st op in (a, st') :: pr_run cf V E st' ops'
  end.

Definition pr_exec (cf : pr_config) (V : list N) (E : list edge) (st : pr_state) (ops : list pr_op) : pr_state :=
  fold_left (fun s op => fst (pr_step cf V E s op)) ops st.

(** * Part 5 — PetriAnalyzer (analyzer.py) kept while the analysed network object is edited

    The analyzer holds a REFERENCE to the network and the results of its last compute_siphons_traps();
    a compute recomputes from the network as it is at that moment.  [AnEdit] is the caller editing the
    network object (given as the network it has become). *)
Definition network := (nat * list rxn)%type.        (* number of species, reactions over their ranks *)
Record an_state := AN { an_net : network;
                        an_siphons : option (list (list nat));      (* None = not computed yet *)
                        an_traps : option (list (list nat)) }.
Inductive an_op :=
| AnCompute                   (* compute_siphons_traps() *)
| AnRead                      (* the siphons / traps properties *)
| AnEdit (net : network).     (* the caller edits the analysed network: it now is [net] *)
Inductive an_ans :=
| AnSets (s t : option (list (list nat)))
| AnDone
| AnErr.                      (* ValueError: no species or no reaction nodes *)

Definition an_step (k : option nat) (st : an_state) (op : an_op) : an_state * an_ans :=
  match op with
  | AnCompute =>
      let G := bipartite_of (fst (an_net st)) (snd (an_net st)) in
      match find_siphons G k with
      | None => (st, AnErr)                          (* raised before anything was stored *)
      | Some s =>
          match find_traps G k with
          | None => (AN (an_net st) (Some s) (an_traps st), AnErr)
          | Some t => (AN (an_net st) (Some s) (Some t), AnDone)
          end
      end
  | AnRead => (st, AnSets (an_siphons st) (an_traps st))
  | AnEdit net => (AN net (an_siphons st) (an_traps st), AnDone)
  end.

Fixpoint an_run (k : option nat) (st : an_state) (ops : list an_op) : list an_ans :=
  match ops with
  | [] => []
  | op :: ops' => let '(st', a) := an_step k st op in a :: an_run k st' ops'
  end.

Definition an_exec (k : option nat) (st : an_state) (ops : list an_op) : an_state :=
  fold_left (fun s op => fst (an_step k s op)) ops st.

(** * Observables (DESIGN Appendix B, C20) *)

Definition tnset (l : list nat) : tok := tset tnat l.
Definition tdict (d : dict) : tok := tset (fun pc => L [tN (fst pc); I (snd pc)]) d.
Definition ttrans (t : transition) : tok := L [tN (t_id t); tdict (t_pre t); tdict (t_post t)].
Definition topt_sets (o : option (list (list nat))) : tok :=
  match o with None => L [] | Some l => tlist tnset l end.

Definition all_subsets (n : nat) : list (list nat) := flat_map (fun k => combs k (seq 0 n)) (seq 1 n).

(** a caller-supplied graph whose species nodes were INSERTED in the order [order] (a permutation of the ranks; [[]] = label order,
    as the hypergraph export does); node ids, reaction nodes and arcs as in the export *)
Definition with_species_order (order : list nat) (G : bgraph) : bgraph :=
  match order with
  | [] => G
  | _ => BG (map (fun i => (sp_node i, i)) order) (g_reactions G) (g_arcs G)
  end.

Definition run_net (n : nat) (rs : list rxn) (und : bool) (k : nat) (cands : list (list nat)) (order : list nat) : tok :=
  let G0 := with_species_order order (bipartite_of n rs) in
  let G := if und then orient_undirected (undirected_view G0) else G0 in
  if split_ok G then
    let sns := species_nodes_sorted G in
    let rn := g_reactions G in
    let subs := all_subsets (length sns) in
    L [ I 1;
        tlist tnat (species_labels G);
        L [tbool (is_siphon_indices G sns rn []); tbool (is_trap_indices G sns rn [])];
        tlist (fun s => tbool (is_siphon_indices G sns rn s)) subs;
        tlist (fun s => tbool (is_trap_indices G sns rn s)) subs;
        topt_sets (find_siphons G None); topt_sets (find_traps G None);
        topt_sets (find_siphons G (Some k)); topt_sets (find_traps G (Some k));
        tlist tnset (minimal_sets cands) ]
  else L [I 0].

Definition run_petri (places : list N) (trans : list (N * dict * dict)) (queries : list (dict * N)) : tok :=
  let net0 := fold_left add_place places empty_petri in
  let net := fold_left (fun nt tr => let '(tid, pre, post) := tr in add_transition nt tid pre post) trans net0 in
  L [ tlist tN (pn_places net);
      tbool true;
      tset tN (pn_places net);
      tlist ttrans (pn_trans net);
      tlist (fun q : dict * N =>
               let (m, tid) := q in
               match find_trans (pn_trans net) tid with
               | None => L []
               | Some t =>
                   let m2 := fire_t t m in
                   L [ tbool (enabled_t t m); tdict m2;
                       tlist I (marking_to_tuple net m); tlist I (marking_to_tuple net m2); tbool true ]
               end) queries ].

Definition run_flow (vertices : list N) (edges : list edge) (flow : list Z) (max_states max_depth : N) : tok :=
  let b := build_petri_net_from_flow vertices edges flow in
  let r := is_realizable b max_states max_depth in
  L [ tset tN (pn_places (b_net b));
      tbool true;
      tlist ttrans (pn_trans (b_net b));
      tdict (b_M0 b); tdict (b_MT b);
      match bo_verdict r with Found _ => I 1 | NotFound => I 0 | OutOfFuel => I 2 end;
      match bo_verdict r with Found s => L [tlist tN s] | _ => L [] end;
      tbool true;
      tN (bo_nen r); tN (bo_nfire r) ].

Definition tcert (c : option (list N)) : tok := match c with Some s => L [tlist tN s] | None => L [] end.

Definition tans (a : pr_ans) : tok :=
  match a with
  | AReal v => L [I 1; match v with Found _ => I 1 | NotFound => I 0 | OutOfFuel => I 2 end;
                  match v with Found s => L [tlist tN s] | _ => L [] end]
  | AScaled k => L [I 2; match k with Some _ => I 1 | None => I 0 end; match k with Some k => tN k | None => I 0 end]
  | ACert c => L [I 3; tcert c]
  | ABorrow b => L [I 6; match b with Some _ => I 1 | None => I 0 end; match b with Some c => L [tlist I c] | None => L [] end]
  | ADone => L [I 4]
  | AErr => L [I 9]
  end.

Definition tstate (st : pr_state) : tok :=
  L [ tlist I (pr_flow st);
      match pr_built st with
      | None => L []
      | Some b => L [tset tN (pn_places (b_net b)); tdict (b_M0 b); tdict (b_MT b)]
      end;
      tcert (pr_cert st) ].

Definition run_hist (cf : pr_config) (vertices : list N) (edges : list edge) (flow : list Z) (ops : list pr_op) : tok :=
  tlist (fun ast : pr_ans * pr_state => L [tans (fst ast); tstate (snd ast)])
        (pr_run cf vertices edges (pr_loaded flow) ops).

Definition tan_ans (a : an_ans) : tok :=
  match a with
  | AnSets s t => L [I 1; match s with Some l => L [tlist tnset l] | None => L [] end;
                         match t with Some l => L [tlist tnset l] | None => L [] end]
  | AnDone => L [I 4]
  | AnErr => L [I 9]
  end.

Definition run_ana (k : option nat) (net0 : network) (ops : list an_op) : tok :=
  tlist tan_ans (an_run k (AN net0 None None) ops).
