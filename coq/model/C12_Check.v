(** C12 -- a decision procedure for the validity clause (round 5): [ci_check nm em ga gb m] = true iff [m] is a common induced
    mapping of (ga, gb) ([common_induced], proof/C12_Search.v).  Used by the model to VALIDATE an externally supplied mapping
    (VF2's choice of the isomorphism inside a matched pair of components under mcs_mol).  Definitions only. *)
From Coq Require Import List NArith ZArith Bool Arith.
From SK Require Import lib.Tok lib.LGraph lib.Mono model.C12_Model.
Import ListNotations.

Fixpoint nodupb (l : list N) : bool :=
  match l with
  | [] => true
  | x :: r => negb (LGraph.mem x r) && nodupb r
  end.

Definition edge_ok_b (em : eattr -> eattr -> bool) (ga gb : graph) (ph ph' : N * N) : bool :=
  match LGraph.adj ga (fst ph) (fst ph'), LGraph.adj gb (snd ph) (snd ph') with
  | Some b, Some b' => em b' b
  | None, None => true
  | _, _ => false
  end.

Definition ci_check (nm : option nattr -> option nattr -> bool) (em : eattr -> eattr -> bool) (ga gb : graph) (m : mapping) : bool :=
  nodupb (map fst m) && nodupb (map snd m) &&
  forallb (fun ph => LGraph.mem (fst ph) (node_ids ga) && LGraph.mem (snd ph) (node_ids gb) &&
                     nm (label gb (snd ph)) (label ga (fst ph))) m &&
  forallb (fun ph => forallb (fun ph' => N.eqb (fst ph) (fst ph') || edge_ok_b em ga gb ph ph') m) m.

(* ---------- mcs_mol: the combined mapping, with VF2's choice of the isomorphisms as an input ---------- *)
(** the part of [choice] that lies on component [c1] *)
Definition part_of (choice : mapping) (c1 : list N) : mapping := filter (fun ph => LGraph.mem (fst ph) c1) choice.

(** [choice] (G1 -> G2 pairs, obtained by the harness from networkx alone) is accepted iff, for every pair of components the
    greedy matching selects, its part on c1 is a common induced mapping of the two induced copies that covers all of c1, and it
    has no pair outside the selected components *)
Definition apply_mol_choice (nm : option nattr -> option nattr -> bool) (em : eattr -> eattr -> bool) (g1u g2u : graph)
           (ps : list (list N * list N)) (choice : mapping) : option mapping :=
  let ms := map (fun pr => part_of choice (fst pr)) ps in
  if forallb (fun pm => ci_check nm em (induced_sub g1u (fst (fst pm))) (induced_sub g2u (snd (fst pm))) (snd pm) &&
                        (length (snd pm) =? length (fst (fst pm)))%nat) (combine ps ms)
     && (length (concat ms) =? length choice)%nat
  then Some (concat ms) else None.

Definition find_mcs_mol_with (defs : list N) (prune : bool) (wc : N) (g1 g2 : graph) (choice : mapping) : option result :=
  let '(ps, n) := find_mcs_mol_pairs defs prune wc g1 g2 in
  match apply_mol_choice (node_match defs) edge_match (prune_graph prune wc g1) (prune_graph prune wc g2) ps choice with
  | Some m => Some {| r_maps := [m]; r_last := length m; r_tried := n; r_pattern_is_g1 := true |}
  | None => None
  end.

(** single-call observable of the mcs_mol mode with VF2's choice as an input *)
Definition run_mcs_mol_with (defs : list N) (prune : bool) (wc : N) (g1 g2 : graph) (choice : mapping) : tok :=
  match find_mcs_mol_with defs prune wc g1 g2 choice with
  | Some r => L [tbool (r_pattern_is_g1 r); tnat (r_last r); tnat (r_tried r);
                 tlist tmap (get_mappings PatternToHost r); tlist tmap (get_mappings G1toG2 r); tlist tmap (get_mappings G2toG1 r)]
  | None => L [I (-2)]
  end.
