(** C08 — the repaired SynRule equality (/repo 4537ada), definitions only (round 6).

    SynRule.__eq__ / __hash__ compare
        _fragment_signatures() = (left.signature, right.signature)
        _rc_signature()        = canonical_signature of a COPY of the reaction-centre (ITS) graph whose covered node attributes
                                 are the pairs (reactant value, product value) taken from typesGH:
                                 element := (t0[0], t1[0]), aromatic := (t0[1], t1[1]), hcount := (t0[2], t1[2]), charge := (t0[3], t1[3]);
                                 the edges keep their (before, after) order and standard_order.
    A rule is modelled as (its, left, right): [its : graph2] is the ITS graph with a TWO-SIDED node attribute, left / right are the
    fragment graphs the constructor stored (its_decompose and the hydrogen handling that produce them belong to other properties).

    The signature of the two-sided graph: the implementation runs the same canonicaliser on tuple-valued attributes.  The model
    does not re-implement the search for tuple values; it ENCODES the two-sided graph injectively (on the covered attributes) as an
    ordinary graph of C08_Model - element string  e0*e1*<aromatic1>*<charge1>*<hcount1>  ('*' never occurs in an element symbol of
    an ITS graph; numbers as p<digits> / m<digits>), aromatic / charge / hcount fields = the reactant side - and takes the exact
    back-end's signature of the encoding.  Both are complete invariants of the same isomorphism type (C08_nauty_invariant +
    C08_signature_sound_nauty for the model; the property oracle for the implementation), so the VERDICTS coincide: the
    correspondence compares verdicts (==, hash equality), not signature strings. *)
From Coq Require Import String Ascii.
From Coq Require Import List NArith ZArith Bool Arith.
From SK Require Import lib.Tok lib.LGraph lib.StrJoin model.C08_Model.
Import ListNotations.
Open Scope list_scope.

Definition nattr2 := (nattr * nattr)%type.               (* (reactant side, product side) *)
Definition graph2 := lgraph nattr2 eattr.

(* numbers inside an element string: p<digits> / m<digits> *)
Definition zenc (z : Z) : str := (if (z <? 0)%Z then 109%N else 112%N) :: decN (Z.abs_N z).
Definition enc_el (a : nattr2) : str :=
  join 42%N [el (fst a); el (snd a); pybool (ar (snd a)); zenc (ch (snd a)); zenc (hc (snd a))].
Definition enc_attr (a : nattr2) : nattr := NA (enc_el a) (ar (fst a)) (ch (fst a)) (hc (fst a)) (am (fst a)).
Definition enc2 (g : graph2) : graph := LG (map (fun p : N * nattr2 => (fst p, enc_attr (snd p))) (gnodes g)) (gedges g).

(* the three compared signatures, exact back-end *)
Definition rule2 := (graph2 * graph * graph)%type.         (* (its, left, right) *)
Definition rc2_sig (g : graph2) : str := ser_nauty (enc2 g).
Definition rule2_eqb (a b : rule2) : bool :=
  str_eqb (ser_nauty (snd (fst a))) (ser_nauty (snd (fst b))) && str_eqb (ser_nauty (snd a)) (ser_nauty (snd b))
  && str_eqb (rc2_sig (fst (fst a))) (rc2_sig (fst (fst b))).

(* observable: the matrix of verdicts of a family of rules (i < j, row-major), as SynRule.__eq__ gives it *)
Fixpoint upper {A} (l : list A) : list (A * A) :=
  match l with [] => [] | x :: r => map (pair x) r ++ upper r end.
Definition run_rules2 (rs : list rule2) : tok := tlist (fun ab : rule2 * rule2 => tbool (rule2_eqb (fst ab) (snd ab))) (upper rs).
(* __eq__ and equality of __hash__ (hash of the three signatures) give the same matrix *)
Definition run_rules2h (rs : list rule2) : tok := let t := run_rules2 rs in L [t; t].

(* its_decompose: the fragments the constructor stores.  Left = the atoms with their reactant-side attributes and the bonds that exist
   before (order := before); right = product side / after.  (The hydrogen handling of the constructor edits ITS graph and fragments
   consistently and rewrites typesGH from the fragments' hcounts, so the stored fragments are again these projections of the stored
   ITS graph - compared on every case: [derived_b].) *)
Definition left_of (g : graph2) : graph :=
  LG (map (fun p : N * nattr2 => (fst p, fst (snd p))) (gnodes g))
     (flat_map (fun e : N * N * eattr => let '(u, v, x) := e in if (0 <? eo x)%Z then [(u, v, EA (eo x) None)] else []) (gedges g)).
Definition right_of (g : graph2) : graph :=
  LG (map (fun p : N * nattr2 => (fst p, snd (snd p))) (gnodes g))
     (flat_map (fun e : N * N * eattr => let '(u, v, x) := e in
                 match et x with Some b => if (0 <? b)%Z then [(u, v, EA b None)] else [] | None => [] end) (gedges g)).
Definition derived_b (a : rule2) : bool :=
  str_eqb (serialise (snd (fst a))) (serialise (left_of (fst (fst a)))) && str_eqb (serialise (snd a)) (serialise (right_of (fst (fst a)))).
Definition run_rules2d (rs : list rule2) : tok := L [run_rules2h rs; tlist (fun a => tbool (derived_b a)) rs].
