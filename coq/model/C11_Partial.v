(** C11 (round 3) — PartialMatcher._prune_automorphic_mappings with its host argument as the class stores it: a LIST of
    host graphs.  Pruning is applied only when there is exactly one host ("for multiple hosts, the input list is
    returned unchanged to avoid node-id collisions across different hosts").  Definitions only. *)
From Coq Require Import List NArith.
From SK Require Import lib.Tok lib.LGraph model.C11_Model.
Import ListNotations.

Definition partial_prune_hosts {X} (key : X -> mapping) (fn : nlab -> N) (hosts : list graph) (k : nat) (xs : list X)
  : option (list X) :=
  match xs with
  | [] => Some []
  | _ => match hosts with
         | [h] => partial_prune key fn h k xs
         | _ => Some xs
         end
  end.
