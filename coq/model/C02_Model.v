(** C02 — executable model of
      synkit/Graph/ITS/its_decompose.py       get_rc (defaults: disconnected=False, keep_mtg=False)
                                              -> _add_changed_bonds / _should_include_edge / _ensure_node
                                              -> _add_hh_bonds / _is_hh_pair / _ensure_node_hh
      synkit/Graph/Context/radius_expand.py   RadiusExpand.find_nearest_neighbors, extract_subgraph, extract_k
    over the ITS datatypes of model/C01_Model.v.  Definitions only; proofs are in proof/C02_Proof.v.
    The reactor properties import [get_rc], [knn], [extract_k] read-only. *)
From Coq Require Import List NArith ZArith Bool.
From SK Require Import lib.Tok lib.LGraph lib.Reach model.C01_Model.
Import ListNotations.
Local Open Scope Z_scope.

(** ** get_rc *)

(** _should_include_edge with keep_mtg=False:  isinstance(std, (int, float)) and std != 0 *)
Definition changed (x : iedge) : bool := negb (e_std x =? 0).

(** _is_hh_pair: ITS.nodes[u].get("element") == "H" and ITS.nodes[v].get("element") == "H"  (top-level element) *)
Definition is_h (g : its) (u : N) : bool :=
  match label g u with Some a => N.eqb (i_el a) EL_H | None => false end.
Definition is_hh (g : its) (u v : N) : bool := is_h g u && is_h g v.

(** {k: node_data[k] for k in ["element", "charge", "typesGH", "atom_map"]} *)
Definition rc_attr (a : inode) : inode := IN (i_el a) (i_ch a) (i_amap a) None (i_G a) (i_H a).

Definition has_key (n : N) (ns : list (N * inode)) : bool :=
  match assoc n ns with Some _ => true | None => false end.

(** _ensure_node / _ensure_node_hh (they coincide when typesGH is present) *)
Definition ensure_node (g : its) (n : N) (ns : list (N * inode)) : list (N * inode) :=
  if has_key n ns then ns
  else match label g n with Some a => ns ++ [(n, rc_attr a)] | None => ns end.

Definition rc_state := (list (N * inode) * list (N * N * iedge))%type.

(** one iteration of the loop of _add_changed_bonds *)
Definition step_changed (g : its) (st : rc_state) (e : N * N * iedge) : rc_state :=
  let '(u, v, x) := e in
  if changed x
  then (ensure_node g v (ensure_node g u (fst st)), snd st ++ [(u, v, x)])
  else st.

(** one iteration of the loop of _add_hh_bonds *)
Definition step_hh (g : its) (st : rc_state) (e : N * N * iedge) : rc_state :=
  let '(u, v, x) := e in
  if is_hh g u v
  then (ensure_node g v (ensure_node g u (fst st)),
        match find_edge u v (snd st) with Some _ => snd st | None => snd st ++ [(u, v, x)] end)
  else st.

Definition get_rc (g : its) : its :=
  let st1 := fold_left (step_changed g) (gedges g) ([], []) in
  let st2 := fold_left (step_hh g) (gedges g) st1 in
  LG (fst st2) (snd st2).

(** ** RadiusExpand *)

(** find_nearest_neighbors(G, center_nodes, n_knn): k rounds of  S := S | neighbours(S) *)
Definition knn (g : its) (seeds : list N) (k : nat) : list N :=
  Nat.iter k (step (nbrs g)) (add_all seeds []).

(** extract_k(its, k), k >= 0:  the centre itself for k = 0, else G.subgraph(knn).copy() *)
Definition extract_k (g : its) (k : nat) : its :=
  match k with
  | O => get_rc g
  | _ => induced_sub g (knn g (node_ids (get_rc g)) k)
  end.

(** ** Vocabulary of the theorems: distance in the ITS
    [walk g s n m]: a walk of exactly m bonds from s to n;  [dist_le g S k n]: n is within k bonds of the set S *)
Inductive walk (g : its) : N -> N -> nat -> Prop :=
| walk_here s : walk g s s O
| walk_step s u n m : walk g s u m -> adj g u n <> None -> walk g s n (S m).
Definition dist_le (g : its) (seeds : list N) (k : nat) (n : N) : Prop :=
  exists s m, In s seeds /\ (m <= k)%nat /\ walk g s n m.

(** ** Observables (DESIGN Appendix B, C02): centre nodes + attributes, centre edges, the centre of
    the centre, and for k = 0..3 the node set and the edge set of extract_k *)
Definition tpairs (es : list (N * N * iedge)) : tok :=
  tset (fun e : N * N * iedge => let '(u, v, _) := e in L [tN (N.min u v); tN (N.max u v)]) es.

Definition run (g : its) : tok :=
  let rc := get_rc g in
  L [tits rc; tits (get_rc rc);
     tlist (fun k => let c := extract_k g k in L [tset tN (node_ids c); tpairs (gedges c)]) [0; 1; 2; 3]%nat;
     tits (extract_k g 1)].

(** the same on the ITS of a reactant/product pair *)
Definition run_pair (G H : mgraph) : tok := run (its_construct G H).
