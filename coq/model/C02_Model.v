(** C02 — executable model of
      synkit/Graph/ITS/its_decompose.py       get_rc (defaults: disconnected=False, keep_mtg=False)
                                              -> _add_changed_bonds / _should_include_edge / _ensure_node
                                              -> _add_hh_bonds / _is_hh_pair / _ensure_node_hh
      synkit/Graph/Context/radius_expand.py   RadiusExpand.find_nearest_neighbors, extract_subgraph, extract_k
    over the ITS datatypes of model/C01_Model.v.  Definitions only; proofs are in proof/C02_Proof.v.
    The reactor properties import [get_rc], [knn], [extract_k] read-only. *)
From Coq Require Import List NArith ZArith Bool.
From SK Require Import lib.Tok lib.LGraph lib.Reach model.C01_Model.
Import ListNotations.
Local Open Scope Z_scope.

(** ** get_rc *)

(** _should_include_edge with keep_mtg=False:  isinstance(std, (int, float)) and std != 0 *)
Definition changed (x : iedge) : bool := negb (e_std x =? 0).

(** _is_hh_pair: ITS.nodes[u].get("element") == "H" and ITS.nodes[v].get("element") == "H"  (top-level element) *)
Definition is_h (g : its) (u : N) : bool :=
  match label g u with Some a => N.eqb (i_el a) EL_H | None => false end.
Definition is_hh (g : its) (u v : N) : bool := is_h g u && is_h g v.

(** {k: node_data[k] for k in ["element", "charge", "typesGH", "atom_map"]} *)
Definition rc_attr (a : inode) : inode := IN (i_el a) (i_ch a) (i_amap a) None (i_G a) (i_H a).

Definition has_key (n : N) (ns : list (N * inode)) : bool :=
  match assoc n ns with Some _ => true | None => false end.

(** _ensure_node / _ensure_node_hh (they coincide when typesGH is present) *)
Definition ensure_node (g : its) (n : N) (ns : list (N * inode)) : list (N * inode) :=
  if has_key n ns then ns
  else match label g n with Some a => ns ++ [(n, rc_attr a)] | None => ns end.

Definition rc_state := (list (N * inode) * list (N * N * iedge))%type.

(** one iteration of the loop of _add_changed_bonds *)
Definition step_changed (g : its) (st : rc_state) (e : N * N * iedge) : rc_state :=
  let '(u, v, x) := e in
  if changed x
  then (ensure_node g v (ensure_node g u (fst st)), snd st ++ [(u, v, x)])
  else st.

(** one iteration of the loop of _add_hh_bonds *)
Definition step_hh (g : its) (st : rc_state) (e : N * N * iedge) : rc_state :=
  let '(u, v, x) := e in
  if is_hh g u v
  then (ensure_node g v (ensure_node g u (fst st)),
        match find_edge u v (snd st) with Some _ => snd st | None => snd st ++ [(u, v, x)] end)
  else st.

Definition get_rc (g : its) : its :=
  let st1 := fold_left (step_changed g) (gedges g) ([], []) in
  let st2 := fold_left (step_hh g) (gedges g) st1 in
  LG (fst st2) (snd st2).

(** ** RadiusExpand *)

(** find_nearest_neighbors(G, center_nodes, n_knn): k rounds of  S := S | neighbours(S) *)
Definition knn (g : its) (seeds : list N) (k : nat) : list N :=
  Nat.iter k (step (nbrs g)) (add_all seeds []).

(** extract_k(its, k), k >= 0:  the centre itself for k = 0, else G.subgraph(knn).copy() *)
Definition extract_k (g : its) (k : nat) : its :=
  match k with
  | O => get_rc g
  | _ => induced_sub g (knn g (node_ids (get_rc g)) k)
  end.

(** ** Vocabulary of the theorems: distance in the ITS
    [walk g s n m]: a walk of exactly m bonds from s to n;  [dist_le g S k n]: n is within k bonds of the set S *)
Inductive walk (g : its) : N -> N -> nat -> Prop :=
| walk_here s : walk g s s O
| walk_step s u n m : walk g s u m -> adj g u n <> None -> walk g s n (S m).
Definition dist_le (g : its) (seeds : list N) (k : nat) (n : N) : Prop :=
  exists s m, In s seeds /\ (m <= k)%nat /\ walk g s n m.

(** ** Observables (DESIGN Appendix B, C02): centre nodes + attributes, centre edges, the centre of
    the centre, and for k = 0..3 the node set and the edge set of extract_k *)
Definition tpairs (es : list (N * N * iedge)) : tok :=
  tset (fun e : N * N * iedge => let '(u, v, _) := e in L [tN (N.min u v); tN (N.max u v)]) es.

Definition run (g : its) : tok :=
  let rc := get_rc g in
  L [tits rc; tits (get_rc rc);
     tlist (fun k => let c := extract_k g k in L [tset tN (node_ids c); tpairs (gedges c)]) [0; 1; 2; 3]%nat;
     tits (extract_k g 1)].

(** the same on the ITS of a reactant/product pair *)
Definition run_pair (G H : mgraph) : tok := run (its_construct G H).

(** * Round-2 extensions: the remaining branches of get_rc, the RadiusExpand helpers, ITSGraph options.
    Nothing above this line changed; [get_rc] etc. are imported by C03/C04/C09/C10.
    proof/C02_Opts.v proves that [get_rc_x] with the default options is [get_rc] (C02_rcx_default). *)

(** ** get_rc(ITS, element_key, disconnected, keep_mtg)
    Nodes whose attributes may be absent (element_key selects which labels the centre keeps; an ITS node may lack
    typesGH: _ensure_node_hh then writes the fallback (("H",False,0,0,[]),("*",False,0,0,[]))).
    Edges carry 'order', 'standard_order' and the optional attribute 'is_mtg' (absent / False / True). *)
Record xnode := XN {
  x_el : option N; x_ch : option Z; x_amap : option Z;
  x_arom : option bool; x_hc : option Z; x_nb : option (list N);
  x_gh : option (nattr * nattr) }.
Definition xedge := (iedge * option bool)%type.
Definition xits := lgraph xnode xedge.

(** element_key as the set of the seven keys an ITS node can carry (other strings select nothing;
    the order of the keys only decides the order of the attribute dict, which no observable shows) *)
Record keysel := KS { k_el : bool; k_ch : bool; k_amap : bool; k_gh : bool; k_arom : bool; k_hc : bool; k_nb : bool }.
(** the default ["element", "charge", "typesGH", "atom_map"] *)
Definition K_default : keysel := KS true true true true false false false.

Definition pick {T} (b : bool) (o : option T) : option T := if b then o else None.
(** {k: node_data[k] for k in element_key if k in node_data}   (_ensure_node, _carry_node_attrs) *)
Definition sel_attr (K : keysel) (a : xnode) : xnode :=
  XN (pick (k_el K) (x_el a)) (pick (k_ch K) (x_ch a)) (pick (k_amap K) (x_amap a))
     (pick (k_arom K) (x_arom a)) (pick (k_hc K) (x_hc a)) (pick (k_nb K) (x_nb a)) (pick (k_gh K) (x_gh a)).
(** _ensure_node_hh: typesGH (or its fallback) is copied whether or not element_key selects it *)
Definition HH_FALLBACK : nattr * nattr := (NA EL_H false 0 0 [], NA EL_STAR false 0 0 []).
Definition sel_attr_hh (K : keysel) (a : xnode) : xnode :=
  XN (pick (k_el K) (x_el a)) (pick (k_ch K) (x_ch a)) (pick (k_amap K) (x_amap a))
     (pick (k_arom K) (x_arom a)) (pick (k_hc K) (x_hc a)) (pick (k_nb K) (x_nb a))
     (Some (match x_gh a with Some t => t | None => HH_FALLBACK end)).

(** data.get("is_mtg", False) *)
Definition mtg_flag (x : xedge) : bool := match snd x with Some b => b | None => false end.
(** _should_include_edge(std, is_mtg_attr, keep_mtg) *)
Definition include_x (keep : bool) (x : xedge) : bool := changed (fst x) || (keep && mtg_flag x).
(** _is_hh_pair on nodes whose element may be absent *)
Definition is_h_x (g : xits) (u : N) : bool :=
  match label g u with Some a => match x_el a with Some e => N.eqb e EL_H | None => false end | None => false end.
Definition is_hh_x (g : xits) (u v : N) : bool := is_h_x g u && is_h_x g v.

Definition has_key_x (n : N) (ns : list (N * xnode)) : bool :=
  match assoc n ns with Some _ => true | None => false end.
(** if not rc.has_node(n): rc.add_node(n, **f(ITS.nodes[n])) *)
Definition ensure_x (f : xnode -> xnode) (g : xits) (n : N) (ns : list (N * xnode)) : list (N * xnode) :=
  if has_key_x n ns then ns
  else match label g n with Some a => ns ++ [(n, f a)] | None => ns end.

Definition rcx_state := (list (N * xnode) * list (N * N * xedge))%type.
(** the edge attributes _add_changed_bonds / _add_hh_bonds write: order, standard_order, is_mtg = data.get("is_mtg", False) *)
Definition out_edge (x : xedge) : xedge := (fst x, Some (mtg_flag x)).
(** the edge attributes _reconnect_rc_edges writes: order, standard_order (no is_mtg key) *)
Definition out_edge_rec (x : xedge) : xedge := (fst x, None).

Definition step_changed_x (K : keysel) (keep : bool) (g : xits) (st : rcx_state) (e : N * N * xedge) : rcx_state :=
  let '(u, v, x) := e in
  if include_x keep x
  then (ensure_x (sel_attr K) g v (ensure_x (sel_attr K) g u (fst st)), snd st ++ [(u, v, out_edge x)])
  else st.

Definition step_hh_x (K : keysel) (g : xits) (st : rcx_state) (e : N * N * xedge) : rcx_state :=
  let '(u, v, x) := e in
  if is_hh_x g u v
  then (ensure_x (sel_attr_hh K) g v (ensure_x (sel_attr_hh K) g u (fst st)),
        match find_edge u v (snd st) with Some _ => snd st | None => snd st ++ [(u, v, out_edge x)] end)
  else st.

(** _add_charge_change_nodes: gh[0][3] != gh[1][3] and not rc.has_node(n) -> _carry_node_attrs *)
Definition charge_changed (a : xnode) : bool :=
  match x_gh a with Some (tg, th) => negb (a_ch tg =? a_ch th) | None => false end.
Definition step_charge (K : keysel) (ns : list (N * xnode)) (p : N * xnode) : list (N * xnode) :=
  if charge_changed (snd p) && negb (has_key_x (fst p) ns) then ns ++ [(fst p, sel_attr K (snd p))] else ns.

(** _reconnect_rc_edges: rc.has_node(u) and rc.has_node(v) and not rc.has_edge(u, v) -> add_edge *)
Definition step_reconnect (ns : list (N * xnode)) (es : list (N * N * xedge)) (e : N * N * xedge) : list (N * N * xedge) :=
  let '(u, v, x) := e in
  if has_key_x u ns && has_key_x v ns && match find_edge u v es with Some _ => false | None => true end
  then es ++ [(u, v, out_edge_rec x)] else es.

Definition get_rc_x (K : keysel) (disconnected keep : bool) (g : xits) : xits :=
  let st1 := fold_left (step_changed_x K keep g) (gedges g) ([], []) in
  let st2 := fold_left (step_hh_x K g) (gedges g) st1 in
  if disconnected
  then let ns3 := fold_left (step_charge K) (gnodes g) (fst st2) in
       LG ns3 (fold_left (step_reconnect ns3) (gedges g) (snd st2))
  else LG (fst st2) (snd st2).

(** embedding of the round-1 ITS type: every label present, no is_mtg key *)
Definition xn_of (a : inode) : xnode :=
  XN (Some (i_el a)) (Some (i_ch a)) (Some (i_amap a))
     (match i_extra a with Some t => Some (fst (fst t)) | None => None end)
     (match i_extra a with Some t => Some (snd (fst t)) | None => None end)
     (match i_extra a with Some t => Some (snd t) | None => None end)
     (Some (i_G a, i_H a)).
Definition gmap {A A' B B'} (fn : A -> A') (fe : B -> B') (g : lgraph A B) : lgraph A' B' :=
  LG (map (fun p => (fst p, fn (snd p))) (gnodes g)) (map (fun e => let '(u, v, x) := e in (u, v, fe x)) (gedges g)).
Definition emb (g : its) : xits := gmap xn_of (fun e => (e, @None bool)) g.
(** flagged ITS: round-1 nodes, edges with the is_mtg attribute alongside *)
Definition fits := lgraph inode xedge.
Definition emb_f (g : fits) : xits := gmap xn_of (fun e : xedge => e) g.
Definition strip_f (g : fits) : its := gmap (fun a : inode => a) (@fst iedge (option bool)) g.

(** ** RadiusExpand helpers *)

(** find_unequal_order_edges: endpoints of the edges with order[0] != order[1] and standard_order != 0
    (isinstance(order, tuple) holds for every ITS the library builds; the result is list(set): unordered) *)
Definition unequal (x : iedge) : bool := negb (e_G x =? e_H x) && negb (e_std x =? 0).
Definition unequal_nodes (g : its) : list N :=
  fold_left (fun S (e : N * N * iedge) => let '(u, v, x) := e in if unequal x then add_all [u; v] S else S) (gedges g) [].

(** remove_normal_edges(graph, "standard_order"): copy without the edges whose standard_order == 0 *)
Definition remove_normal (g : its) : its := LG (gnodes g) (filter (fun e => changed (snd e)) (gedges g)).

(** remove_normal_edges(graph, "is_mtg"): attrs.get("is_mtg", 1) == 0 holds exactly for is_mtg = False (False == 0 in Python);
    bonds without the attribute and bonds flagged True stay *)
Definition mtg_is_false (x : xedge) : bool := match snd x with Some false => true | _ => false end.
Definition remove_normal_mtg (g : xits) : xits := LG (gnodes g) (filter (fun e => negb (mtg_is_false (snd e))) (gedges g)).

(** extract_subgraph(G, node_indices) = G.subgraph(node_indices).copy(): lib/LGraph.v [induced_sub] (ids not in G are ignored) *)
Definition extract_subgraph (g : its) (ids : list N) : its := induced_sub g ids.

(** longest_radius_extension(G, rc_nodes): depth-first enumeration of the simple paths that start in a centre atom and
    use only edges with standard_order == 0; neighbours in adjacency order ([nbrs]: edge-list order, which is the
    networkx adjacency order when the graph was built by adding the edges in list order). [fuel] bounds the depth. *)
Definition std0 (g : its) (u v : N) : bool :=
  match adj g u v with Some x => e_std x =? 0 | None => false end.
Fixpoint lre_dfs (g : its) (fuel : nat) (node : N) (visited : list N) (path : list N) : list N :=
  match fuel with
  | O => path
  | S f =>
      let visited' := node :: visited in
      fold_left (fun longest nb =>
                   if std0 g node nb && negb (LGraph.mem nb visited')
                   then let cur := lre_dfs g f nb visited' (path ++ [nb]) in
                        if (length longest <? length cur)%nat then cur else longest
                   else longest)
                (nbrs g node) path
  end.
Definition lre (g : its) (rc_nodes : list N) : list N :=
  snd (fold_left (fun (st : list N * list N) n =>
                    let '(vis, best) := st in
                    if LGraph.mem n vis then st
                    else let p := lre_dfs g (S (length (gnodes g))) n vis [n] in
                         (p ++ vis, if (length best <? length p)%nat then p else best))
                 rc_nodes ([], [])).

(** extract_k(its, n_knn) for every integer option value the code distinguishes: 0, -1, > 0 *)
Definition extract_k_z (g : its) (k : Z) : its :=
  if k =? 0 then get_rc g
  else let rcn := node_ids (get_rc g) in
       let k' := if k =? -1 then length (lre g rcn) else Z.to_nat k in
       induced_sub g (knn g rcn k').

(** context_extraction / paralle_context_extraction over a list of reaction dicts: element i of the result is
    element i of the input with K = extract_k(ITS_i, n_knn) *)
Definition context_list (gs : list its) (k : Z) : list (its * its) := map (fun g => (g, extract_k_z g k)) gs.

(** ** ITSConstruction.ITSGraph(G, H, ignore_aromaticity, balance_its) — the two options that reach get_rc
    (C01 owns the construction; this copy only varies the base choice and _compute_standard_order) *)
Definition std_ab (ia : bool) (oG oH : Z) : Z :=
  if ia && (Z.abs (oG - oH) <? 2) then 0 else oG - oH.
Definition its_construct_ab (ia bal : bool) (G H : mgraph) : its :=
  let gb := if bal then (length (gnodes G) <=? length (gnodes H))%nat else base_is_G G H in
  let base := if gb then G else H in
  let other := if gb then H else G in
  let ns := gnodes base ++ filter (fun p => negb (has_node base (fst p))) (gnodes other) in
  LG (map (fun p => (fst p, its_node G H (fst p) (g_amap (snd p)))) ns)
     (map (fun e => let '(u, v, o) := e in (u, v, IE o (order_in H u v) (std_ab ia o (order_in H u v)))) (gedges G)
      ++ map (fun e => let '(u, v, o) := e in (u, v, IE 0 o (std_ab ia 0 o))) (filter (absent_in G) (gedges H))).
(** standard_order is the difference, except that |difference| < 1 is zeroed *)
Definition ia_consistent (g : its) : Prop :=
  forall u v x, In (u, v, x) (gedges g) -> e_std x = if Z.abs (e_G x - e_H x) <? 2 then 0 else e_G x - e_H x.

(** ** Observables of the extensions *)
Definition txnode (p : N * xnode) : tok :=
  let a := snd p in
  L [tN (fst p); topt tN (x_el a); topt tZ (x_ch a); topt tZ (x_amap a); topt tbool (x_arom a); topt tZ (x_hc a);
     topt (tlist tN) (x_nb a); topt (fun t : nattr * nattr => L [tnattr (fst t); tnattr (snd t)]) (x_gh a)].
Definition txedge (e : N * N * xedge) : tok :=
  let '(u, v, x) := e in
  L [tN (N.min u v); tN (N.max u v); tZ (e_G (fst x)); tZ (e_H (fst x)); tZ (e_std (fst x)); topt tbool (snd x)].
Definition txits (g : xits) : tok := L [tset txnode (gnodes g); tset txedge (gedges g)].

(** get_rc under one option setting, and the centre of that centre under the same setting *)
Definition run_x (K : keysel) (disc keep : bool) (g : xits) : tok :=
  let rc := get_rc_x K disc keep g in L [txits rc; txits (get_rc_x K disc keep rc)].
(** all four (disconnected, keep_mtg) settings for one element_key *)
Definition run_opts (K : keysel) (g : xits) : tok :=
  L [run_x K false false g; run_x K false true g; run_x K true false g; run_x K true true g].

(** RadiusExpand helpers on one ITS: find_unequal_order_edges, remove_normal_edges, extract_k for the given n_knn values *)
Definition tctx (c : its) : tok := L [tset tN (node_ids c); tpairs (gedges c)].
Definition run_helpers (g : its) (ks : list Z) : tok :=
  L [tset tN (unequal_nodes g); tits (remove_normal g); tlist (fun k => tctx (extract_k_z g k)) ks].
(** the same plus n_knn = -1 (only for graphs whose adjacency order is the edge-list order) *)
Definition run_lre (g : its) : tok :=
  let rcn := node_ids (get_rc g) in
  L [tlist tN (lre g rcn); tctx (extract_k_z g (-1));
     (* round 5: the search from every single centre atom, and with the centre atoms in reverse order *)
     tlist (fun n => tlist tN (lre g [n])) rcn; tlist tN (lre g (rev rcn))].
(** a list of reaction dicts through paralle_context_extraction *)
Definition run_list (gs : list its) (k : Z) : tok :=
  tlist (fun p : its * its => L [tits (fst p); tits (snd p)]) (context_list gs k).
(** ITSGraph with options, then the round-1 observable *)
Definition run_pair_o (ia bal : bool) (G H : mgraph) : tok := run (its_construct_ab ia bal G H).
