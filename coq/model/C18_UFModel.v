(** C18 — CRNAutomorphism._compute_orbits_from_mappings and the bookkeeping of CRNAutomorphism.summary
    (synkit/CRN/Topo/automorphism.py), structure-following: a parent dict initialised to the identity, find with path halving
    ([parent[x] = parent[parent[x]]; x = parent[x]]), union [parent[find y] = find x], every (src, dst) of every consumed mapping
    united, then the nodes bucketed by their root in node order.  Definitions only.  The order in which VF2 yields the mappings is
    not modelled; the partition computed does not depend on it (theorem), so the model runs on the reference enumeration [auts]. *)
From Coq Require Import List NArith ZArith Bool Arith.
From SK Require Import lib.Tok model.C18_Model.
Import ListNotations.

Definition pmap := list (N * N).
Fixpoint pget (p : pmap) (x : N) : N :=
  match p with [] => x | (u, y) :: r => if N.eqb u x then y else pget r x end.
Fixpoint pset (p : pmap) (x y : N) : pmap :=
  match p with [] => [(x, y)] | (u, z) :: r => if N.eqb u x then (u, y) :: r else (u, z) :: pset r x y end.

Fixpoint uf_find (fuel : nat) (p : pmap) (x : N) : pmap * N :=
  match fuel with
  | O => (p, x)
  | S f => if N.eqb (pget p x) x then (p, x)
           else let p' := pset p x (pget p (pget p x)) in uf_find f p' (pget p' x)
  end.
Definition uf_union (fuel : nat) (p : pmap) (x y : N) : pmap :=
  let fx := uf_find fuel p x in
  let fy := uf_find fuel (fst fx) y in
  if N.eqb (snd fx) (snd fy) then fst fy else pset (fst fy) (snd fy) (snd fx).
Definition uf_run (fuel : nat) (nodes : list N) (maps : list (list (N * N))) : pmap :=
  fold_left (fun p m => fold_left (fun p sd => uf_union fuel p (fst sd) (snd sd)) m p) maps (map (fun n => (n, n)) nodes).

(** buckets: defaultdict(set) keyed by the root, in first-seen order *)
Fixpoint bucket_add (r n : N) (b : list (N * list N)) : list (N * list N) :=
  match b with
  | [] => [(r, [n])]
  | (r', s) :: t => if N.eqb r' r then (r', s ++ [n]) :: t else (r', s) :: bucket_add r n t
  end.
Definition uf_buckets (fuel : nat) (nodes : list N) (p : pmap) : list (list N) :=
  map snd (snd (fold_left (fun st n => let fr := uf_find fuel (fst st) n in (fst fr, bucket_add (snd fr) n (snd st)))
                          nodes (p, []))).
Definition orbits_from_mappings (nodes : list N) (maps : list (list (N * N))) : list (list N) :=
  let fuel := length nodes in uf_buckets fuel nodes (uf_run fuel nodes maps).

(** summary(max_count=k, timeout_sec=None): the loop counts a mapping, keeps it as a sample while fewer than max_count are kept,
    and stops (stopped_early = True) as soon as count >= max_count; [a] = number of mappings VF2 would yield (always >= 1).
    (automorphism_count, stopped_early, number of sample mappings, mapping_count_used) *)
Definition vf2_bookkeeping (a : nat) (k : Z) : nat * bool * nat * nat :=
  let stop_at := Z.to_nat (Z.max k 1) in          (* the first count with count >= max_count *)
  let count := Nat.min a stop_at in
  (count, Nat.leb stop_at a, Nat.min count (Z.to_nat k), count).

Definition run_uf (bip st : bool) (n : net) (ks : list Z) : tok :=
  let g := view bip st n in
  let A := auts g in
  L [ tset (tset tN) (orbits_from_mappings (node_ids g) A);
      (* per k: summary(max_count=k); the number of mappings iter(max_count=k) yields; detect_automorphisms(max_count=k) *)
      tlist (fun k => let '(c, s, m, u) := vf2_bookkeeping (length A) k in L [tnat c; tbool s; tnat m; tnat u; tnat c; tnat c; tbool s]) ks;
      (* the calls with the DEFAULT max_count: summary() keeps 100, detect_automorphisms() 5000 *)
      (let '(c, s, m, u) := vf2_bookkeeping (length A) 100 in L [tnat c; tbool s; tnat m; tnat u]);
      (let '(c, s, m, u) := vf2_bookkeeping (length A) 5000 in L [tnat c; tbool s]) ].
