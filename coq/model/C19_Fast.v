(** C19 — evaluation-friendly variants of the functions of model/C19_Model.v (round 5).  Definitions only; proof/C19_FastProof.v
    proves every variant EQUAL to the function it replaces (the certificate flag: implied).  Nothing is modelled here; the
    point is the cost of vm_compute on networks with >= 40 species / reactions:

      * sub-terms that do not depend on the bound variable are let-bound outside the closure (bip_arcs net was re-sorted for
        every species of every reaction; scc re-ran a closure for every member of every class);
      * the saturation closure expands only the frontier (lib/C19_FastClosure.sat_f = lib/Reach.saturate);
      * the rank certificates are checked with fold-based matrix products (lib/C19_FastRank.check_rank_f, which implies
        lib/RankBridge.check_rank).

    run19f is what the correspondence evaluates for plain cases. *)
From Coq Require Import List NArith ZArith Bool Arith.
From SK Require Import lib.Tok lib.Reach lib.C17_Farkas lib.C19_FastClosure model.C17_Model model.C19_Model.
Require SK.lib.C19_FastRank.
Import ListNotations.

Definition complex_graph_f (net : list rxn) (iso : list str) : list (list Z) * list (nat * nat) :=
  let arcs := bip_arcs net in
  let sp := species_order net iso in
  fold_left (cstep (fun ro e => map (fun s => entry ro arcs s (rid e)) sp)) (edges_sorted net) ([], []).

Definition closure_f (nbr : N -> list N) (k : nat) (u : N) : list N :=
  match sat_f nbr (S k) [u] [u] with Some R => R | None => [] end.

Fixpoint classes_go_f (nbr : N -> list N) (k : nat) (todo seen : list N) : list (list N) :=
  match todo with
  | [] => []
  | u :: rest => if mem u seen then classes_go_f nbr k rest seen
                 else let c := closure_f nbr k u in c :: classes_go_f nbr k rest (c ++ seen)
  end.
Definition linkage_classes_f (arcs : list (nat * nat)) (k : nat) : list (list N) :=
  classes_go_f (und_nbr arcs) k (map nn (seq 0 k)) [].

Definition strongly_connected_f (arcs : list (nat * nat)) (k : nat) (c : list N) : bool :=
  match c with
  | [] => true
  | u :: _ => subset c (closure_f (succs arcs) k u) && subset c (closure_f (preds arcs) k u)
  end.
Definition weakly_reversible_f (arcs : list (nat * nat)) (k : nat) : bool :=
  forallb (strongly_connected_f arcs k) (linkage_classes_f arcs k).

Definition scc_f (arcs : list (nat * nat)) (k : nat) (v : N) : list N :=
  let back := closure_f (preds arcs) k v in
  filter (fun x => mem x back) (closure_f (succs arcs) k v).
Definition is_terminal_f (arcs : list (nat * nat)) (k : nat) (v : N) : bool :=
  subset (closure_f (succs arcs) k v) (closure_f (preds arcs) k v).
Definition is_rep_f (arcs : list (nat * nat)) (k : nat) (c : list N) (v : N) : bool :=
  let s := scc_f arcs k v in
  match find (fun x => mem x s) c with Some x => N.eqb x v | None => false end.
Definition terminal_count_f (arcs : list (nat * nat)) (k : nat) (c : list N) : nat :=
  length (filter (fun v => is_rep_f arcs k c v && is_terminal_f arcs k v) c).
Definition regular_f (arcs : list (nat * nat)) (k : nat) : bool :=
  forallb (fun c => Nat.eqb (terminal_count_f arcs k c) 1) (linkage_classes_f arcs k).

Definition build_S_f (net : list rxn) (iso : list str) : list (list Z) :=
  let arcs := bip_arcs net in
  let rx := reaction_order net in
  let sp := species_order net iso in
  msub (map (fun s => map (fun e => entry Product arcs s (rid e)) rx) sp)
       (map (fun s => map (fun e => entry Reactant arcs s (rid e)) rx) sp).

Definition rank_checked_f (m n : nat) (S : list (list Z)) (c : rcert) : bool :=
  SK.lib.C19_FastRank.check_rank_f m n (rc_r c) S (rc_A c) (rc_B c) (rc_A2 c) (rc_B2 c) (rc_d c).

(** the functions below take the complex graph as an argument so that run19f computes it once *)
Definition certs_of (cg : list (list Z) * list (nat * nat)) (net : list rxn) (iso : list str) (rc : rcert) (ccs : list rcert) : bool :=
  let '(cs, arcs) := cg in
  let m := length (species_order net iso) in
  let classes := linkage_classes_f arcs (length cs) in
  rank_checked_f m (length (reaction_order net)) (build_S_f net iso) rc &&
  Nat.eqb (length ccs) (length classes) &&
  forallb (fun p => let D := class_diffs cs arcs (fst p) in rank_checked_f (length D) m D (snd p)) (combine classes ccs).
Definition certs_ok_f (net : list rxn) (iso : list str) (rc : rcert) (ccs : list rcert) : bool :=
  certs_of (complex_graph_f net iso) net iso rc ccs.

Definition summary_of (cg : list (list Z) * list (nat * nat)) (net : list rxn) (iso : list str) (r : nat) : summary :=
  let '(cs, arcs) := cg in
  let k := length cs in
  let nl := length (linkage_classes_f arcs k) in
  Summary (length (species_order net iso)) (length (reaction_order net)) k nl r (deficiency_of k nl r) (weakly_reversible_f arcs k).
Definition compute_summary_f (net : list rxn) (iso : list str) (r : nat) : summary := summary_of (complex_graph_f net iso) net iso r.

Definition run19_of (cg : list (list Z) * list (nat * nat)) (flag : bool) (net : list rxn) (iso : list str) (rc : rcert) (ccs : list rcert) : tok :=
  match net with
  | [] => L [I 2%Z]
  | _ =>
    let '(cs, arcs) := cg in
    let k := length cs in
    let classes := linkage_classes_f arcs k in
    let s := summary_of cg net iso (rc_r rc) in
    let ld := linkage_deficiencies classes (map rc_r ccs) in
    let reg := regular_f arcs k in
    L [ I 0%Z;
        tmat cs;
        tset tarc arcs;
        tlist (tset tN) classes;
        L [tnat (n_species s); tnat (n_reactions s); tnat (n_complexes s); tnat (n_linkage s); tnat (stoich_rank s);
           I (deficiency s); tbool (weakly_rev s)];
        tlist I ld;
        tbool flag;
        tbool reg;
        tbool (check_deficiency_zero s);
        tbool (check_deficiency_one s ld);
        tbool (deficiency_one_hypotheses s ld reg);
        tnondeg2 s cs ]
  end.
Definition run19_flag_f (flag : bool) (net : list rxn) (iso : list str) (rc : rcert) (ccs : list rcert) : tok :=
  run19_of (complex_graph_f net iso) flag net iso rc ccs.
Definition run19f (net : list rxn) (iso : list str) (rc : rcert) (ccs : list rcert) : tok :=
  let cg := complex_graph_f net iso in
  run19_of cg (certs_of cg net iso rc ccs) net iso rc ccs.
