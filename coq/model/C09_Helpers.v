(** C09 — the static helpers of CanonRSMI called DIRECTLY (definitions only): remap_graph with its two argument forms and
    its error cases, get_aam_pairwise_indices on graphs that still contain unmapped atoms (atom_map = 0),
    sync_atom_map_with_index.

      remap_graph(G, node_map):  ValueError on an empty node_map; list[int] form: mapping = {old: i+1}; pair form:
      mapping = {old: new for new, old in node_map} (a repeated old id: the later pair wins); KeyError when the mapping
      names a node that is not in G; otherwise nx.relabel_nodes(G, mapping, copy=True) - partial and colliding maps allowed
      ([C09_Model.nx_relabel]). *)
From Coq Require Import List NArith ZArith Bool.
From SK Require Import lib.Tok lib.LGraph model.C01_Model model.C09_Model.
Import ListNotations.

Inductive rres := RValueError | RKeyError | ROk (g : mgraph).
Definition remap_graph_full (H : mgraph) (pairs : list (N * N)) : rres :=
  match pairs with
  | [] => RValueError
  | _ => let m := remap_mapping pairs in
         if forallb (fun old => mem old (node_ids H)) (map fst m) then ROk (nx_relabel (apply_map m) H) else RKeyError
  end.
Definition remap_graph_list_full (H : mgraph) (l : list N) : rres :=
  remap_graph_full H (combine (map N.of_nat (seq 1 (length l))) l).

Definition trres (r : rres) : tok :=
  match r with RValueError => L [I (-1)] | RKeyError => L [I (-2)] | ROk g => L [tmgraph g; tmgraph (set_amap g)] end.
(** one case: the shared pairs of (G, H) and of (H, G), then every node_map variant (pair form / list form) on H *)
Definition run_helpers (G H : mgraph) (pvars : list (list (N * N))) (lvars : list (list N)) : tok :=
  L [tpairsN (aam_pairs G H); tpairsN (aam_pairs H G);
     tlist (fun v => trres (remap_graph_full H v)) pvars; tlist (fun v => trres (remap_graph_list_full H v)) lvars].
