(** C01 — the 'neighbors' attribute inside the model.
    MolToGraph stores, for every atom, neighbors = sorted(nb.GetSymbol() for nb in atom.GetNeighbors()); ITSConstruction copies
    the list into the fifth entry of both halves of typesGH.  Until round 4 the harness read this list off RDKit and handed it
    to the model as data ([ra_nb]).  Here the model computes it: an RDKit molecule enters as [rmol0] (atoms WITHOUT the
    list), the neighbours of atom i are the other ends of the bonds that mention i, and Python's sorted() on str is an
    insertion sort by the lexicographic order of the symbols' bytes (code-point order; element symbols are ASCII).  The
    bytes are decoded from the interned code itself (harness/gen/c01_enc.py elem_code: "*" -> 0, "" -> 1, "H" -> 2, any other
    s -> 3 + the bytes of s read as a base-256 number), so no order table has to be trusted.
    Definitions only; proofs in proof/C01_NbrsProof.v. *)
From Coq Require Import List NArith ZArith Bool.
From SK Require Import lib.Tok lib.LGraph model.C01_Model model.C01_String.
Import ListNotations.
Local Open Scope N_scope.

(** ** the bytes of an interned symbol *)
Fixpoint bytes_fuel (fuel : nat) (n : N) (acc : list N) : list N :=
  match fuel with
  | O => acc
  | S f => if n =? 0 then acc else bytes_fuel f (n / 256) ((n mod 256) :: acc)
  end.
Definition sym_bytes (c : N) : list N :=
  if c =? 0 then [42] else if c =? 1 then [] else if c =? 2 then [72] else bytes_fuel 16 (c - 3) [].

(** str.__le__ on ASCII strings: lexicographic on the bytes, a proper prefix is smaller *)
Fixpoint lex_leb (a b : list N) : bool :=
  match a, b with
  | [], _ => true
  | _ :: _, [] => false
  | x :: a', y :: b' => if x <? y then true else if y <? x then false else lex_leb a' b'
  end.
Definition sym_leb (x y : N) : bool := lex_leb (sym_bytes x) (sym_bytes y).

(** sorted(symbols) *)
Fixpoint insert_sym (x : N) (l : list N) : list N :=
  match l with
  | [] => [x]
  | y :: r => if sym_leb x y then x :: l else y :: insert_sym x r
  end.
Definition sort_syms (l : list N) : list N := fold_right insert_sym [] l.

(** ** an RDKit molecule without the derived list *)
Record ratom0 := RA0 { r0_el : N; r0_arom : bool; r0_hs : Z; r0_ch : Z; r0_map : N }.
Record rmol0 := RM0 { rm0_atoms : list ratom0; rm0_bonds : list (nat * nat * Z) }.

(** atom.GetNeighbors(): the other end of every bond of the atom, in bond order *)
Definition nbr_idx (bs : list (nat * nat * Z)) (i : nat) : list nat :=
  flat_map (fun b : nat * nat * Z => let '(x, y, _) := b in
              if Nat.eqb x i then [y] else if Nat.eqb y i then [x] else []) bs.
Definition sym_at (m : rmol0) (j : nat) : list N :=
  match nth_error (rm0_atoms m) j with Some a => [r0_el a] | None => [] end.
(** sorted(nb.GetSymbol() for nb in atom.GetNeighbors()) *)
Definition nb_syms (m : rmol0) (i : nat) : list N := sort_syms (flat_map (sym_at m) (nbr_idx (rm0_bonds m) i)).

Definition fill_atom (m : rmol0) (ia : nat * ratom0) : ratom :=
  RA (r0_el (snd ia)) (r0_arom (snd ia)) (r0_hs (snd ia)) (r0_ch (snd ia)) (r0_map (snd ia)) (nb_syms m (fst ia)).
(** the molecule as MolToGraph sees it *)
Definition fill_nb (m : rmol0) : rmol := RM (map (fill_atom m) (enumerate (rm0_atoms m))) (rm0_bonds m).

(** observable: the lists alone *)
Definition run_nb (m : rmol0) : tok := tlist (fun a => tlist tN (ra_nb a)) (rm_atoms (fill_nb m)).
