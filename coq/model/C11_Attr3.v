(** C11 (round 5) — ONE graph with the three node labels and two edge labels of model/C11_Model.v computed from the
    attribute dictionaries inside the model (until now the harness built this graph in Python for the pattern / host of
    the dedup cases, the views and the object histories):
      node label 1  the tuple over the default keys of the exact analysis  (element, charge)          -> [n_exact]
      node label 2  the tuple over the reactor's estimate keys (element, charge, aromatic, hcount)     -> [n_wl]
      node label 3  the whole dictionary without atom_map (graph_automorphisms)                       -> [n_full]
      edge label 1  the tuple over (order)                                                             -> [e_order]
      edge label 2  the whole edge dictionary                                                          -> [e_full]
    each numbered by first occurrence.  Definitions only; proofs in proof/C11_Attr3Proof.v. *)
From Coq Require Import List NArith ZArith Bool.
From SK Require Import lib.Tok lib.LGraph model.C11_Model model.C11_Keys model.C11_Attr.
Import ListNotations.

Definition nlab3 := (list N * list N * list N)%type.
Definition elab3 := (list N * list N)%type.
Definition tgraph3 := lgraph nlab3 elab3.

Definition picked3 (ag : agraph) : tgraph3 :=
  LG (map (fun p => (fst p, (pick node_default DEF_NODE (snd p), pick node_default WL4 (snd p),
                            dict_tuple [K_atom_map] (keys_of snd (gnodes ag)) (snd p)))) (gnodes ag))
     (map (fun e => (fst e, (pick edge_default DEF_EDGE (snd e), dict_tuple [] (keys_of snd (gedges ag)) (snd e)))) (gedges ag)).

Definition intern3 (t : tgraph3) : graph :=
  let n1 := map (fun p => fst (fst (snd p))) (gnodes t) in
  let n2 := map (fun p => snd (fst (snd p))) (gnodes t) in
  let n3 := map (fun p => snd (snd p)) (gnodes t) in
  let e1 := map (fun e => fst (snd e)) (gedges t) in
  let e2 := map (fun e => snd (snd e)) (gedges t) in
  LG (map (fun p => (fst p, (lidx (fst (fst (snd p))) n1 0%N, lidx (snd (fst (snd p))) n2 0%N, lidx (snd (snd p)) n3 0%N))) (gnodes t))
     (map (fun e => (fst e, (lidx (fst (snd e)) e1 0%N, lidx (snd (snd e)) e2 0%N))) (gedges t)).

Definition to_graph3 (ag : agraph) : graph := intern3 (picked3 ag).
