(** C15 (round 5) — the mapping API of RXNSide (synkit/CRN/Hypergraph/rxn.py) on objects the caller holds:
    constructor / from_any, __setitem__, incr, pop, update, copy, and the read-only methods __getitem__, get, __len__,
    __contains__, keys / __iter__, values, items / to_dict, species, arity(include_coeff), expand.
    (from_str and __repr__ are modelled in C16_Model.v / C15_Repr.v.)  A history runs on a pool of sides; sides are finite
    maps label -> positive count, so everything that depends on dict insertion order is observed as a set.  Definitions only. *)
From stdpp Require Import gmap strings sets pretty.
From SK Require Import lib.Tok model.C15_Model model.C15_Ext.
Local Open Scope string_scope.

Inductive sq :=
| SGetItem (x : string)            (* side[x]: KeyError when absent *)
| SGet (x : string) (d : option Z) (* side.get(x, d) *)
| SLen | SContains (x : string) | SKeys | SValues | SItems | SSpecies
| SArity (coeff : bool) | SExpand.

Inductive sop :=
| SNew (k : nat) (l : list item)               (* pool[k] = RXNSide.from_any(l) / RXNSide(l) *)
| SSet (k : nat) (x : string) (c : Z)          (* pool[k][x] = c      (c <= 0 removes the entry) *)
| SIncr (k : nat) (x : string) (by_ : Z)       (* pool[k].incr(x, by) (a result <= 0 removes the entry) *)
| SPop (k : nat) (x : string) (d : option Z)   (* pool[k].pop(x, d): the count, or d (None) when absent *)
| SUpdate (k : nat) (l : list item)            (* pool[k].update(l) *)
| SCopy (k k' : nat)                           (* pool[k'] = pool[k].copy() *)
| SQuery (k : nat) (q : sq).

Definition topz (o : option Z) : tok := match o with Some z => L [I z] | None => L [] end.

Definition sanswer (sd : side) (q : sq) : tok :=
  match q with
  | SGetItem x => match sd !! x with Some p => L [I 0; I (Z.pos p)] | None => L [I 1] end
  | SGet x d => topz (match sd !! x with Some p => Some (Z.pos p) | None => d end)
  | SLen => tN (N.of_nat (size sd))
  | SContains x => tbool (bool_decide (is_Some (sd !! x)))
  | SKeys | SSpecies => tgset (dom sd)
  | SValues => tset (λ p : string * positive, L [tstr p.1; I (Z.pos p.2)]) (map_to_list sd)   (* values tagged by their key: a multiset *)
  | SItems => tside sd
  | SArity coeff => if coeff then I (map_fold (λ _ p acc, (acc + Z.pos p)%Z) 0%Z sd) else tN (N.of_nat (size sd))
  | SExpand => tset (λ p : string * positive, L [tstr p.1; I (Z.pos p.2)]) (map_to_list sd)   (* label x repeated count times, as label -> multiplicity *)
  end.

Definition sstep (p : list side) (o : sop) : list side * tok :=
  match o with
  | SNew k l => (<[ k := normalize_items l ]> p, L [])
  | SSet k x c => (<[ k := side_set (getp p k) x c ]> p, L [])
  | SIncr k x by_ => (<[ k := side_incr (getp p k) x by_ ]> p, L [])
  | SPop k x d => (<[ k := delete x (getp p k) ]> p, topz (match getp p k !! x with Some c => Some (Z.pos c) | None => d end))
  | SUpdate k l => (<[ k := side_update (getp p k) l ]> p, L [])
  | SCopy k k' => (<[ k' := getp p k ]> p, L [])
  | SQuery k q => (p, sanswer (getp p k) q)
  end.

Fixpoint run_sops (p : list side) (ops : list sop) : list tok :=
  match ops with
  | [] => []
  | o :: os => let '(p', a) := sstep p o in L [a; tlist tside p'] :: run_sops p' os
  end.
Definition run_side (k : nat) (ops : list sop) : tok := L (run_sops (replicate k ∅) ops).
