(** C20 — executable model of synkit/CRN/Petri/persistence.py: siphon_persistence_condition
    ("every minimal siphon contains the support of some P-semiflow").  Definitions only; proofs in
    proof/C20_PersistProof.v.

    The P-semiflows are a floating-point basis of the left kernel (scipy, through find_p_semiflows): NOT modelled.
    What the function does with them is: it reads each basis column's SUPPORT (species whose coefficient exceeds
    1e-8 in absolute value), drops empty supports, and compares sets.  The supports are therefore ORACLE INPUTS of the
    model (recorded from the real run, as species ranks); everything else — the siphon enumeration, the early exits,
    the subset test — is modelled:
        siphons = find_siphons(G, max_size)         -> [find_siphons] of model/C20_Model.v (raises on an empty side)
        if not siphons: return True
        if Y.size == 0: return False                 -> no column, hence no support
        supports = non-empty supports; if not supports: return False
        all(any(T <= S for T in supports) for S in siphons) *)
From Coq Require Import ZArith List Bool Arith.
Import ListNotations.
From SK Require Import lib.Tok model.C20_Model.

Definition nonempty (T : list nat) : bool := match T with [] => false | _ => true end.

Definition persistence_verdict (siphons supports : list (list nat)) : bool :=
  match siphons with
  | [] => true
  | _ =>
      match filter nonempty supports with
      | [] => false
      | sup => forallb (fun S => existsb (fun T => subset T S) sup) siphons
      end
  end.

Definition siphon_persistence_condition (G : bgraph) (max_size : option nat) (supports : list (list nat)) : option bool :=
  match find_siphons G max_size with
  | None => None                                   (* ValueError of _split_species_reactions *)
  | Some s => Some (persistence_verdict s supports)
  end.

(** observable: the net observable of [run_net] followed by the verdicts for max_siphon_size None / k.  The body repeats
    [run_net] with the two siphon enumerations let-bound, so that the (exponential) enumeration is evaluated once for the
    siphon slots and the persistence slots: [siphon_persistence_condition G m sup] unfolds to exactly the match used here. *)
Definition persistence_of (o : option (list (list nat))) (supports : list (list nat)) : option bool :=
  match o with None => None | Some s => Some (persistence_verdict s supports) end.

Definition run_graph_p (G : bgraph) (k : nat) (cands : list (list nat)) (supports : list (list nat)) : tok :=
  if split_ok G then
    let sns := species_nodes_sorted G in
    let rn := g_reactions G in
    let subs := all_subsets (length sns) in
    let s_all := find_siphons G None in
    let s_k := find_siphons G (Some k) in
    L [ I 1%Z;
        tlist tnat (species_labels G);
        L [tbool (is_siphon_indices G sns rn []); tbool (is_trap_indices G sns rn [])];
        tlist (fun s => tbool (is_siphon_indices G sns rn s)) subs;
        tlist (fun s => tbool (is_trap_indices G sns rn s)) subs;
        topt_sets s_all; topt_sets (find_traps G None);
        topt_sets s_k; topt_sets (find_traps G (Some k));
        tlist tnset (minimal_sets cands);
        L [topt tbool (persistence_of s_all supports); topt tbool (persistence_of s_k supports)] ]
  else L [I 0%Z].

Definition run_net_p (n : nat) (rs : list rxn) (und : bool) (k : nat) (cands : list (list nat)) (order : list nat)
           (supports : list (list nat)) : tok :=
  let G0 := with_species_order order (bipartite_of n rs) in
  let G := if und then orient_undirected (undirected_view G0) else G0 in
  run_graph_p G k cands supports.

(** * PetriAnalyzer with its persistence field (analyzer.py): check_persistence() stores the verdict for the network as it is at that
    moment, compute_all() = compute_semiflows().compute_siphons_traps().check_persistence() (the first step raises on a network without
    species or reactions before anything is stored), the [persistence_ok] property returns the stored field.  The state of
    model/C20_Model.v ([an_state]: network reference, stored siphons / traps) is extended by the stored verdict; the supports of the
    float semiflow basis computed inside check_persistence are oracle inputs of the op. *)
Record anp_state := ANP { anp_base : an_state; anp_persist : option bool }.

Inductive anp_op :=
| PBase (op : an_op)                          (* compute_siphons_traps / read / the caller edits the network *)
| PCheck (supports : list (list nat))         (* check_persistence() *)
| PAll (supports : list (list nat)).          (* compute_all() *)

Inductive anp_ans :=
| PRead (s t : option (list (list nat))) (p : option bool)
| PDone
| PErr.

Definition anp_check (k : option nat) (st : anp_state) (sup : list (list nat)) : anp_state * anp_ans :=
  let net := an_net (anp_base st) in
  match siphon_persistence_condition (bipartite_of (fst net) (snd net)) k sup with
  | None => (st, PErr)
  | Some b => (ANP (anp_base st) (Some b), PDone)
  end.

Definition anp_step (k : option nat) (st : anp_state) (op : anp_op) : anp_state * anp_ans :=
  match op with
  | PBase AnRead => (st, PRead (an_siphons (anp_base st)) (an_traps (anp_base st)) (anp_persist st))
  | PBase op' =>
      let '(b, a) := an_step k (anp_base st) op' in
      (ANP b (anp_persist st), match a with AnErr => PErr | _ => PDone end)
  | PCheck sup => anp_check k st sup
  | PAll sup =>
      let '(b, a) := an_step k (anp_base st) AnCompute in
      match a with
      | AnErr => (ANP b (anp_persist st), PErr)
      | _ => anp_check k (ANP b (anp_persist st)) sup
      end
  end.

Fixpoint anp_run (k : option nat) (st : anp_state) (ops : list anp_op) : list anp_ans :=
  match ops with
  | [] => []
  | op :: ops' => let '(st', a) := anp_step k st op in a :: anp_run k st' ops'
  end.

Definition anp_exec (k : option nat) (st : anp_state) (ops : list anp_op) : anp_state :=
  fold_left (fun s op => fst (anp_step k s op)) ops st.

Definition tanp_ans (a : anp_ans) : tok :=
  match a with
  | PRead s t p => L [I 1%Z; match s with Some l => L [tlist tnset l] | None => L [] end;
                          match t with Some l => L [tlist tnset l] | None => L [] end;
                          topt tbool p]
  | PDone => L [I 4%Z]
  | PErr => L [I 9%Z]
  end.

Definition run_anap (k : option nat) (net0 : network) (ops : list anp_op) : tok :=
  tlist tanp_ans (anp_run k (ANP (AN net0 None None) None) ops).
