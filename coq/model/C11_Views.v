(** C11 (round 5) — the remaining public views of the two classes.
      Automorphism(anchor_largest_component=False)   _choose_anchor returns None            -> [analyze_flag]
      Automorphism.is_connected / __len__                                                   -> [a_is_connected], [a_len]
      AutoEst.components(nodes) / _normalize_nodes / _components_on_induced: connected components of the subgraph
        induced on [nodes] (None = all nodes; an unknown node = ValueError), sorted by (size, smallest id)
                                                                                            -> [est_components]
      AutoEst.orbit_components(nodes) / _orbit_quotient_graph: components of the graph whose nodes are the orbit ids
        of the kept nodes and whose edges join the ids of adjacent kept nodes of different orbits -> [est_orbit_components]
    Definitions only; proofs in proof/C11_ViewsProof.v. *)
From Coq Require Import List NArith ZArith Bool Arith.
From SK Require Import lib.Tok lib.LGraph model.C11_Model model.C11_Order.
Import ListNotations.

Definition analyze_flag (anchor_largest : bool) (fn : nlab -> N) (fe : elab -> N) (g : graph) : analysis :=
  let a := analyze fn fe g in
  if anchor_largest then a else Analysis (a_count a) (a_orbits a) (a_comps a) None.

Definition a_is_connected (g : graph) : bool :=
  (length (node_ids g) <=? 1)%nat || (length (components g) =? 1)%nat.
Definition a_len (a : analysis) : nat := length (a_orbits a).

(** _normalize_nodes: None = every node; otherwise the given nodes, all of which must be nodes of the graph *)
Definition keep_nodes (g : graph) (nodes : option (list N)) : option (list N) :=
  match nodes with
  | None => Some (node_ids g)
  | Some ns => if forallb (fun n => LGraph.mem n (node_ids g)) ns then Some ns else None
  end.

(** sorted(comps, key=lambda c: (len(c), min(c))) *)
Definition sort_comps (cs : list (list N)) : list (list N) := fold_right insK [] cs.

Definition est_components (g : graph) (nodes : option (list N)) : option (list (list N)) :=
  match keep_nodes g nodes with
  | Some keep => Some (sort_comps (components (induced_sub g keep)))
  | None => None
  end.

Definition quotient (g : graph) (keep : list N) (idx : N -> option N) : graph :=
  LG (map (fun i => (i, (0%N, 0%N, 0%N)))
          (dedupN (flat_map (fun n => if LGraph.mem n keep then match idx n with Some i => [i] | None => [] end else [])
                            (node_ids g))))
     (flat_map (fun e => let '(u, v, _) := e in
                         if LGraph.mem u keep && LGraph.mem v keep then
                           match idx u, idx v with
                           | Some a, Some b => if N.eqb a b then [] else [(a, b, (0%N, 0%N))]
                           | _, _ => []
                           end
                         else []) (gedges g)).

Definition est_orbit_components (g : graph) (cs : colouring) (nodes : option (list N)) : option (list (list N)) :=
  match keep_nodes g nodes with
  | Some keep => Some (sort_comps (components (quotient g keep (wl_orbit_index cs))))
  | None => None
  end.

Definition t_comps (o : option (list (list N))) : tok :=
  match o with Some l => L [I 0%Z; tlist (tset tN) l] | None => L [I 1%Z] end.

Definition run_views (g : graph) (subsets : list (option (list N))) : tok :=
  let cs := wl n_exact e_order g 10 in
  let a := analyze_flag false n_exact e_order g in
  L [ topt (tset tN) (a_anchor a); tN (a_count a); tbool (a_is_connected g); tnat (a_len a);
      tlist (fun s => L [t_comps (est_components g s); t_comps (est_orbit_components g cs s)]) subsets ].
