(** C19 — the text views of DeficiencyAnalyzer (round 5): explain(), __repr__ and the conclusion of the deficiency-one front end.
    Definitions only; proof/C19_TextProof.v.  Strings are lists of code points (ASCII); Python's f"{int}" is the decimal
    printer [dec_Z], f"{bool}" is True / False. *)
From Coq Require Import String Ascii List NArith ZArith Bool Arith.
From SK Require Import lib.Tok model.C17_Model model.C19_Model.
Import ListNotations.

Definition codes (s : string) : str := map N_of_ascii (list_ascii_of_string s).

(** decimal digits, most significant first; the fuel (number of bits + 1) is never exhausted (proof/C19_TextProof.v) *)
Fixpoint dec_fuel (f : nat) (n : N) (acc : str) : str :=
  match f with
  | O => acc
  | S f' => let acc' := (48 + n mod 10)%N :: acc in
            if (n / 10 =? 0)%N then acc' else dec_fuel f' (n / 10)%N acc'
  end.
Definition dec_N (n : N) : str := dec_fuel (S (N.to_nat (N.log2 n))) n [].
Definition dec_Z (z : Z) : str :=
  match z with Z0 => [48%N] | Zpos p => dec_N (Npos p) | Zneg p => 45%N :: dec_N (Npos p) end.
Definition py_bool (b : bool) : str := if b then codes "True" else codes "False".

(** explain(): without a summary a fixed sentence *)
Definition explain_str (o : option summary) : str :=
  match o with
  | None => codes "No computations performed yet. Call compute_summary()."
  | Some s => codes "Deficiency=" ++ dec_Z (deficiency s) ++ codes ", Linkage-classes=" ++ dec_N (N.of_nat (n_linkage s)) ++
              codes ", Weakly-reversible=" ++ py_bool (weakly_rev s)
  end.
(** __repr__: getattr(self._summary, 'deficiency', 'NA') *)
Definition repr_str (o : option summary) : str :=
  codes "<DeficiencyAnalyzer deficiency=" ++ (match o with None => codes "NA" | Some s => dec_Z (deficiency s) end) ++ codes ">".
Definition conclusion_str (hyp : bool) : str :=
  if hyp
  then codes "Deficiency One hypotheses (Feinberg, 1987, 1988) are satisfied: for mass-action kinetics with any positive rate constants, each positive stoichiometric compatibility class contains at most one equilibrium (if any equilibrium exists)."
  else codes "Deficiency One hypotheses are not satisfied; the theorem does not provide information about uniqueness or multiplicity of equilibria for this network.".
