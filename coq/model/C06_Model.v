(** C06 — executable model of synkit/Graph/Matcher/subgraph_matcher.py
    (SubgraphSearchEngine: find_subgraph_mappings, _quick_pre_filter,
    _find_all_subgraph_mappings, _find_component_aware_subgraph_mappings,
    _find_bt_subgraph_mappings).  Definitions only; proofs are in proof/C06_*.v.

    Structure-following: every Python loop is a recursive function over the very
    list the loop iterates, with the same early exits.  networkx VF2
    ([GraphMatcher.subgraph_monomorphisms_iter]) is NOT modelled: it is the oracle
    [enum : list N -> list N -> list mapping] (host node list, pattern node list
    |-> enumeration, already inverted to pattern->host pairs).  The theorems
    assume that [enum hn pn] is a permutation of the verified enumerator
    [monos_on H P hn pn] (lib/Mono.v); the harness either instantiates [enum] with
    [monos_on] itself (order-insensitive cases) or with the table of enumerations
    recorded from networkx (cases with result limits), whose entries are checked
    against [monos_on] inside Coq ([table_ok]).

    Node label = (codes of the selected node attributes, hcount); edge label =
    codes of the selected edge attributes (interned by the harness; None = 0). *)
From Coq Require Import List NArith Bool Arith Lia.
From SK Require Import lib.Tok lib.LGraph lib.Mono lib.Reach.
Import ListNotations.

Definition nlab := (list N * N)%type.
Definition elab := list N.
Definition graph := lgraph nlab elab.
Definition mapping := list (N * N).          (* (pattern node, host node) pairs *)

Fixpoint leqb (a b : list N) : bool :=
  match a, b with
  | [], [] => true
  | x :: a', y :: b' => N.eqb x y && leqb a' b'
  | _, _ => false
  end.

(** node_match(nh, np): selected attributes equal and host hcount >= pattern hcount *)
Definition nm (h p : nlab) : bool := leqb (fst h) (fst p) && (snd p <=? snd h)%N.
(** edge_match(eh, ep): selected attributes equal *)
Definition em (h p : elab) : bool := leqb h p.

Definition lab (g : graph) (u : N) : nlab :=
  match label g u with Some a => a | None => ([], 0%N) end.

(** the verified enumerator on sub-node-lists of H and P (monomorphisms, not induced) *)
Definition monos_on (H P : graph) (hn pn : list N) : list mapping :=
  monos pn hn (lab P) (lab H) (LGraph.adj P) (LGraph.adj H) nm em false.

Definition lenN {X} (l : list X) : N := N.of_nat (length l).

(** ---------- connected components (nx.connected_components order: by first node) ---------- *)
Definition comp_of (g : graph) (seed : N) : list N :=
  match saturate (nbrs g) (S (length (gnodes g))) [seed] with
  | Some R => R
  | None => [seed]
  end.

Fixpoint comps_go (g : graph) (todo seen : list N) : list (list N) :=
  match todo with
  | [] => []
  | u :: r =>
      if LGraph.mem u seen then comps_go g r seen
      else let c := comp_of g u in
           filter (fun x => LGraph.mem x c) (node_ids g) :: comps_go g r (c ++ seen)
  end.
Definition comps (g : graph) : list (list N) := comps_go g (node_ids g) [].

(** ---------- _quick_pre_filter ---------- *)
Definition degree (g : graph) (u : N) : N := lenN (nbrs g u).

Fixpoint qpf_loop (H P : graph) (thr : N) (ps : list N) (estimate : N) : bool :=
  match ps with
  | [] => false
  | p :: ps' =>
      let count := lenN (filter (fun h => nm (lab H h) (lab P p) && (degree P p <=? degree H h)%N) (node_ids H)) in
      if (count =? 0)%N then true
      else let e := (estimate * count)%N in
           if (thr * 10000 <? e)%N then true else qpf_loop H P thr ps' e
  end.
Definition quick_pre_filter (H P : graph) (thr : N) : bool := qpf_loop H P thr (node_ids P) 1%N.

(** ---------- limits ---------- *)
(** [max_results and len(results) >= max_results]  (maxr = 0 encodes None / 0) *)
Definition capped (maxr n : N) : bool := (0 <? maxr)%N && (maxr <=? n)%N.

(** ---------- _find_all_subgraph_mappings ---------- *)
Fixpoint all_loop (maxr thr : N) (it : list mapping) (acc : list mapping) (n : N) : list mapping :=
  match it with
  | [] => rev acc
  | m :: it' =>
      let n' := N.succ n in
      if capped maxr n' then rev (m :: acc)
      else if (thr <? n')%N then []
      else all_loop maxr thr it' (m :: acc) n'
  end.

Section WithOracle.
Variable enum : list N -> list N -> list mapping.

Definition find_all (maxr thr : N) (H P : graph) : list mapping :=
  all_loop maxr thr (enum (node_ids H) (node_ids P)) [] 0%N.

(** ---------- _find_component_aware_subgraph_mappings ---------- *)
(** inner loop over the isos of one candidate host component:
    None = "return []" (threshold), Some (maps (reversed), count) otherwise *)
Fixpoint cc_inner (cap thr : N) (i : nat) (it : list mapping) (maps : list (nat * mapping)) (n : N)
  : option (list (nat * mapping) * N) :=
  match it with
  | [] => Some (maps, n)
  | m :: it' =>
      let n' := N.succ n in
      let maps' := (i, m) :: maps in
      if capped cap n' then Some (maps', n')
      else if (thr <? n')%N then None
      else cc_inner cap thr i it' maps' n'
  end.

Fixpoint cc_outer (cap thr : N) (pc : list N) (cands : list (nat * list N)) (maps : list (nat * mapping)) (n : N)
  : option (list (nat * mapping)) :=
  match cands with
  | [] => Some (rev maps)
  | (i, hc) :: r =>
      match cc_inner cap thr i (enum hc pc) maps n with
      | None => None
      | Some (maps', n') => if capped cap n' then Some (rev maps') else cc_outer cap thr pc r maps' n'
      end
  end.

Fixpoint index_from {X} (k : nat) (l : list X) : list (nat * X) :=
  match l with [] => [] | x :: r => (k, x) :: index_from (S k) r end.

(** the loop "for pc in pat_ccs"; None = one of the "return []" exits *)
Fixpoint per_cc_all (cap thr : N) (hcs : list (nat * list N)) (pcs : list (list N))
  : option (list (list (nat * mapping))) :=
  match pcs with
  | [] => Some []
  | pc :: r =>
      let cand := filter (fun ih => length pc <=? length (snd ih)) hcs in
      match cand with
      | [] => None
      | _ =>
          match cc_outer cap thr pc cand [] 0%N with
          | None => None
          | Some [] => None
          | Some maps =>
              match per_cc_all cap thr hcs r with
              | None => None
              | Some rest => Some (maps :: rest)
              end
          end
      end
  end.

(** sorted(range(pcc), key=len(per_cc[i])) — stable *)
Fixpoint insert_len {X} (x : list X) (l : list (list X)) : list (list X) :=
  match l with
  | [] => [x]
  | y :: r => if length x <=? length y then x :: y :: r else y :: insert_len x r
  end.
Definition sort_len {X} (l : list (list X)) : list (list X) := fold_right insert_len [] l.

Definition memnat (x : nat) (l : list nat) : bool := existsb (Nat.eqb x) l.
(** any(p in acc for p in m) *)
Definition clash (m acc : mapping) : bool := existsb (fun ph => LGraph.mem (fst ph) (map fst acc)) m.

Definition stop (maxr thr n : N) : bool := capped maxr n || (thr <? n)%N.

(** backtrack(level, acc); results kept reversed together with their count *)
Fixpoint bt (maxr thr : N) (ordered : list (list (nat * mapping))) (used : list nat) (acc : mapping)
         (res : list mapping * N) {struct ordered} : list mapping * N :=
  if stop maxr thr (snd res) then res else
  match ordered with
  | [] => (acc :: fst res, N.succ (snd res))
  | lvl :: rest =>
      (fix loop (cs : list (nat * mapping)) (res : list mapping * N) {struct cs} : list mapping * N :=
         match cs with
         | [] => res
         | (hi, m) :: cs' =>
             if memnat hi used || clash m acc then loop cs' res
             else let res' := bt maxr thr rest (hi :: used) (m ++ acc) res in
                  if stop maxr thr (snd res') then res' else loop cs' res'
         end) lvl res
  end.

(** per-component embedding lists are capped by max_results only when the
    pattern has a single component (repaired code; see notes/C06.md) *)
Definition cc_cap (maxr : N) (pcc : nat) : N := if pcc =? 1 then maxr else 0%N.

Definition find_comp (maxr thr : N) (strict : bool) (H P : graph) : list mapping :=
  let hcs := comps H in
  let pcs := comps P in
  let hcc := length hcs in
  let pcc := length pcs in
  if pcc =? 0 then [[]]
  else if hcc <? pcc then find_all maxr thr H P
  else if (pcc <? hcc) && strict then []
  else match per_cc_all (cc_cap maxr pcc) thr (index_from 0 hcs) pcs with
       | None => []
       | Some per => rev (fst (bt maxr thr (sort_len per) [] [] ([], 0%N)))
       end.

(** ---------- _find_bt_subgraph_mappings ---------- *)
Definition find_bt (maxr thr : N) (strict : bool) (H P : graph) : list mapping :=
  match find_comp maxr thr strict H P with
  | [] => find_all maxr thr H P
  | primary => primary
  end.

(** ---------- find_subgraph_mappings ---------- *)
Record cfg := Cfg { c_strat : N;      (* 0 all, 1 comp, 2 bt *)
                    c_maxr : N;       (* 0 = None *)
                    c_thr : N;        (* effective threshold *)
                    c_strict : bool;
                    c_pref : bool }.

Definition find (c : cfg) (H P : graph) : list mapping :=
  if c_pref c && quick_pre_filter H P (c_thr c) then []
  else
    let r := match c_strat c with
             | 0%N => find_all (c_maxr c) (c_thr c) H P
             | 1%N => find_comp (c_maxr c) (c_thr c) (c_strict c) H P
             | _ => find_bt (c_maxr c) (c_thr c) (c_strict c) H P
             end in
    if (c_thr c <? lenN r)%N then [] else r.
End WithOracle.

(** ---------- recorded VF2 tables (cases with limits) ---------- *)
Definition table := list (list N * list N * list mapping).

Definition same_set (a b : list N) : bool :=
  (length a =? length b) && forallb (fun x => LGraph.mem x b) a.

Fixpoint lookup (t : table) (hn pn : list N) : list mapping :=
  match t with
  | [] => []
  | (h, p, l) :: r => if same_set h hn && same_set p pn then l else lookup r hn pn
  end.

Definition pair_eqb (a b : N * N) : bool := N.eqb (fst a) (fst b) && N.eqb (snd a) (snd b).
Definition map_eqb (a b : mapping) : bool :=
  (length a =? length b) && forallb (fun x => existsb (pair_eqb x) b) a.

Fixpoint remove1 (x : mapping) (l : list mapping) : option (list mapping) :=
  match l with
  | [] => None
  | y :: r => if map_eqb x y then Some r
              else match remove1 x r with Some r' => Some (y :: r') | None => None end
  end.
Fixpoint is_perm (a b : list mapping) : bool :=
  match a with
  | [] => match b with [] => true | _ => false end
  | x :: a' => match remove1 x b with Some b' => is_perm a' b' | None => false end
  end.

(** monitor of the oracle contract: every recorded enumeration is a permutation
    (mappings compared as sets of pairs) of the verified enumerator *)
Definition table_ok (H P : graph) (t : table) : bool :=
  forallb (fun e => let '(hn, pn, l) := e in
                    is_perm l (monos_on H P (filter (fun x => LGraph.mem x hn) (node_ids H))
                                            (filter (fun x => LGraph.mem x pn) (node_ids P)))) t.

(** ---------- recorded VF2 tables, strict form (used by [run_list]) ---------- *)
Definition same_set2 (a b : list N) : bool := same_set a b && same_set b a.
Definition map_eqb2 (a b : mapping) : bool := map_eqb a b && map_eqb b a.

Fixpoint lookup_opt (t : table) (hn pn : list N) : option (list mapping) :=
  match t with
  | [] => None
  | (h, p, l) :: r => if same_set2 h hn && same_set2 p pn then Some l else lookup_opt r hn pn
  end.

(** the oracle of the order-sensitive run: the recorded networkx enumeration of the call,
    and the verified enumerator for a call that was never recorded *)
Definition lookup_or (t : table) (H P : graph) (hn pn : list N) : list mapping :=
  match lookup_opt t hn pn with Some l => l | None => monos_on H P hn pn end.

Fixpoint remove2 (x : mapping) (l : list mapping) : option (list mapping) :=
  match l with
  | [] => None
  | y :: r => if map_eqb2 x y then Some r
              else match remove2 x r with Some r' => Some (y :: r') | None => None end
  end.
Fixpoint is_perm2 (a b : list mapping) : bool :=
  match a with
  | [] => match b with [] => true | _ => false end
  | x :: a' => match remove2 x b with Some b' => is_perm2 a' b' | None => false end
  end.

Definition table_ok2 (H P : graph) (t : table) : bool :=
  forallb (fun e => let '(hn, pn, l) := e in
                    is_perm2 l (monos_on H P (filter (fun x => LGraph.mem x hn) (node_ids H))
                                             (filter (fun x => LGraph.mem x pn) (node_ids P)))) t.

(** ---------- monitor of the input premise of the theorems ([gwf], lib/C06_Spec.v):
    distinct node ids; every edge joins two different nodes of the graph ---------- *)
Fixpoint nodupb (l : list N) : bool :=
  match l with [] => true | x :: r => negb (LGraph.mem x r) && nodupb r end.
Definition gwfb (g : graph) : bool :=
  nodupb (node_ids g) &&
  forallb (fun e => let '(a, b, _) := e in
                    LGraph.mem a (node_ids g) && LGraph.mem b (node_ids g) && negb (N.eqb a b)) (gedges g).

(** no second entry for an unordered node pair (networkx Graph: one edge per pair) *)
Fixpoint simpleb (es : list (N * N * elab)) : bool :=
  match es with
  | [] => true
  | (a, b, _) :: r => (match find_edge a b r with None => true | Some _ => false end) && simpleb r
  end.
(** executable form of [LGraph.wf] *)
Definition wfb (g : graph) : bool := gwfb g && simpleb (gedges g).

(** ---------- the call interface: Strategy.from_string and the option defaults of
    find_subgraph_mappings (strategy.py, subgraph_matcher.py:331-375).  Strings are byte
    lists (ASCII domain; [str.lower] is modelled on A-Z only). ---------- *)
Definition lower_byte (b : N) : N := if (65 <=? b)%N && (b <=? 90)%N then (b + 32)%N else b.
Definition s_all : list N := [97; 108; 108]%N.                      (* "all" *)
Definition s_comp : list N := [99; 111; 109; 112]%N.                (* "comp" *)
Definition s_bt : list N := [98; 116]%N.                            (* "bt" *)
Definition s_partial : list N := [112; 97; 114; 116; 105; 97; 108]%N.  (* "partial" *)
(** Strategy.from_string on a string: code 0 all, 1 comp, 2 bt, 3 partial; None = ValueError *)
Definition from_string (s : list N) : option N :=
  let l := map lower_byte s in
  if leqb l s_all then Some 0%N else if leqb l s_comp then Some 1%N
  else if leqb l s_bt then Some 2%N else if leqb l s_partial then Some 3%N else None.

Definition DEFAULT_THRESHOLD : N := 5000%N.
(** the [strategy] argument: omitted, a string, or an enum member (by code) *)
Inductive sarg := SDefault | SStr (s : list N) | SMember (code : N).
Inductive outcome := ValueError | NotImplemented | Result (r : list mapping).
Definition dflt {X} (d : X) (o : option X) : X := match o with Some x => x | None => d end.

Section Api.
Variable enum : list N -> list N -> list mapping.
(** find_subgraph_mappings as it is called: every option may be omitted (None);
    [max_results = Some 0] behaves as None ("if max_results and ..."), [threshold = Some 0] is a real threshold *)
Definition find_api (s : sarg) (maxr : option N) (strict : option bool) (thr : option N) (pref : option bool)
           (H P : graph) : outcome :=
  match (match s with SDefault => Some 1%N | SStr b => from_string b | SMember c => Some c end) with
  | None => ValueError
  | Some 3%N => NotImplemented
  | Some code => Result (find enum (Cfg code (dflt 0%N maxr) (dflt DEFAULT_THRESHOLD thr) (dflt true strict) (dflt false pref)) H P)
  end.
End Api.

(** ---------- observables ---------- *)
Definition tmapping (m : mapping) : tok := tset (tpair tN tN) m.
Definition tcomps (cs : list (list N)) : tok := tset (tset tN) cs.

(** order-insensitive run: oracle := the verified enumerator; results as multisets *)
Definition run_set (H P : graph) (cfgs : list cfg) : tok :=
  L [ tbool (wfb H && wfb P); tcomps (comps H); tcomps (comps P);
      tlist (fun c => L [ tbool (quick_pre_filter H P (c_thr c));
                          tset tmapping (find (monos_on H P) c H P) ]) cfgs ].

(** order-sensitive run: oracle := recorded networkx enumerations ([lookup_or]); the flag [table_ok2] implies the
    VF2 premise of the theorems for this oracle (proof/C06_Table.v) *)
Definition run_list (H P : graph) (t : table) (cfgs : list cfg) : tok :=
  L [ tbool (wfb H && wfb P); tbool (table_ok2 H P t); tcomps (comps H); tcomps (comps P);
      tlist (fun c => L [ tbool (quick_pre_filter H P (c_thr c));
                          tlist tmapping (find (lookup_or t H P) c H P) ]) cfgs ].

(** the call interface (order-insensitive): one entry per call *)
Definition tcall (H P : graph) (c : sarg * option N * option bool * option N * option bool) : tok :=
  let '(s, maxr, strict, thr, pref) := c in
  match find_api (monos_on H P) s maxr strict thr pref H P with
  | ValueError => tN 1
  | NotImplemented => tN 2
  | Result r => L [tset tmapping r]
  end.
Definition run_api (H P : graph) (calls : list (sarg * option N * option bool * option N * option bool)) : tok :=
  L [ tbool (wfb H && wfb P); tlist (tcall H P) calls ].
