(** C01 — its_decompose on ARBITRARY ITS-shaped graphs (synkit/Graph/ITS/its_decompose.py:367-431), every branch:
      for node, data in its.nodes(data=True):
          if nodes_share in data:                      a node without typesGH is skipped on both sides
              g, h = data[nodes_share]; G.add_node(node, element=g[0], aromatic=g[1], hcount=g[2], charge=g[3], atom_map=node)
              if len(h) > 0: H.add_node(node, ...)      an empty product tuple: the node is missing from H
      for u, v, data in its.edges(data=True):
          if edges_share in data:                      an edge without order is skipped
              a, b = data[edges_share]
              if a > 0: G.add_edge(u, v, order=a)      networkx add_edge CREATES missing end nodes, without attributes
              if b > 0: H.add_edge(u, v, order=b)
    The molecule graphs may therefore contain attribute-less nodes ([None]).  Definitions only; proofs in proof/C01_DecRawProof.v. *)
From Coq Require Import List NArith ZArith Bool.
From SK Require Import lib.Tok lib.LGraph model.C01_Model model.C01_String.
Import ListNotations.
Local Open Scope Z_scope.

(** typesGH absent | (G tuple, H tuple or the empty tuple) *)
Definition rnode := option (nattr * option nattr).
Definition rits := lgraph rnode (option (Z * Z)).
(** a molecule graph whose nodes may lack every attribute *)
Definition ogl := lgraph (option gnode) Z.

Definition ensure_o (n : N) (ns : list (N * option gnode)) : list (N * option gnode) :=
  match assoc n ns with Some _ => ns | None => ns ++ [(n, None)] end.

(** add_edge(u, v, order=o) *)
Definition add_edge_o (u v : N) (o : Z) (g : ogl) : ogl :=
  LG (ensure_o v (ensure_o u (gnodes g))) (upsert_edge u v o (gedges g)).

Definition raw_nodes (sel : nattr * option nattr -> option nattr) (I : rits) : list (N * option gnode) :=
  flat_map (fun p : N * rnode =>
              match snd p with
              | Some t => match sel t with Some a => [(fst p, Some (dec_node a (fst p)))] | None => [] end
              | None => []
              end) (gnodes I).

Definition raw_edge_step (sel : Z * Z -> Z) (g : ogl) (e : N * N * option (Z * Z)) : ogl :=
  let '(u, v, x) := e in
  match x with
  | Some ab => if 0 <? sel ab then add_edge_o u v (sel ab) g else g
  | None => g
  end.

Definition dec_side_raw (seln : nattr * option nattr -> option nattr) (sele : Z * Z -> Z) (I : rits) : ogl :=
  fold_left (raw_edge_step sele) (gedges I) (LG (raw_nodes seln I) []).

Definition its_decompose_raw (I : rits) : ogl * ogl :=
  (dec_side_raw (fun t => Some (fst t)) fst I, dec_side_raw snd snd I).

(** an ITS of model/C01_Model.v as a raw ITS: typesGH and order present everywhere *)
Definition embed_its (I : its) : rits :=
  LG (map (fun p => (fst p, Some (i_G (snd p), Some (i_H (snd p))))) (gnodes I))
     (map (fun e : N * N * iedge => let '(u, v, x) := e in (u, v, Some (e_G x, e_H x))) (gedges I)).
Definition some_nodes (g : mgraph) : ogl := LG (map (fun p => (fst p, Some (snd p))) (gnodes g)) (gedges g).

Definition tognode (p : N * option gnode) : tok := L [tN (fst p); topt (fun a => tgnode (fst p, a)) (snd p)].
Definition togl (g : ogl) : tok := L [tset tognode (gnodes g); tset tgedge (gedges g)].
Definition run_dec_raw (I : rits) : tok := L [togl (fst (its_decompose_raw I)); togl (snd (its_decompose_raw I))].
