(** C14 — BalanceReactionCheck.parse_input in front of dicts_balance_check (balance_check.py): the input normalisation

      str                      -> [{rsmi_column: s}]
      list: for item in list:  str                               -> {rsmi_column: item}
                               dict with rsmi_column as a key    -> the dict itself
                               anything else (a dict WITHOUT the key, None, a number, ...) -> silently skipped

    followed by the (possibly parallel) per-row check and the split into balanced / unbalanced rows
    ([balance_split] of model/C14_CrnModel.v).  Definitions only; proofs in proof/C14_Inputs.v. *)
From Coq Require Import List Bool Arith.
Import ListNotations.
From SK Require Import lib.Tok model.C14_CrnModel.

Inductive bitem := IStr | IDictWith | IDictWithout | IOther.

Definition kept (k : bitem) : bool := match k with IStr | IDictWith => true | _ => false end.

Definition parse_input {A} (items : list (bitem * A)) : list A :=
  map snd (filter (fun p => kept (fst p)) items).

Definition dicts_balance_check {A} (n_jobs : nat) (check : A -> bool) (items : list (bitem * A)) : list A * list A :=
  balance_split n_jobs check (parse_input items).

(** observable: a row is its POSITION in the item list; [items] = (kind, verdict of the single-reaction entry point) *)
Definition run_balance_items (jobs : list nat) (items : list (bitem * bool)) : tok :=
  let rows := combine (map fst items) (seq 0 (length items)) in
  tlist (fun nj => let '(b, u) := dicts_balance_check nj (fun i => nth i (map snd items) false) rows in
                   L [tlist tnat b; tlist tnat u]) jobs.
