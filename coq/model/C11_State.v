(** C11 (round 3) — the objects of automorphism.py / auto_est.py as small state machines: what an instance caches and
    when it recomputes.  Definitions only; proofs in proof/C11_StateProof.v.

    class Automorphism: [_graph] is a REFERENCE to the caller's networkx graph; [orbits] / [n_automorphisms] /
    [anchor_component] are computed by [_analyze] on the first read and cached for the life of the object (no
    invalidation: an object read before an in-place edit of the graph keeps answering for the old value).
    class AutoEst: [fit()] recomputes colours and orbits from the current graph and drops the cached orbit index. *)
From Coq Require Import List NArith ZArith Bool.
From SK Require Import lib.Tok lib.LGraph model.C11_Model.
Import ListNotations.

Record aobj := AObj { o_graph : graph; o_cache : option analysis }.

Definition a_new (g : graph) : aobj := AObj g None.
(** the caller edits the graph in place: the object sees the new value, the cache is untouched *)
Definition a_edit (g' : graph) (o : aobj) : aobj := AObj g' (o_cache o).
(** reading orbits / n_automorphisms / anchor_component *)
Definition a_read (fn : nlab -> N) (fe : elab -> N) (o : aobj) : analysis * aobj :=
  match o_cache o with
  | Some a => (a, o)
  | None => let a := analyze fn fe (o_graph o) in (a, AObj (o_graph o) (Some a))
  end.

Record eobj := EObj { e_graph : graph; e_cols : option colouring }.
Definition e_new (g : graph) : eobj := EObj g None.
Definition e_edit (g' : graph) (o : eobj) : eobj := EObj g' (e_cols o).
Definition e_fit (fn : nlab -> N) (fe : elab -> N) (k : nat) (o : eobj) : eobj := EObj (e_graph o) (Some (wl fn fe (e_graph o) k)).
Definition e_colors (o : eobj) : option colouring := e_cols o.           (* None = RuntimeError "call fit() first" *)

(** a history: one Automorphism object created first, then for every graph value: edit in place, read *)
Fixpoint reads (fn : nlab -> N) (fe : elab -> N) (o : aobj) (gs : list graph) : list analysis :=
  match gs with
  | [] => []
  | g :: r => let '(a, o') := a_read fn fe (a_edit g o) in a :: reads fn fe o' r
  end.

(** one AutoEst object created first, then for every graph value: edit in place, fit again, read the colours *)
Fixpoint refits (fn : nlab -> N) (fe : elab -> N) (k : nat) (o : eobj) (gs : list graph) : list (option colouring) :=
  match gs with
  | [] => []
  | g :: r => let o' := e_fit fn fe k (e_edit g o) in e_colors o' :: refits fn fe k o' r
  end.

Definition run_objects (gs : list graph) : tok :=
  match gs with
  | [] => L []
  | g0 :: _ =>
      L [ tlist (fun a => L [tN (a_count a); t_sets (a_orbits a)]) (reads n_exact e_order (a_new g0) gs);
          tlist (topt (fun cs => tlist tN (map snd cs))) (refits n_exact e_order 10 (e_new g0) gs) ]
  end.
