(** C01 — the two legacy builders of synkit/IO/mol_to_graph.py behind the classmethod MolToGraph.mol_to_graph(mol,
    drop_non_aam, light_weight, use_index_as_atom_map), each with its own loops:
      _create_detailed_graph   : the node loop of transform, the bond loop with `if b and e:` (an end with id 0 is skipped)
      _create_light_weight_graph: ONE loop over the atoms; every atom adds itself (add_node) and then, for each of its bonds
                                  (atom.GetBonds()), the edge to the other atom unless that atom is dropped - networkx add_edge
                                  creates the other end as an attribute-less node if it has not been visited yet, and the later
                                  add_node fills the attributes in (position kept); every bond is therefore added twice
    The classmethod raises ValueError for drop_non_aam without use_index_as_atom_map (None).  Projection of the detailed graph
    on the six attributes is done by the harness.  Definitions only; proofs in proof/C01_BuildersProof.v. *)
From Coq Require Import List NArith ZArith Bool.
From SK Require Import lib.Tok lib.LGraph model.C01_Model model.C01_String model.C01_DecRaw.
Import ListNotations.

(** ** _create_detailed_graph *)
Definition m2g_bond_d (ix : list (nat * N)) (es : list (N * N * Z)) (b : nat * nat * Z) : list (N * N * Z) :=
  let '(bi, ei, o) := b in
  match lookup_idx bi ix, lookup_idx ei ix with
  | Some u, Some v => if N.eqb u 0 || N.eqb v 0 then es else upsert_edge u v o es      (* if b and e: *)
  | _, _ => es
  end.

Definition detailed_graph (drop use : bool) (m : rmol) : option mgraph :=
  if drop && negb use then None
  else
    let st := fold_left (m2g_atom drop use) (enumerate (rm_atoms m)) ([], []) in
    Some (LG (fst st) (fold_left (m2g_bond_d (snd st)) (rm_bonds m) [])).

(** ** _create_light_weight_graph *)
(** atom.GetBonds(): (other atom's index, order), in bond order *)
Definition atom_bonds (bs : list (nat * nat * Z)) (i : nat) : list (nat * Z) :=
  flat_map (fun b : nat * nat * Z => let '(x, y, o) := b in
              if Nat.eqb x i then [(y, o)] else if Nat.eqb y i then [(x, o)] else []) bs.

Definition lw_state := (list (N * option gnode) * list (N * N * Z))%type.

Definition lw_edge (drop use : bool) (atoms : list ratom) (id : N) (st : lw_state) (jo : nat * Z) : lw_state :=
  let '(j, o) := jo in
  match nth_error atoms j with
  | Some b =>
      if negb drop || negb (N.eqb (ra_map b) 0)
      then let nid := atom_id use j b in
           (ensure_o nid (ensure_o id (fst st)), upsert_edge id nid o (snd st))          (* G.add_edge(atom_id, nbr_id, order=order) *)
      else st
  | None => st
  end.

Definition lw_atom (drop use : bool) (atoms : list ratom) (bs : list (nat * nat * Z)) (st : lw_state) (ia : nat * ratom) : lw_state :=
  let '(i, a) := ia in
  if drop && N.eqb (ra_map a) 0 then st
  else
    let id := atom_id use i a in
    fold_left (lw_edge drop use atoms id) (atom_bonds bs i) (upsert id (Some (atom_node a)) (fst st), snd st).

Definition light_graph (drop use : bool) (m : rmol) : option ogl :=
  if drop && negb use then None
  else
    let st := fold_left (lw_atom drop use (rm_atoms m) (rm_bonds m)) (enumerate (rm_atoms m)) ([], []) in
    Some (LG (fst st) (snd st)).

Definition run_m2g_detailed (drop use : bool) (m : rmol) : tok := topt tmgraph (detailed_graph drop use m).
Definition run_m2g_light (drop use : bool) (m : rmol) : tok := topt togl (light_graph drop use m).
