(** C11 (round 5) — intermediate values of deduplicate_matches_with_anchor in the correspondence: the output of
    _prepare_pattern_orbits and, for every match, the signature (free part from _free_sig_from_pattern_orbits or
    _free_sig_host_only with _make_host_repr, anchor part from _anchor_sig; ValueError = None) - computed by
    [anchor_signature] (proof/C11_Sig.v), the very function C11_dedup_first_of_class characterises the result with.
    The orbit lists are passed in the order Python passes them (Automorphism.orbits = [sorted_orbits]; AutoEst.orbits).
    Definitions only. *)
From Coq Require Import List NArith ZArith Bool.
From SK Require Import lib.Tok lib.LGraph model.C11_Model model.C11_Order proof.C11_Sig.
Import ListNotations.

Definition t_sig (s : sig) : tok :=
  L [ tlist (tpair (tlist tN) (tlist tN)) (fst s); tlist (tpair tN tN) (snd s) ].
Definition sigs (porbs : option (list (list N))) (anchor : list N) (horbs : option (list (list N))) (ms : list mapping) : tok :=
  L [ tpair (tlist (tlist tN)) (tlist tN) (prepare porbs anchor);
      tlist (topt t_sig) (map (anchor_signature porbs anchor horbs) ms) ].

Definition run_sigs (p h : graph) (ms : list mapping) : tok :=
  let ap := analyze n_exact e_order p in
  let ah := analyze n_exact e_order h in
  let po := sorted_orbits (a_orbits ap) in
  let ho := sorted_orbits (a_orbits ah) in
  let wlo := wl_orbits (wl n_wl e_order p 10) in
  let anc := match a_anchor ap with Some c => c | None => [] end in
  L [ sigs (Some wlo) (wl_anchor p) None ms;
      sigs (Some po) anc None ms;
      sigs None [] (Some ho) ms;
      sigs (Some po) [] (Some ho) ms;
      sigs None [] (Some (drop_big ho)) ms ].
