(** C11 (round 4) — the attribute-key options of the two classes.  Automorphism(graph, node_attr_keys, edge_attr_keys)
    compares nodes / edges on the configured keys only (an EMPTY or absent list means the defaults element, charge /
    order - the constructor tests the argument for truth); AutoEst(graph, node_attrs, edge_attrs) labels with the
    configured keys (an empty list means NO label).  In the model the label functions [fn], [fe] are parameters; the
    harness encodes the graph once per key configuration:
      g0 : default keys (the 4-attribute estimate of the reactor always uses them),
      gx : the keys the exact analysis compares on,
      gw : the keys the second estimate labels with.
    Definitions only. *)
From Coq Require Import List NArith ZArith.
From SK Require Import lib.Tok lib.LGraph model.C11_Model.
Import ListNotations.

Definition run_exact (g : graph) : tok :=
  let a := analyze n_exact e_order g in
  L [ tN (a_count a); t_sets (a_orbits a); tlist (tset tN) (a_comps a); topt (tset tN) (a_anchor a) ].

Definition run_aut_keys (g0 gx gw : graph) : tok :=
  L [ run_exact gx; wl_obs n_wl g0; wl_obs n_exact gw; tbool (wfb g0); tlist t_maps (aut_lists gx) ].
