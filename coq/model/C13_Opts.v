(** C13 -- round 5 (wave 4): the optional matcher arguments of the entry points as OPTIONS of the model, with the fallback rule
    of each entry point inside the model.  Definitions only; proofs in proof/C13_Opts.v.

      BatchCluster.lib_check(data, templates, rule_key, attribute_key, nodeMatch=None, edgeMatch=None)
          iso_function(template, data, nodeMatch or self.nodeMatch, edgeMatch or self.edgeMatch):
          the fallback to the object's own matcher is PER ARGUMENT                                  [fallback, RLibCheck]
      GraphCluster.iterative_cluster(rules, attributes=None, nodeMatch=None, edgeMatch=None)
          graph_isomorphism(rule_i, rule_j, nodeMatch, edgeMatch): NO fallback -- a matcher that is None
          leaves that side uncompared                                                                [RGcIter]
    A matcher argument is described by where it comes from ([msrc]): omitted / None, the object's own matcher handed back in,
    or a matcher the caller built from another configuration [cm].  Because different calls of one history may now compare
    different attributes, the library (template list) is kept by item id and every call looks at the items through ITS
    effective configuration ([reproj]: raw item of that id, selected with the call's configuration). *)
From Coq Require Import List NArith ZArith Bool Arith.
From SK Require Import lib.Tok lib.LGraph lib.Mono model.C13_Model model.C13_Trace.
Import ListNotations.

Inductive msrc := MNone | MObj | MExplicit.

(** nodeMatch or self.nodeMatch *)
Definition fallback (s : msrc) : msrc := match s with MNone => MObj | x => x end.

Definition side_cfg (c cm : ccfg) (s : msrc) : option ccfg :=
  match s with MNone => None | MObj => Some c | MExplicit => Some cm end.
Definition given (s : msrc) : bool := match s with MNone => false | _ => true end.

(** the configuration a call ends up comparing with: node labels from the source [ns], bond attribute from [es] *)
Definition mix_cfg (c cm : ccfg) (ns es : msrc) : ccfg :=
  {| cc_names := match side_cfg c cm ns with Some x => cc_names x | None => [] end;
     cc_defs := match side_cfg c cm ns with Some x => cc_defs x | None => [] end;
     cc_edge := match side_cfg c cm es with Some x => cc_edge x | None => 0%N end |}.

Definition item_iso2 (nl el : bool) (defs : list N) (x y : item) : bool :=
  graph_iso2 nl el defs (it_graph x) (it_graph y).

Inductive opR :=
| RBase (o : opx)                               (* everything else: the object's own configuration *)
| RLibCheck (i : nat) (ns es : msrc)            (* lib_check(..., nodeMatch, edgeMatch) *)
| RGcIter (idxs : list nat) (ns es : msrc).     (* iterative_cluster(rules, attributes, nodeMatch, edgeMatch) *)

(** a template seen through configuration [ce]: the raw item of its id, selected with [ce] *)
Definition reproj (ce : ccfg) (rpool : list ritem) (t : template) : template :=
  (mk_item ce (nth (N.to_nat (it_id (fst t))) rpool dummy_ritem), snd t).

Definition stepR (c cm : ccfg) (mode : attr_mode) (rpool : list ritem) (ts : list template) (o : opR)
  : tok * list template :=
  match o with
  | RBase ox => stepx (cc_defs c) mode (map (mk_item c) rpool) (map (reproj c rpool) ts) ox
  | RLibCheck i ns es =>
      let ce := mix_cfg c cm (fallback ns) (fallback es) in
      stepx (cc_defs ce) mode (map (mk_item ce) rpool) (map (reproj ce rpool) ts) (OBase (OLibCheck i))
  | RGcIter idxs ns es =>
      let ce := mix_cfg c cm ns es in
      let iso := item_iso2 (given ns) (given es) (cc_defs ce) in
      let data := map (pick (map (mk_item ce) rpool)) idxs in
      let '(clusters, r2c, tr) := gc_iterative_tr iso mode data in
      (L [tlist (tset tnat) clusters; tset (tpair tnat tnat) r2c; ttemplates ts; tidtrace iso (pos_ids data tr)], ts)
  end.

Fixpoint playR (c cm : ccfg) (mode : attr_mode) (rpool : list ritem) (ts : list template) (ops : list opR) : list tok :=
  match ops with
  | [] => []
  | o :: r => let '(t, ts') := stepR c cm mode rpool ts o in t :: playR c cm mode rpool ts' r
  end.

Definition runR (c cm : ccfg) (mode : attr_mode) (rpool : list ritem) (ops : list opR) : tok :=
  L (playR c cm mode rpool [] ops).
