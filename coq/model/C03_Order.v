(** C03 — SynReactor._explicit_h with the iteration order of a hydrogen-transfer group made explicit (round 5).

    The code pairs donors with recipients per connected component of the h_pairs relation:

        for comp in nx.connected_components(conn):
            donors = [(n, orig_delta[n]) for n in comp if orig_delta[n] > 0]
            recips = [(n, -orig_delta[n]) for n in comp if orig_delta[n] < 0]

    [comp] is a Python SET: the order in which its atoms are visited is the slot order of CPython's hash table.  For
    ids below the table size that is the sorted order — what [explicit_h] of model/C03_Model.v assumes ([sort_N comp]) —
    but not in general ({1, 8} is visited 8, 1; {1, 16, 17, 2} is visited 16, 1, 17, 2), and as soon as one group has two
    donors AND two recipients the first-fit pairing depends on it (probe: donors 1, 8, recipients 2, 9 in one group are
    wired 1->9, 8->2, the sorted order would give 1->2, 8->9).  Both wirings stay inside the group, so the property is
    not concerned; the MODEL was.  Here the order is a parameter [ord] of the model: the harness supplies the orders
    the implementation used (an oracle input like the VF2 mappings: recorded around nx.connected_components inside
    _explicit_h, re-validated by [ord_of]: a recorded order is only used for a component with exactly the same atoms),
    and the theorems of proof/C03_Ord.v hold for EVERY order function that permutes its argument.

    Definitions only. *)
From Coq Require Import List NArith ZArith Bool.
From SK Require Import lib.Tok lib.LGraph model.C03_Model.
Import ListNotations.
Local Open Scope Z_scope.

(** ** the pairing, component order as a parameter *)
Definition comp_step_ord (ord : list N -> list N) (T : its) (st : option (list (N * N))) (comp : list N) : option (list (N * N)) :=
  match st, migrations_of T (ord comp) with
  | Some acc, Some ms => Some (acc ++ ms)
  | _, _ => None
  end.
Definition all_migrations_ord (ord : list N -> list N) (T : its) : option (list (N * N)) :=
  fold_left (comp_step_ord ord T) (components (pair_to_nodes T)) (Some []).

(** what _explicit_h does with its list of migrations: one new H atom per migration, then the counts drop *)
Definition apply_migrations (T : its) (ms : list (N * N)) : its :=
  let '(T1, _) := fold_left (fun (st : its * N) (sd : N * N) =>
                     let '(J, h) := st in
                     (LG (gnodes J ++ [(h, H_inode)]) (gedges J ++ [(fst sd, h, (2, 0, 2)); (h, snd sd, (0, 2, -2))]), N.succ h))
                   ms (T, N.succ (max_id T)) in
  fold_left (fun J (sd : N * N) => upd_node (upd_node J (fst sd) dec_G) (snd sd) dec_H) ms T1.

Definition explicit_h_ord (ord : list N -> list N) (T : its) : option (its * list (N * N)) :=
  match all_migrations_ord ord T with
  | None => None
  | Some ms => Some (apply_migrations T ms, ms)
  end.

(** ** the recorded orders: a table of visiting orders; one is used only for a component with exactly its atoms *)
Definition same_setb (c o : list N) : bool :=
  nodupb o && (length o =? length c)%nat && forallb (fun x => mem x c) o && forallb (fun x => mem x o) c.
Definition ord_of (tbl : list (list N)) (c : list N) : list N :=
  match find (same_setb c) tbl with Some o => o | None => sort_N c end.

(** first-fit, in closed form: the k-th hydrogen given (donors in visiting order, each as often as its surplus) goes to the
    k-th free place (recipients in visiting order, each as often as its deficit) *)
Definition slots (f : N -> Z) (l : list N) : list N := flat_map (fun n => repeat n (Z.to_nat (f n))) l.
Definition zip_migrations (T : its) (comp : list N) : list (N * N) :=
  let dl n := match label T n with Some a => delta_h a | None => 0 end in
  combine (slots dl (filter (fun n => 0 <? dl n) comp)) (slots (fun n => - dl n) (filter (fun n => dl n <? 0) comp)).

(** ** observables: as [run_c03w] / [run_rule] of C03_Model.v, every glued graph with its own order table *)
Definition pair_eqb (a b : N * N) : bool := N.eqb (fst a) (fst b) && N.eqb (snd a) (snd b).
Fixpoint pairs_eqb (a b : list (N * N)) : bool :=
  match a, b with
  | [], [] => true
  | x :: r, y :: s => pair_eqb x y && pairs_eqb r s
  | _, _ => false
  end.
(** the closed form of the pairing evaluated next to the pairing itself, on every component of a graph
    (theorem C03_first_fit_zip: always true) *)
Definition zip_okb (ord : list N -> list N) (T : its) : bool :=
  forallb (fun c => match migrations_of T (ord c) with
                    | Some ms => pairs_eqb ms (zip_migrations T (ord c))
                    | None => true end) (components (pair_to_nodes T)).

Definition t_explicit_o (ord : list N -> list N) (before : its) : tok :=
  match explicit_h_ord ord before with
  | None => L []
  | Some (after, ms) => L [t_explicit before (Some (after, ms)); tset (fun sd : N * N => L [tN (fst sd); tN (snd sd)]) ms;
                           tbool (zip_okb ord before)]
  end.

Definition crashes_ord (ord : list N -> list N) (g : option its) : bool :=
  match g with Some g' => match explicit_h_ord ord g' with None => true | Some _ => false end | None => false end.

Definition t_glued_o (show_ex : bool) (host : hostg) (rc : its) (m : mapping) (g : option its) (tbl : list (list N)) : tok :=
  match g with
  | None => L []
  | Some g' => L [L [tits g'; tlist tZ (branches host rc m); if show_ex then t_explicit_o (ord_of tbl) g' else L []]]
  end.

Fixpoint zip_pad {A B} (d : B) (l : list A) (t : list B) : list (A * B) :=
  match l with
  | [] => []
  | a :: r => (a, hd d t) :: zip_pad d r (tl t)
  end.

(** [tbls]: per call, per glued (re)mapping, the recorded visiting orders (missing entries = none recorded) *)
Definition run_rule_o (explicit_stage stripped : bool) (host : hostg) (calls : list (mapping * option (list mapping)))
                      (tbls : list (list (list (list N)))) (rule : option triple) : tok :=
  match rule with
  | None => L [I (-1)]
  | Some (rc, l, r) =>
      let flag := has_XH l in
      let pat := if flag then h_to_implicit l else l in
      let glued := map (fun ct : (mapping * option (list mapping)) * list (list (list N)) =>
                      let c := fst ct in
                      let '(hb, ms) := call_base host c in
                      (c, hb, map (fun xt : mapping * list (list N) => (fst xt, glue hb rc (fst xt), snd xt)) (zip_pad [] ms (snd ct))))
                    (zip_pad [] calls tbls) in
      (* a StopIteration inside _explicit_h aborts the whole its_list: no explicit-stage observable at all *)
      let crashed := explicit_stage &&
                     existsb (fun t => existsb (fun xg : mapping * option its * list (list N) => crashes_ord (ord_of (snd xg)) (snd (fst xg))) (snd t)) glued in
      let show_ex := explicit_stage && negb crashed in
      let rows := map (fun t : (mapping * option (list mapping)) * hostg * list (mapping * option its * list (list N)) =>
                     let '(c, hb, gs) := t in
                     let m := fst c in
                     L [tmap m; tbool (match_okb host pat m);
                        match snd c with None => L [] | Some _ => L [thostg hb] end;
                        match snd c with None => L [] | Some rs => tlist (fun x => L [tmap x; tbool (match_okb hb l x)]) rs end;
                        L (map (fun xg : mapping * option its * list (list N) => t_glued_o show_ex hb rc (fst (fst xg)) (snd (fst xg)) (snd xg)) gs);
                        tbool (wf_hostb hb && forallb (fun xg : mapping * option its * list (list N) => match_rcb hb rc (fst (fst xg))) gs)]) glued in
      L [L [trc stripped rc; tmolg l; tmolg r]; tbool flag; tmolg pat; L rows; tbool crashed;
         tbool (wf_rcb rc && wf_hostb host);
         tbool (forallb (fun c : mapping * option (list mapping) => Bool.eqb flag (match snd c with Some _ => true | None => false end)) calls)]
  end.

(** template given as an ITS graph / a reaction string *)
Definition run_c03o (invert implicit_temp explicit_stage : bool) (host : hostg) (tpl : its)
                    (calls : list (mapping * option (list mapping))) (tbls : list (list (list (list N)))) : tok :=
  run_rule_o explicit_stage (negb implicit_temp) host calls tbls
    (synrule (if invert then invert_template tpl else tpl) (negb implicit_temp)).

(** template given as a SynRule OBJECT built by the caller in the hydrogen mode of the reactor *)
Definition run_c03ro (invert implicit_temp explicit_stage : bool) (host : hostg) (tpl : its)
                     (calls : list (mapping * option (list mapping))) (tbls : list (list (list (list N)))) : tok :=
  run_rule_o explicit_stage (negb implicit_temp && negb invert) host calls tbls
    (match synrule tpl (negb implicit_temp) with
     | None => None
     | Some rule0 => wrap_template_rule invert implicit_temp rule0
     end).
