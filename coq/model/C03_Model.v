(** C03 / C04 — executable model of rule preparation and rule application

      synkit/Rule/syn_rule.py                  SynRule.__init__, _strip_explicit_h
      synkit/Graph/Hyrogen/_misc.py            standardize_hydrogen, has_XH, h_to_implicit, h_to_explicit
      synkit/Graph/ITS/its_decompose.py        its_decompose              (as used by SynRule / _invert_template)
      synkit/Graph/ITS/its_construction.py     ITSGraph                   (as used by _invert_template)
      synkit/Synthesis/Reactor/syn_reactor.py  _invert_template, _glue_graph, _node_glue, _explicit_h,
                                               the pattern preparation of `mappings`

    as the code is after the repairs c497e71, fb58253, 5318726.  Definitions only; proofs are in proof/C03_*.v.

    Conventions (DESIGN.md section 3): node ids N; element symbols N (big-endian bytes of the symbol, so
    "H" = 72, "" = 0); hcount / charge Z; bond orders and standard_order Z in HALF-UNITS (1.0 |-> 2).
    The datatypes are local to this file (the ITS node of a rule carries h_pairs and the plain hcount that
    _strip_explicit_h leaves on rc nodes, which the C01 datatypes do not have).

    Not modelled (oracle inputs supplied by the harness from the implementation, each re-validated by
    [match_okb]): RDKit parsing, VF2 enumeration of matches and re-matches, orbit de-duplication. *)
From Coq Require Import List NArith ZArith Bool.
From SK Require Import lib.Tok lib.LGraph.
Import ListNotations.
Local Open Scope Z_scope.

Definition EL_H : N := 72%N.        (* "H" *)
Definition EL_EMPTY : N := 0%N.     (* ""  : ITSConstruction's default neighbors are ["", ""] *)

(** one half of 'typesGH': (element, aromatic, hcount, charge, neighbors) *)
Record nattr := NA { a_el : N; a_aro : bool; a_hc : Z; a_ch : Z; a_nb : list N }.

(** substrate graphs (and hydrogen-expanded substrates): node = the five attributes, edge = order *)
Definition hostg := lgraph nattr Z.

(** rule fragments left / right (its_decompose output, then stripped): no neighbors, optional h_pairs *)
Record mnode := MN { m_el : N; m_aro : bool; m_hc : Z; m_ch : Z; m_hp : option (list N) }.
Definition molg := lgraph mnode Z.

(** ITS graphs: typesGH = (iG, iH); [i_hc] = the plain 'hcount' attribute (only meaningful on rule.rc,
    where _strip_explicit_h writes it); [i_hp] = 'h_pairs' if present.  Edge = (order_G, order_H, standard_order). *)
Record inode := IN { iG : nattr; iH : nattr; i_hc : Z; i_hp : option (list N) }.
Definition iedge := (Z * Z * Z)%type.
Definition its := lgraph inode iedge.

Definition set_hc (a : nattr) (h : Z) : nattr := NA (a_el a) (a_aro a) h (a_ch a) (a_nb a).

(** ** generic list-graph helpers *)
Section Helpers.
  Context {A B : Type}.
  Definition upd_node (g : lgraph A B) (n : N) (f : A -> A) : lgraph A B :=
    LG (map (fun p => if N.eqb (fst p) n then (fst p, f (snd p)) else p) (gnodes g)) (gedges g).
  Definition remove_node (g : lgraph A B) (n : N) : lgraph A B :=
    LG (filter (fun p => negb (N.eqb (fst p) n)) (gnodes g))
       (filter (fun e => let '(a, b, _) := e in negb (N.eqb a n) && negb (N.eqb b n)) (gedges g)).
  Definition map_nodes (g : lgraph A B) (f : N -> A -> A) : lgraph A B :=
    LG (map (fun p => (fst p, f (fst p) (snd p))) (gnodes g)) (gedges g).
  Definition max_id (g : lgraph A B) : N := fold_left N.max (node_ids g) 0%N.
End Helpers.

Fixpoint insert_sorted (x : N) (l : list N) : list N :=
  match l with
  | [] => [x]
  | y :: r => if N.leb x y then x :: l else y :: insert_sorted x r
  end.
Definition sort_N (l : list N) : list N := fold_right insert_sorted [] l.

(** ** standardize_hydrogen: shift both hydrogen counts of every node so that the smaller becomes 0 *)
Definition std_h_node (a : inode) : inode :=
  let off := Z.min (a_hc (iG a)) (a_hc (iH a)) in
  IN (set_hc (iG a) (a_hc (iG a) - off)) (set_hc (iH a) (a_hc (iH a) - off)) (i_hc a) (i_hp a).
Definition standardize_hydrogen (T : its) : its := map_nodes T (fun _ => std_h_node).

(** ** its_decompose (atom_map = node id is implicit; 'neighbors' is dropped by the code) *)
Definition dec_node (t : nattr) : mnode := MN (a_el t) (a_aro t) (a_hc t) (a_ch t) None.
Definition dec_side (sn : inode -> nattr) (se : iedge -> Z) (T : its) : molg :=
  LG (map (fun p => (fst p, dec_node (sn (snd p)))) (gnodes T))
     (flat_map (fun e => let '(u, v, x) := e in if 0 <? se x then [(u, v, se x)] else []) (gedges T)).
Definition eG (x : iedge) : Z := fst (fst x).
Definition eH (x : iedge) : Z := snd (fst x).
Definition eS (x : iedge) : Z := snd x.
Definition its_decompose (T : its) : molg * molg := (dec_side iG eG T, dec_side iH eH T).

(** ** _invert_template = ITSGraph(right, left) of the decomposition.
    Both sides have the node set of the ITS, so the base graph is the (new) reactant side whatever
    balance_its is; 'neighbors' was dropped, so both tuples get the default ["", ""]; standard_order is
    recomputed as order_G - order_H; pairs with no bond on either side disappear. *)
Definition inv_tuple (t : nattr) : nattr := NA (a_el t) (a_aro t) (a_hc t) (a_ch t) [EL_EMPTY; EL_EMPTY].
Definition invert_template (T : its) : its :=
  LG (map (fun p => (fst p, IN (inv_tuple (iH (snd p))) (inv_tuple (iG (snd p))) 0 None)) (gnodes T))
     (flat_map (fun e => let '(u, v, x) := e in
                 let g := if 0 <? eH x then eH x else 0 in
                 let h := if 0 <? eG x then eG x else 0 in
                 if (0 <? eH x) || (0 <? eG x) then [(u, v, (g, h, g - h))] else []) (gedges T)).

(** ** _strip_explicit_h *)
Definition is_H_m (g : molg) (n : N) : bool :=
  match label g n with Some a => N.eqb (m_el a) EL_H | None => false end.

(** _removable_on(graph, h): None = networkx raises (h not in graph) *)
Definition removable_on (g : molg) (h : N) : option bool :=
  if has_node g h then
    let nb := nbrs g h in
    Some (match nb with [] => false | _ => negb (forallb (is_H_m g) nb) end)
  else None.
Definition fully_removable (l r : molg) (h : N) : option bool :=
  match removable_on l h with
  | Some true => removable_on r h
  | Some false => Some false          (* `and` short-circuits *)
  | None => None
  end.

Definition hp_default (o : option (list N)) : option (list N) := match o with Some l => Some l | None => Some [] end.
Definition hp_append (o : option (list N)) (p : N) : option (list N) :=
  Some (match o with Some l => l ++ [p] | None => [p] end).

(** step 1 *)
Definition init_m (g : molg) : molg :=
  map_nodes g (fun _ a => MN (m_el a) (m_aro a) 0 (m_ch a) (if N.eqb (m_el a) EL_H then m_hp a else hp_default (m_hp a))).
Definition init_i (g : its) : its :=
  map_nodes g (fun _ a => IN (iG a) (iH a) 0 (if N.eqb (a_el (iG a)) EL_H then i_hp a else hp_default (i_hp a))).

Definition bump_m (pid : option N) (a : mnode) : mnode :=
  MN (m_el a) (m_aro a) (m_hc a + 1) (m_ch a) (match pid with Some p => hp_append (m_hp a) p | None => m_hp a end).
Definition bump_i (pid : option N) (a : inode) : inode :=
  IN (iG a) (iH a) (i_hc a + 1) (match pid with Some p => hp_append (i_hp a) p | None => i_hp a end).

(** fold h into its non-hydrogen neighbours and delete it *)
Definition strip_m (g : molg) (h : N) (pid : option N) : molg :=
  if has_node g h then
    remove_node (fold_left (fun g' x => if is_H_m g' x then g' else upd_node g' x (bump_m pid)) (nbrs g h) g) h
  else g.
Definition is_H_i (g : its) (n : N) : bool :=
  match label g n with Some a => N.eqb (a_el (iG a)) EL_H | None => false end.
Definition strip_i (g : its) (h : N) (pid : option N) : its :=
  if has_node g h then
    remove_node (fold_left (fun g' x => if is_H_i g' x then g' else upd_node g' x (bump_i pid)) (nbrs g h) g) h
  else g.

Definition h_nodes_m (g : molg) : list N := map fst (filter (fun p => N.eqb (m_el (snd p)) EL_H) (gnodes g)).
Definition h_nodes_i (g : its) : list N := map fst (filter (fun p => N.eqb (a_el (iG (snd p))) EL_H) (gnodes g)).

Definition triple := (its * molg * molg)%type.

(** step 2: shared hydrogens (sorted), one pair id each *)
Definition shared_h (l r : molg) : option (list N) :=
  fold_right (fun n acc =>
      match acc with
      | None => None
      | Some ns => if has_node r n then
                     match fully_removable l r n with
                     | Some true => Some (n :: ns) | Some false => Some ns | None => None end
                   else Some ns
      end) (Some []) (h_nodes_m l).
Definition strip_shared (t : triple) (hs : list N) : triple :=
  fst (fold_left (fun (st : triple * N) h =>
         let '(rc, l, r, pid) := st in
         (strip_i rc h (Some pid), strip_m l h (Some pid), strip_m r h (Some pid), N.succ pid)) hs (t, 1%N)).

(** step 3: the remaining explicit hydrogens of each graph, tested against the CURRENT left / right *)
Definition step3_rc (t : triple) : option triple :=
  fold_left (fun (st : option triple) h =>
      match st with
      | None => None
      | Some (rc, l, r) => match fully_removable l r h with
                           | Some true => Some (strip_i rc h None, l, r) | Some false => st | None => None end
      end) (h_nodes_i (fst (fst t))) (Some t).
Definition step3_l (t : triple) : option triple :=
  fold_left (fun (st : option triple) h =>
      match st with
      | None => None
      | Some (rc, l, r) => match fully_removable l r h with
                           | Some true => Some (rc, strip_m l h None, r) | Some false => st | None => None end
      end) (h_nodes_m (snd (fst t))) (Some t).
Definition step3_r (t : triple) : option triple :=
  fold_left (fun (st : option triple) h =>
      match st with
      | None => None
      | Some (rc, l, r) => match fully_removable l r h with
                           | Some true => Some (rc, l, strip_m r h None) | Some false => st | None => None end
      end) (h_nodes_m (snd t)) (Some t).

Definition strip_explicit_h (rc : its) (l r : molg) : option triple :=
  let t1 : triple := (init_i rc, init_m l, init_m r) in
  match shared_h (snd (fst t1)) (snd t1) with
  | None => None
  | Some hs =>
      let t2 := strip_shared t1 (sort_N hs) in
      match step3_rc t2 with
      | None => None
      | Some t3 => match step3_l t3 with None => None | Some t4 => step3_r t4 end
      end
  end.

(** ** SynRule.__init__ : returns (rc, left, right); None = the Python code raises *)
Definition refresh_types (rc : its) (l r : molg) : option its :=
  match fold_right (fun (p : N * inode) acc =>
      match acc, label l (fst p), label r (fst p) with
      | Some ns, Some la, Some ra =>
          let a := snd p in
          Some ((fst p, IN (set_hc (iG a) (m_hc la)) (set_hc (iH a) (m_hc ra)) (i_hc a) (i_hp a)) :: ns)
      | _, _, _ => None
      end) (Some []) (gnodes rc) with
  | Some ns => Some (LG ns (gedges rc))
  | None => None
  end.

Definition synrule (tpl : its) (implicit_h : bool) : option triple :=
  let rc0 := if implicit_h then standardize_hydrogen tpl else tpl in
  let '(l0, r0) := its_decompose rc0 in
  let st := if implicit_h then strip_explicit_h rc0 l0 r0 else Some (rc0, l0, r0) in
  match st with
  | None => None
  | Some (rc, l, r) => match refresh_types rc l r with Some rc' => Some (rc', l, r) | None => None end
  end.

(** ** pattern preparation in SynReactor.mappings *)
Definition has_XH (g : molg) : bool :=
  existsb (fun e => let '(u, v, _) := e in xorb (is_H_m g u) (is_H_m g v)) (gedges g).
Definition h_to_implicit (g : molg) : molg :=
  fold_left (fun g' h =>
      match filter (fun x => negb (is_H_m g' x)) (nbrs g' h) with
      | [] => g'                      (* H2, H+ or a lone hydrogen stays explicit (7497a0b) *)
      | heavy => remove_node (fold_left (fun g'' x => upd_node g'' x (fun a => MN (m_el a) (m_aro a) (m_hc a + 1) (m_ch a) (m_hp a)))
                                        heavy g') h
      end) (h_nodes_m g) g.

(** ** validity of a match: what SubgraphSearchEngine's node_match / edge_match demand of a monomorphism
    (element and charge equal, host hcount >= pattern hcount, bond order equal), pattern -> host *)
Definition mapping := list (N * N).
Definition mget (m : mapping) (p : N) : option N := assoc p m.
Fixpoint nodupb (l : list N) : bool :=
  match l with [] => true | x :: r => negb (mem x r) && nodupb r end.
Definition node_okb (host : hostg) (pat : molg) (m : mapping) (p : N * mnode) : bool :=
  match mget m (fst p) with
  | Some h => match label host h with
              | Some a => N.eqb (a_el a) (m_el (snd p)) && Z.eqb (a_ch a) (m_ch (snd p)) && (m_hc (snd p) <=? a_hc a)
              | None => false end
  | None => false
  end.
Definition edge_okb (host : hostg) (m : mapping) (e : N * N * Z) : bool :=
  let '(u, v, o) := e in
  match mget m u, mget m v with
  | Some hu, Some hv => match adj host hu hv with Some o' => Z.eqb o' o | None => false end
  | _, _ => false
  end.
Definition match_okb (host : hostg) (pat : molg) (m : mapping) : bool :=
  nodupb (map fst m) && nodupb (map snd m)
  && (length m =? length (gnodes pat))%nat
  && forallb (node_okb host pat m) (gnodes pat)
  && forallb (edge_okb host m) (gedges pat).

(** the same demand stated on the reaction-centre graph itself (its reactant side), the form the theorems use:
    every rc node has an image with equal element and charge and enough hydrogens, every rc edge with a reactant-side
    bond is a host bond of that order.  [run_c03] evaluates it on every mapping that is glued. *)
Definition rc_node_okb (host : hostg) (m : mapping) (p : N * inode) : bool :=
  match mget m (fst p) with
  | Some h => match label host h with
              | Some a => N.eqb (a_el a) (a_el (iG (snd p))) && Z.eqb (a_ch a) (a_ch (iG (snd p))) && (a_hc (iG (snd p)) <=? a_hc a)
              | None => false end
  | None => false
  end.
Definition rc_edge_okb (host : hostg) (m : mapping) (e : N * N * iedge) : bool :=
  let '(u, v, x) := e in
  match mget m u, mget m v with
  | Some hu, Some hv => if 0 <? eG x then match adj host hu hv with Some o => Z.eqb o (eG x) | None => false end else true
  | _, _ => false
  end.
Definition match_rcb (host : hostg) (rc : its) (m : mapping) : bool :=
  nodupb (map fst m) && nodupb (map snd m)
  && (length m =? length (gnodes rc))%nat
  && forallb (rc_node_okb host m) (gnodes rc)
  && forallb (rc_edge_okb host m) (gedges rc).

(** well-formedness of the inputs, as booleans (evaluated by [run_c03] on every case) *)
Definition peq (a b u v : N) : bool := (N.eqb a u && N.eqb b v) || (N.eqb a v && N.eqb b u).
Fixpoint simple_edgesb {B} (es : list (N * N * B)) : bool :=
  match es with
  | [] => true
  | (a, b, _) :: r => negb (N.eqb a b) && negb (existsb (fun e => let '(u, v, _) := e in peq u v a b) r) && simple_edgesb r
  end.
Definition wf_rcb (rc : its) : bool :=
  nodupb (node_ids rc) && simple_edgesb (gedges rc)
  && forallb (fun e => (0 <=? eG (snd e)) && (0 <=? eH (snd e))) (gedges rc).
Definition wf_hostb (host : hostg) : bool :=
  nodupb (node_ids host) && simple_edgesb (gedges host) && forallb (fun e => 0 <? snd e) (gedges host).

(** ** h_to_explicit(host, nodes): every listed atom gets its implicit hydrogens as new H atoms
    (ids max+1, max+2, ...), bonded with order 1.0, and its hcount lowered to 0 *)
Fixpoint add_hs (g : hostg) (heavy : N) (next : N) (k : nat) : hostg * N :=
  match k with
  | O => (g, next)
  | S k' => add_hs (LG (gnodes g ++ [(next, NA EL_H false 0 0 [])]) (gedges g ++ [(heavy, next, 2)])) heavy (N.succ next) k'
  end.
Definition h_to_explicit (g : hostg) (nodes : list N) : hostg :=
  let nodes := match nodes with [] => node_ids g | _ => nodes end in
  fst (fold_left (fun (st : hostg * N) heavy =>
         let '(g', next) := st in
         match label g' heavy with
         | Some a => if 0 <? a_hc a
                     then let '(g'', next') := add_hs g' heavy next (Z.to_nat (a_hc a)) in
                          (upd_node g'' heavy (fun a => set_hc a 0), next')
                     else st
         | None => st
         end) nodes (g, N.succ (max_id g))).

(** ** _glue_graph on one (re)mapping *)
Definition its_of_host (host : hostg) : its :=
  LG (map (fun p => (fst p, IN (snd p) (snd p) 0 None)) (gnodes host))
     (map (fun e => let '(u, v, o) := e in (u, v, (o, o, 0))) (gedges host)).

(** _node_glue (no wildcard): reactant tuple = host's; product tuple = host element, aromatic, neighbors,
    hcount host_h - (pat_r_h - pat_p_h), charge of the PATTERN's product tuple; h_pairs copied if present *)
Definition node_glue (hn pn : inode) : inode :=
  let hr := iG hn in let hp := iH hn in
  let delta := a_hc (iG pn) - a_hc (iH pn) in
  IN hr (NA (a_el hp) (a_aro hp) (a_hc hr - delta) (a_ch (iH pn)) (a_nb hp)) (i_hc hn)
     (match i_hp pn with Some l => Some l | None => i_hp hn end).

Definition glue_nodes (T : its) (rc : its) (m : mapping) : its :=
  fold_left (fun T' (ph : N * N) =>
      match label rc (fst ph) with
      | Some pn => if has_node T' (snd ph) then upd_node T' (snd ph) (fun hn => node_glue hn pn) else T'
      | None => T'      (* rc.nodes[rc_n] would raise; excluded by [match_okb] (checked by run) *)
      end) m T.

Definition set_edge (T : its) (u v : N) (x : iedge) : its :=
  LG (gnodes T) (map (fun e => let '(a, b, y) := e in
                        if (N.eqb a u && N.eqb b v) || (N.eqb a v && N.eqb b u) then (a, b, x) else e) (gedges T)).

(** the edge merge; None = the additive sum is not an integral bond order: no ITS is produced (fb58253) *)
Definition glue_edge (m : mapping) (st : option its) (e : N * N * iedge) : option its :=
  match st with
  | None => None
  | Some T =>
      let '(u, v, x) := e in
      match mget m u, mget m v with
      | Some hu, Some hv =>
          match adj T hu hv with
          | None => Some (LG (gnodes T) (gedges T ++ [(hu, hv, x)]))
          | Some y =>
              if Z.eqb (eG x) 0 then
                let s := eH y + eH x in
                if Z.odd s then None
                else Some (set_edge T hu hv (eG y, s, eS y + eS x))
              else Some (set_edge T hu hv x)
          end
      | _, _ => Some T
      end
  end.

Definition glue (host : hostg) (rc : its) (m : mapping) : option its :=
  fold_left (glue_edge m) (gedges rc) (Some (glue_nodes (its_of_host host) rc m)).

(** branch counters (absent, additive, overwrite) of the edge merge, for the evidence *)
Definition branches (host : hostg) (rc : its) (m : mapping) : list Z :=
  let cnt f := Z.of_nat (length (filter f (gedges rc))) in
  let img e := let '(u, v, _) := e in match mget m u, mget m v with Some hu, Some hv => Some (adj host hu hv) | _, _ => None end in
  [cnt (fun e => match img e with Some None => true | _ => false end);
   cnt (fun e => match img e with Some (Some _) => Z.eqb (eG (snd e)) 0 | _ => false end);
   cnt (fun e => match img e with Some (Some _) => negb (Z.eqb (eG (snd e)) 0) | _ => false end)].

(** ** _explicit_h *)
Definition delta_h (a : inode) : Z := a_hc (iG a) - a_hc (iH a).

(** pair_to_nodes: pair id -> atoms carrying it (insertion ordered, no repeats) *)
Fixpoint pt_add (pt : list (N * list N)) (pid n : N) : list (N * list N) :=
  match pt with
  | [] => [(pid, [n])]
  | (q, ns) :: r => if N.eqb q pid then (q, if mem n ns then ns else ns ++ [n]) :: r else (q, ns) :: pt_add r pid n
  end.
Definition pair_to_nodes (T : its) : list (N * list N) :=
  fold_left (fun pt (p : N * inode) =>
      fold_left (fun pt' pid => pt_add pt' pid (fst p)) (match i_hp (snd p) with Some l => l | None => [] end) pt)
    (gnodes T) [].

(** connected components of the graph in which the atoms of one pair id form a clique *)
Definition inter (a b : list N) : bool := existsb (fun x => mem x b) a.
Definition union (a b : list N) : list N := a ++ filter (fun x => negb (mem x a)) b.
Definition add_group (comps : list (list N)) (ns : list N) : list (list N) :=
  let hit := filter (inter ns) comps in
  let miss := filter (fun c => negb (inter ns c)) comps in
  fold_left union hit ns :: miss.
Definition components (pt : list (N * list N)) : list (list N) :=
  fold_left (fun cs g => add_group cs (snd g)) pt [].

(** first-fit pairing of donors with recipients inside one component; None = StopIteration *)
Fixpoint take_recip (recips : list (N * Z)) : option (N * list (N * Z)) :=
  match recips with
  | [] => None
  | (r, cap) :: rest =>
      if 0 <? cap then Some (r, (r, cap - 1) :: rest)
      else match take_recip rest with Some (x, rest') => Some (x, (r, cap) :: rest') | None => None end
  end.
Fixpoint donate (d : N) (k : nat) (recips : list (N * Z)) (acc : list (N * N)) : option (list (N * Z) * list (N * N)) :=
  match k with
  | O => Some (recips, acc)
  | S k' => match take_recip recips with
            | Some (r, recips') => donate d k' recips' (acc ++ [(d, r)])
            | None => None
            end
  end.
Definition migrations_of (T : its) (comp : list N) : option (list (N * N)) :=
  let dl n := match label T n with Some a => delta_h a | None => 0 end in
  let donors := filter (fun n => 0 <? dl n) comp in
  let recips := map (fun n => (n, - dl n)) (filter (fun n => dl n <? 0) comp) in
  match fold_left (fun (st : option (list (N * Z) * list (N * N))) d =>
                     match st with
                     | Some (rs, acc) => donate d (Z.to_nat (dl d)) rs acc
                     | None => None end) donors (Some (recips, [])) with
  | Some (_, acc) => Some acc
  | None => None
  end.
Definition all_migrations (T : its) : option (list (N * N)) :=
  fold_left (fun (st : option (list (N * N))) comp =>
      match st, migrations_of T (sort_N comp) with
      | Some acc, Some ms => Some (acc ++ ms)
      | _, _ => None end) (components (pair_to_nodes T)) (Some []).

Definition H_inode : inode := IN (NA EL_H false 0 0 []) (NA EL_H false 0 0 []) 0 None.
Definition dec_G (a : inode) : inode := IN (set_hc (iG a) (a_hc (iG a) - 1)) (iH a) (i_hc a) (i_hp a).
Definition dec_H (a : inode) : inode := IN (iG a) (set_hc (iH a) (a_hc (iH a) - 1)) (i_hc a) (i_hp a).

(** every migration becomes one explicit H atom bonded (1,0) to its donor and (0,1) to its recipient; the donor's
    reactant-side count and the recipient's product-side count drop by one (c497e71) *)
Definition explicit_h (T : its) : option (its * list (N * N)) :=
  match all_migrations T with
  | None => None
  | Some ms =>
      let '(T1, _) := fold_left (fun (st : its * N) (sd : N * N) =>
                         let '(J, h) := st in
                         (LG (gnodes J ++ [(h, H_inode)]) (gedges J ++ [(fst sd, h, (2, 0, 2)); (h, snd sd, (0, 2, -2))]), N.succ h))
                       ms (T, N.succ (max_id T)) in
      Some (fold_left (fun J (sd : N * N) => upd_node (upd_node J (fst sd) dec_G) (snd sd) dec_H) ms T1, ms)
  end.

(** ** observables *)
Definition tZ (z : Z) : tok := I z.
Definition tnattr (a : nattr) : tok := L [tN (a_el a); tbool (a_aro a); tZ (a_hc a); tZ (a_ch a); tlist tN (a_nb a)].
Definition thp (o : option (list N)) : tok := topt (tlist tN) o.
Definition tinode (p : N * inode) : tok := L [tN (fst p); tnattr (iG (snd p)); tnattr (iH (snd p)); thp (i_hp (snd p))].
Definition tiedge (e : N * N * iedge) : tok :=
  let '(u, v, x) := e in L [tN (N.min u v); tN (N.max u v); tZ (eG x); tZ (eH x); tZ (eS x)].
Definition tits (g : its) : tok := L [tset tinode (gnodes g); tset tiedge (gedges g)].
Definition trc (stripped : bool) (g : its) : tok :=
  L [tset tinode (gnodes g); tset tiedge (gedges g);
     tset (fun p : N * inode => L [tN (fst p); tZ (i_hc (snd p))]) (if stripped then gnodes g else [])].
Definition tmnode (p : N * mnode) : tok :=
  let a := snd p in L [tN (fst p); tN (m_el a); tbool (m_aro a); tZ (m_hc a); tZ (m_ch a); thp (m_hp a)].
Definition tmedge (e : N * N * Z) : tok := let '(u, v, o) := e in L [tN (N.min u v); tN (N.max u v); tZ o].
Definition tmolg (g : molg) : tok := L [tset tmnode (gnodes g); tset tmedge (gedges g)].
Definition thnode (p : N * nattr) : tok :=
  let a := snd p in L [tN (fst p); tN (a_el a); tbool (a_aro a); tZ (a_hc a); tZ (a_ch a); thp None].
Definition thostg (g : hostg) : tok := L [tset thnode (gnodes g); tset tmedge (gedges g)].
Definition tmap (m : mapping) : tok := tset (fun ph : N * N => L [tN (fst ph); tN (snd ph)]) m.

(** the pattern as a host-typed graph (for re-validating matches of the explicit pattern on the expanded host) *)
Definition only_old (old : list N) (g : its) : its :=
  LG (filter (fun p => mem (fst p) old) (gnodes g))
     (filter (fun e => let '(a, b, _) := e in mem a old && mem b old) (gedges g)).

Definition t_explicit (before : its) (r : option (its * list (N * N))) : tok :=
  match r with
  | None => L []
  | Some (after, ms) =>
      let old := node_ids before in
      let o := only_old old after in
      L [tset tinode (gnodes o); tset tiedge (gedges o);
         tnat (length (gnodes after) - length (gnodes before));
         tset tN (map fst ms); tset tN (map snd ms); tZ 0]
  end.

Definition crashes (g : option its) : bool :=
  match g with Some g' => match explicit_h g' with None => true | Some _ => false end | None => false end.

Definition t_glued (show_ex : bool) (host : hostg) (rc : its) (m : mapping) (g : option its) : tok :=
  match g with
  | None => L []
  | Some g' => L [L [tits g'; tlist tZ (branches host rc m); if show_ex then t_explicit g' (explicit_h g') else L []]]
  end.

(** one (kept mapping, re-matches) entry: the graph the gluing starts from, and the (re)mappings glued onto it *)
Definition call_base (host : hostg) (c : mapping * option (list mapping)) : hostg * list mapping :=
  match snd c with
  | None => (host, [fst c])
  | Some rs => (h_to_explicit host (map snd (fst c)), rs)
  end.

(** one case: see harness/props/C03.py for the shape of the observable *)
Definition run_c03 (invert implicit_temp explicit_stage : bool) (host : hostg) (tpl : its)
                   (calls : list (mapping * option (list mapping))) : tok :=
  let tpl' := if invert then invert_template tpl else tpl in
  match synrule tpl' (negb implicit_temp) with
  | None => L [I (-1)]
  | Some (rc, l, r) =>
      let flag := has_XH l in
      let pat := if flag then h_to_implicit l else l in
      let glued := map (fun c => let '(hb, ms) := call_base host c in (c, hb, map (fun x => (x, glue hb rc x)) ms)) calls in
      (* a StopIteration inside _explicit_h aborts the whole its_list: no explicit-stage observable at all *)
      let crashed := explicit_stage && existsb (fun t => existsb (fun xg => crashes (snd xg)) (snd t)) glued in
      let show_ex := explicit_stage && negb crashed in
      let rows := map (fun t : (mapping * option (list mapping)) * hostg * list (mapping * option its) =>
                     let '(c, hb, gs) := t in
                     let m := fst c in
                     L [tmap m; tbool (match_okb host pat m);
                        match snd c with None => L [] | Some _ => L [thostg hb] end;
                        match snd c with None => L [] | Some rs => tlist (fun x => L [tmap x; tbool (match_okb hb l x)]) rs end;
                        L (map (fun xg => t_glued show_ex hb rc (fst xg) (snd xg)) gs);
                        tbool (wf_hostb hb && forallb (fun xg => match_rcb hb rc (fst xg)) gs)]) glued in
      L [L [trc (negb implicit_temp) rc; tmolg l; tmolg r]; tbool flag; tmolg pat; L rows; tbool crashed;
         tbool (wf_rcb rc && wf_hostb host)]
  end.

(** ** round 2 addition (existing definitions above are unchanged; C04 / C05 use them): the same observable with the
    WIRING of _explicit_h — the multiset of (donor, recipient) pairs, one per new explicit H atom — so that a
    hydrogen wired between the wrong partners is a correspondence mismatch even when all counts agree *)
Definition t_explicit_w (before : its) (r : option (its * list (N * N))) : tok :=
  match r with
  | None => L []
  | Some (_, ms) => L [t_explicit before r; tset (fun sd : N * N => L [tN (fst sd); tN (snd sd)]) ms]
  end.

Definition t_glued_w (show_ex : bool) (host : hostg) (rc : its) (m : mapping) (g : option its) : tok :=
  match g with
  | None => L []
  | Some g' => L [L [tits g'; tlist tZ (branches host rc m); if show_ex then t_explicit_w g' (explicit_h g') else L []]]
  end.

Definition run_c03w (invert implicit_temp explicit_stage : bool) (host : hostg) (tpl : its)
                    (calls : list (mapping * option (list mapping))) : tok :=
  let tpl' := if invert then invert_template tpl else tpl in
  match synrule tpl' (negb implicit_temp) with
  | None => L [I (-1)]
  | Some (rc, l, r) =>
      let flag := has_XH l in
      let pat := if flag then h_to_implicit l else l in
      let glued := map (fun c => let '(hb, ms) := call_base host c in (c, hb, map (fun x => (x, glue hb rc x)) ms)) calls in
      let crashed := explicit_stage && existsb (fun t => existsb (fun xg => crashes (snd xg)) (snd t)) glued in
      let show_ex := explicit_stage && negb crashed in
      let rows := map (fun t : (mapping * option (list mapping)) * hostg * list (mapping * option its) =>
                     let '(c, hb, gs) := t in
                     let m := fst c in
                     L [tmap m; tbool (match_okb host pat m);
                        match snd c with None => L [] | Some _ => L [thostg hb] end;
                        match snd c with None => L [] | Some rs => tlist (fun x => L [tmap x; tbool (match_okb hb l x)]) rs end;
                        L (map (fun xg => t_glued_w show_ex hb rc (fst xg) (snd xg)) gs);
                        tbool (wf_hostb hb && forallb (fun xg => match_rcb hb rc (fst xg)) gs)]) glued in
      L [L [trc (negb implicit_temp) rc; tmolg l; tmolg r]; tbool flag; tmolg pat; L rows; tbool crashed;
         tbool (wf_rcb rc && wf_hostb host);
         (* round 4: the explicit-hydrogen route is taken for every mapping exactly when the pattern keeps X-H hydrogens *)
         tbool (forallb (fun c : mapping * option (list mapping) => Bool.eqb flag (match snd c with Some _ => true | None => false end)) calls)]
  end.

(** ** round 3 addition: SynReactor._wrap_template for a template given as a SynRule OBJECT.  Not inverted: the rule is
    used as it is.  Inverted: the reactor takes rule.rc (the ALREADY PREPARED rule graph: its hydrogen counts are the
    hydrogen changes), inverts it and wraps it WITHOUT preparing it a second time (implicit_h=False whatever the
    reactor's hydrogen mode — /repo cc40c07; before that fix the default mode prepared it again and lost the counts). *)
Definition wrap_template_rule (invert implicit_temp : bool) (rule : triple) : option triple :=
  if invert then synrule (invert_template (fst (fst rule))) false else Some rule.

Definition run_rule (explicit_stage stripped : bool) (host : hostg) (calls : list (mapping * option (list mapping)))
                    (rule : option triple) : tok :=
  match rule with
  | None => L [I (-1)]
  | Some (rc, l, r) =>
      let flag := has_XH l in
      let pat := if flag then h_to_implicit l else l in
      let glued := map (fun c => let '(hb, ms) := call_base host c in (c, hb, map (fun x => (x, glue hb rc x)) ms)) calls in
      let crashed := explicit_stage && existsb (fun t => existsb (fun xg => crashes (snd xg)) (snd t)) glued in
      let show_ex := explicit_stage && negb crashed in
      let rows := map (fun t : (mapping * option (list mapping)) * hostg * list (mapping * option its) =>
                     let '(c, hb, gs) := t in
                     let m := fst c in
                     L [tmap m; tbool (match_okb host pat m);
                        match snd c with None => L [] | Some _ => L [thostg hb] end;
                        match snd c with None => L [] | Some rs => tlist (fun x => L [tmap x; tbool (match_okb hb l x)]) rs end;
                        L (map (fun xg => t_glued_w show_ex hb rc (fst xg) (snd xg)) gs);
                        tbool (wf_hostb hb && forallb (fun xg => match_rcb hb rc (fst xg)) gs)]) glued in
      L [L [trc stripped rc; tmolg l; tmolg r]; tbool flag; tmolg pat; L rows; tbool crashed;
         tbool (wf_rcb rc && wf_hostb host);
         tbool (forallb (fun c : mapping * option (list mapping) => Bool.eqb flag (match snd c with Some _ => true | None => false end)) calls)]
  end.

(** the caller built SynRule(tpl) in the hydrogen mode of the reactor and handed the OBJECT over *)
Definition run_c03r (invert implicit_temp explicit_stage : bool) (host : hostg) (tpl : its)
                    (calls : list (mapping * option (list mapping))) : tok :=
  run_rule explicit_stage (negb implicit_temp && negb invert) host calls
    (match synrule tpl (negb implicit_temp) with
     | None => None
     | Some rule0 => wrap_template_rule invert implicit_temp rule0
     end).
