(** C17 — the ATTRIBUTE layer of synkit/CRN/Props/utils.py (_split_species_reactions, _species_and_reaction_order) and of
    stoich.py:build_S_minus_plus on a caller-supplied bipartite graph whose nodes and edges carry only SOME of the documented
    attributes:

      node:  kind ("species" / "reaction" / absent / anything else), bipartite (0 / 1 / absent / anything else), label (absent:
             the label falls back to str(node))
      edge:  role ("reactant" / "product" / absent / anything else: such an edge adds nothing), stoich (absent: 1)

    _split_species_reactions:   kind == "species" or bipartite == 0  -> species
                                elif kind == "reaction" or bipartite == 1 -> reaction          (others are ignored)
    build_S_minus_plus, per edge (u, v):  u species-like and v reaction-like -> (s, r) = (u, v)
                                          elif v species-like and u reaction-like -> (s, r) = (v, u)     else the edge is ignored
      where species-like / reaction-like are the two tests above taken SEPARATELY (a node carrying contradictory attributes can be
      both; an edge whose reaction end was classified as a species makes the code raise KeyError: answer [3] here).

    [normalise] turns such a raw graph into the node-level graph of model/C17_NodeModel.v, on which the order / index / fill
    computations are defined.  Definitions only; proofs in proof/C17_Raw.v. *)
From Coq Require Import List NArith ZArith Bool Arith.
From SK Require Import lib.Tok lib.IRSortKeys lib.C17_Farkas model.C17_Model model.C17_NodeModel.
Import ListNotations.

(** kind / bipartite as read by the code: [Some true] = "species" / 0, [Some false] = "reaction" / 1, [None] = absent or any other value *)
Record rnode := RNode { rn_id : N; rn_str : str; rn_kind : option bool; rn_flag : option bool; rn_label : option str }.
Record redge := REdge { re_u : N; re_v : N; re_role : option role; re_stoich : option Z }.
Record rgraph := RG { rg_nodes : list rnode; rg_edges : list redge }.

Definition is_some_true (o : option bool) : bool := match o with Some true => true | _ => false end.
Definition is_some_false (o : option bool) : bool := match o with Some false => true | _ => false end.

Definition species_like (n : rnode) : bool := is_some_true (rn_kind n) || is_some_true (rn_flag n).
Definition reaction_like (n : rnode) : bool := is_some_false (rn_kind n) || is_some_false (rn_flag n).

(** _split_species_reactions (if / elif) *)
Definition is_species (n : rnode) : bool := species_like n.
Definition is_reaction (n : rnode) : bool := negb (species_like n) && reaction_like n.

Definition label_of (n : rnode) : str := match rn_label n with Some l => l | None => rn_str n end.
Definition bnode_of (n : rnode) : bnode := BNode (rn_id n) (label_of n).

Definition find_node (G : rgraph) (u : N) : option rnode := find (fun n => N.eqb (rn_id n) u) (rg_nodes G).

(** the (species end, reaction end) of an edge, as build_S_minus_plus determines them *)
Definition ends (G : rgraph) (e : redge) : option (rnode * rnode) :=
  match find_node G (re_u e), find_node G (re_v e) with
  | Some u, Some v =>
      if species_like u && reaction_like v then Some (u, v)
      else if species_like v && reaction_like u then Some (v, u)
      else None
  | _, _ => None
  end.

(** reaction_index[r_node] raises KeyError when the reaction end was classified as a species *)
Definition key_error (G : rgraph) : bool :=
  existsb (fun e => match ends G e with Some (_, r) => negb (is_reaction r) | None => false end) (rg_edges G).

Definition arc_of (G : rgraph) (e : redge) : list barc :=
  match ends G e, re_role e with
  | Some (s, r), Some ro => [BArc (rn_id s) (rn_id r) (match re_stoich e with Some c => c | None => 1%Z end) ro]
  | _, _ => []
  end.

Definition normalise (G : rgraph) : bgraph :=
  BG (map bnode_of (filter is_species (rg_nodes G)))
     (map bnode_of (filter is_reaction (rg_nodes G)))
     (flat_map (arc_of G) (rg_edges G)).

(** observable of a raw-graph case: [2] = ValueError (no species or no reaction node), [3] = KeyError, else the sorted node
    ids, the labels and the three matrices *)
Definition run_raw (G : rgraph) : tok :=
  let B := normalise G in
  match bg_species B, bg_rxns B with
  | [], _ => L [I 2%Z]
  | _, [] => L [I 2%Z]
  | _, _ =>
      if key_error G then L [I 3%Z]
      else L [ I 0%Z;
               tlist tN (map bn_id (nodes_sorted (bg_species B)));
               tlist tN (map bn_id (nodes_sorted (bg_rxns B)));
               tlist tstrN (node_labels (bg_species B));
               tlist tstrN (node_labels (bg_rxns B));
               tmat (fill Reactant B); tmat (fill Product B); tmat (build_S_nodes B) ]
  end.

(** * Undirected inputs (conversion.py:_as_bipartite on an nx.Graph): every stored edge (u, v) is oriented by its role

      u_is_rxn = kind(u) == "reaction" or (kind(u) is None and bipartite(u) == 1)
      s, r = (v, u) if u_is_rxn else (u, v);   a, b = (r, s) if role == "product" else (s, r);   D.add_edge(a, b, **data)

    and the resulting DiGraph goes through the attribute layer above.  ([rn_kind] = None stands for an ABSENT kind here: the
    undirected cases carry no foreign attribute values.)  An undirected simple graph holds one edge per node pair: no two
    incidences are merged. *)
Definition u_is_rxn (n : rnode) : bool :=
  is_some_false (rn_kind n) || (match rn_kind n with None => true | Some _ => false end && is_some_false (rn_flag n)).

Definition orient_redge (G : rgraph) (e : redge) : redge :=
  let rxn_first := match find_node G (re_u e) with Some n => u_is_rxn n | None => false end in
  let s := if rxn_first then re_v e else re_u e in
  let r := if rxn_first then re_u e else re_v e in
  match re_role e with
  | Some Product => REdge r s (re_role e) (re_stoich e)
  | _ => REdge s r (re_role e) (re_stoich e)
  end.

Definition orient_raw (G : rgraph) : rgraph := RG (rg_nodes G) (map (orient_redge G) (rg_edges G)).

(** an undirected graph stores each edge in SOME direction: [flips] says which edges of the directed graph are stored reversed *)
Definition flip_redge (b : bool) (e : redge) : redge := if b then REdge (re_v e) (re_u e) (re_role e) (re_stoich e) else e.
Fixpoint stored (flips : list bool) (es : list redge) : list redge :=
  match es, flips with
  | e :: es', b :: flips' => flip_redge b e :: stored flips' es'
  | e :: es', [] => e :: stored [] es'
  | [], _ => []
  end.
Definition undirected_raw (flips : list bool) (G : rgraph) : rgraph := RG (rg_nodes G) (stored flips (rg_edges G)).

Definition run_raw_und (G : rgraph) : tok := run_raw (orient_raw G).
