(** C11 (round 5) — AutoEst as a state machine WITH its cached orbit index: [fit()] recomputes colours and orbits from the
    current graph and DROPS the cached index ([self._orbit_index = None]); [orbit_index] builds the index lazily from the
    orbits of the last fit and caches it; before the first fit it raises RuntimeError.  An in-place edit of the graph
    without a new fit leaves colours, orbits and index as they were.  Definitions only; proofs in proof/C11_State2Proof.v. *)
From Coq Require Import List NArith ZArith Bool.
From SK Require Import lib.Tok lib.LGraph model.C11_Model model.C11_Order.
Import ListNotations.

Definition index_t := list (N * option N).          (* node -> orbit id, for the nodes of the last fit *)
Record est := Est { s_graph : graph; s_cols : option colouring; s_index : option index_t }.

Definition s_new (g : graph) : est := Est g None None.
Definition s_edit (g' : graph) (o : est) : est := Est g' (s_cols o) (s_index o).
Definition s_fit (fn : nlab -> N) (fe : elab -> N) (k : nat) (o : est) : est :=
  Est (s_graph o) (Some (wl fn fe (s_graph o) k)) None.
Definition build_index (cs : colouring) : index_t := map (fun u => (u, wl_orbit_index cs u)) (map fst cs).
(** reading [orbit_index]: None = RuntimeError *)
Definition s_orbit_index (o : est) : option index_t * est :=
  match s_cols o with
  | None => (None, o)
  | Some cs =>
      match s_index o with
      | Some i => (Some i, o)
      | None => let i := build_index cs in (Some i, Est (s_graph o) (s_cols o) (Some i))
      end
  end.

(** a history: for every graph value: edit in place, read the index (stale), fit, read the index twice (fresh, cached) *)
Fixpoint index_history (fn : nlab -> N) (fe : elab -> N) (k : nat) (o : est) (gs : list graph)
  : list (option index_t * option index_t * option index_t) :=
  match gs with
  | [] => []
  | g :: r =>
      let '(stale, o1) := s_orbit_index (s_edit g o) in
      let '(fresh, o2) := s_orbit_index (s_fit fn fe k o1) in
      let '(again, o3) := s_orbit_index o2 in
      (stale, fresh, again) :: index_history fn fe k o3 r
  end.

Definition t_index (i : option index_t) : tok := topt (tset (tpair tN (topt tN))) i.
Definition run_index_history (gs : list graph) : tok :=
  match gs with
  | [] => L []
  | g0 :: _ => tlist (fun t => L [t_index (fst (fst t)); t_index (snd (fst t)); t_index (snd t)])
                     (index_history n_exact e_order 10 (s_new g0) gs)
  end.
