(** C09 — BalanceReactionCheck on records (definitions only; proofs in proof/C09_Records.v):

      parse_input(input_data, rsmi_column)        str -> [{col: s}]; list -> every str wrapped, every dict that HAS the column kept
                                                  (others dropped, also non-str / non-dict items); anything else -> ValueError
      dict_balance_check(reaction_dict, col)      {**reaction_dict, "balanced": verdict}  (repair 7b06bf6: a "balanced" key of the
                                                  input no longer overrides the verdict; it keeps its position in the dict)
      dicts_balance_check(input_data, col)        results in input order, split by r["balanced"]

    Python dicts are ordered: a record is an association list in insertion order (keys unique).  The verdict of a reaction
    string is [rsmi_balance_check formula] of model/C09_Strings.v (formula = CalcMolFormula oracle table). *)
From Coq Require Import List NArith ZArith Bool.
From SK Require Import lib.Tok lib.StrJoin model.C09_Strings.
From SK Require model.C08_Model.
Import ListNotations.

Inductive val := VS (s : str) | VB (b : bool) | VO (n : Z).      (* str, bool, anything else (an opaque integer) *)
Definition record : Type := list (str * val).
Definition seqb := C08_Model.str_eqb.

Fixpoint rget (k : str) (r : record) : option val :=
  match r with [] => None | (k', v) :: r' => if seqb k k' then Some v else rget k r' end.
(** {**r, k: v}: an existing key keeps its position and takes the new value, a new key is appended *)
Fixpoint rset (k : str) (v : val) (r : record) : record :=
  match r with
  | [] => [(k, v)]
  | (k', v') :: r' => if seqb k k' then (k, v) :: r' else (k', v') :: rset k v r'
  end.

Inductive item := IStr (s : str) | IDict (r : record) | IOther.
Inductive input := InStr (s : str) | InList (l : list item) | InOther.
Definition BALANCED : str := [98; 97; 108; 97; 110; 99; 101; 100]%N.   (* "balanced" *)

Definition parse_input (inp : input) (col : str) : option (list record) :=        (* None = ValueError *)
  match inp with
  | InStr s => Some [[(col, VS s)]]
  | InList l => Some (flat_map (fun it => match it with
                                          | IStr s => [[(col, VS s)]]
                                          | IDict r => match rget col r with Some _ => [r] | None => [] end
                                          | IOther => []
                                          end) l)
  | InOther => None
  end.

(** the verdict of one reaction string; a string that is not "a>>b" raises ValueError in rsmi_balance_check: None *)
Definition dict_balance_check (formula : str -> option str) (r : record) (col : str) : option record :=
  match rget col r with
  | Some (VS s) => match rsmi_balance_check formula s with Some b => Some (rset BALANCED (VB b) r) | None => None end
  | _ => None
  end.

Fixpoint all_some {A} (l : list (option A)) : option (list A) :=
  match l with
  | [] => Some []
  | None :: _ => None
  | Some x :: r => match all_some r with Some xs => Some (x :: xs) | None => None end
  end.
Definition is_balanced (r : record) : bool := match rget BALANCED r with Some (VB true) => true | _ => false end.
Definition dicts_balance_check (formula : str -> option str) (inp : input) (col : str) : option (list record * list record) :=
  match parse_input inp col with
  | None => None
  | Some rs => match all_some (map (fun r => dict_balance_check formula r col) rs) with
               | None => None
               | Some res => Some (filter is_balanced res, filter (fun r => negb (is_balanced r)) res)
               end
  end.

(** * run functions *)
Definition tval (v : val) : tok := match v with VS s => L [I 0; tbytes s] | VB b => L [I 1; tbool b] | VO n => L [I 2; I n] end.
Definition trecord (r : record) : tok := tlist (fun kv : str * val => L [tbytes (fst kv); tval (snd kv)]) r.
Definition run_records (formula : list (str * option str)) (inp : input) (col : str) : tok :=
  L [ match parse_input inp col with Some rs => tlist trecord rs | None => L [I (-1)] end;
      match dicts_balance_check (slookup formula) inp col with
      | Some (a, b) => L [tlist trecord a; tlist trecord b]
      | None => L [I (-1)]
      end ].
