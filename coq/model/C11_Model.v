(** C11 — executable model of
      synkit/Graph/Matcher/automorphism.py   (Automorphism._analyze / _analyze_component / _choose_anchor)
      synkit/Graph/Matcher/auto_est.py        (AutoEst._initialize_colors / _refine_colors / _build_orbits / anchor_component)
      synkit/Graph/Matcher/dedup_matches.py   (deduplicate_matches_with_anchor, graph_automorphisms,
                                               deduplicate_matches_by_automorphisms)
      synkit/Synthesis/Reactor/syn_reactor.py (the pruning step of SynReactor.mappings())
    Definitions only; proofs are in proof/C11_*.v.

    Structure-following: every Python loop is a recursion over the list the loop
    iterates.  networkx VF2 ([GraphMatcher.isomorphisms_iter] of a graph with
    itself) is modelled by the verified enumerator of lib/Mono.v (induced,
    G into G); only the SET of automorphisms is used by the code (count, orbit
    union, images of a match), never their order.  nx.connected_components is
    modelled by lib/Reach.v in networkx order (by first node).

    A graph carries three node labels and two edge labels (interned by the
    harness): the label compared by the exact analysis (element, charge), the
    label used by the WL-1 estimate in the reactor (element, charge, aromatic,
    hcount), the full attribute dictionary without atom_map (rule symmetries);
    the bond-order code (monotone in the order) and the full edge dictionary. *)
From Coq Require Import List NArith ZArith Bool Arith Lia.
From SK Require Import lib.Tok lib.LGraph lib.Mono lib.Reach.
Import ListNotations.

Definition nlab := (N * N * N)%type.
Definition elab := (N * N)%type.
Definition graph := lgraph nlab elab.
Definition mapping := list (N * N).          (* (pattern node, image) pairs, dict order *)

Definition n_exact (a : nlab) : N := fst (fst a).
Definition n_wl (a : nlab) : N := snd (fst a).
Definition n_full (a : nlab) : N := snd a.
Definition e_order (e : elab) : N := fst e.
Definition e_full (e : elab) : N := snd e.

(** ---------- small list utilities on N ---------- *)
Fixpoint insN (x : N) (l : list N) : list N :=
  match l with
  | [] => [x]
  | y :: r => if (x <=? y)%N then x :: l else y :: insN x r
  end.
Definition sortN (l : list N) : list N := fold_right insN [] l.

Fixpoint dedupN (l : list N) : list N :=
  match l with
  | [] => []
  | x :: r => if LGraph.mem x r then dedupN r else x :: dedupN r
  end.

(** canonical form of a finite set of N (Python frozenset, compared by content) *)
Definition canonN (l : list N) : list N := sortN (dedupN l).

Fixpoint leqb (a b : list N) : bool :=
  match a, b with
  | [], [] => true
  | x :: a', y :: b' => N.eqb x y && leqb a' b'
  | _, _ => false
  end.

(** set of frozensets: keep the first of equal canonical lists *)
Fixpoint dedupL (l : list (list N)) : list (list N) :=
  match l with
  | [] => []
  | x :: r => if existsb (leqb x) r then dedupL r else x :: dedupL r
  end.

Definition minN (l : list N) : N := fold_right N.min (hd 0%N l) l.

(** ---------- connected components (nx.connected_components order: by first node) ---------- *)
Definition comp_of (g : graph) (seed : N) : list N :=
  match saturate (nbrs g) (S (length (gnodes g))) [seed] with
  | Some R => R
  | None => [seed]
  end.

Fixpoint comps_go (g : graph) (todo seen : list N) : list (list N) :=
  match todo with
  | [] => []
  | u :: r =>
      if LGraph.mem u seen then comps_go g r seen
      else let c := comp_of g u in c :: comps_go g r (c ++ seen)
  end.
Definition components (g : graph) : list (list N) := comps_go g (node_ids g) [].

(** ---------- automorphisms (VF2 = verified enumerator) ---------- *)
Definition oeqb (a b : option N) : bool :=
  match a, b with
  | Some x, Some y => N.eqb x y
  | None, None => true
  | _, _ => false
  end.

Definition lab_of (fn : nlab -> N) (g : graph) (u : N) : option N := option_map fn (label g u).
Definition adj_of (fe : elab -> N) (g : graph) (u v : N) : option N := option_map fe (LGraph.adj g u v).

(** all label-preserving automorphisms of [g], each as the list of (node, image) pairs *)
Definition auts (fn : nlab -> N) (fe : elab -> N) (g : graph) : list mapping :=
  monos (node_ids g) (node_ids g) (lab_of fn g) (lab_of fn g) (adj_of fe g) (adj_of fe g) oeqb N.eqb true.

(** ---------- Automorphism._analyze_component ---------- *)
(** orbit_sets[u]: for every automorphism and every item (a, b): orbit_sets[a].add(b); orbit_sets[b].add(a) *)
Definition orbit_raw (A : list mapping) (u : N) : list N :=
  flat_map (fun s => flat_map (fun ab => if N.eqb (fst ab) u then [snd ab]
                                         else if N.eqb (snd ab) u then [fst ab] else []) s) A.
Definition orbit_set (A : list mapping) (u : N) : list N := canonN (orbit_raw A u).

Definition analyze_component (fn : nlab -> N) (fe : elab -> N) (g : graph) : list (list N) * N :=
  match node_ids g with
  | [] => ([], 1%N)
  | [n] => ([[n]], 1%N)
  | ns =>
      let A := auts fn fe g in
      match A with
      | [] => (map (fun n => [n]) ns, 1%N)
      | _ => (dedupL (map (orbit_set A) ns), N.of_nat (length A))
      end
  end.

(** max(comps, key=len): the first component of maximal size *)
Fixpoint first_max_len (best : list N) (l : list (list N)) : list N :=
  match l with
  | [] => best
  | c :: r => if (length best <? length c)%nat then first_max_len c r else first_max_len best r
  end.
Definition choose_anchor (comps : list (list N)) : option (list N) :=
  match comps with
  | c :: d :: r => Some (first_max_len c (d :: r))
  | _ => None
  end.

Record analysis := Analysis { a_count : N; a_orbits : list (list N); a_comps : list (list N); a_anchor : option (list N) }.

(** Automorphism._analyze *)
Definition analyze (fn : nlab -> N) (fe : elab -> N) (g : graph) : analysis :=
  let comps := components g in
  match node_ids g with
  | [] => Analysis 1%N [] comps None
  | _ =>
      if (length comps <=? 1)%nat then
        let '(o, n) := analyze_component fn fe g in Analysis n o comps None
      else
        let rs := map (fun c => analyze_component fn fe (induced_sub g c)) comps in
        Analysis (fold_left N.mul (map snd rs) 1%N) (dedupL (flat_map fst rs)) comps (choose_anchor comps)
  end.

(** ---------- AutoEst: WL-1 colour refinement ---------- *)
Section Palette.
  Variable X : Type.
  Variable xeqb : X -> X -> bool.
  Fixpoint index_of (x : X) (seen : list X) (i : N) : option N :=
    match seen with
    | [] => None
    | y :: r => if xeqb x y then Some i else index_of x r (N.succ i)
    end.
  (** palette: a label gets the number of distinct labels seen before its first occurrence *)
  Fixpoint assign (labels seen : list X) : list N :=
    match labels with
    | [] => []
    | x :: r =>
        match index_of x seen 0%N with
        | Some i => i :: assign r seen
        | None => N.of_nat (length seen) :: assign r (seen ++ [x])
        end
    end.
End Palette.
Arguments index_of {X}.
Arguments assign {X}.

Definition pair_eqb (a b : N * N) : bool := N.eqb (fst a) (fst b) && N.eqb (snd a) (snd b).
Definition pair_leb (a b : N * N) : bool :=
  if (fst a <? fst b)%N then true else if N.eqb (fst a) (fst b) then (snd a <=? snd b)%N else false.
Fixpoint insP (x : N * N) (l : list (N * N)) : list (N * N) :=
  match l with
  | [] => [x]
  | y :: r => if pair_leb x y then x :: l else y :: insP x r
  end.
Definition sortP (l : list (N * N)) : list (N * N) := fold_right insP [] l.
Fixpoint lpeqb (a b : list (N * N)) : bool :=
  match a, b with
  | [], [] => true
  | x :: a', y :: b' => pair_eqb x y && lpeqb a' b'
  | _, _ => false
  end.

Definition colouring := list (N * N).        (* node -> colour, in node order *)
Definition col (cs : colouring) (u : N) : N := match assoc u cs with Some c => c | None => 0%N end.

(** _initial_label: (degree, attribute values) *)
Definition wl_init (fn : nlab -> N) (g : graph) : colouring :=
  combine (node_ids g)
          (assign pair_eqb (map (fun p => (N.of_nat (length (nbrs g (fst p))), fn (snd p))) (gnodes g)) []).

(** _neighbor_signature / _refined_label *)
Definition nsig (fe : elab -> N) (g : graph) (cs : colouring) (u w : N) : N * N :=
  (col cs w, match LGraph.adj g u w with Some e => fe e | None => 0%N end).
Definition rlabel (fe : elab -> N) (g : graph) (cs : colouring) (u : N) : N * list (N * N) :=
  (col cs u, sortP (map (nsig fe g cs u) (nbrs g u))).
Definition rl_eqb (a b : N * list (N * N)) : bool := N.eqb (fst a) (fst b) && lpeqb (snd a) (snd b).

(** _refine_once: (new colours, changed) *)
Definition refine_once (fe : elab -> N) (g : graph) (cs : colouring) : colouring * bool :=
  let ids := node_ids g in
  let cs' := combine ids (assign rl_eqb (map (rlabel fe g cs) ids) []) in
  (cs', negb (forallb (fun u => N.eqb (col cs' u) (col cs u)) ids)).

(** _refine_colors: at most [k] sweeps, stop after the first sweep that changes nothing *)
Fixpoint refine (fe : elab -> N) (g : graph) (k : nat) (cs : colouring) : colouring :=
  match k with
  | O => cs
  | S k' => let '(cs', ch) := refine_once fe g cs in if ch then refine fe g k' cs' else cs'
  end.
Definition wl (fn : nlab -> N) (fe : elab -> N) (g : graph) (k : nat) : colouring := refine fe g k (wl_init fn g).

(** _build_orbits: group by colour (dict order = first occurrence), sort by (len, min) *)
Definition classes (cs : colouring) : list (list N) :=
  map (fun c => map fst (filter (fun p => N.eqb (snd p) c) cs)) (rev (dedupN (rev (map snd cs)))).
Definition key_leb (a b : list N) : bool :=
  if (length a <? length b)%nat then true
  else if (length a =? length b)%nat then (minN a <=? minN b)%N else false.
Fixpoint insK (x : list N) (l : list (list N)) : list (list N) :=
  match l with
  | [] => [x]
  | y :: r => if key_leb x y then x :: l else y :: insK x r
  end.
Definition wl_orbits (cs : colouring) : list (list N) := fold_right insK [] (classes cs).

(** AutoEst.anchor_component: largest component, ties by smallest node *)
Definition better (a b : list N) : bool :=    (* a strictly before b in sorted(key=(-len, min)) *)
  if (length b <? length a)%nat then true
  else if (length a =? length b)%nat then (minN a <? minN b)%N else false.
Definition wl_anchor (g : graph) : list N :=
  match components g with
  | [] => []
  | c :: r => fold_left (fun best x => if better x best then x else best) r c
  end.

(** ---------- deduplicate_matches_with_anchor ---------- *)
Definition sig := (list (list N * list N) * list (N * N))%type.
Definition part_eqb (a b : list N * list N) : bool := leqb (fst a) (fst b) && leqb (snd a) (snd b).
Fixpoint parts_eqb (a b : list (list N * list N)) : bool :=
  match a, b with
  | [], [] => true
  | x :: a', y :: b' => part_eqb x y && parts_eqb a' b'
  | _, _ => false
  end.
Definition sig_eqb (a b : sig) : bool := parts_eqb (fst a) (fst b) && lpeqb (snd a) (snd b).

(** _build_host_orbit_index: the LAST orbit containing h wins; None = not covered (ValueError) *)
Fixpoint host_index (h : N) (os : list (list N)) (i : N) (found : option N) : option N :=
  match os with
  | [] => found
  | o :: r => host_index h r (N.succ i) (if LGraph.mem h o then Some i else found)
  end.
Definition host_repr (horbs : option (list (list N))) (h : N) : option N :=
  match horbs with
  | None => Some h
  | Some os => host_index h os 0%N None
  end.

Fixpoint all_some {X} (l : list (option X)) : option (list X) :=
  match l with
  | [] => Some []
  | None :: _ => None
  | Some x :: r => match all_some r with Some r' => Some (x :: r') | None => None end
  end.

(** _prepare_pattern_orbits *)
Definition prepare (porbs : option (list (list N))) (anchor : list N) : list (list N) * list N :=
  match porbs with
  | None => ([], [])
  | Some os =>
      (filter (fun o => negb (existsb (fun x => LGraph.mem x anchor) o)) (map canonN os), canonN anchor)
  end.

(** _free_sig_from_pattern_orbits *)
Fixpoint free_sig_pattern (m : mapping) (free : list (list N)) (horbs : option (list (list N)))
  : option (list (list N * list N)) :=
  match free with
  | [] => Some []
  | o :: r =>
      let present := filter (fun p => match assoc p m with Some _ => true | None => false end) o in
      match present with
      | [] => free_sig_pattern m r horbs
      | _ =>
          match all_some (map (fun p => match assoc p m with Some h => host_repr horbs h | None => None end) present),
                free_sig_pattern m r horbs with
          | Some img, Some rest => Some ((present, sortN img) :: rest)
          | _, _ => None
          end
      end
  end.

(** _free_sig_host_only *)
Definition free_sig_host (m : mapping) (horbs : option (list (list N))) : option (list (list N * list N)) :=
  match all_some (map (fun ph => host_repr horbs (snd ph)) m) with
  | Some img => Some [([], sortN img)]
  | None => None
  end.

(** _anchor_sig *)
Definition anchor_sig (m : mapping) (anchored : list N) : list (N * N) :=
  flat_map (fun p => match assoc p m with Some h => [(p, h)] | None => [] end) anchored.

Definition signature (use_pattern : bool) (free : list (list N)) (anchored : list N)
           (horbs : option (list (list N))) (m : mapping) : option sig :=
  match (if use_pattern then free_sig_pattern m free horbs else free_sig_host m horbs) with
  | Some f => Some (f, anchor_sig m anchored)
  | None => None
  end.

Section DedupSig.
  Variable X : Type.
  Variable key : X -> mapping.
  Variable sg : mapping -> option sig.
  (** the loop: keep a match iff its signature was not seen; None = ValueError *)
  Fixpoint dedup_sig_go (xs : list X) (seen : list sig) : option (list X) :=
    match xs with
    | [] => Some []
    | x :: r =>
        match sg (key x) with
        | None => None
        | Some s =>
            if existsb (sig_eqb s) seen then dedup_sig_go r seen
            else match dedup_sig_go r (s :: seen) with Some out => Some (x :: out) | None => None end
        end
    end.
End DedupSig.
Arguments dedup_sig_go {X}.

Definition dedup_anchor {X} (key : X -> mapping) (xs : list X) (porbs : option (list (list N))) (anchor : list N)
           (horbs : option (list (list N))) : option (list X) :=
  match porbs, horbs with
  | None, None => Some xs
  | _, _ =>
      let '(free, anchored) := prepare porbs anchor in
      let use_pattern := match free, anchored with [], [] => false | _, _ => true end in
      dedup_sig_go key (signature use_pattern free anchored horbs) xs []
  end.

(** ---------- deduplicate_matches_by_automorphisms ---------- *)
(** frozenset((sigma[p], h) for p, h in m.items()) *)
Definition act (s : mapping) (m : mapping) : mapping :=
  map (fun ph => (match assoc (fst ph) s with Some q => q | None => fst ph end, snd ph)) m.
Definition pair_mem (x : N * N) (l : mapping) : bool := existsb (pair_eqb x) l.
(** equality of frozensets of items *)
Definition set_eqb (a b : mapping) : bool := forallb (fun x => pair_mem x b) a && forallb (fun x => pair_mem x a) b.

Section DedupAut.
  Variable X : Type.
  Variable key : X -> mapping.
  Variable A : list mapping.
  Fixpoint dedup_aut_go (xs : list X) (seen : list mapping) : list X :=
    match xs with
    | [] => []
    | x :: r =>
        if existsb (set_eqb (key x)) seen then dedup_aut_go r seen
        else x :: dedup_aut_go r (key x :: map (fun s => act s (key x)) A ++ seen)
    end.
End DedupAut.
Arguments dedup_aut_go {X}.
Definition dedup_aut {X} (key : X -> mapping) (A : list mapping) (xs : list X) : list X := dedup_aut_go key A xs [].

(** ---------- SynReactor.mappings(): the pruning step ---------- *)
(** graph_automorphisms(rule.rc.raw): every node attribute except atom_map, every edge attribute *)
Definition rule_auts (rc : graph) : list mapping := auts n_full e_full rc.
Definition prune {X} (key : X -> mapping) (rc : graph) (raw : list X) : list X :=
  if (1 <? length raw)%nat then dedup_aut key (rule_auts rc) raw else raw.

(** ---------- observables ---------- *)
Fixpoint enum_from {X} (i : nat) (l : list X) : list (nat * X) :=
  match l with [] => [] | x :: r => (i, x) :: enum_from (S i) r end.
Definition indexed {X} (l : list X) : list (nat * X) := enum_from 0 l.

Definition t_sets (l : list (list N)) : tok := tset (tset tN) l.
Definition t_idx {X} (o : option (list (nat * X))) : tok :=
  match o with
  | Some l => L [I 0%Z; tlist (fun p => tnat (fst p)) l]
  | None => L [I 1%Z; L []]
  end.

Definition wl_obs (fn : nlab -> N) (g : graph) : tok :=
  L [ tlist (fun k => tlist tN (map snd (wl fn e_order g k))) [0; 1; 2; 10]%nat;
      tlist (tlist tN) (map sortN (wl_orbits (wl fn e_order g 10)));
      tlist tN (sortN (wl_anchor g)) ].

Definition run_aut (g : graph) : tok :=
  let a := analyze n_exact e_order g in
  L [ tN (a_count a); t_sets (a_orbits a); tlist (tset tN) (a_comps a); topt (tset tN) (a_anchor a);
      wl_obs n_wl g; wl_obs n_exact g ].

Definition drop_big (os : list (list N)) : list (list N) :=
  match os with
  | [] => []
  | _ => let big := fold_right N.max 0%N (concat os) in filter (fun o => negb (LGraph.mem big o)) os
  end.

Definition run_dedup (p h : graph) (ms : list mapping) : tok :=
  let xs := indexed ms in
  let key := @snd nat mapping in
  let ap := analyze n_exact e_order p in
  let ah := analyze n_exact e_order h in
  let wlo := wl_orbits (wl n_wl e_order p 10) in
  let anc := match a_anchor ap with Some c => c | None => [] end in
  L [ t_idx (dedup_anchor key xs None [] None);
      t_idx (dedup_anchor key xs (Some wlo) (wl_anchor p) None);
      t_idx (dedup_anchor key xs (Some (a_orbits ap)) anc None);
      t_idx (dedup_anchor key xs None [] (Some (a_orbits ah)));
      t_idx (dedup_anchor key xs (Some (a_orbits ap)) [] (Some (a_orbits ah)));
      t_idx (dedup_anchor key xs (Some wlo) [] None);
      t_idx (dedup_anchor key xs None [] (Some (drop_big (a_orbits ah))));
      t_idx (Some (dedup_aut key (auts n_full e_full p) xs)) ].

Definition run_prune (rc : graph) (raw : list mapping) : tok :=
  let kept := prune (@snd nat mapping) rc (indexed raw) in
  L [ tlist (tlist (tpair tN tN)) raw; tlist (fun p => tnat (fst p)) kept;
      tN (if (1 <? length raw)%nat then N.of_nat (length (rule_auts rc)) else 0%N) ].

(** Automorphism._analyze_component as a function of the enumeration [E] it is handed (VF2's isomorphisms_iter
    abstracted); [analyze_component fn fe g] is this function at [auts fn fe g] (proof/C11_Main.v) *)
Definition analyze_component_with (ns : list N) (E : list mapping) : list (list N) * N :=
  match ns with
  | [] => ([], 1%N)
  | [n] => ([[n]], 1%N)
  | _ =>
      match E with
      | [] => (map (fun n => [n]) ns, 1%N)
      | _ => (dedupL (map (orbit_set E) ns), N.of_nat (length E))
      end
  end.

(** ---------- well-formedness of an encoded graph (the premise [LGraph.wf] of the theorems, as a computation;
    evaluated on every aut / dedup case so that the premise is monitored) ---------- *)
Fixpoint nodupb (l : list N) : bool :=
  match l with [] => true | x :: r => negb (LGraph.mem x r) && nodupb r end.
Fixpoint uniq_edges (es : list (N * N * elab)) : bool :=
  match es with
  | [] => true
  | (a, b, _) :: r => match find_edge a b r with None => uniq_edges r | Some _ => false end
  end.
Definition wfb (g : graph) : bool :=
  nodupb (node_ids g)
  && forallb (fun e => let '(a, b, _) := e in
                       LGraph.mem a (node_ids g) && LGraph.mem b (node_ids g) && negb (N.eqb a b)) (gedges g)
  && uniq_edges (gedges g).

(** the enumerations themselves (one per component, as the code calls VF2), as sets of maps given as sets of items:
    monitors the VF2 contract of C11_vf2_contract directly; only when the total count is small *)
Definition t_maps (ms : list mapping) : tok := tset (tset (tpair tN tN)) ms.
Definition aut_lists (g : graph) : list (list mapping) :=
  if (a_count (analyze n_exact e_order g) <=? 200)%N
  then map (fun c => auts n_exact e_order (induced_sub g c)) (components g)
  else [].
Definition run_aut_wf (g : graph) : tok := L [ run_aut g; tbool (wfb g); tlist t_maps (aut_lists g) ].
Definition run_dedup_wf (p h : graph) (ms : list mapping) : tok := L [ run_dedup p h ms; tbool (wfb p); tbool (wfb h) ].
(** every match is defined on nodes of the rule centre (premise of C11_prune_complete_aut) *)
Definition dom_ok (rc : graph) (raw : list mapping) : bool :=
  forallb (fun m => forallb (fun ph => LGraph.mem (fst ph) (node_ids rc)) m) raw.
(** the statement of C11_prune_complete as a computation: every raw match is a kept match, up to item order and up to
    one of the rule automorphisms (the harness evaluates the same test on the implementation's lists) *)
Definition rep_ok (rc : graph) (raw : list mapping) : bool :=
  let kept := prune (fun m : mapping => m) rc raw in
  let A := rule_auts rc in
  forallb (fun x => existsb (fun y => set_eqb x y || existsb (fun s => set_eqb x (act s y)) A) kept) raw.
Definition run_prune_wf (rc : graph) (raw : list mapping) : tok :=
  L [ run_prune rc raw; tbool (wfb rc); tbool (dom_ok rc raw); tbool (rep_ok rc raw) ].

(** ---------- round 3: the full option surface of deduplicate_matches_with_anchor, PartialMatcher's use of it ---------- *)
(** [host_anchor] is accepted by the Python function and deliberately ignored ("kept for API symmetry"): the model
    takes it as an argument and ignores it too, so that a change which starts to use it is a correspondence break. *)
Definition dedup_anchor_h {X} (key : X -> mapping) (xs : list X) (porbs : option (list (list N))) (anchor : list N)
           (horbs : option (list (list N))) (hanchor : option (list N)) : option (list X) :=
  dedup_anchor key xs porbs anchor horbs.

(** PartialMatcher._prune_automorphic_mappings (single host): AutoEst(host, node_attrs, edge_attrs, max_iter).fit(),
    then deduplicate_matches_with_anchor(matches, host_orbits=est.orbits, host_anchor=est.anchor_component);
    an empty list is returned as it is *)
Definition partial_prune {X} (key : X -> mapping) (fn : nlab -> N) (h : graph) (k : nat) (xs : list X) : option (list X) :=
  match xs with
  | [] => Some []
  | _ => dedup_anchor_h key xs None [] (Some (wl_orbits (wl fn e_order h k))) (Some (wl_anchor h))
  end.

Definition run_dedup_x (p h : graph) (ms : list mapping) : tok :=
  let xs := indexed ms in
  let key := @snd nat mapping in
  let ap := analyze n_exact e_order p in
  let ah := analyze n_exact e_order h in
  let wlh := wl_orbits (wl n_exact e_order h 10) in
  let wlp := wl_orbits (wl n_wl e_order p 10) in
  L [ run_dedup_wf p h ms;
      t_idx (dedup_anchor_h key xs None [] (Some wlh) (Some (wl_anchor h)));
      t_idx (dedup_anchor_h key xs None [] (Some (a_orbits ah)) (a_anchor ah));
      t_idx (dedup_anchor_h key xs (Some wlp) (wl_anchor p) (Some wlh) (Some (wl_anchor h)));
      t_idx (dedup_anchor_h key xs (Some (a_orbits ap)) [] (Some wlh) (Some (wl_anchor h)));
      t_idx (dedup_anchor key xs (Some []) [] None);
      t_idx (dedup_anchor key xs None [] (Some []));
      t_idx (partial_prune key n_exact h 10 xs);
      t_idx (partial_prune key n_exact h 1 xs) ].
