(** C15 (round 5) — the BULK entry points of the store inside the history language:
      CRNHyperGraph.parse_rxns (iterable of lines / of (line, rule) tuples / Mapping / lines zipped with rules=)
      CRNHyperGraph.add_rxn_from_str
    on networks that already hold reactions, mixed with every other operation.  Their Gallina models are those of C16
    (model/C16_Model.v: [parse_items], [add_from_str], both folds of the store's own [add]); here they become operations of
    the C15 history language, so that a bulk call is observed — and judged by the oracle — exactly like the same reactions
    added one by one: every item contributes one reaction, repeated lines and repeated reactions under different rules
    included, ids generated as for individual calls.  Definitions only. *)
From stdpp Require Import gmap strings sets pretty.
From SK Require Import lib.Tok model.C15_Model model.C15_Ext model.C16_Model.
Local Open Scope string_scope.

Inductive op6 :=
| B2 (o : op2)
| BParse (i : nat) (items : list (string * option string)) (default_rule : string) (parse_suffix prefer_suffix : bool)
| BAddStr (i : nat) (line : string) (rule : option string) (parse_suffix : bool).

Definition cerr_code (e : option cerr) : tok := match e with None => I 0 | Some c => tcerr c end.

(** error code, answer, new world *)
Definition step6 (w : world2) (o : op6) : world2 * tok * tok :=
  match o with
  | B2 o2 => let '(w', er, a) := step2 w o2 in (w', terr er, a)
  | BParse i items dr ps pf =>
      let r := parse_items (getn (nets w) i) items dr ps pf in
      (W2 (<[ i := r.1 ]> (nets w)) (pool w), cerr_code r.2, L [])
  | BAddStr i line rule ps =>
      let r := add_from_str (getn (nets w) i) line rule ps in
      (W2 (<[ i := r.1 ]> (nets w)) (pool w), cerr_code r.2,
       (* the id of the edge handed back: the last one stored, when the call succeeded *)
       match r.2 with None => tstr (default "" (last (order r.1))) | Some _ => L [] end)
  end.

Fixpoint run_ops6 (w : world2) (ops : list op6) : list tok :=
  match ops with
  | [] => []
  | o :: os => let '(w', ec, a) := step6 w o in
               L [ec; a; tlist (tnet2 false) (nets w'); tlist tside (pool w')] :: run_ops6 w' os
  end.
Definition run6 (n k : nat) (ops : list op6) : tok := L (run_ops6 (init_world2 n k) ops).
