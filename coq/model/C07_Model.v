(** C07 — executable model of
      synkit/Graph/Matcher/graph_matcher.py   (GraphMatcherEngine: _wl1_hash, _wl_hash_cached, _pre_check,
                                               _isomorphic_nx, _get_mappings_nx, node/edge matcher compilation)
      synkit/Graph/Matcher/subgraph_matcher.py (SubgraphMatch.subgraph_isomorphism / is_subgraph, nx back-end)
      synkit/Graph/Matcher/graph_morphism.py   (graph_isomorphism(use_defaults=True), subgraph_isomorphism)
    as the code is after the repairs listed in notes/C07.md.  Definitions only.

    The engine is a state machine: the class-level WL-histogram cache
    (WeakKeyDictionary graph object -> {node_attrs -> Counter}) is explicit state,
    keyed by the index of the graph object in the case and the attribute selection.

    networkx VF2 is NOT modelled.  It enters through two oracles:
      [vf2b ind nm em G1 G2 : bool]           GraphMatcher(G1, G2, nm, em).subgraph_is_isomorphic() (ind = true)
                                              / .subgraph_is_monomorphic() (ind = false); is_isomorphic() = equal
                                              order && vf2b true
      [enum nm em G1 G2 : list mapping]       list(subgraph_isomorphisms_iter()), inverted to pattern->host pairs
    whose contracts (true iff the verified enumerator lib/Mono.v is non-empty; a
    permutation of it) are premises of the theorems.  The correspondence run
    instantiates them with the verified decision procedure [has_mono] and with
    [monos_g]; results that depend on the VF2 enumeration ORDER (max_mappings, the
    single-call isomorphism shortcut) are compared by their length only.

    Attributes: association lists key code -> value code (interned by the harness;
    an absent key is Python's None under .get()); key 0 = hcount with its numeric value. *)
From Coq Require Import List NArith Bool Arith Lia.
From SK Require Import lib.Tok lib.LGraph lib.Mono.
Import ListNotations.

Definition attrs := list (N * N).
Definition graph := lgraph attrs attrs.
Definition mapping := list (N * N).          (* (pattern node, host node) *)

Definition get (k : N) (a : attrs) : option N := assoc k a.
Definition getd (k d : N) (a : attrs) : N := match get k a with Some v => v | None => d end.
Definition opt_eqb (x y : option N) : bool :=
  match x, y with
  | Some a, Some b => N.eqb a b
  | None, None => true
  | _, _ => false
  end.
Definition hc (a : attrs) : N := getd 0 0 a.

Definition nlabel (g : graph) (u : N) : attrs := match label g u with Some a => a | None => [] end.
Definition n_nodes (g : graph) : nat := length (gnodes g).
Definition n_edges (g : graph) : nat := length (gedges g).

(** the verified enumerator on whole graphs: mappings of P (pattern) into H (host) *)
Definition monos_g (ind : bool) (nm em : attrs -> attrs -> bool) (H P : graph) : list mapping :=
  monos (node_ids P) (node_ids H) (nlabel P) (nlabel H) (LGraph.adj P) (LGraph.adj H) nm em ind.

(** short-circuit decision procedure with the same search tree as [monos].
    ([existsb] / [&&] do not short-circuit under call-by-value [vm_compute]: the search must branch with [if].) *)
Fixpoint any {X : Type} (f : X -> bool) (l : list X) : bool :=
  match l with
  | [] => false
  | x :: r => if f x then true else any f r
  end.
Fixpoint ext_any (H P : graph) (nm em : attrs -> attrs -> bool) (ind : bool) (ps : list N) (acc : mapping) : bool :=
  match ps with
  | [] => true
  | p :: ps' =>
      any (fun h => if ok (nlabel P) (nlabel H) (LGraph.adj P) (LGraph.adj H) nm em ind p h acc
                    then ext_any H P nm em ind ps' ((p, h) :: acc) else false) (node_ids H)
  end.
Definition has_mono (ind : bool) (nm em : attrs -> attrs -> bool) (H P : graph) : bool :=
  ext_any H P nm em ind (node_ids P) [].

(** ---------- engine ---------- *)
Record engine := Eng { e_na : list N; e_ea : list N; e_wl : bool; e_mm : option N }.

(** _compile_node_matcher: nm(nh, np) *)
Definition nm_eng (e : engine) (h p : attrs) : bool :=
  forallb (fun k => opt_eqb (get k h) (get k p)) (e_na e) && (hc p <=? hc h)%N.
(** _compile_edge_matcher: em(eh, ep) *)
Definition em_eng (e : engine) (h p : attrs) : bool :=
  forallb (fun k => opt_eqb (get k h) (get k p)) (e_ea e).

(** ---------- _wl1_hash ---------- *)
Definition blabel := list (option N).
Definition colour := (blabel * list blabel)%type.

Definition ole (x y : option N) : bool :=
  match x, y with
  | None, _ => true
  | Some _, None => false
  | Some a, Some b => (a <=? b)%N
  end.
Fixpoint lle (a b : blabel) : bool :=
  match a, b with
  | [], _ => true
  | _ :: _, [] => false
  | x :: a', y :: b' => if opt_eqb x y then lle a' b' else ole x y
  end.
Fixpoint insert_l (x : blabel) (l : list blabel) : list blabel :=
  match l with
  | [] => [x]
  | y :: r => if lle x y then x :: y :: r else y :: insert_l x r
  end.
Definition sort_l (l : list blabel) : list blabel := fold_right insert_l [] l.

Fixpoint bl_eqb (a b : blabel) : bool :=
  match a, b with
  | [], [] => true
  | x :: a', y :: b' => opt_eqb x y && bl_eqb a' b'
  | _, _ => false
  end.
Fixpoint bll_eqb (a b : list blabel) : bool :=
  match a, b with
  | [], [] => true
  | x :: a', y :: b' => bl_eqb x y && bll_eqb a' b'
  | _, _ => false
  end.
Definition colour_eqb (c d : colour) : bool := bl_eqb (fst c) (fst d) && bll_eqb (snd c) (snd d).

Definition base (na : list N) (g : graph) (u : N) : blabel := map (fun k => get k (nlabel g u)) na.
Definition colour_of (na : list N) (g : graph) (u : N) : colour :=
  (base na g u, sort_l (map (base na g) (nbrs g u))).

Definition hist := list (colour * N).
Fixpoint hist_add (c : colour) (h : hist) : hist :=
  match h with
  | [] => [(c, 1%N)]
  | (c', n) :: r => if colour_eqb c c' then (c', N.succ n) :: r else (c', n) :: hist_add c r
  end.
Fixpoint hist_get (c : colour) (h : hist) : N :=
  match h with
  | [] => 0%N
  | (c', n) :: r => if colour_eqb c c' then n else hist_get c r
  end.
Definition wl1_hash (na : list N) (g : graph) : hist :=
  fold_left (fun h u => hist_add (colour_of na g u) h) (node_ids g) [].
(** all(h_wl.get(lbl, 0) >= cnt for lbl, cnt in p_wl.items()) *)
Definition hist_contained (p h : hist) : bool :=
  forallb (fun cn => (snd cn <=? hist_get (fst cn) h)%N) p.

(** ---------- _wl_hash_cached (repaired: keyed by graph object AND node_attrs) ---------- *)
Definition ckey := (nat * list N)%type.
Definition cache := list (ckey * hist).
Fixpoint ln_eqb (a b : list N) : bool :=
  match a, b with
  | [], [] => true
  | x :: a', y :: b' => N.eqb x y && ln_eqb a' b'
  | _, _ => false
  end.
Definition ckey_eqb (a b : ckey) : bool := Nat.eqb (fst a) (fst b) && ln_eqb (snd a) (snd b).
Fixpoint cache_get (k : ckey) (c : cache) : option hist :=
  match c with
  | [] => None
  | (k', h) :: r => if ckey_eqb k k' then Some h else cache_get k r
  end.
Definition wl_cached (na : list N) (gi : nat) (g : graph) (c : cache) : hist * cache :=
  match cache_get (gi, na) c with
  | Some h => (h, c)
  | None => let h := wl1_hash na g in (h, ((gi, na), h) :: c)
  end.

(** ---------- _pre_check(host, pattern) ---------- *)
Definition pre_check (e : engine) (hi : nat) (H : graph) (pi : nat) (P : graph) (c : cache) : bool * cache :=
  if (n_nodes H <? n_nodes P) || (n_edges H <? n_edges P) then (false, c)
  else if negb (e_wl e) || negb (n_nodes H =? n_nodes P) then (true, c)
  else let '(hw, c1) := wl_cached (e_na e) hi H c in
       let '(pw, c2) := wl_cached (e_na e) pi P c1 in
       (hist_contained pw hw, c2).

Section WithVF2.
Variable vf2b : bool -> (attrs -> attrs -> bool) -> (attrs -> attrs -> bool) -> graph -> graph -> bool.
Variable enum : (attrs -> attrs -> bool) -> (attrs -> attrs -> bool) -> graph -> graph -> list mapping.

(** GraphMatcher(G1, G2, nm, em).is_isomorphic() *)
Definition is_isomorphic (nm em : attrs -> attrs -> bool) (G1 G2 : graph) : bool :=
  (n_nodes G1 =? n_nodes G2) && vf2b true nm em G1 G2.

(** ---------- _isomorphic_nx ---------- *)
Definition isomorphic (e : engine) (i : nat) (g1 : graph) (j : nat) (g2 : graph) (c : cache) : bool * cache :=
  let '(a, ga, b, gb) := if n_nodes g2 <? n_nodes g1 then (j, g2, i, g1) else (i, g1, j, g2) in
  let '(ok, c') := pre_check e b gb a ga c in          (* g2 is the (larger) host *)
  if negb ok then (false, c')
  else ((if n_nodes ga =? n_nodes gb then is_isomorphic (nm_eng e) (em_eng e) ga gb
         else vf2b true (nm_eng e) (em_eng e) ga gb), c').

(** ---------- _get_mappings_nx (repaired: GraphMatcher(host, pattern), mappings inverted) ---------- *)
Definition take (mm : option N) (l : list mapping) : list mapping :=
  match mm with None => l | Some k => firstn (N.to_nat k) l end.

Definition get_mappings (e : engine) (hi : nat) (H : graph) (pi : nat) (P : graph) (c : cache) : list mapping * cache :=
  let '(ok, c') := pre_check e hi H pi P c in
  if negb ok then ([], c')
  else if (n_nodes P =? n_nodes H) && (n_edges P =? n_edges H) then
         ((if is_isomorphic (nm_eng e) (em_eng e) H P
           then match enum (nm_eng e) (em_eng e) H P with m :: _ => [m] | [] => [] end
           else []), c')
       else (take (e_mm e) (enum (nm_eng e) (em_eng e) H P), c').

(** ---------- SubgraphMatch.subgraph_isomorphism / graph_morphism.subgraph_isomorphism ---------- *)
Definition nm_sub (names : list (N * N)) (h p : attrs) : bool :=
  forallb (fun kd => N.eqb (getd (fst kd) (snd kd) h) (getd (fst kd) (snd kd) p)) names.
Definition em_sub (eattr : option N) (h p : attrs) : bool :=
  match eattr with None => true | Some k => opt_eqb (get k h) (get k p) end.

(** node_comparator / edge_comparator: operator.eq by default, or a caller-supplied callable; the modelled family is
    "accept everything", a symmetric wildcard value, and a wildcard that counts on the pattern (child) side only.
    Called as cmp(parent value, child value), like generic_node_match / generic_edge_match do. *)
Inductive cmp := CEq | CAny | CWild (w : N) | CPatWild (w : N).
Definition cmpb (c : cmp) (h p : N) : bool :=
  match c with
  | CEq => N.eqb h p
  | CAny => true
  | CWild w => N.eqb h p || N.eqb h w || N.eqb p w
  | CPatWild w => N.eqb h p || N.eqb p w
  end.
Definition cmpo (c : cmp) (h p : option N) : bool :=
  match c with
  | CEq => opt_eqb h p
  | CAny => true
  | CWild w => opt_eqb h p || opt_eqb h (Some w) || opt_eqb p (Some w)
  | CPatWild w => opt_eqb h p || opt_eqb p (Some w)
  end.
Definition nm_subc (c : cmp) (names : list (N * N)) (h p : attrs) : bool :=
  forallb (fun kd => cmpb c (getd (fst kd) (snd kd) h) (getd (fst kd) (snd kd) p)) names.
Definition em_subc (c : cmp) (eattr : option N) (h p : attrs) : bool :=
  match eattr with None => true | Some k => cmpo c (get k h) (get k p) end.

(** use_filter: counts, then (repaired: with the SAME comparators as the search) every child node label combination occurs on some
    parent node and every child edge label on some parent edge *)
Definition sub_filter (nc ec : cmp) (names : list (N * N)) (eattr : option N) (child parent : graph) : bool :=
  if (n_nodes parent <? n_nodes child) || (n_edges parent <? n_edges child) then false
  else if negb (forallb (fun cn => existsb (fun pn => nm_subc nc names (snd pn) (snd cn)) (gnodes parent)) (gnodes child)) then false
  else match eattr with
       | None => true
       | Some k => forallb (fun ce => existsb (fun pe => cmpo ec (get k (snd pe)) (get k (snd ce))) (gedges parent)) (gedges child)
       end.

Definition sub_iso (use_filter induced : bool) (nc ec : cmp) (names : list (N * N)) (eattr : option N) (child parent : graph) : bool :=
  if use_filter && negb (sub_filter nc ec names eattr child parent) then false
  else vf2b induced (nm_subc nc names) (em_subc ec eattr) parent child.

(** ---------- graph_morphism.graph_isomorphism(use_defaults=True) ---------- *)
Definition giso (dstar dzero done : N) (g1 g2 : graph) : bool :=
  is_isomorphic (nm_sub [(1%N, dstar); (2%N, dzero)])
                (fun h p => N.eqb (getd 4 done h) (getd 4 done p)) g1 g2.

(** ---------- graph_morphism.graph_isomorphism(use_defaults=False): no matchers, structure only ---------- *)
Definition any_attrs (h p : attrs) : bool := true.
Definition giso0 (g1 g2 : graph) : bool := is_isomorphic any_attrs any_attrs g1 g2.

(** ---------- graph_morphism.find_graph_isomorphism (both graphs nx.Graph): a mapping is returned (not None) ----------
    fast_invariant_check: node count, edge count, sorted degree sequence; default matchers: categorical on
    element (default "*"), atom_map (default 0), hcount (default 0; EQUALITY here, not >=) and order (default 1) *)
Definition deg_label (g : graph) (u : N) : blabel := [Some (N.of_nat (length (nbrs g u)))].
Definition degs (g : graph) : list blabel := sort_l (map (deg_label g) (node_ids g)).
Definition fgi_fast (g1 g2 : graph) : bool :=
  (n_nodes g1 =? n_nodes g2) && (n_edges g1 =? n_edges g2) && bll_eqb (degs g1) (degs g2).
Definition fgi (use_defaults fast : bool) (dstar dzero done : N) (g1 g2 : graph) : bool :=
  if fast && negb (fgi_fast g1 g2) then false
  else if use_defaults
       then is_isomorphic (nm_sub [(1%N, dstar); (5%N, dzero); (0%N, 0%N)])
                          (fun h p => N.eqb (getd 4 done h) (getd 4 done p)) g1 g2
       else giso0 g1 g2.


(** ---------- the raw option layer of the boolean subgraph entry points ----------
    What the caller passes, before any normalisation: two parallel lists (names, defaults) that the code zips, the edge
    attribute as given (None / "" / a name), check_type as a STRING (interned; code 0 = "induced" — every other spelling
    selects the monomorphism test), comparators possibly None, and for the facade is_subgraph the back-end name.
    An entry point answers a boolean or raises. *)
Inductive res := RB (b : bool) | RErr (code : N).         (* 1 TypeError, 2 ImportError, 3 ValueError *)
Inductive sub_fn := FnSM | FnIS | FnGM.                   (* SubgraphMatch.subgraph_isomorphism | SubgraphMatch.is_subgraph |
                                                             graph_morphism.subgraph_isomorphism *)
Inductive eattr_raw := EaNone | EaEmpty (k : N) | EaKey (k : N).   (* edge_attribute = None | "" (k = key code of "") | a name *)
Record sub_opts := SO { o_names : list N; o_defaults : list N; o_eattr : eattr_raw; o_filter : bool; o_ctype : N;
                        o_nc : option cmp; o_ec : option cmp; o_backend : N }.       (* backend: 0 "nx", 1 "mod", other: unknown *)

Definition cmp_or_eq (c : option cmp) : cmp := match c with Some x => x | None => CEq end.       (* node_comparator or eq *)
Definition o_induced (o : sub_opts) : bool := N.eqb (o_ctype o) 0.                               (* check_type == "induced" *)
Definition o_sel (o : sub_opts) : list (N * N) := combine (o_names o) (o_defaults o).            (* zip(names, defaults) *)
(** `if edge_attribute:` — the label filter of both modules, and the edge matcher of graph_morphism, look at truthy names only *)
Definition ea_truthy (a : eattr_raw) : option N := match a with EaKey k => Some k | _ => None end.
(** generic_edge_match(edge_attribute, None, cmp) of SubgraphMatch: "" is an ordinary (absent) attribute name; None raises *)
Definition ea_sm (a : eattr_raw) : option N := match a with EaKey k => Some k | EaEmpty k => Some k | EaNone => None end.
Definition rule_available : bool := false.                 (* `mod` is not installed: _RULE_AVAILABLE = False *)

(** both subgraph_isomorphism functions with the filter's and the matcher's edge attribute kept apart *)
Definition sub_iso2 (use_filter induced : bool) (nc ec : cmp) (names : list (N * N)) (ef em : option N) (child parent : graph) : bool :=
  if use_filter && negb (sub_filter nc ec names ef child parent) then false
  else vf2b induced (nm_subc nc names) (em_subc ec em) parent child.

Definition entry_sm (o : sub_opts) (child parent : graph) : res :=
  let nc := cmp_or_eq (o_nc o) in let ec := cmp_or_eq (o_ec o) in
  (* the filter runs first and may answer False before generic_edge_match is reached *)
  if o_filter o && negb (sub_filter nc ec (o_sel o) (ea_truthy (o_eattr o)) child parent) then RB false
  else match o_eattr o with
       | EaNone => RErr 1
       | _ => RB (vf2b (o_induced o) (nm_subc nc (o_sel o)) (em_subc ec (ea_sm (o_eattr o))) parent child)
       end.
Definition entry_gm (o : sub_opts) (child parent : graph) : res :=
  RB (sub_iso2 (o_filter o) (o_induced o) (cmp_or_eq (o_nc o)) (cmp_or_eq (o_ec o)) (o_sel o)
               (ea_truthy (o_eattr o)) (ea_truthy (o_eattr o)) child parent).
(** is_subgraph forwards (pattern, host, names, defaults, edge_attribute, use_filter, check_type) positionally; no comparators *)
Definition no_cmps (o : sub_opts) : sub_opts :=
  SO (o_names o) (o_defaults o) (o_eattr o) (o_filter o) (o_ctype o) None None (o_backend o).
Definition entry_is (o : sub_opts) (pattern host : graph) : res :=
  if N.eqb (o_backend o) 0 then entry_sm (no_cmps o) pattern host
  else if N.eqb (o_backend o) 1 then (if rule_available then RErr 0 else RErr 2)
  else RErr 3.
Definition sub_entry (fn : sub_fn) (o : sub_opts) (child parent : graph) : res :=
  match fn with FnSM => entry_sm o child parent | FnIS => entry_is o child parent | FnGM => entry_gm o child parent end.

(** intermediate value observed by the correspondence: was a GraphMatcher constructed (= the filter let the call through, and
    nothing was raised before), and which of its methods decided: 2 subgraph_is_isomorphic, 4 subgraph_is_monomorphic, 0 none *)
Definition entry_trace (fn : sub_fn) (o : sub_opts) (child parent : graph) : N :=
  let o' := match fn with FnIS => no_cmps o | _ => o end in
  let nc := cmp_or_eq (o_nc o') in let ec := cmp_or_eq (o_ec o') in
  match fn, N.eqb (o_backend o) 0 with
  | FnIS, false => 0%N
  | _, _ =>
    if o_filter o' && negb (sub_filter nc ec (o_sel o') (ea_truthy (o_eattr o')) child parent) then 0%N
    else match fn, o_eattr o' with
         | FnGM, _ => if o_induced o' then 2%N else 4%N
         | _, EaNone => 0%N
         | _, _ => if o_induced o' then 2%N else 4%N
         end
  end.

(** ---------- find_graph_isomorphism: the mapping it returns (matcher.mapping of GraphMatcher(G1, G2): G1 node -> G2 node) ----------
    [enum nm em G1 G2] lists (G2 node, G1 node) pairs (pattern -> host, host = G1); the first one, inverted.  WHICH isomorphism comes
    first is VF2's business: the theorems hold for any enumeration meeting the contract, the correspondence compares the size. *)
Definition swap_pairs (m : mapping) : mapping := map (fun ph => (snd ph, fst ph)) m.
Definition fgi_map (use_defaults fast : bool) (dstar dzero done : N) (g1 g2 : graph) : option mapping :=
  if fgi use_defaults fast dstar dzero done g1 g2
  then Some (match (if use_defaults
                    then enum (nm_sub [(1%N, dstar); (5%N, dzero); (0%N, 0%N)]) (fun h p => N.eqb (getd 4 done h) (getd 4 done p)) g1 g2
                    else enum any_attrs any_attrs g1 g2) with m :: _ => swap_pairs m | [] => [] end)
  else None.

(** ---------- intermediate values of the engine calls ----------
    isomorphic: which graph is handed to _pre_check as host / pattern (indices), its answer, and the GraphMatcher method that
    decides (0 none, 1 is_isomorphic, 2 subgraph_is_isomorphic); the matcher is GraphMatcher(smaller, larger) *)
Definition iso_trace (e : engine) (i : nat) (g1 : graph) (j : nat) (g2 : graph) (c : cache) : list N :=
  let '(a, ga, b, gb) := if n_nodes g2 <? n_nodes g1 then (j, g2, i, g1) else (i, g1, j, g2) in
  let ok := fst (pre_check e b gb a ga c) in
  [N.of_nat b; N.of_nat a; if ok then 1%N else 0%N;
   if ok then (if n_nodes ga =? n_nodes gb then 1%N else 2%N) else 0%N].
(** get_mappings: _pre_check's answer and the method used: 0 none, 1 is_isomorphic (equal counts), 3 subgraph_isomorphisms_iter;
    the matcher is GraphMatcher(host, pattern) *)
Definition maps_trace (e : engine) (hi : nat) (H : graph) (pi : nat) (P : graph) (c : cache) : list N :=
  let ok := fst (pre_check e hi H pi P c) in
  [if ok then 1%N else 0%N;
   if ok then (if (n_nodes P =? n_nodes H) && (n_edges P =? n_edges H) then 1%N else 3%N) else 0%N].

(** ---------- SubgraphSearchEngine._quick_pre_filter and find_subgraph_mappings(strategy="all", pre_filter=...) ----------
    (the third pre-filter the property anchors; the search engine itself belongs to property C06, which models every strategy — here only
    what the pre-filter clause needs).  _quick_pre_filter answers True = "skip the search": some pattern node has no host candidate
    (selected attributes equal, hcount host >= pattern, degree host >= pattern), or the running product of the candidate counts exceeds
    threshold * 1e4 — the documented estimate guard, which is NOT a necessary condition. *)
Definition qpf_count (na : list N) (H P : graph) (p : N) : N :=
  N.of_nat (length (filter (fun h => forallb (fun k => opt_eqb (get k (nlabel H h)) (get k (nlabel P p))) na
                                     && (hc (nlabel P p) <=? hc (nlabel H h))%N
                                     && (length (nbrs P p) <=? length (nbrs H h))%nat) (node_ids H))).
Fixpoint qpf_loop (na : list N) (H P : graph) (thr : N) (ps : list N) (est : N) : bool :=
  match ps with
  | [] => false
  | p :: r => let c := qpf_count na H P p in
              if N.eqb c 0 then true
              else let e := (est * c)%N in if (thr * 10000 <? e)%N then true else qpf_loop na H P thr r e
  end.
Definition quick_pre_filter (na : list N) (H P : graph) (thr : N) : bool := qpf_loop na H P thr (node_ids P) 1%N.
(** does the estimate guard (and not an empty candidate set) decide? *)
Fixpoint qpf_guard (na : list N) (H P : graph) (thr : N) (ps : list N) (est : N) : bool :=
  match ps with
  | [] => false
  | p :: r => let c := qpf_count na H P p in
              if N.eqb c 0 then false
              else let e := (est * c)%N in if (thr * 10000 <? e)%N then true else qpf_guard na H P thr r e
  end.
(** strategy "all", max_results None: every monomorphism (not induced) under the engine-style matchers, [] when there are more than
    threshold of them; with pre_filter the search is skipped when _quick_pre_filter says so *)
Definition find_all (na ea : list N) (thr : N) (pf : bool) (H P : graph) : list mapping :=
  if pf && quick_pre_filter na H P thr then []
  else let l := monos_g false (nm_eng (Eng na ea false None)) (em_eng (Eng na ea false None)) H P in
       if (thr <? N.of_nat (length l))%N then [] else l.

(** ---------- GraphMatcherEngine.__init__: option normalisation ----------
    backend: lower-cased, must be an available back-end ("nx"; "mod" only when the mod package is importable — it is not);
    node_attrs / edge_attrs: `tuple(x or ())`; wl1_filter: `bool(x)` (the truthiness of the value is computed by the caller's
    Python, the model receives it); max_mappings kept as given (default 1).  Outer None = keyword omitted. *)
Record eng_raw := ER { r_backend : option (list N);                                   (* the string as ASCII codes *)
                       r_na : option (option (list N)); r_ea : option (option (list N));   (* omitted | None | list *)
                       r_wl : option bool; r_mm : option (option N) }.
Definition ascii_lower (c : N) : N := if (65 <=? c)%N && (c <=? 90)%N then (c + 32)%N else c.
Definition s_nx : list N := [110; 120]%N.
Definition s_mod : list N := [109; 111; 100]%N.
Definition s_rule : list N := [114; 117; 108; 101]%N.
Definition available_backends : list (list N) := s_nx :: (if rule_available then [s_mod] else []).
Definition r_backend_lower (r : eng_raw) : list N := map ascii_lower (match r_backend r with Some s => s | None => s_nx end).
Definition eng_ctor (r : eng_raw) : engine + N :=
  let be := r_backend_lower r in
  if negb (any (ln_eqb be) available_backends) then inr 3%N                          (* ValueError: unsupported backend *)
  else if ln_eqb be s_rule && negb rule_available then inr 2%N                        (* ImportError *)
  else inl (Eng (match r_na r with Some (Some l) => l | _ => [] end)
                (match r_ea r with Some (Some l) => l | _ => [] end)
                (match r_wl r with Some b => b | None => false end)
                (match r_mm r with Some m => m | None => Some 1%N end)).
Definition eng_of (r : eng_raw) : engine := match eng_ctor r with inl e => e | inr _ => Eng [] [] false None end.
Definition tctor (r : eng_raw) : tok :=
  match eng_ctor r with
  | inl e => L [tlist tN (e_na e); tlist tN (e_ea e); tbool (e_wl e); topt tN (e_mm e); tlist (tlist tN) available_backends]
  | inr k => L [tN 99; tN k; tlist (tlist tN) available_backends]
  end.

(** ---------- histories ---------- *)
Inductive query :=
| QIso (e i j : nat)
| QMaps (e host pattern : nat)
| QPre (e host pattern : nat)
| QSub (gm : bool) (child parent : nat) (use_filter induced : bool) (nc ec : cmp) (names : list (N * N)) (eattr : option N)
| QGiso (i j : nat) (dstar dzero done : N)
| QGiso0 (i j : nat)
| QFgi (i j : nat) (use_defaults fast : bool) (dstar dzero done : N)
| QEntry (fn : sub_fn) (child parent : nat) (o : sub_opts)
| QCtor (r : eng_raw)
| QObj (maps : bool) (e : nat) (i j : option nat)           (* isomorphic / get_mappings called with a non-Graph argument (None) *)
| QFgiT (t1 t2 : N) (i j : nat) (use_defaults fast : bool) (dstar dzero done : N)   (* graph classes: 0 Graph, 1 DiGraph, 2 MultiGraph, 3 MultiDiGraph *)
| QQpf (host pattern : nat) (na ea : list N) (thr : N).

Definition gnth (gs : list graph) (i : nat) : graph := nth i gs (LG [] []).
Definition enth (es : list engine) (i : nat) : engine := nth i es (Eng [] [] false None).

Definition tmapping (m : mapping) : tok := tset (tpair tN tN) m.
Definition tres (r : res) : tok := match r with RB b => tbool b | RErr k => L [tN 99; tN k] end.

Definition determined (e : engine) (H P : graph) : bool :=
  match e_mm e with
  | None => negb ((n_nodes P =? n_nodes H) && (n_edges P =? n_edges H))
  | Some _ => false
  end.

Definition step (gs : list graph) (es : list engine) (q : query) (c : cache) : tok * cache :=
  match q with
  | QIso e i j => let '(b, c') := isomorphic (enth es e) i (gnth gs i) j (gnth gs j) c in
                  (L [tbool b; tlist tN (iso_trace (enth es e) i (gnth gs i) j (gnth gs j) c)], c')
  | QPre e h p => let '(b, c') := pre_check (enth es e) h (gnth gs h) p (gnth gs p) c in (tbool b, c')
  | QMaps e h p =>
      let '(l, c') := get_mappings (enth es e) h (gnth gs h) p (gnth gs p) c in
      (L [tnat (length l); tset tmapping (if determined (enth es e) (gnth gs h) (gnth gs p) then l else []);
          tlist tN (maps_trace (enth es e) h (gnth gs h) p (gnth gs p) c)], c')
  | QSub _ ch pa f ind nc ec names eattr => (tbool (sub_iso f ind nc ec names eattr (gnth gs ch) (gnth gs pa)), c)
  | QGiso i j a b d => (tbool (giso a b d (gnth gs i) (gnth gs j)), c)
  | QGiso0 i j => (tbool (giso0 (gnth gs i) (gnth gs j)), c)
  | QFgi i j ud fa a b d =>
      (* [verdict; size of the mapping; was a matcher built (the fast invariant check did not reject)] *)
      (match fgi_map ud fa a b d (gnth gs i) (gnth gs j) with
       | Some m => L [tbool true; tnat (length m); tbool (negb (fa && negb (fgi_fast (gnth gs i) (gnth gs j))))]
       | None => L [tbool false; tnat 0; tbool (negb (fa && negb (fgi_fast (gnth gs i) (gnth gs j))))]
       end, c)
  | QEntry fn ch pa o => (L [tres (sub_entry fn o (gnth gs ch) (gnth gs pa)); tN (entry_trace fn o (gnth gs ch) (gnth gs pa))], c)
  | QCtor r => (tctor r, c)
  | QObj maps e i j =>
      (* `if not isinstance(g1, nx.Graph) or not isinstance(g2, nx.Graph): raise TypeError` comes before everything else *)
      match i, j with
      | Some i', Some j' =>
          if maps then let '(l, c') := get_mappings (enth es e) i' (gnth gs i') j' (gnth gs j') c in (tnat (length l), c')
          else let '(b, c') := isomorphic (enth es e) i' (gnth gs i') j' (gnth gs j') c in (tbool b, c')
      | _, _ => (L [tN 99; tN 1], c)
      end
  | QFgiT t1 t2 i j ud fa a b d =>
      (* `if type(G1) is not type(G2): return None` comes first; only two plain Graphs are modelled beyond that *)
      (if N.eqb t1 t2 then (if fgi ud fa a b d (gnth gs i) (gnth gs j) then tbool true else tbool false) else tbool false, c)
  | QQpf h p na ea thr =>
      (L [tbool (quick_pre_filter na (gnth gs h) (gnth gs p) thr); tnat (length (find_all na ea thr false (gnth gs h) (gnth gs p)));
          tnat (length (find_all na ea thr true (gnth gs h) (gnth gs p)))], c)
  end.

Fixpoint run_from (gs : list graph) (es : list engine) (qs : list query) (c : cache) : list tok :=
  match qs with
  | [] => []
  | q :: r => let '(t, c') := step gs es q c in t :: run_from gs es r c'
  end.

(** the cache after a history (observed by the correspondence: key set and histograms) *)
Fixpoint end_cache (gs : list graph) (es : list engine) (qs : list query) (c : cache) : cache :=
  match qs with
  | [] => c
  | q :: r => end_cache gs es r (snd (step gs es q c))
  end.

(** the key set of the cache after EVERY step (intermediate state observed by the correspondence) *)
Fixpoint cache_trace (gs : list graph) (es : list engine) (qs : list query) (c : cache) : list (list ckey) :=
  match qs with
  | [] => []
  | q :: r => let c' := snd (step gs es q c) in map fst c' :: cache_trace gs es r c'
  end.

(** histories in which the caller edits graph OBJECTS in place between queries: [HEdit i k] turns object i into the graph
    value k of the case; the object keeps its identity, so its cache entries stay (and go stale, as the class documents) *)
Inductive hstep := HQ (q : query) | HEdit (i k : nat) | HNew (i k : nat).
(** [HNew i k]: a NEW graph object takes the place of object i, holding graph value k — e.g. derived from another object of the
    history with copy() / subgraph(...).copy() / relabel_nodes and then edited.  The old object is gone and with it its entries of
    the weak table; the new object has none. *)
Definition drop_obj (i : nat) (c : cache) : cache := filter (fun kh : ckey * hist => negb (Nat.eqb (fst (fst kh)) i)) c.
Fixpoint set_nth {X : Type} (l : list X) (i : nat) (x : X) : list X :=
  match l, i with
  | [], _ => []
  | _ :: r, O => x :: r
  | y :: r, S i' => y :: set_nth r i' x
  end.
Fixpoint hist_trace (gs0 cur : list graph) (es : list engine) (hs : list hstep) (c : cache) : list (list ckey) :=
  match hs with
  | [] => []
  | HQ q :: r => let c' := snd (step cur es q c) in map fst c' :: hist_trace gs0 cur es r c'
  | HEdit i k :: r => hist_trace gs0 (set_nth cur i (gnth gs0 k)) es r c
  | HNew i k :: r => hist_trace gs0 (set_nth cur i (gnth gs0 k)) es r (drop_obj i c)
  end.
Fixpoint run_hist (gs0 cur : list graph) (es : list engine) (hs : list hstep) (c : cache) : list tok * cache :=
  match hs with
  | [] => ([], c)
  | HQ q :: r => let '(t, c') := step cur es q c in let '(ts, c'') := run_hist gs0 cur es r c' in (t :: ts, c'')
  | HEdit i k :: r => run_hist gs0 (set_nth cur i (gnth gs0 k)) es r c
  | HNew i k :: r => run_hist gs0 (set_nth cur i (gnth gs0 k)) es r (drop_obj i c)
  end.
End WithVF2.

Definition tblabel (b : blabel) : tok := tlist (topt tN) b.
Definition tcolour (c : colour) : tok := L [tblabel (fst c); tset tblabel (snd c)].
Definition thist (h : hist) : tok := tset (tpair tcolour tN) h.
Definition tcache (c : cache) : tok :=
  tset (fun kh : ckey * hist => L [tnat (fst (fst kh)); tlist tN (snd (fst kh)); thist (snd kh)]) c.

(** "no query modifies its input graphs": in the model every function is pure — the graph list is an argument that no function
    returns or rebinds ([run_hist] changes it only at an [HEdit] step, which is the caller's edit).  The implementation side of this
    observable is a flag computed by comparing every graph object with its expected value after every query. *)
Definition inputs_unmodified : tok := tbool true.

Definition tkeys (ks : list ckey) : tok := tset (fun k : ckey => L [tnat (fst k); tlist tN (snd k)]) ks.
Definition run (gs : list graph) (es : list engine) (qs : list query) : tok :=
  L (run_from has_mono (monos_g true) gs es qs [] ++
     [tlist tkeys (cache_trace has_mono (monos_g true) gs es qs []);
      tcache (end_cache has_mono (monos_g true) gs es qs []); inputs_unmodified]).

Definition run_h (gs0 : list graph) (nobj : nat) (es : list engine) (hs : list hstep) : tok :=
  let r := run_hist has_mono (monos_g true) gs0 (firstn nobj gs0) es hs [] in
  L (fst r ++ [tlist tkeys (hist_trace has_mono (monos_g true) gs0 (firstn nobj gs0) es hs []); tcache (snd r); inputs_unmodified]).
