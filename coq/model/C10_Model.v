(** C10 — executable model (definitions only; proofs are in proof/C10_*.v) of

      synkit/IO/nx_to_gml.py         NXToGML._charge_to_string, _find_changed_nodes, _convert_graph_to_gml,
                                     _rule_grammar, transform               (at RECORD level, see below)
      synkit/IO/gml_to_nx.py         GMLToNX._extract_element_and_charge, _parse_element,
                                     _synchronize_nodes_and_edges, transform (at RECORD level)
      synkit/IO/chem_converter.py    its_to_gml, gml_to_its, smart_to_gml (graph level: the RDKit half
                                     rsmi_to_graph is an input of the model, not part of it)
      synkit/Graph/Hyrogen/_misc.py  h_to_implicit, h_to_explicit, normalize_edge_orders
    plus the pieces of other anchors these functions call (own minimal copies, total on attribute
    dictionaries with missing keys):
      synkit/Graph/ITS/its_construction.py  ITSConstruction.ITSGraph
      synkit/Graph/ITS/its_decompose.py     get_rc, its_decompose
    and the networkx primitives they rely on (Graph.add_node / add_edge / remove_node / copy / edges
    iteration order / relabel_nodes(copy=True)).

    RECORD level: a GML rule is a list of sections, each a list of entries
    (node id label | edge source target label).  The rendering of a record as text and the line
    tokenisation of GMLToNX.transform (split on whitespace, section detection by substring) is glue and is
    covered by the correspondence check only.

    Conventions (DESIGN.md section 3): node ids N; strings whose content matters (element symbols, GML
    labels) are [list N] of code points; hcount / charge / atom_map are Z; bond orders are Z in HALF-UNITS
    (1.0 |-> 2, 1.5 |-> 3).  A networkx attribute dictionary with the six keys the anchored code touches
    is a record of options (None = key absent); keys the code never reads or writes on these paths
    ('neighbors', 'is_mtg', bond_type, ...) are not modelled.  Graphs are insertion ordered
    ([lgraph]: node list = dict order, edge list = order of first insertion). *)
From Coq Require Import List NArith ZArith Bool Ascii String Decimal DecimalN.
From SK Require Import lib.Tok lib.LGraph lib.StrJoin.
Import ListNotations.
Local Open Scope Z_scope.

(** * Strings as code-point lists *)
Definition s2l (s : string) : str := map N_of_ascii (list_ascii_of_string s).

Fixpoint str_eqb (a b : str) : bool :=
  match a, b with
  | [], [] => true
  | x :: a', y :: b' => N.eqb x y && str_eqb a' b'
  | _, _ => false
  end.

Definition c_plus : N := 43%N.   (* '+' *)
Definition c_minus : N := 45%N.  (* '-' *)
Definition s_H : str := [72%N].
Definition s_X : str := [88%N].
Definition s_star : str := [42%N].

(** ** decimal printing / parsing (Python str(int) / int(str) on ASCII digits) *)
Fixpoint uint_codes (d : Decimal.uint) : str :=
  match d with
  | Nil => []
  | D0 d => 48%N :: uint_codes d | D1 d => 49%N :: uint_codes d | D2 d => 50%N :: uint_codes d
  | D3 d => 51%N :: uint_codes d | D4 d => 52%N :: uint_codes d | D5 d => 53%N :: uint_codes d
  | D6 d => 54%N :: uint_codes d | D7 d => 55%N :: uint_codes d | D8 d => 56%N :: uint_codes d
  | D9 d => 57%N :: uint_codes d
  end.
Definition dec_of_N (n : N) : str := uint_codes (N.to_uint n).

Definition is_digit (c : N) : bool := (48 <=? c)%N && (c <=? 57)%N.
Definition digit_cons (c : N) (d : Decimal.uint) : Decimal.uint :=
  match (c - 48)%N with
  | 0%N => D0 d | 1%N => D1 d | 2%N => D2 d | 3%N => D3 d | 4%N => D4 d
  | 5%N => D5 d | 6%N => D6 d | 7%N => D7 d | 8%N => D8 d | _ => D9 d
  end.
Fixpoint codes_uint (s : str) : Decimal.uint :=
  match s with [] => Nil | c :: r => digit_cons c (codes_uint r) end.
(** int(num) for a non-empty string of ASCII digits (leading zeros allowed) *)
Definition N_of_dec (s : str) : N := N.of_uint (codes_uint s).

(** * NXToGML._charge_to_string *)
Definition charge_to_string (c : Z) : str :=
  if 0 <? c then (if c =? 1 then [c_plus] else dec_of_N (Z.to_N c) ++ [c_plus])
  else if c <? 0 then (if c =? -1 then [c_minus] else dec_of_N (Z.to_N (- c)) ++ [c_minus])
  else [].

(** * GMLToNX._extract_element_and_charge
    re.match(r"([A-Za-z*]+)(\d+)?([+-])?$", label): the three character classes are pairwise disjoint,
    so greedy spans decide the match (no backtracking can succeed where the spans fail).
    "$" also matches before one trailing newline. *)
Definition is_elem_char (c : N) : bool :=
  ((65 <=? c)%N && (c <=? 90)%N) || ((97 <=? c)%N && (c <=? 122)%N) || N.eqb c 42%N.

Fixpoint span (p : N -> bool) (s : str) : str * str :=
  match s with
  | [] => ([], [])
  | c :: r => if p c then let '(a, b) := span p r in (c :: a, b) else ([], s)
  end.

Definition at_end (s : str) : bool :=
  match s with [] => true | [c] => N.eqb c 10%N | _ => false end.

Definition extract_element_and_charge (label : str) : str * Z :=
  let '(e, r1) := span is_elem_char label in
  match e with
  | [] => (s_X, 0)
  | _ =>
    let '(d, r2) := span is_digit r1 in
    let '(sg, r3) := match r2 with
                     | c :: r => if N.eqb c c_plus || N.eqb c c_minus then (Some c, r) else (None, r2)
                     | [] => (None, [])
                     end in
    if at_end r3 then
      (e, match sg with
          | None => 0
          | Some c => let v := match d with [] => 1 | _ => Z.of_N (N_of_dec d) end in
                      if N.eqb c c_plus then v else - v
          end)
    else (s_X, 0)
  end.

(** * Attribute dictionaries and graphs *)
(** one half of 'typesGH': (element, aromatic, hcount, charge)  — the fifth component 'neighbors' is
    not read or written on any modelled path *)
Definition tg := (str * bool * Z * Z)%type.

Record natt := NA {
  a_el : option str; a_ar : option bool; a_hc : option Z; a_ch : option Z; a_am : option Z;
  a_tgh : option (tg * tg) }.
(** edge 'order': a scalar (molecule graphs, L/R graphs, the edges h_to_explicit adds) or a
    (before, after) pair (ITS graphs) *)
Inductive eord := OS (o : Z) | OP (a b : Z).
Record eatt := EA { e_ord : option eord; e_std : option Z }.
Definition gr := lgraph natt eatt.

Definition na_empty : natt := NA None None None None None None.
Definition orelse {A} (x y : option A) : option A := match x with Some _ => x | None => y end.
Definition dflt {A} (x : option A) (d : A) : A := match x with Some v => v | None => d end.
(** dict.update(new) on a dictionary [old] *)
Definition na_update (new old : natt) : natt :=
  NA (orelse (a_el new) (a_el old)) (orelse (a_ar new) (a_ar old)) (orelse (a_hc new) (a_hc old))
     (orelse (a_ch new) (a_ch old)) (orelse (a_am new) (a_am old)) (orelse (a_tgh new) (a_tgh old)).
Definition ea_update (new old : eatt) : eatt :=
  EA (orelse (e_ord new) (e_ord old)) (orelse (e_std new) (e_std old)).

(** ** networkx.Graph primitives on insertion-ordered lists *)
Definition g_empty : gr := LG [] [].

Fixpoint upd_node (n : N) (f : natt -> natt) (l : list (N * natt)) : list (N * natt) :=
  match l with
  | [] => []
  | (k, a) :: r => if N.eqb k n then (k, f a) :: r else (k, a) :: upd_node n f r
  end.
Definition set_node (g : gr) (n : N) (f : natt -> natt) : gr := LG (upd_node n f (gnodes g)) (gedges g).

(** G.add_node(n, **a) *)
Definition add_node (g : gr) (n : N) (a : natt) : gr :=
  if has_node g n then set_node g n (na_update a) else LG (gnodes g ++ [(n, a)]) (gedges g).

Definition has_edge (g : gr) (u v : N) : bool := match adj g u v with Some _ => true | None => false end.

Fixpoint upd_edge (u v : N) (f : eatt -> eatt) (es : list (N * N * eatt)) : list (N * N * eatt) :=
  match es with
  | [] => []
  | (a, b, x) :: r =>
      if (N.eqb a u && N.eqb b v) || (N.eqb a v && N.eqb b u) then (a, b, f x) :: r
      else (a, b, x) :: upd_edge u v f r
  end.

(** G.add_edge(u, v, **a): missing end points are created with empty dictionaries *)
Definition add_edge (g : gr) (u v : N) (a : eatt) : gr :=
  let g1 := add_node (add_node g u na_empty) v na_empty in
  if has_edge g1 u v then LG (gnodes g1) (upd_edge u v (ea_update a) (gedges g1))
  else LG (gnodes g1) (gedges g1 ++ [(u, v, a)]).

Definition remove_node (g : gr) (n : N) : gr :=
  LG (filter (fun p => negb (N.eqb (fst p) n)) (gnodes g))
     (filter (fun e : N * N * eatt => let '(a, b, _) := e in negb (N.eqb a n || N.eqb b n)) (gedges g)).

(** G.edges(data=True): for n in nodes: for nbr in adj[n] (insertion order): yield (n, nbr) unless nbr
    was an earlier n *)
Definition inc_unseen (seen : list N) (n : N) (es : list (N * N * eatt)) : list (N * N * eatt) :=
  flat_map (fun e : N * N * eatt => let '(a, b, x) := e in
              if N.eqb a n then (if mem b seen then [] else [(n, b, x)])
              else if N.eqb b n then (if mem a seen then [] else [(n, a, x)])
              else []) es.
Fixpoint edges_from (seen rest : list N) (es : list (N * N * eatt)) : list (N * N * eatt) :=
  match rest with
  | [] => []
  | n :: r => inc_unseen seen n es ++ edges_from (n :: seen) r es
  end.
Definition edges_iter (g : gr) : list (N * N * eatt) := edges_from [] (node_ids g) (gedges g).

(** G.copy(): nodes in order, edges re-inserted while walking the adjacency *)
Definition copy (g : gr) : gr := LG (gnodes g) (edges_iter g).

(** nx.relabel_nodes(G, mapping, copy=True) with a possibly partial, possibly colliding mapping
    (_relabel_copy): node order = first appearance of the new id; the attribute dictionary of the LAST
    old node mapped to an id wins (dict.update replaces it whole); edges are re-added in iteration
    order, a repeated pair merging its attributes *)
Definition mapget (m : list (N * N)) (n : N) : N := match assoc n m with Some x => x | None => n end.
Definition nx_relabel (m : list (N * N)) (g : gr) : gr :=
  let g1 := fold_left (fun acc (p : N * natt) => add_node acc (mapget m (fst p)) na_empty) (gnodes g) g_empty in
  let g2 := fold_left (fun acc (p : N * natt) => set_node acc (mapget m (fst p)) (fun _ => snd p)) (gnodes g) g1 in
  fold_left (fun acc (e : N * N * eatt) => let '(a, b, x) := e in add_edge acc (mapget m a) (mapget m b) x)
            (edges_iter g) g2.

(** * Hydrogen conversions (synkit/Graph/Hyrogen/_misc.py) *)
Definition el_is_H (a : natt) : bool := match a_el a with Some e => str_eqb e s_H | None => false end.
(** d.get("element") == "H" for node n of g *)
Definition is_H (g : gr) (n : N) : bool := match label g n with Some a => el_is_H a | None => false end.

Definition inc_h (a : natt) : natt :=
  NA (a_el a) (a_ar a) (Some (dflt (a_hc a) 0 + 1)) (a_ch a) (a_am a) (a_tgh a).

(** one iteration of the loop of h_to_implicit (repaired code: a hydrogen without a heavy neighbour —
    H2, H+, a lone H — is kept) *)
Definition himp_step (g : gr) (h : N) : gr :=
  match filter (fun n => negb (is_H g n)) (nbrs g h) with
  | [] => g
  | heavy => remove_node (fold_left (fun acc n => set_node acc n inc_h) heavy g) h
  end.
Definition h_to_implicit (g : gr) : gr :=
  let g0 := copy g in
  fold_left himp_step (filter (is_H g0) (node_ids g0)) g0.

(** the loop body as it was before the repair (every H node deleted); kept only for the documented
    witness in proof/C10_Hydrogen.v *)
Definition himp_step_old (g : gr) (h : N) : gr :=
  remove_node (fold_left (fun acc n => set_node acc n inc_h) (filter (fun n => negb (is_H g n)) (nbrs g h)) g) h.
Definition h_to_implicit_old (g : gr) : gr :=
  let g0 := copy g in
  fold_left himp_step_old (filter (is_H g0) (node_ids g0)) g0.

Definition tg_H : tg := (s_H, false, 0, 0).
Definition H_att : natt := NA (Some s_H) (Some false) (Some 0) (Some 0) (Some 0) (Some (tg_H, tg_H)).
Definition e_single : eatt := EA (Some (OS 2)) None.

Fixpoint add_hs (k : nat) (heavy : N) (st : gr * N) : gr * N :=
  match k with
  | O => st
  | S k' => let '(g, mx) := st in
            let mx' := N.succ mx in
            add_hs k' heavy (add_edge (add_node g mx' H_att) heavy mx' e_single, mx')
  end.

Definition sub_tgh (c : Z) (t : tg * tg) : tg * tg :=
  let '((e, a, h, q), t2) := t in ((e, a, h - c, q), t2).
Definition dec_h (c : Z) (a : natt) : natt :=
  NA (a_el a) (a_ar a) (Some (dflt (a_hc a) 0 - c)) (a_ch a) (a_am a)
     (match a_tgh a with Some t => Some (sub_tgh c t) | None => None end).

(** one iteration of the loop of h_to_explicit; state = (graph, max_node) *)
Definition hexp_step (st : gr * N) (heavy : N) : gr * N :=
  let '(g, mx) := st in
  match label g heavy with
  | None => st
  | Some a =>
      let c := dflt (a_hc a) 0 in
      if c <=? 0 then st
      else let '(g1, mx1) := add_hs (Z.to_nat c) heavy (g, mx) in (set_node g1 heavy (dec_h c), mx1)
  end.

Definition max_id (g : gr) : N := fold_left N.max (node_ids g) 0%N.

(** normalize_edge_orders *)
Definition norm_edge (x : eatt) : eatt :=
  EA (match e_ord x with Some (OS o) => Some (OP o o) | o => o end)
     (match e_std x with None => Some 0 | s => s end).
Definition normalize_edge_orders (g : gr) : gr :=
  LG (gnodes g) (map (fun e : N * N * eatt => let '(a, b, x) := e in (a, b, norm_edge x)) (gedges g)).

(** repaired code (61e730e): with its=True an ITS atom (one that carries typesGH) gets only the hydrogens it has on
    BOTH sides made explicit, and they are removed from both halves of typesGH *)
Definition sub_tgh_both (c : Z) (t : tg * tg) : tg * tg :=
  let '((e, a, h, q), (e2, a2, h2, q2)) := t in ((e, a, h - c, q), (e2, a2, h2 - c, q2)).
Definition dec_h_its (c : Z) (a : natt) : natt :=
  NA (a_el a) (a_ar a) (Some (dflt (a_hc a) 0 - c)) (a_ch a) (a_am a)
     (match a_tgh a with Some t => Some (sub_tgh_both c t) | None => None end).
Definition hexp_count (its : bool) (a : natt) : Z :=
  let c0 := dflt (a_hc a) 0 in
  match its, a_tgh a with
  | true, Some (_, (_, _, h2, _)) => Z.min c0 h2
  | _, _ => c0
  end.
(** one iteration of the loop of h_to_explicit for either mode ([hexp_step] above is the its=False instance) *)
Definition hexp_step_gen (its : bool) (st : gr * N) (heavy : N) : gr * N :=
  let '(g, mx) := st in
  match label g heavy with
  | None => st
  | Some a =>
      let c := hexp_count its a in
      if c <=? 0 then st
      else let '(g1, mx1) := add_hs (Z.to_nat c) heavy (g, mx) in
           (set_node g1 heavy (if its then dec_h_its c else dec_h c), mx1)
  end.

(** h_to_explicit(G, nodes, its); [nodes = None] is Python's None *)
Definition h_to_explicit (g : gr) (nodes : option (list N)) (its : bool) : gr :=
  let ns := match nodes with None | Some [] => node_ids g | Some l => l end in
  let g1 := fst (fold_left (hexp_step_gen its) ns (copy g, max_id g)) in
  if its then normalize_edge_orders g1 else g1.

(** * ITSConstruction.ITSGraph(G, H) (balance_its=False, store=False), own minimal copy.
    [eo] enumerates the set {frozenset((u, v))} of the union of the edge sets in the order (and
    orientation) Python happens to iterate it — an artefact handed in by the caller (any enumeration
    gives the same graph up to the order of its edge list). *)
Definition tg_dflt : tg := (s_star, false, 0, 0).
Definition tg_of (g : gr) (n : N) : tg :=
  match label g n with
  | Some a => (dflt (a_el a) s_star, dflt (a_ar a) false, dflt (a_hc a) 0, dflt (a_ch a) 0)
  | None => tg_dflt
  end.
Definition scal_order (g : gr) (u v : N) : Z :=
  match adj g u v with
  | Some x => match e_ord x with Some (OS o) => o | _ => 0 end
  | None => 0
  end.
Definition its_node (G H : gr) (n : N) (base : natt) : natt :=
  let '(e, a, h, c) := tg_of G n in
  NA (Some e) (Some a) (Some h) (Some c) (a_am base) (Some (tg_of G n, tg_of H n)).
Definition its_construct (G H : gr) (eo : list (N * N)) : gr :=
  let gfirst := (List.length (gnodes H) <=? List.length (gnodes G))%nat in
  let base := if gfirst then G else H in
  let other := if gfirst then H else G in
  let ns := gnodes base ++ filter (fun p => negb (has_node base (fst p))) (gnodes other) in
  fold_left (fun acc (e : N * N) =>
               let '(u, v) := e in
               let oG := scal_order G u v in let oH := scal_order H u v in
               add_edge acc u v (EA (Some (OP oG oH)) (Some (oG - oH))))
            eo (LG (map (fun p => (fst p, its_node G H (fst p) (snd p))) ns) []).

(** the union of the edge sets, G's pairs first (the default enumeration used where the order of the
    result is not observable) *)
Definition union_pairs (G H : gr) : list (N * N) :=
  map (fun e : N * N * eatt => let '(u, v, _) := e in (u, v)) (gedges G)
  ++ flat_map (fun e : N * N * eatt => let '(u, v, _) := e in if has_edge G u v then [] else [(u, v)]) (gedges H).

(** * get_rc (disconnected=False, keep_mtg=False), own minimal copy *)
Definition rc_attr (a : natt) : natt := NA (a_el a) None None (a_ch a) (a_am a) (a_tgh a).
Definition ensure_node (its rc : gr) (n : N) : gr :=
  if has_node rc n then rc
  else match label its n with Some a => LG (gnodes rc ++ [(n, rc_attr a)]) (gedges rc) | None => rc end.
Definition tgh_fallback : tg * tg := (tg_H, (s_star, false, 0, 0)).
Definition ensure_node_hh (its rc : gr) (n : N) : gr :=
  if has_node rc n then rc
  else match label its n with
       | Some a => let b := rc_attr a in
                   LG (gnodes rc ++ [(n, NA (a_el b) None None (a_ch b) (a_am b) (Some (dflt (a_tgh a) tgh_fallback)))])
                      (gedges rc)
       | None => rc
       end.
(** isinstance(std, (int, float)) and std != 0 *)
Definition changed (x : eatt) : bool := match e_std x with Some s => negb (s =? 0) | None => false end.
Definition rc_step1 (its rc : gr) (e : N * N * eatt) : gr :=
  let '(u, v, x) := e in
  if changed x then add_edge (ensure_node its (ensure_node its rc u) v) u v x else rc.
Definition rc_step2 (its rc : gr) (e : N * N * eatt) : gr :=
  let '(u, v, x) := e in
  if is_H its u && is_H its v then
    let rc1 := ensure_node_hh its (ensure_node_hh its rc u) v in
    if has_edge rc1 u v then rc1 else add_edge rc1 u v x
  else rc.
Definition get_rc (its : gr) : gr :=
  let es := edges_iter its in
  fold_left (rc_step2 its) es (fold_left (rc_step1 its) es g_empty).

(** * its_decompose, own minimal copy *)
Definition side_att (t : tg) (n : N) : natt :=
  let '(e, a, h, c) := t in NA (Some e) (Some a) (Some h) (Some c) (Some (Z.of_N n)) None.
Definition dec_nodes (its : gr) (st : gr * gr) : gr * gr :=
  fold_left (fun (acc : gr * gr) (p : N * natt) =>
               match a_tgh (snd p) with
               | Some (tG, tH) => (add_node (fst acc) (fst p) (side_att tG (fst p)),
                                   add_node (snd acc) (fst p) (side_att tH (fst p)))
               | None => acc
               end) (gnodes its) st.
Definition dec_edges (its : gr) (st : gr * gr) : gr * gr :=
  fold_left (fun (acc : gr * gr) (e : N * N * eatt) =>
               let '(u, v, x) := e in
               match e_ord x with
               | Some (OP oG oH) =>
                   (if 0 <? oG then add_edge (fst acc) u v (EA (Some (OS oG)) None) else fst acc,
                    if 0 <? oH then add_edge (snd acc) u v (EA (Some (OS oH)) None) else snd acc)
               | _ => acc
               end) (edges_iter its) st.
Definition its_decompose (its : gr) : gr * gr := dec_edges its (dec_nodes its (g_empty, g_empty)).

(** * GML records *)
Inductive gent := GNode (id : N) (label : str) | GEdge (s t : N) (label : str).
Inductive gsec := SLeft | SContext | SRight.
Definition grec := list (gsec * list gent).

(** order_to_label = {1: "-", 1.5: ":", 2: "=", 3: "#"}.get(order, "-") on a scalar order *)
Definition order_label (o : Z) : str :=
  if o =? 3 then [58%N] else if o =? 4 then [61%N] else if o =? 6 then [35%N] else [45%N].
(** the same lookup on whatever the 'order' attribute holds: a (before, after) tuple is never a key *)
Definition order_label_any (o : option eord) (missing : Z) : str :=
  match o with Some (OS z) => order_label z | Some (OP _ _) => [45%N] | None => order_label missing end.
(** label_to_order = {"-": 1, ":": 1.5, "=": 2, "#": 3}.get(label, 0) *)
Definition label_order (l : str) : Z :=
  match l with
  | [c] => if N.eqb c 45 then 2 else if N.eqb c 58 then 3 else if N.eqb c 61 then 4 else if N.eqb c 35 then 6 else 0
  | _ => 0
  end.

Definition node_label (a : natt) : str := dflt (a_el a) s_X ++ charge_to_string (dflt (a_ch a) 0).

(** NXToGML._find_changed_nodes(L, R, ["charge"]) *)
Definition find_changed (Lg Rg : gr) : list N :=
  flat_map (fun p : N * natt =>
              match label Rg (fst p) with
              | Some b => if match a_ch (snd p), a_ch b with
                             | Some x, Some y => x =? y
                             | None, None => true
                             | _, _ => false
                             end then [] else [fst p]
              | None => []
              end) (gnodes Lg).

(** NXToGML._convert_graph_to_gml for section "left" / "right" *)
Definition side_entries (g : gr) (changed_ids : list N) : list gent :=
  map (fun e : N * N * eatt => let '(u, v, x) := e in GEdge u v (order_label_any (e_ord x) 2)) (edges_iter g)
  ++ flat_map (fun p : N * natt => if mem (fst p) changed_ids then [GNode (fst p) (node_label (snd p))] else [])
              (gnodes g).
(** ... and for section "context" *)
Definition context_entries (g : gr) (changed_ids : list N) (explicit_h : bool) : list gent :=
  flat_map (fun p : N * natt => if mem (fst p) changed_ids then [] else [GNode (fst p) (node_label (snd p))])
           (gnodes g)
  ++ (if explicit_h then
        flat_map (fun e : N * N * eatt => let '(u, v, x) := e in
                    if match e_std x with Some s => s =? 0 | None => true end
                    then [GEdge u v (order_label_any (e_ord x) 0)] else [])
                 (edges_iter g)
      else []).

Fixpoint enum_from (k : N) (l : list N) : list (N * N) :=
  match l with [] => [] | n :: r => (n, k) :: enum_from (N.succ k) r end.

(** NXToGML.transform((L, R, K), reindex=, explicit_hydrogen=) *)
Definition nx_to_gml (Lg Rg Kg : gr) (reindex explicit_h : bool) : grec :=
  let K1 := if explicit_h then h_to_explicit Kg None false else Kg in
  let m := enum_from 1%N (node_ids Lg) in
  let '(L2, R2, K2) := if reindex then (nx_relabel m Lg, nx_relabel m Rg, nx_relabel m K1) else (Lg, Rg, K1) in
  let ch := find_changed L2 R2 in
  [(SLeft, side_entries L2 ch); (SContext, context_entries K2 ch explicit_h); (SRight, side_entries R2 ch)].

(** its_to_gml(its, core, reindex, explicit_hydrogen)  (repaired code: with core=True the centre is
    exported, not the graph that was passed in) *)
Definition its_to_gml (its : gr) (core reindex explicit_h : bool) : grec :=
  let c := if core then get_rc its else its in
  let '(r, p) := its_decompose c in
  nx_to_gml r p c reindex explicit_h.
(** as it was before the repair: left/right from the centre, context from the graph passed in *)
Definition its_to_gml_old (its : gr) (core reindex explicit_h : bool) : grec :=
  let '(r, p) := its_decompose (if core then get_rc its else its) in
  nx_to_gml r p its reindex explicit_h.

(** smart_to_gml(smart, core, reindex, explicit_hydrogen) after its RDKit half:
    (r, p) = rsmi_to_graph(smart) and [eo] = iteration artefact of ITSGraph *)
Definition smart_to_gml (r p : gr) (eo : list (N * N)) (core reindex explicit_h : bool) : grec :=
  let its := its_construct r p eo in
  let '(c, (r1, p1)) := if core then (let c := get_rc its in (c, its_decompose c)) else (its, (r, p)) in
  nx_to_gml r1 p1 c reindex explicit_h.

(** * GMLToNX on records *)
Definition sec_sel (s : gsec) (st : gr * gr * gr) : gr := let '(l, c, r) := st in match s with SLeft => l | SContext => c | SRight => r end.
Definition sec_set (s : gsec) (st : gr * gr * gr) (g : gr) : gr * gr * gr :=
  let '(l, c, r) := st in match s with SLeft => (g, c, r) | SContext => (l, g, r) | SRight => (l, c, g) end.

(** _parse_element *)
Definition parse_entry (g : gr) (e : gent) : gr :=
  match e with
  | GNode id lab => let '(el, ch) := extract_element_and_charge lab in
                    add_node g id (NA (Some el) None (Some 0) (Some ch) (Some (Z.of_N id)) None)
  | GEdge s t lab => add_edge g s t (EA (Some (OS (label_order lab))) None)
  end.

(** _synchronize_nodes_and_edges: context nodes / edges are copied into left and right *)
Definition sync_side (ctx side : gr) : gr :=
  let s1 := fold_left (fun acc (p : N * natt) => add_node acc (fst p) (snd p)) (gnodes ctx) side in
  fold_left (fun acc (e : N * N * eatt) => let '(u, v, x) := e in if has_edge acc u v then acc else add_edge acc u v x)
            (edges_iter ctx) s1.

(** GMLToNX(gml).transform() = (left, right, ITSGraph(left, right)) *)
Definition gml_to_nx (r : grec) : gr * gr * gr :=
  let '(l, c, rt) :=
    fold_left (fun st (sc : gsec * list gent) =>
                 sec_set (fst sc) st (fold_left parse_entry (snd sc) (sec_sel (fst sc) st)))
              r (g_empty, g_empty, g_empty) in
  let l' := sync_side c l in
  let r' := sync_side c rt in
  (l', r', its_construct l' r' (union_pairs l' r')).
Definition gml_to_its (r : grec) : gr := snd (gml_to_nx r).

(** * Observables *)
Definition t_str (s : str) : tok := tlist tN s.
Definition t_tg (t : tg) : tok := let '(e, a, h, c) := t in L [t_str e; tbool a; I h; I c].
Definition t_natt (a : natt) : tok :=
  L [topt t_str (a_el a); topt tbool (a_ar a); topt I (a_hc a); topt I (a_ch a); topt I (a_am a);
     topt (fun t : tg * tg => L [t_tg (fst t); t_tg (snd t)]) (a_tgh a)].
Definition t_eord (o : eord) : tok := match o with OS z => L [I z] | OP a b => L [I a; I b] end.
Definition t_eatt (x : eatt) : tok := L [topt t_eord (e_ord x); topt I (e_std x)].
Definition t_gr (g : gr) : tok :=
  L [tset (fun p : N * natt => L [tN (fst p); t_natt (snd p)]) (gnodes g);
     tset (fun e : N * N * eatt => let '(a, b, x) := e in L [tN (N.min a b); tN (N.max a b); t_eatt x]) (gedges g)].
(** the same with node order kept (where the order is part of what the code computes: reindexing) *)
Definition t_gr_ord (g : gr) : tok :=
  L [tlist tN (node_ids g); t_gr g].
Definition t_ent (e : gent) : tok :=
  match e with GNode id l => L [I 0; tN id; t_str l] | GEdge s t l => L [I 1; tN s; tN t; t_str l] end.
Definition t_sec (s : gsec) : tok := I (match s with SLeft => 0 | SContext => 1 | SRight => 2 end).
Definition t_rec (r : grec) : tok := tlist (fun sc : gsec * list gent => L [t_sec (fst sc); tlist t_ent (snd sc)]) r.

(** * run functions called by the correspondence stage *)
(** label sweep: one element, a list of charges -> (charge string, parsed element, parsed charge) *)
Definition run_label (el : str) (charges : list Z) : tok :=
  tlist (fun c => let cs := charge_to_string c in
                  let '(e, c') := extract_element_and_charge (el ++ cs) in
                  L [t_str cs; t_str e; I c']) charges.
(** arbitrary label strings through the parser *)
Definition run_extract (labels : list str) : tok :=
  tlist (fun l => let '(e, c) := extract_element_and_charge l in L [t_str e; I c]) labels.

(** hydrogen conversions *)
Definition run_hx (g : gr) (nodes : option (list N)) (its : bool) : tok :=
  let e := h_to_explicit g nodes its in
  L [t_gr e; t_gr (h_to_implicit e); t_gr (h_to_implicit g)].

(** parser on an arbitrary record *)
(** a self-loop edge in left or right makes ITSGraph raise (u, v = tuple(frozenset((u, u)))): reported as [-1] *)
Definition has_loop (g : gr) : bool := existsb (fun e : N * N * eatt => let '(a, b, _) := e in N.eqb a b) (gedges g).
Definition t_parsed (x : gr * gr * gr) : tok :=
  let '(l, r, i) := x in if has_loop l || has_loop r then L [I (-1)] else L [t_gr l; t_gr r; t_gr i].
Definition run_parse (r : grec) : tok := t_parsed (gml_to_nx r).

(** NXToGML.transform on an arbitrary triple, then the parser on the result *)
Definition run_transform (Lg Rg Kg : gr) (reindex explicit_h : bool) : tok :=
  let r := nx_to_gml Lg Rg Kg reindex explicit_h in L [t_rec r; t_parsed (gml_to_nx r)].

(** its_to_gml on an ITS graph (full or centre), with the intermediate centre and its two sides *)
Definition run_its (its : gr) (core reindex explicit_h : bool) : tok :=
  let c := if core then get_rc its else its in
  let '(r, p) := its_decompose c in
  let rec := its_to_gml its core reindex explicit_h in
  L [t_gr_ord c; t_gr_ord r; t_gr_ord p; t_rec rec; t_parsed (gml_to_nx rec)].

(** smart_to_gml after rsmi_to_graph *)
Definition run_smart (r p : gr) (eo : list (N * N)) (core reindex explicit_h : bool) : tok :=
  let rec := smart_to_gml r p eo core reindex explicit_h in
  L [t_gr (its_construct r p eo); t_rec rec; t_parsed (gml_to_nx rec)].

(** * Vocabulary of the theorems (props/C10.v) *)
(** hydrogens carried by one node: its implicit count, plus one if the node is itself a hydrogen atom *)
Definition node_h (a : natt) : Z := dflt (a_hc a) 0 + (if el_is_H a then 1 else 0).
Definition hsum (l : list (N * natt)) : Z := fold_right (fun p acc => node_h (snd p) + acc) 0 l.
(** total hydrogen count of a graph: sum of hcount + number of explicit H nodes *)
Definition total_h (g : gr) : Z := hsum (gnodes g).
(** the list h_to_implicit computes for a hydrogen node *)
Definition heavy_nbrs (g : gr) (h : N) : list N := filter (fun n => negb (is_H g n)) (nbrs g h).
(** domain of the hydrogen-count clause for h_to_implicit: every explicit H carries no implicit hydrogens of its
    own and has at most one heavy neighbour, which is a node of the graph *)
Definition h_ok_node (g : gr) (p : N * natt) : bool :=
  negb (el_is_H (snd p)) ||
  ((dflt (a_hc (snd p)) 0 =? 0) &&
   match heavy_nbrs g (fst p) with [] => true | [x] => has_node g x | _ => false end).
Definition h_dom (g : gr) : bool := forallb (h_ok_node g) (gnodes g).

(** domain of the GML round trip: a reaction-centre-shaped ITS graph — unique node ids, one edge entry per
    unordered pair, no self loops, edge end points are nodes; every node carries typesGH whose two halves name
    the same element (a symbol in [A-Za-z*]+), and its own element / charge are those of the reactant half (as
    ITSGraph and get_rc write them); every edge carries a (before, after) pair of orders from
    {absent, 1, 1.5, 2, 3}, not both absent, and standard_order = before - after *)
Fixpoint nodupb (l : list N) : bool := match l with [] => true | x :: r => negb (mem x r) && nodupb r end.
Fixpoint uniq_pairs (es : list (N * N * eatt)) : bool :=
  match es with
  | [] => true
  | (a, b, _) :: r => match find_edge a b r with None => uniq_pairs r | Some _ => false end
  end.
Definition elem_ok (e : str) : bool := match e with [] => false | _ => forallb is_elem_char e end.
Definition ord_ok (o : Z) : bool := (o =? 0) || (o =? 2) || (o =? 3) || (o =? 4) || (o =? 6).
Definition its_node_ok (a : natt) : bool :=
  match a_tgh a, a_el a, a_ch a with
  | Some ((e, _, _, q), (e', _, _, _)), Some el, Some ch => str_eqb el e && str_eqb e' e && elem_ok e && (ch =? q)
  | _, _, _ => false
  end.
Definition its_edge_ok (g : gr) (e : N * N * eatt) : bool :=
  let '(u, v, x) := e in
  negb (N.eqb u v) && has_node g u && has_node g v &&
  match e_ord x, e_std x with
  | Some (OP a b), Some s => ord_ok a && ord_ok b && negb ((a =? 0) && (b =? 0)) && (s =? a - b)
  | _, _ => false
  end.
Definition its_ok (g : gr) : bool :=
  nodupb (node_ids g) && uniq_pairs (gedges g) && forallb (fun p => its_node_ok (snd p)) (gnodes g)
  && forallb (its_edge_ok g) (gedges g).
(** projections of typesGH *)
Definition tg_el (t : tg) : str := let '(e, _, _, _) := t in e.
Definition tg_ch (t : tg) : Z := let '(_, _, _, c) := t in c.
Definition tG_of (a : natt) : tg := match a_tgh a with Some (t, _) => t | None => tg_dflt end.
Definition tH_of (a : natt) : tg := match a_tgh a with Some (_, t) => t | None => tg_dflt end.
(** what a node of the ITS read back from GML looks like: hcount 0, aromatic False, atom_map = node id *)
Definition gml_node (n : N) (e : str) (q q' : Z) : natt :=
  NA (Some e) (Some false) (Some 0) (Some q) (Some (Z.of_N n)) (Some ((e, false, 0, q), (e, false, 0, q'))).

(** * run functions that also evaluate the vocabulary of the theorems (compared with independent Python
      definitions by the correspondence stage, so that the predicates the theorems are stated with are tied to the
      implementation's data as well) *)
Definition run_hx2 (g : gr) (nodes : option (list N)) (its : bool) : tok :=
  L [run_hx g nodes its; I (total_h g); I (total_h (h_to_explicit g nodes its)); I (total_h (h_to_implicit g));
     tbool (h_dom (copy g)); tbool (nodupb (node_ids g))].
Definition run_its2 (its : gr) (core reindex explicit_h : bool) : tok :=
  L [run_its its core reindex explicit_h; tbool (its_ok (if core then get_rc its else its))].

(** domain of the hydrogen round trip: a networkx graph (unique ids, one entry per pair, end points are nodes)
    without explicit hydrogens *)
Definition gwfb (g : gr) : bool :=
  nodupb (node_ids g) && uniq_pairs (gedges g)
  && forallb (fun e : N * N * eatt => let '(a, b, _) := e in has_node g a && has_node g b) (gedges g).
Definition no_H (g : gr) : bool := forallb (fun p : N * natt => negb (el_is_H (snd p))) (gnodes g).
(** what h_to_explicit followed by h_to_implicit leaves at a node: everything as it was, except that the hcount
    stored in the reactant half of typesGH (if the node has one) was lowered by h_to_explicit and is not raised again *)
Definition h_restore (a : natt) : natt :=
  let c := dflt (a_hc a) 0 in
  if 0 <? c then NA (a_el a) (a_ar a) (a_hc a) (a_ch a) (a_am a)
                    (match a_tgh a with Some t => Some (sub_tgh c t) | None => None end)
  else a.
(** what h_to_explicit leaves at a node that was there before: hcount (and the reactant-half hcount of typesGH)
    lowered by the number of hydrogens made explicit; element, aromaticity, charge, atom_map untouched *)
Definition h_lowered (a : natt) : natt := let c := dflt (a_hc a) 0 in if 0 <? c then dec_h c a else a.
Definition no_tgh (g : gr) : bool :=
  forallb (fun p : N * natt => match a_tgh (snd p) with None => true | Some _ => false end) (gnodes g).

(** vocabulary of the two-routes theorem: every node of the ITS carries typesGH (as ITSGraph writes it) *)
Definition all_tgh (g : gr) : bool :=
  forallb (fun p : N * natt => match a_tgh (snd p) with Some _ => true | None => false end) (gnodes g).

(** ... and the domains of the later theorems *)
Definition run_hx3 (g : gr) (nodes : option (list N)) (its : bool) : tok :=
  L [run_hx2 g nodes its; tbool (gwfb g); tbool (no_H g); tbool (no_tgh g)].
Definition run_its3 (its : gr) (core reindex explicit_h : bool) : tok :=
  L [run_its2 its core reindex explicit_h; tbool (gwfb its); tbool (all_tgh its)].

(** * MolToGraph.transform / GraphToMol.graph_to_mol: the attribute copying between an RDKit molecule and the graph
    (synkit/IO/mol_to_graph.py:110-200, synkit/IO/graph_to_mol.py:48-135).  What the code reads from RDKit is an input of
    the model: per atom (in index order) GetSymbol, GetIsAromatic, GetTotalNumHs, GetFormalCharge, GetAtomMapNum; per bond
    GetBeginAtomIdx, GetEndAtomIdx, 2 * GetBondTypeAsDouble.  What it hands back to RDKit (the RWMol before sanitisation)
    is the output: per atom symbol, formal charge, atom map (if the key is present), NoImplicit + explicit H count (if the
    hcount key is present); per bond the two atom indices and 2 * the bond type as double. *)
Record ratom := RAt { r_sym : str; r_arom : bool; r_hs : Z; r_chg : Z; r_map : Z }.
Definition rmol := (list ratom * list (N * N * Z))%type.

Definition atom_id (ui : bool) (idx : N) (a : ratom) : N :=
  if ui && negb (r_map a =? 0) then Z.to_N (r_map a) else N.succ idx.
Definition atom_att (a : ratom) : natt :=
  NA (Some (r_sym a)) (Some (r_arom a)) (Some (r_hs a)) (Some (r_chg a)) (Some (r_map a)) None.
(** the node loop: state = (graph, index_to_id as an association list, latest binding first) *)
Fixpoint m2g_nodes (drop ui : bool) (idx : N) (atoms : list ratom) (st : gr * list (N * N)) : gr * list (N * N) :=
  match atoms with
  | [] => st
  | a :: r =>
      m2g_nodes drop ui (N.succ idx) r
        (if drop && (r_map a =? 0) then st
         else (add_node (fst st) (atom_id ui idx a) (atom_att a), (idx, atom_id ui idx a) :: snd st))
  end.
Definition m2g_bond (i2id : list (N * N)) (acc : gr) (b : N * N * Z) : gr :=
  let '(bi, ei, o) := b in
  match assoc bi i2id, assoc ei i2id with
  | Some u, Some v => add_edge acc u v (EA (Some (OS o)) None)
  | _, _ => acc
  end.
Definition mol_to_graph (m : rmol) (drop ui : bool) : gr :=
  let st := m2g_nodes drop ui 0%N (fst m) (g_empty, []) in
  fold_left (m2g_bond (snd st)) (snd m) (fst st).

Record watom := WAt { w_sym : str; w_chg : Z; w_map : option Z; w_hs : option Z }.
(** get_bond_type_from_order(abs(order)) in half-units: 1 -> SINGLE, 2 -> DOUBLE, 3 -> TRIPLE, anything else AROMATIC *)
Definition bond_type (o : Z) : Z :=
  let a := Z.abs o in if a =? 2 then 2 else if a =? 4 then 4 else if a =? 6 then 6 else 3.
Fixpoint index_of (n : N) (l : list N) (i : N) : option N :=
  match l with [] => None | x :: r => if N.eqb x n then Some i else index_of n r (N.succ i) end.
Definition g2m_atom (a : natt) : watom := WAt (dflt (a_el a) s_star) (dflt (a_ch a) 0) (a_am a) (a_hc a).
Definition g2m_bond (ids : list N) (e : N * N * eatt) : option (N * N * Z) :=
  let '(u, v, x) := e in
  match e_ord x with
  | Some (OP _ _) => None          (* abs() of a tuple raises *)
  | o => match index_of u ids 0%N, index_of v ids 0%N with
         | Some i, Some j => if N.eqb i j then None   (* RWMol.AddBond(i, i) raises *)
                             else Some (i, j, bond_type (match o with Some (OS z) => z | _ => 2 end))
         | _, _ => None
         end
  end.
(** None = the call raises (graph_to_smi then returns None) *)
Definition graph_to_mol (g : gr) : option (list watom * list (N * N * Z)) :=
  let bonds := map (g2m_bond (node_ids g)) (edges_iter g) in
  if forallb (fun b : option (N * N * Z) => match b with Some _ => true | None => false end) bonds
  then Some (map (fun p : N * natt => g2m_atom (snd p)) (gnodes g),
             flat_map (fun b : option (N * N * Z) => match b with Some x => [x] | None => [] end) bonds)
  else None.

Definition t_watom (a : watom) : tok := L [t_str (w_sym a); I (w_chg a); I (dflt (w_map a) 0); topt I (w_hs a)].
Definition t_wmol (m : option (list watom * list (N * N * Z))) : tok :=
  topt (fun x : list watom * list (N * N * Z) =>
          L [tlist t_watom (fst x);
             tset (fun b : N * N * Z => let '(i, j, o) := b in L [tN (N.min i j); tN (N.max i j); I o]) (snd x)]) m.
(** one molecule, one setting of (drop_non_aam, use_index_as_atom_map): the graph, and the molecule rebuilt from it *)
Definition run_molgraph (m : rmol) (drop ui : bool) : tok :=
  let g := mol_to_graph m drop ui in L [t_gr_ord g; t_wmol (graph_to_mol g)].

(** vocabulary of the molecule <-> graph theorem *)
Fixpoint bond_find (i j : N) (l : list (N * N * Z)) : option Z :=
  match l with
  | [] => None
  | (b, e, o) :: r => if (N.eqb b i && N.eqb e j) || (N.eqb b j && N.eqb e i) then Some o else bond_find i j r
  end.
(** an RDKit molecule as the code sees it: bonds join two different existing atoms, one bond per pair *)
Fixpoint wf_bonds (n : N) (l : list (N * N * Z)) : bool :=
  match l with
  | [] => true
  | (b, e, _) :: r => (b <? n)%N && (e <? n)%N && negb (N.eqb b e)
                      && match bond_find b e r with None => true | Some _ => false end && wf_bonds n r
  end.
Definition wf_mol (m : rmol) : bool := wf_bonds (N.of_nat (List.length (fst m))) (snd m).
Definition atom_back (a : ratom) : watom := WAt (r_sym a) (r_chg a) (Some (r_map a)) (Some (r_hs a)).

(** two node dictionaries that differ at most in hcount *)
Definition same_but_hc (a b : natt) : Prop :=
  a_el a = a_el b /\ a_ar a = a_ar b /\ a_ch a = a_ch b /\ a_am a = a_am b /\ a_tgh a = a_tgh b.

(** vocabulary of the end-to-end reaction-string theorem: a molecule graph as MolToGraph writes it (unique ids, one entry
    per bond between two different existing atoms, element symbol in [A-Za-z*]+ and charge present, scalar bond orders
    1 / 1.5 / 2 / 3); two such graphs on the same atoms with the same elements (an atom-balanced reaction); an
    enumeration of the union of the two edge sets (the iteration artefact of ITSGraph) *)
Definition mol_node_ok (a : natt) : bool :=
  match a_el a, a_ch a with Some e, Some _ => elem_ok e | _, _ => false end.
Definition mol_edge_ok (g : gr) (e : N * N * eatt) : bool :=
  let '(u, v, x) := e in
  negb (N.eqb u v) && has_node g u && has_node g v &&
  match e_ord x with Some (OS o) => (o =? 2) || (o =? 3) || (o =? 4) || (o =? 6) | _ => false end.
Definition mol_ok (g : gr) : bool :=
  nodupb (node_ids g) && uniq_pairs (gedges g) && forallb (fun p => mol_node_ok (snd p)) (gnodes g)
  && forallb (mol_edge_ok g) (gedges g).
Definition balanced (G H : gr) : bool :=
  forallb (fun p : N * natt => match label H (fst p) with
                               | Some b => str_eqb (dflt (a_el (snd p)) s_star) (dflt (a_el b) s_star)
                               | None => false
                               end) (gnodes G)
  && forallb (fun p : N * natt => has_node G (fst p)) (gnodes H).
Definition pair_in (u v : N) (eo : list (N * N)) : bool :=
  existsb (fun e : N * N => (N.eqb (fst e) u && N.eqb (snd e) v) || (N.eqb (fst e) v && N.eqb (snd e) u)) eo.
(** [eo] enumerates exactly the union of the two edge sets (boolean form of the premise of C10_smart_roundtrip) *)
Definition eo_covers (G H : gr) (eo : list (N * N)) : bool :=
  forallb (fun e : N * N => has_edge G (fst e) (snd e) || has_edge H (fst e) (snd e)) eo
  && forallb (fun e : N * N * eatt => pair_in (fst (fst e)) (snd (fst e)) eo) (gedges G)
  && forallb (fun e : N * N * eatt => pair_in (fst (fst e)) (snd (fst e)) eo) (gedges H).
Definition run_smart2 (r p : gr) (eo : list (N * N)) (core reindex explicit_h : bool) : tok :=
  L [run_smart r p eo core reindex explicit_h; tbool (mol_ok r); tbool (mol_ok p); tbool (balanced r p); tbool (eo_covers r p eo)].

(** no implicit hydrogens anywhere (a reaction centre as get_rc returns it: the hcount key is dropped) *)
Definition hc_free (g : gr) : bool := forallb (fun p : N * natt => dflt (a_hc (snd p)) 0 <=? 0) (gnodes g).

Definition run_its4 (its : gr) (core reindex explicit_h : bool) : tok :=
  L [run_its3 its core reindex explicit_h; tbool (hc_free (if core then get_rc its else its))].

(** the atoms h_to_explicit(G, nodes) visits: all of them for nodes = None or an empty list *)
Definition exp_nodes (g : gr) (nodes : option (list N)) : list N :=
  match nodes with None | Some [] => node_ids g | Some l => l end.

(** * Options of the converters: attribute selections (node_attrs / edge_attrs of smiles_to_graph, rsmi_to_graph, MolToGraph)
    MolToGraph keeps the keys of the selection: props = {k: v for k, v in props.items() if k in node_attrs}; None keeps all.
    Selecting commutes with the dictionary updates of add_node, so the selection is applied to the finished graph. *)
Record asel := AS { k_el : bool; k_ar : bool; k_hc : bool; k_ch : bool; k_am : bool }.
Definition asel_all : asel := AS true true true true true.
Definition pick {A} (b : bool) (x : option A) : option A := if b then x else None.
Definition sel_natt (s : asel) (a : natt) : natt :=
  NA (pick (k_el s) (a_el a)) (pick (k_ar s) (a_ar a)) (pick (k_hc s) (a_hc a)) (pick (k_ch s) (a_ch a))
     (pick (k_am s) (a_am a)) (a_tgh a).
Definition sel_graph (s : asel) (keep_order : bool) (g : gr) : gr :=
  LG (map (fun p : N * natt => (fst p, sel_natt s (snd p))) (gnodes g))
     (map (fun e : N * N * eatt => (fst e, EA (pick keep_order (e_ord (snd e))) (e_std (snd e)))) (gedges g)).
Definition mol_to_graph_sel (m : rmol) (drop ui : bool) (s : asel) (keep_order : bool) : gr :=
  sel_graph s keep_order (mol_to_graph m drop ui).

(** in-place edits a caller may apply to a returned graph (history cases) *)
Definition ed_set_hc (n : N) (v : Z) (g : gr) : gr :=
  set_node g n (fun a => NA (a_el a) (a_ar a) (Some v) (a_ch a) (a_am a) (a_tgh a)).
Definition ed_del_ch (n : N) (g : gr) : gr :=
  set_node g n (fun a => NA (a_el a) (a_ar a) (a_hc a) None (a_am a) (a_tgh a)).
Definition ed_set_ch (n : N) (v : Z) (g : gr) : gr :=
  set_node g n (fun a => NA (a_el a) (a_ar a) (a_hc a) (Some v) (a_am a) (a_tgh a)).

(** * More of the API surface (round 3) *)
(** ** MolToGraph.mol_to_graph(mol, drop_non_aam, light_weight, use_index_as_atom_map)
    light_weight=False is _create_detailed_graph: the same node and bond loops as transform ("if b and e" instead of
    "is None": ids are >= 1).  light_weight=True is _create_light_weight_graph: ONE loop over the atoms, each atom adds its
    own node and then an edge for each of its bonds (atom.GetBonds() order, given as [ab]: per atom the list of
    (neighbour index, 2 * bond type)), so a neighbour may enter the graph (with an empty dictionary) before its own turn. *)
Definition nth_atom (atoms : list ratom) (i : N) : option ratom := nth_error atoms (N.to_nat i).
Definition light_bond (atoms : list ratom) (drop ui : bool) (id : N) (acc : gr) (b : N * Z) : gr :=
  match nth_atom atoms (fst b) with
  | Some nb => if negb drop || negb (r_map nb =? 0)
               then add_edge acc id (atom_id ui (fst b) nb) (EA (Some (OS (snd b))) None) else acc
  | None => acc
  end.
Fixpoint light_loop (atoms : list ratom) (drop ui : bool) (idx : N) (rest : list (ratom * list (N * Z))) (g : gr) : gr :=
  match rest with
  | [] => g
  | (a, bs) :: r =>
      light_loop atoms drop ui (N.succ idx) r
        (if drop && (r_map a =? 0) then g
         else fold_left (light_bond atoms drop ui (atom_id ui idx a)) bs (add_node g (atom_id ui idx a) (atom_att a)))
  end.
Definition mol_to_graph_light (m : rmol) (ab : list (list (N * Z))) (drop ui : bool) : gr :=
  light_loop (fst m) drop ui 0%N (combine (fst m) ab) g_empty.

(** ** GraphToMol.graph_to_mol(graph, ignore_bond_order, sanitize, use_h_count) *)
Definition g2m_bond_gen (ignore : bool) (ids : list N) (e : N * N * eatt) : option (N * N * Z) :=
  let '(u, v, x) := e in
  match (if ignore then None else e_ord x) with
  | Some (OP _ _) => None
  | o => match index_of u ids 0%N, index_of v ids 0%N with
         | Some i, Some j => if N.eqb i j then None
                             else Some (i, j, if ignore then 2 else bond_type (match o with Some (OS z) => z | _ => 2 end))
         | _, _ => None
         end
  end.
Definition graph_to_mol_gen (ignore use_h : bool) (g : gr) : option (list watom * list (N * N * Z)) :=
  let bonds := map (g2m_bond_gen ignore (node_ids g)) (edges_iter g) in
  if forallb (fun b : option (N * N * Z) => match b with Some _ => true | None => false end) bonds
  then Some (map (fun p : N * natt => let a := snd p in WAt (dflt (a_el a) s_star) (dflt (a_ch a) 0) (a_am a) (pick use_h (a_hc a)))
                 (gnodes g),
             flat_map (fun b : option (N * N * Z) => match b with Some x => [x] | None => [] end) bonds)
  else None.

(** ** implicit_hydrogen(graph, preserve_atom_maps, reindex=False) (repaired code 7332273: works on a real copy; 3ba7a77: a
    hydrogen without a non-hydrogen neighbour is kept), the path graph_to_smi / graph_to_rsmi take when hydrogens are to stay
    explicit: every heavy atom takes its hydrogen neighbours into hcount, the preserved hydrogens (by atom map) are given back,
    the other hydrogens that were folded into a neighbour are removed *)
Definition add_hc (d : Z) (a : natt) : natt :=
  NA (a_el a) (a_ar a) (Some (dflt (a_hc a) 0 + d)) (a_ch a) (a_am a) (a_tgh a).
Definition memZ (x : Z) (l : list Z) : bool := existsb (Z.eqb x) l.
(** everything up to the removal: (the copy, the graph with the counts adjusted, the preserved hydrogens) *)
Definition imph_counts (g : gr) (preserve : list Z) : gr * gr * list N :=
  let g0 := copy g in
  let g1 := fold_left (fun acc n => if is_H g0 n then acc
                                    else set_node acc n (add_hc (Z.of_nat (List.length (filter (is_H g0) (nbrs g0 n))))))
                      (node_ids g0) g0 in
  let pres := filter (fun n => is_H g0 n && match label g0 n with Some a => memZ (dflt (a_am a) 0) preserve | None => false end)
                     (node_ids g0) in
  let g2 := fold_left (fun acc h => fold_left (fun acc2 nb => if is_H g0 nb then acc2 else set_node acc2 nb (add_hc (-1)))
                                              (nbrs g0 h) acc) pres g1 in
  (g0, g2, pres).
Definition has_heavy_nbr (g0 : gr) (n : N) : bool := existsb (fun nb => negb (is_H g0 nb)) (nbrs g0 n).
Definition implicit_hydrogen (g : gr) (preserve : list Z) : gr :=
  let '(g0, g2, pres) := imph_counts g preserve in
  fold_left remove_node (filter (fun n => is_H g0 n && negb (mem n pres) && has_heavy_nbr g0 n) (node_ids g0)) g2.
(** as it was before repair 3ba7a77 (every non-preserved hydrogen removed); kept for the documented witness in
    proof/C10_Select.v *)
Definition implicit_hydrogen_old (g : gr) (preserve : list Z) : gr :=
  let '(g0, g2, pres) := imph_counts g preserve in
  fold_left remove_node (filter (fun n => is_H g0 n && negb (mem n pres)) (node_ids g0)) g2.
(** graph_to_smi(graph, preserve_atom_maps) up to the RWMol *)
Definition graph_to_smi_mol (g : gr) (preserve : list Z) : option (list watom * list (N * N * Z)) :=
  match preserve with [] => graph_to_mol g | _ => graph_to_mol (implicit_hydrogen g preserve) end.
Definition graph_to_smi_mol_old (g : gr) (preserve : list Z) : option (list watom * list (N * N * Z)) :=
  match preserve with [] => graph_to_mol g | _ => graph_to_mol (implicit_hydrogen_old g preserve) end.

(** vocabulary of C10_rsmi_graph_mol_ok: RDKit bond types, and the mapped atoms of a molecule as (node id, attributes) *)
Definition okord (o : Z) : bool := (o =? 2) || (o =? 3) || (o =? 4) || (o =? 6).
Fixpoint numT (l : list ratom) : list (N * natt) :=
  match l with [] => [] | a :: r => (if r_map a =? 0 then [] else [(Z.to_N (r_map a), atom_att a)]) ++ numT r end.
(** an RDKit molecule as rsmi_to_graph needs it: element symbols in [A-Za-z*]+, single / aromatic / double / triple bonds,
    distinct map numbers on the mapped atoms *)
Definition rdmol_ok (m : rmol) : bool :=
  wf_mol m && forallb (fun a => elem_ok (r_sym a)) (fst m) && forallb (fun b : N * N * Z => okord (snd b)) (snd m)
  && nodupb (map fst (numT (fst m))).

(** ** NXToGML.transform(..., attributes=[...]): the attributes whose change moves a node from context to left/right
    (default ["charge"]); value1 != value2 with None for a missing key *)
Definition opt_eqb {A} (eqb : A -> A -> bool) (x y : option A) : bool :=
  match x, y with Some a, Some b => eqb a b | None, None => true | _, _ => false end.
Definition natt_diff (s : asel) (a b : natt) : bool :=
  (k_el s && negb (opt_eqb str_eqb (a_el a) (a_el b))) || (k_ar s && negb (opt_eqb Bool.eqb (a_ar a) (a_ar b)))
  || (k_hc s && negb (opt_eqb Z.eqb (a_hc a) (a_hc b))) || (k_ch s && negb (opt_eqb Z.eqb (a_ch a) (a_ch b)))
  || (k_am s && negb (opt_eqb Z.eqb (a_am a) (a_am b))).
Definition find_changed_sel (s : asel) (Lg Rg : gr) : list N :=
  flat_map (fun p : N * natt => match label Rg (fst p) with
                                | Some b => if natt_diff s (snd p) b then [fst p] else []
                                | None => []
                                end) (gnodes Lg).
Definition nx_to_gml_sel (s : asel) (Lg Rg Kg : gr) (reindex explicit_h : bool) : grec :=
  let K1 := if explicit_h then h_to_explicit Kg None false else Kg in
  let m := enum_from 1%N (node_ids Lg) in
  let '(L2, R2, K2) := if reindex then (nx_relabel m Lg, nx_relabel m Rg, nx_relabel m K1) else (Lg, Rg, K1) in
  let ch := find_changed_sel s L2 R2 in
  [(SLeft, side_entries L2 ch); (SContext, context_entries K2 ch explicit_h); (SRight, side_entries R2 ch)].
Definition asel_charge : asel := AS false false false true false.
(** a record up to entry order and edge orientation (where the atom order of the molecule is RDKit's affair) *)
Definition t_ent_norm (e : gent) : tok :=
  match e with GNode id l => L [I 0; tN id; t_str l] | GEdge s t l => L [I 1; tN (N.min s t); tN (N.max s t); t_str l] end.
Definition t_rec_norm (r : grec) : tok := tlist (fun sc : gsec * list gent => L [t_sec (fst sc); tset t_ent_norm (snd sc)]) r.

(** molecule graphs carry no standard_order on their bonds (MolToGraph writes only 'order') *)
Definition std_free (g : gr) : bool :=
  forallb (fun e : N * N * eatt => match e_std (snd e) with None => true | Some _ => false end) (gedges g).
Definition run_smart3 (r p : gr) (eo : list (N * N)) (core reindex explicit_h : bool) : tok :=
  L [run_smart2 r p eo core reindex explicit_h; tbool (std_free r && std_free p)].

(** ** has_XH / has_HH (synkit/Graph/Hyrogen/_misc.py): a bond between a hydrogen and a heavy atom in EITHER orientation of
    the edge, resp. between two hydrogens; G.nodes[u].get("element") == "H" *)
Definition has_XH (g : gr) : bool :=
  existsb (fun e : N * N * eatt => let '(u, v, _) := e in
             (negb (is_H g u) && is_H g v) || (negb (is_H g v) && is_H g u)) (edges_iter g).
Definition has_HH (g : gr) : bool :=
  existsb (fun e : N * N * eatt => let '(u, v, _) := e in is_H g u && is_H g v) (edges_iter g).
Definition run_hx4 (g : gr) (nodes : option (list N)) (its : bool) : tok :=
  L [run_hx3 g nodes its; tbool (has_XH g); tbool (has_HH g); tbool (has_XH (h_to_explicit g nodes its)); tbool (has_XH (h_to_implicit g))].
