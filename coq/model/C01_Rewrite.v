(** C01 — vocabulary of the theorems about the property's quantifier "every SMILES re-rooting / fragment reordering /
    reversal" (proof/C01_RewriteProof.v, props/C01.v theorems 36-38).  Definitions only. *)
From Coq Require Import List NArith ZArith Bool.
From SK Require Import lib.Tok lib.LGraph model.C01_Model model.C01_String.
Import ListNotations.
Local Open Scope Z_scope.

(** [m'] is [m] written in another atom order: [s] sends the index of every atom of [m] to the index of the same atom in
    [m'] (all six read-off fields equal, 'neighbors' included), both have the same number of atoms, and the bonds of [m']
    are exactly the bonds of [m] between the renumbered ends, in either direction, in any order. *)
Definition rewritten (s : nat -> nat) (m m' : rmol) : Prop :=
  length (rm_atoms m') = length (rm_atoms m) /\
  (forall i j, (i < length (rm_atoms m))%nat -> (j < length (rm_atoms m))%nat -> s i = s j -> i = j) /\
  (forall i a, nth_error (rm_atoms m) i = Some a -> nth_error (rm_atoms m') (s i) = Some a) /\
  (forall i j o, In (i, j, o) (rm_bonds m) -> In (s i, s j, o) (rm_bonds m') \/ In (s j, s i, o) (rm_bonds m')) /\
  (forall i' j' o, In (i', j', o) (rm_bonds m') ->
     exists i j, (In (i, j, o) (rm_bonds m) \/ In (j, i, o) (rm_bonds m)) /\ i' = s i /\ j' = s j) /\
  (forall i j o, In (i, j, o) (rm_bonds m) -> (i < length (rm_atoms m))%nat /\ (j < length (rm_atoms m))%nat).


(** reversal of a reaction, on the ITS *)
Definition swap_iedge (x : iedge) : iedge := IE (e_H x) (e_G x) (- e_std x).
(** the ITS node of the reversed reaction: typesGH swapped, top-level attributes = the new reactant side *)
Definition swap_inode (a : inode) : inode :=
  IN (a_el (i_H a)) (a_ch (i_H a)) (i_amap a) (Some (a_arom (i_H a), a_hc (i_H a), a_nb (i_H a))) (i_H a) (i_G a).


(** ** an executable test of [rewritten] (sound: proof/C01_RewriteCheck.v), run by the correspondence on what RDKit reads
    from a SMILES and from its re-rooted / fragment-shuffled rewriting: the renumbering is given as the list of images *)
Fixpoint list_eqb {X} (e : X -> X -> bool) (l1 l2 : list X) : bool :=
  match l1, l2 with
  | [], [] => true
  | x :: r1, y :: r2 => e x y && list_eqb e r1 r2
  | _, _ => false
  end.
Definition ratom_eqb (a b : ratom) : bool :=
  N.eqb (ra_el a) (ra_el b) && Bool.eqb (ra_arom a) (ra_arom b) && Z.eqb (ra_hs a) (ra_hs b) && Z.eqb (ra_ch a) (ra_ch b) &&
  N.eqb (ra_map a) (ra_map b) && list_eqb N.eqb (ra_nb a) (ra_nb b).
Definition s_of (sl : list nat) (i : nat) : nat := nth i sl i.
Definition bond_eqb (b c : nat * nat * Z) : bool :=
  Nat.eqb (fst (fst b)) (fst (fst c)) && Nat.eqb (snd (fst b)) (snd (fst c)) && Z.eqb (snd b) (snd c).
Definition bond_in (b : nat * nat * Z) (bs : list (nat * nat * Z)) : bool := existsb (bond_eqb b) bs.
Fixpoint nodupb (l : list nat) : bool :=
  match l with [] => true | x :: r => negb (existsb (Nat.eqb x) r) && nodupb r end.

Definition rewrittenb (sl : list nat) (m m' : rmol) : bool :=
  let n := length (rm_atoms m) in
  let s := s_of sl in
  Nat.eqb (length (rm_atoms m')) n && Nat.eqb (length sl) n && nodupb sl &&
  forallb (fun i => match nth_error (rm_atoms m) i, nth_error (rm_atoms m') (s i) with
                    | Some a, Some b => ratom_eqb a b
                    | _, _ => false
                    end) (seq 0 n) &&
  forallb (fun b : nat * nat * Z => let '(i, j, o) := b in bond_in (s i, s j, o) (rm_bonds m') || bond_in (s j, s i, o) (rm_bonds m')) (rm_bonds m) &&
  forallb (fun b' : nat * nat * Z => let '(i', j', o) := b' in
             existsb (fun b : nat * nat * Z => let '(i, j, o2) := b in
                        Z.eqb o o2 && ((Nat.eqb (s i) i' && Nat.eqb (s j) j') || (Nat.eqb (s j) i' && Nat.eqb (s i) j'))) (rm_bonds m))
          (rm_bonds m') &&
  forallb (fun b : nat * nat * Z => let '(i, j, _) := b in Nat.ltb i n && Nat.ltb j n) (rm_bonds m).

Definition run_rw_premise (sl : list nat) (m m' : rmol) : tok := L [tbool (rewrittenb sl m m')].
