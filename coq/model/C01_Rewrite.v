(** C01 — vocabulary of the theorems about the property's quantifier "every SMILES re-rooting / fragment reordering /
    reversal" (proof/C01_RewriteProof.v, props/C01.v theorems 36-38).  Definitions only. *)
From Coq Require Import List NArith ZArith Bool.
From SK Require Import lib.LGraph model.C01_Model model.C01_String.
Import ListNotations.
Local Open Scope Z_scope.

(** [m'] is [m] written in another atom order: [s] sends the index of every atom of [m] to the index of the same atom in
    [m'] (all six read-off fields equal, 'neighbors' included), both have the same number of atoms, and the bonds of [m']
    are exactly the bonds of [m] between the renumbered ends, in either direction, in any order. *)
Definition rewritten (s : nat -> nat) (m m' : rmol) : Prop :=
  length (rm_atoms m') = length (rm_atoms m) /\
  (forall i j, (i < length (rm_atoms m))%nat -> (j < length (rm_atoms m))%nat -> s i = s j -> i = j) /\
  (forall i a, nth_error (rm_atoms m) i = Some a -> nth_error (rm_atoms m') (s i) = Some a) /\
  (forall i j o, In (i, j, o) (rm_bonds m) -> In (s i, s j, o) (rm_bonds m') \/ In (s j, s i, o) (rm_bonds m')) /\
  (forall i' j' o, In (i', j', o) (rm_bonds m') ->
     exists i j, (In (i, j, o) (rm_bonds m) \/ In (j, i, o) (rm_bonds m)) /\ i' = s i /\ j' = s j) /\
  (forall i j o, In (i, j, o) (rm_bonds m) -> (i < length (rm_atoms m))%nat /\ (j < length (rm_atoms m))%nat).


(** reversal of a reaction, on the ITS *)
Definition swap_iedge (x : iedge) : iedge := IE (e_H x) (e_G x) (- e_std x).
(** the ITS node of the reversed reaction: typesGH swapped, top-level attributes = the new reactant side *)
Definition swap_inode (a : inode) : inode :=
  IN (a_el (i_H a)) (a_ch (i_H a)) (i_amap a) (Some (a_arom (i_H a), a_hc (i_H a), a_nb (i_H a))) (i_H a) (i_G a).

