(** C02 (round 5) — synkit/Graph/ITS/its_decompose.py  compare_graphs(graph1, graph2, node_attrs, edge_attrs):
    the library's own comparator of two graphs on selected node and edge attributes (same atom ids, equal selected labels,
    same bonded pairs, equal selected bond attributes; an absent attribute reads as None on both sides).
    Over the graphs of model/C02_Model.v ([xits]: optional labels, optional is_mtg).  Definitions only. *)
From Coq Require Import List NArith ZArith Bool.
From SK Require Import lib.Tok lib.LGraph model.C01_Model model.C02_Model.
Import ListNotations.
Local Open Scope Z_scope.

(** edge_attrs as the set of the three bond attributes it contains: order, standard_order, is_mtg *)
Record esel := ES { s_order : bool; s_std : bool; s_mtg : bool }.
Definition E_default : esel := ES true false false.                         (* ["order"] *)
(** {attr: graph.edges[e].get(attr, None) for attr in edge_attrs} *)
Definition sel_edge (E : esel) (x : xedge) : option (Z * Z) * option Z * option bool :=
  (pick (s_order E) (Some (e_G (fst x), e_H (fst x))), pick (s_std E) (Some (e_std (fst x))), pick (s_mtg E) (snd x)).

(** decidable equality of label values *)
Definition opt_eqb {T} (eqb : T -> T -> bool) (a b : option T) : bool :=
  match a, b with Some x, Some y => eqb x y | None, None => true | _, _ => false end.
Fixpoint list_eqb {T} (eqb : T -> T -> bool) (a b : list T) : bool :=
  match a, b with [] , [] => true | x :: r, y :: s => eqb x y && list_eqb eqb r s | _, _ => false end.
Definition nattr_eqb (a b : nattr) : bool :=
  N.eqb (a_el a) (a_el b) && Bool.eqb (a_arom a) (a_arom b) && (a_hc a =? a_hc b) && (a_ch a =? a_ch b) && list_eqb N.eqb (a_nb a) (a_nb b).
Definition xnode_eqb (a b : xnode) : bool :=
  opt_eqb N.eqb (x_el a) (x_el b) && opt_eqb Z.eqb (x_ch a) (x_ch b) && opt_eqb Z.eqb (x_amap a) (x_amap b) &&
  opt_eqb Bool.eqb (x_arom a) (x_arom b) && opt_eqb Z.eqb (x_hc a) (x_hc b) && opt_eqb (list_eqb N.eqb) (x_nb a) (x_nb b) &&
  opt_eqb (fun s t : nattr * nattr => nattr_eqb (fst s) (fst t) && nattr_eqb (snd s) (snd t)) (x_gh a) (x_gh b).
Definition seledge_eqb (a b : option (Z * Z) * option Z * option bool) : bool :=
  opt_eqb (fun s t : Z * Z => (fst s =? fst t) && (snd s =? snd t)) (fst (fst a)) (fst (fst b)) &&
  opt_eqb Z.eqb (snd (fst a)) (snd (fst b)) && opt_eqb Bool.eqb (snd a) (snd b).

Definition subset (l1 l2 : list N) : bool := forallb (fun n => LGraph.mem n l2) l1.

Definition compare_graphs_x (NA : keysel) (EA : esel) (g1 g2 : xits) : bool :=
  (* set(graph1.nodes()) == set(graph2.nodes()) *)
  subset (node_ids g1) (node_ids g2) && subset (node_ids g2) (node_ids g1) &&
  (* selected node attributes *)
  forallb (fun p : N * xnode => match label g2 (fst p) with
                                | Some b => xnode_eqb (sel_attr NA (snd p)) (sel_attr NA b)
                                | None => false end) (gnodes g1) &&
  (* the sets of bonded pairs *)
  forallb (fun e : N * N * xedge => let '(u, v, _) := e in match adj g2 u v with Some _ => true | None => false end) (gedges g1) &&
  forallb (fun e : N * N * xedge => let '(u, v, _) := e in match adj g1 u v with Some _ => true | None => false end) (gedges g2) &&
  (* selected bond attributes *)
  forallb (fun e : N * N * xedge => let '(u, v, x) := e in match adj g2 u v with
                                                          | Some y => seledge_eqb (sel_edge EA x) (sel_edge EA y)
                                                          | None => false end) (gedges g1).

(** every node attribute / every bond attribute selected *)
Definition K_all : keysel := KS true true true true true true true.
Definition E_all : esel := ES true true true.

(** ** observable: the comparison of two graphs under several selections, then the library's comparator applied to the
    idempotence clause: compare_graphs(get_rc(get_rc(g1)), get_rc(g1)) on all attributes *)
Definition run_compare (sels : list (keysel * esel)) (g1 g2 : xits) : tok :=
  L [tlist (fun s : keysel * esel => L [tbool (compare_graphs_x (fst s) (snd s) g1 g2); tbool (compare_graphs_x (fst s) (snd s) g2 g1)]) sels;
     tbool (compare_graphs_x K_all E_all (get_rc_x K_default false false (get_rc_x K_default false false g1)) (get_rc_x K_default false false g1));
     tbool (compare_graphs_x K_all E_all (get_rc_x K_default false false g1) g1)].
