(** C17 — executable model of the integer-scaling helpers of synkit/CRN/Props/stoich.py:
      _lcm, _vector_to_minimal_integer, the loop of integer_conservation_laws
    and of fractions.Fraction.limit_denominator (CPython 3.12) which they call.  Definitions only; proofs in
    proof/C17_IntLaws.v.

    A float is given EXACTLY, as the pair float.as_integer_ratio() = (numerator, denominator) with a positive
    denominator (a power of two) — Fraction(x) is exact, and every comparison of the code up to the two fall-back
    branches is a comparison of such rationals.  The two fall-back branches (LCM of the denominators above 10^6;
    all scaled integers zero) round floats ([int(round(x * scale))] on the normalised vector): they are OUTSIDE the
    model, which answers [None] there (the harness observes which branch the code took). *)
From Coq Require Import ZArith List Bool.
Import ListNotations.
From SK Require Import lib.Tok.
Local Open Scope Z_scope.

Definition frac := (Z * Z)%type.            (* (p, q): p / q, q > 0 *)

(** |x| <= tol for exact rationals with positive denominators *)
Definition abs_le (x tol : frac) : bool := Z.abs (fst x) * snd tol <=? fst tol * snd x.

(** Fraction.limit_denominator: the continued-fraction loop
      p0, q0, p1, q1 = 0, 1, 1, 0;  n, d = numerator, denominator
      while True: a = n//d; q2 = q0+a*q1; if q2 > max_denominator: break
                  p0, q0, p1, q1 = p1, q1, p0+a*p1, q2;  n, d = d, n-a*d
    ([fuel] only makes the recursion structural; d = 0 cannot be reached when the denominator exceeds the bound) *)
Fixpoint ld_loop (fuel : nat) (maxd p0 q0 p1 q1 n d : Z) : Z * Z * Z * Z * Z :=
  match fuel with
  | O => (p0, q0, p1, q1, d)
  | S f =>
      if d =? 0 then (p0, q0, p1, q1, d)
      else
        let a := n / d in
        let q2 := q0 + a * q1 in
        if maxd <? q2 then (p0, q0, p1, q1, d)
        else ld_loop f maxd p1 q1 (p0 + a * p1) q2 d (n - a * d)
  end.

Definition ld_fuel (den : Z) : nat := Z.to_nat (2 * Z.log2_up den + 4).

Definition limit_denominator (maxd : Z) (x : frac) : frac :=
  let '(num, den) := x in
  if den <=? maxd then x
  else
    let '(p0, q0, p1, q1, d) := ld_loop (ld_fuel den) maxd 0 1 1 0 num den in
    let k := (maxd - q0) / q1 in
    if 2 * d * (q0 + k * q1) <=? den then (p1, q1) else (p0 + k * p1, q0 + k * q1).

(** _lcm(a, b) = abs(a // gcd(a, b) * b) if a and b else abs(a or b) *)
Definition lcm_py (a b : Z) : Z :=
  if (a =? 0) || (b =? 0) then Z.abs (if a =? 0 then b else a) else Z.abs (a / Z.gcd a b * b).

Definition MAXD : Z := 1000000.

(** den_lcm = 1; for f in fracs: den_lcm = _lcm(den_lcm, f.denominator); if den_lcm > 10**6: break *)
Fixpoint lcm_loop (acc : Z) (dens : list Z) : Z :=
  match dens with
  | [] => acc
  | d :: r => let acc' := lcm_py acc d in if MAXD <? acc' then acc' else lcm_loop acc' r
  end.

Definition gcd_list (l : list Z) : Z := fold_left (fun g v => Z.gcd g (Z.abs v)) l 0.

(** fracs: 0/1 for |x| <= tol, else Fraction(x).limit_denominator(10**6) *)
Definition approx (tol : frac) (x : frac) : frac :=
  if abs_le x tol then (0, 1) else limit_denominator MAXD x.

(** _vector_to_minimal_integer(vec, tol); [None] = one of the float-rounding fall-backs is taken *)
Definition min_int_vec (tol : frac) (vec : list frac) : option (list Z) :=
  if forallb (fun x => abs_le x tol) vec then Some (map (fun _ => 0) vec)
  else
    let fracs := map (approx tol) vec in
    let den_lcm := lcm_loop 1 (map snd fracs) in
    if MAXD <? den_lcm then None
    else
      let ints := map (fun f => fst f * (den_lcm / snd f)) fracs in
      let g := gcd_list ints in
      if g =? 0 then None else Some (map (fun v => v / g) ints).

(** integer_conservation_laws: one vector per basis column, tol = 1e-9 *)
Definition int_laws (tol : frac) (cols : list (list frac)) : list (option (list Z)) := map (min_int_vec tol) cols.

Definition FALLBACK : tok := L [I 99].
Definition tlaw (o : option (list Z)) : tok := match o with Some v => L [tlist I v] | None => FALLBACK end.
Definition run_intlaws (tol : frac) (cols : list (list frac)) : tok := tlist tlaw (int_laws tol cols).
(** limit_denominator on its own (numerator, denominator of the result) *)
Definition run_limit (maxd : Z) (xs : list frac) : tok :=
  tlist (fun x => let r := limit_denominator maxd x in L [I (fst r); I (snd r)]) xs.
