(** C18 — the observables evaluated by the correspondence for ordinary cases: everything of model/C18_Model.v (run_net), the WL
    cells / estimate (C18_WLModel), the node naming scheme selected by integer_ids (C18_IntIdsModel) and the orbits computed by
    the structure-following union-find of CRNAutomorphism (C18_UFModel).  Definitions only. *)
From Coq Require Import List NArith ZArith Bool Arith.
From SK Require Import lib.Tok lib.IRSortKeys lib.IRCore lib.IRSearch model.C18_Model model.C18_AttrModel model.C18_WLModel model.C18_IntIdsModel model.C18_UFModel.
Import ListNotations.

Definition uf_part (bip st : bool) (n : net) : list tok :=
  let g := view bip st n in [ tset (tset tN) (orbits_from_mappings (node_ids g) (auts g)) ].
(** every _label call of the search, in call order: one per leaf of the unpruned enumeration (logged up to 60 leaves) *)
Definition all_leaves (g : vgraph) : list (list N) :=
  let n := length (vnodes g) in leaves lexleb (sig g) (S n) (S n) (init_part g) [].
Definition leaf_part (bip st : bool) (n : net) : list tok :=
  let g := view bip st n in
  let ls := all_leaves g in
  [ if Nat.leb (length ls) 60 then tlist (fun p => L [tlist tN p; tlist tN (label g p)]) ls else L [] ].
Definition run_net_full (bip st intids : bool) (n : net) : tok :=
  let n' := ids_net bip intids n in tok_app (run_net_wl bip st n') (uf_part bip st n' ++ leaf_part bip st n').
Definition run_case_full (bip st intids : bool) (nets : list net) : tok := tlist (run_net_full bip st intids) nets.

(** CRNAutomorphism.summary(max_count=k) for a list of k: orbits of the full run, bookkeeping per k *)
Definition run_vf2opts (bip st intids : bool) (n : net) (ks : list Z) : tok := run_uf bip st (ids_net bip intids n) ks.
