(** C13 -- round 5 extension of model/C13_Model.v.  Definitions only; proofs in proof/C13_Trace.v.

    1. INTERMEDIATE VALUES: the clustering loops with the sequence of isomorphism tests they perform -- the pairs handed to
       graph_isomorphism, in call order:
         GraphCluster.iterative_cluster   (rule_i, rule_j) for every j > i with equal normalised attribute that is not yet
                                          visited (Python's short-circuit `and`)                         [gc_inner_tr, gc_outer_tr]
         BatchCluster.lib_check           (template graph, data graph) for the templates with the entry's attribute key, in
                                          library order, up to and including the first isomorphic one    [find_tr, lib_check_tr]
       The correspondence compares these traces after every call (the implementation's graph_isomorphism is wrapped by a
       recorder), so a change that keeps the classes but tests other pairs, more pairs, or in another order is noticed.
    2. Any number of node labels (the two label slots of [C13_Model.step] were an encoder projection): [stepx] takes the
       list of defaults; three-label configurations are now evaluated by the model.
    3. The constructor contract of both classes (backend spelling, availability, length test) and available_backends
       inside the model ([ctor_contract], [OCtor], [OBackends]); whether the `mod` package is importable is an input.
    4. Attribute selection on raw attribute dictionaries (round 5): generic_node_match(names, defaults, eq) /
       generic_edge_match(edge_attribute, 1, eq) evaluated on the dictionaries as the code does, against the projected
       graphs of C13_Model.v ([node_match_raw13], [edge_match_raw13], [project13]); histories whose items are given as raw
       dictionaries go through [project13] inside the model ([ritem], [mk_item]). *)
From Coq Require Import List NArith ZArith Bool Arith.
From Coq Require String.
From SK Require Import lib.Tok lib.LGraph lib.Mono model.C13_Model.
Import ListNotations.

Module Strs.
Import String.
Local Open Scope string_scope.
Definition ok : tok := tstr "ok".
Definition nx : tok := tstr "nx".
Definition mod_ : tok := tstr "mod".
Definition rule : tok := tstr "rule".
Definition other : tok := tstr "other".
Definition value_error : tok := tstr "ValueError".
Definition import_error : tok := tstr "ImportError".
End Strs.

Section ClusterTr.
Variable iso : item -> item -> bool.
Variable mode : attr_mode.

(* ---------- GraphCluster.iterative_cluster with the trace of tested position pairs ---------- *)
Fixpoint gc_inner_tr (i : nat) (xi : item) (c : nat) (rest : list (nat * item)) (st : gc_state) (tr : list (nat * nat))
  : gc_state * list (nat * nat) :=
  match rest with
  | [] => (st, tr)
  | (j, xj) :: r =>
      let '(cluster, visited, r2c) := st in
      if zlist_eqb (gc_key mode xi) (gc_key mode xj) && negb (memb j visited) then
        if iso xi xj then gc_inner_tr i xi c r (cluster ++ [j], j :: visited, r2c ++ [(j, c)]) (tr ++ [(i, j)])
        else gc_inner_tr i xi c r st (tr ++ [(i, j)])
      else gc_inner_tr i xi c r st tr
  end.

Fixpoint gc_outer_tr (todo : list (nat * item)) (visited : list nat) (clusters : list (list nat))
         (r2c : list (nat * nat)) (tr : list (nat * nat)) : list (list nat) * list (nat * nat) * list (nat * nat) :=
  match todo with
  | [] => (clusters, r2c, tr)
  | (i, xi) :: rest =>
      if memb i visited then gc_outer_tr rest visited clusters r2c tr
      else
        let c := length clusters in
        let '((cluster, visited', r2c'), tr') := gc_inner_tr i xi c rest ([i], i :: visited, r2c ++ [(i, c)]) tr in
        gc_outer_tr rest visited' (clusters ++ [cluster]) r2c' tr'
  end.

Definition gc_iterative_tr (rules : list item) : list (list nat) * list (nat * nat) * list (nat * nat) :=
  gc_outer_tr (enum_from 0 rules) [] [] [] [].

Definition gc_fit_tr (data : list item) : list (option nat) * list (nat * nat) :=
  let '(_, r2c, tr) := gc_iterative_tr data in
  (map (fun ix => assoc_nat (fst ix) r2c) (enum_from 0 data), tr).

(* ---------- BatchCluster.lib_check with the templates it tests ---------- *)
Fixpoint find_tr (x : item) (sub : list template) : option template * list template :=
  match sub with
  | [] => (None, [])
  | t :: r => if iso (fst t) x then (Some t, [t])
              else let '(o, tested) := find_tr x r in (o, t :: tested)
  end.

Definition lib_check_tr (x : item) (ts : list template) : Z * list template * list template :=
  let sub := filter (fun t => zlist_eqb (bc_key mode (fst t)) (bc_key mode x)) ts in
  match find_tr x sub with
  | (Some t, tested) => (snd t, ts, tested)
  | (None, tested) =>
      let c := (fold_right Z.max (-1) (map snd ts) + 1)%Z in
      (c, ts ++ [(x, c)], tested)
  end.

(** trace entries: the two ITEMS handed to the isomorphism test, in call order (the observable prints their ids and the verdict
    of the test, so the verdict of every single call is compared with the implementation's) *)
Definition id_trace := list (item * item).
Definition lib_ids (x : item) (tested : list template) : id_trace := map (fun t => (fst t, x)) tested.
Definition pos_ids (data : list item) (tr : list (nat * nat)) : id_trace :=
  map (fun ij => (nth (fst ij) data dummy, nth (snd ij) data dummy)) tr.

Fixpoint cluster_tr (data : list item) (ts : list template) : list Z * list template * id_trace :=
  match data with
  | [] => ([], ts, [])
  | x :: r =>
      let '(c, ts1, tested) := lib_check_tr x ts in
      let '(cs, ts2, tr) := cluster_tr r ts1 in
      (c :: cs, ts2, lib_ids x tested ++ tr)
  end.

Fixpoint cluster_batches_tr (batches : list (list item)) (ts : list template) : list Z * list template * id_trace :=
  match batches with
  | [] => ([], ts, [])
  | b :: r =>
      let '(cs, ts1, tr) := cluster_tr b ts in
      let '(cs', ts2, tr') := cluster_batches_tr r ts1 in
      (cs ++ cs', ts2, tr ++ tr')
  end.

Definition fit_tr (data : list item) (ts : list template) (batch_size : option nat) (picks : list nat)
  : list Z * list template * id_trace :=
  let batches := match batch_size with Some b => chunks b data | None => [data] end in
  match batches with
  | [batch] =>
      match ts with
      | [] => let '(cls, tr) := gc_fit_tr batch in
              let cs := map class_z cls in (cs, strat_sample batch cs picks, pos_ids batch tr)
      | _ :: _ => cluster_tr batch ts
      end
  | _ => cluster_batches_tr batches ts
  end.

End ClusterTr.

(* ---------- constructor contract of GraphCluster / BatchCluster ---------- *)
(** backend AFTER .lower() (the encoder lower-cases): *)
Inductive backend := BNx | BMod | BRule | BOther.
Inductive ctor_result := CtorOk | CtorValueError | CtorImportError.

(** [gc] = true: GraphCluster (optional backend "mod"), false: BatchCluster (optional backend "rule");
    [mod_installed]: importlib.util.find_spec("mod") is not None (environment, an input) *)
Definition available (gc mod_installed : bool) (b : backend) : bool :=
  match b with
  | BNx => true
  | BMod => gc && mod_installed
  | BRule => negb gc && mod_installed
  | BOther => false
  end.

Definition ctor_contract (gc mod_installed : bool) (n_names n_defaults : nat) (b : backend) : ctor_result :=
  if negb (available gc mod_installed b) then
    match gc, b with
    | true, BMod => CtorImportError
    | false, BRule => CtorImportError
    | _, _ => CtorValueError
    end
  else if negb (n_names =? n_defaults)%nat then CtorValueError
  else CtorOk.

Definition tbackend (b : backend) : tok :=
  match b with BNx => Strs.nx | BMod => Strs.mod_ | BRule => Strs.rule | BOther => Strs.other end.

(* ---------- histories with traces, any number of labels, contract ops ---------- *)
Inductive opx :=
| OBase (o : op)
| OCtor (gc : bool) (n_names n_defaults : nat) (b : backend)
| OBackends (gc : bool)
| OFitBad.      (* BatchCluster.fit with batch_size < 1: batch_dicts raises ValueError before anything is processed *)

Definition tidtrace (iso : item -> item -> bool) (tr : id_trace) : tok :=
  tlist (fun p => L [tN (it_id (fst p)); tN (it_id (snd p)); tbool (iso (fst p) (snd p))]) tr.

Definition stepx (defs : list N) (mode : attr_mode) (pool : list item) (ts : list template) (o : opx)
  : tok * list template :=
  let iso := item_iso true defs in
  match o with
  | OBase (OGcIter idxs labelled) =>
      let data := map (pick pool) idxs in
      let '(clusters, r2c, tr) := gc_iterative_tr (item_iso labelled defs) mode data in
      (L [tlist (tset tnat) clusters; tset (tpair tnat tnat) r2c; ttemplates ts; tidtrace (item_iso labelled defs) (pos_ids data tr)], ts)
  | OBase (OGcFit idxs) =>
      let data := map (pick pool) idxs in
      let '(cls, tr) := gc_fit_tr iso mode data in
      (L [tlist (fun o => I (class_z o)) cls; ttemplates ts; tidtrace iso (pos_ids data tr)], ts)
  | OBase (OTemplates l) =>
      let ts' := map (fun ic => (pick pool (fst ic), snd ic)) l in
      (L [L []; ttemplates ts'; L []], ts')
  | OBase OReset => (L [L []; ttemplates []; L []], [])
  | OBase (OLibCheck i) =>
      let x := pick pool i in
      let '(c, ts', tested) := lib_check_tr iso mode x ts in
      (L [tclasses [c]; ttemplates ts'; tidtrace iso (lib_ids x tested)], ts')
  | OBase (OCluster idxs) =>
      let '(cs, ts', tr) := cluster_tr iso mode (map (pick pool) idxs) ts in
      (L [tclasses cs; ttemplates ts'; tidtrace iso tr], ts')
  | OBase (OFit idxs bs picks) =>
      let '(cs, ts', tr) := fit_tr iso mode (map (pick pool) idxs) ts bs picks in
      (L [tclasses cs; ttemplates ts'; tidtrace iso tr], ts')
  | OCtor gc nn nd b =>
      (match ctor_contract gc false nn nd b with
       | CtorOk => L [Strs.ok; tbackend b]
       | CtorValueError => Strs.value_error
       | CtorImportError => Strs.import_error
       end, ts)
  | OBackends gc => (L [Strs.nx], ts)
  | OFitBad => (L [Strs.value_error; ttemplates ts], ts)
  end.

Fixpoint playx (defs : list N) (mode : attr_mode) (pool : list item) (ts : list template) (ops : list opx) : list tok :=
  match ops with
  | [] => []
  | o :: r => let '(t, ts') := stepx defs mode pool ts o in t :: playx defs mode pool ts' r
  end.

(** BatchCluster.batch_dicts(list, batch_size): ValueError for batch_size < 1 *)
Definition batch_dicts_tok (b : nat) (l : list nat) : tok :=
  match b with O => Strs.value_error | S _ => tlist (tlist tnat) (chunks b l) end.

Definition runx (defs : list N) (mode : attr_mode) (pool : list item) (ops : list opx) : tok :=
  L (playx defs mode pool [] ops).

(* ---------- attribute selection on raw dictionaries ---------- *)
Definition rnattr13 := list (N * N).            (* node attribute dict: key code -> value code *)
Definition reattr13 := list (N * list Z).       (* edge attribute dict: key code -> value (scalar = one element, tuple = several) *)
Definition rgraph13 := lgraph rnattr13 reattr13.
Record ccfg := { cc_names : list N; cc_defs : list N; cc_edge : N }.

(** generic_node_match(names, defaults, [eq]*n): all(eq(d1.get(k, d), d2.get(k, d))) over zip(names, defaults) *)
Fixpoint node_match_raw13 (names defs : list N) (h p : rnattr13) : bool :=
  match names, defs with
  | k :: ks, d :: ds => N.eqb (getd d (LGraph.assoc k h)) (getd d (LGraph.assoc k p)) && node_match_raw13 ks ds h p
  | _, _ => true
  end.
(** generic_edge_match(attr, 1, eq): eq(e1.get(attr, 1), e2.get(attr, 1)) *)
Definition edge_match_raw13 (k : N) (h p : reattr13) : bool :=
  zlist_eqb (order_or_default (LGraph.assoc k h)) (order_or_default (LGraph.assoc k p)).

Definition project13 (c : ccfg) (g : rgraph13) : graph :=
  LG (map (fun na => (fst na, map (fun k => LGraph.assoc k (snd na)) (cc_names c))) (gnodes g))
     (map (fun e => (fst e, LGraph.assoc (cc_edge c) (snd e))) (gedges g)).

Record ritem := MkRItem { ri_id : N; ri_attr : list Z; ri_graph : rgraph13 }.
Definition mk_item (c : ccfg) (r : ritem) : item := MkItem (ri_id r) (ri_attr r) (project13 c (ri_graph r)).

(** a history over items given as raw dictionaries, with the configured names / defaults / edge attribute *)
Definition runr (c : ccfg) (mode : attr_mode) (pool : list ritem) (ops : list opx) : tok :=
  runx (cc_defs c) mode (map (mk_item c) pool) ops.

(* ---------- graph_morphism.graph_isomorphism(g1, g2, node_match, edge_match, use_defaults): option handling ---------- *)
(** node and edge matcher may be absent independently (None = everything matches on that side) *)
Definition graph_iso2 (nl el : bool) (defs : list N) (g1 g2 : graph) : bool :=
  (length (gnodes g1) =? length (gnodes g2))%nat &&
  match monos (node_ids g2) (node_ids g1) (label g2) (label g1) (LGraph.adj g2) (LGraph.adj g1)
              (node_match nl defs) (edge_match el) true with
  | [] => false
  | _ :: _ => true
  end.

(** [c]: the configuration the CALLER's matchers were built from (when given); [cdef]: the function's own defaults
    (["element", "charge"], ["*", 0], "order"), used for a matcher that is None when use_defaults is set; a matcher that is
    None without use_defaults stays None *)
Definition iso_call (c cdef : ccfg) (nm_given em_given use_defaults : bool) (g1 g2 : rgraph13) : bool :=
  let ncfg := if nm_given then Some c else if use_defaults then Some cdef else None in
  let ecfg := if em_given then Some c else if use_defaults then Some cdef else None in
  let mixed := {| cc_names := match ncfg with Some x => cc_names x | None => [] end;
                  cc_defs := match ncfg with Some x => cc_defs x | None => [] end;
                  cc_edge := match ecfg with Some x => cc_edge x | None => 0%N end |} in
  graph_iso2 (match ncfg with Some _ => true | None => false end) (match ecfg with Some _ => true | None => false end)
             (cc_defs mixed) (project13 mixed g1) (project13 mixed g2).

Definition dummy_ritem : ritem := MkRItem 0 [] (LG [] []).
Definition iso_call_pool (c cdef : ccfg) (nm_given em_given use_defaults : bool) (rpool : list ritem) (i j : nat) : bool :=
  iso_call c cdef nm_given em_given use_defaults (ri_graph (nth i rpool dummy_ritem)) (ri_graph (nth j rpool dummy_ritem)).
