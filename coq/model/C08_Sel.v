(** C08 — NautyCanonicalizer(node_attrs, edge_attrs) for an arbitrary attribute selection (round 5; definitions only).

    GraphCanonicaliser always passes node_attrs = [element, aromatic, charge, hcount], edge_attrs = [order, standard_order]
    (C08_Model: acode / ecode / node_str / edge_bit are that instance).  Used directly, the class takes any lists: the
    selected attributes, IN THE GIVEN ORDER, form
      _initial_partition   the cell key            tuple of the selected node values (every attribute present in the model domain)
      _node_signature      node part / edge part   the same tuple; per incident edge the tuple of (present?, value) pairs
      _build_label         node fields / edge bit  ":".join(str(value)); "1:" + ":".join(str(value or "")) / "0:" + ":".join("")
      _build_partial_label node fields
    An empty node selection gives one initial cell with every node; an empty edge selection the bits "1:" / "0:".
    Everything else (refinement, individualisation, children by atom_map, pruning, accumulator, orbits) is shared. *)
From Coq Require Import String Ascii.
From Coq Require Import List NArith ZArith Bool Arith.
From SK Require Import lib.Tok lib.LGraph lib.IRSortKeys lib.IRCore lib.IRSearch lib.StrJoin model.C08_Model.
From SK Require lib.IRInst.
Import ListNotations.
Open Scope string_scope. Open Scope list_scope. Open Scope nat_scope.

Inductive nsel := SEl | SAr | SCh | SHc.
Inductive esel := SOrd | SStd.

(* ------------------------------------------------------------------ node side *)
Definition nfield (a : nattr) (k : nsel) : str :=
  match k with SEl => el a | SAr => pybool (ar a) | SCh => decZ (ch a) | SHc => decZ (hc a) end.
Definition ncode1 (a : nattr) (k : nsel) : list Z :=
  match k with SEl => enc_str (el a) | SAr => [b2z (ar a)] | SCh => [ch a] | SHc => [hc a] end.
Definition acode_sel (na : list nsel) (g : graph) (v : N) : list Z := flat_map (ncode1 (attr_of g v)) na.
Definition node_str_sel (na : list nsel) (g : graph) (v : N) : str := join 58%N (map (nfield (attr_of g v)) na).
Definition node_seg_sel (na : list nsel) (g : graph) (p : list N) : str := join 124%N (map (node_str_sel na g) p).

(* ------------------------------------------------------------------ edge side *)
(* (present?, value): the order is always present; a tuple-valued order enters the signature sorted *)
Definition ecode1 (a : eattr) (k : esel) : list Z :=
  match k with
  | SOrd => match et a with None => [1%Z; eo a] | Some b => [1%Z; Z.min (eo a) b; Z.max (eo a) b] end
  | SStd => [(match es a with Some _ => 1 | None => 0 end)%Z; std0 a]
  end.
Definition ecode_sel (ea : list esel) (a : eattr) : list Z := flat_map (ecode1 a) ea.
Definition efield (a : eattr) (k : esel) : str :=
  match k with SOrd => ord_str a | SStd => match es a with Some s => fl s | None => [] end end.
Definition edge_bit_sel (ea : list esel) (g : graph) (ab : N * N) : str :=
  match adj g (fst ab) (snd ab) with
  | Some x => lit "1:" ++ join 58%N (map (efield x) ea)
  | None => lit "0:" ++ join 58%N (map (fun _ : esel => @nil N) ea)
  end.

(* ------------------------------------------------------------------ the search for a selection *)
Definition sigN_sel (na : list nsel) (ea : list esel) (g : graph) (P : partition) (v : N) : list Z :=
  acode_sel na g v ++ [degree g v] ++ map (fun c => IRInst.cnt c (map fst (inc g v))) P
          ++ concat (sort_by (fun x => x) (map (fun p => ecode_sel ea (snd p)) (inc g v))).
Definition init_partition_sel (na : list nsel) (g : graph) : partition :=
  match gnodes g with
  | [] => []
  | _ => split_cell lexleb (fun _ v => acode_sel na g v) [] (sorted_ids g)
  end.
Definition nrefine_sel na ea (g : graph) (P : partition) : partition := refine lexleb (sigN_sel na ea g) (rfuel g) P.
Definition nlabel_sel na ea (g : graph) (p : list N) : str :=
  node_seg_sel na g p ++ lit "||" ++ join 124%N (map (edge_bit_sel ea g) (pairs p)).
Definition npartial_sel na (g : graph) (pre : list N) : str := node_seg_sel na g pre ++ repeat 123%N 1000.
Definition nvisit_sel na ea (g : graph) : nacc -> list N -> nacc := visit strleb (nlabel_sel na ea g).
Definition npruned_sel na (g : graph) : nacc -> list N -> bool := pruned strleb (npartial_sel na g).

Fixpoint nsearch_sel na ea (g : graph) (fuel : nat) (P : partition) (pre : list N) (a : nacc) : nacc :=
  match fuel with
  | 0 => a
  | S f =>
      let P' := nrefine_sel na ea g P in
      match first_big P' with
      | None => nvisit_sel na ea g a (mkleaf pre (concat P'))
      | Some i => fold_left (fun a v => if npruned_sel na g a (pre ++ [v]) then a
                                        else nsearch_sel na ea g f (individualise P' i v) (pre ++ [v]) a)
                            (children g (nth i P' [])) a
      end
  end.
Definition nauty_acc_sel na ea (g : graph) : nacc := nsearch_sel na ea g (sfuel g) (init_partition_sel na g) [] (None, []).
Definition nauty_perm_sel na ea (g : graph) : list N := match fst (nauty_acc_sel na ea g) with Some (_, p) => p | None => [] end.
Definition nauty_label_sel na ea (g : graph) : option str := option_map fst (fst (nauty_acc_sel na ea g)).
Definition canon_nauty_sel na ea (g : graph) : graph := relabel (apply_map (mapping_of (nauty_perm_sel na ea g))) g.
(* graph_signature hashes the label of the canonical graph read in the order 1..N *)
Definition graph_sig_label_sel na ea (g : graph) : str :=
  nlabel_sel na ea (canon_nauty_sel na ea g) (sorted_ids (canon_nauty_sel na ea g)).

(* ------------------------------------------------------------------ observable: per selection, per presentation the canonical
   permutation, the best label and the reported permutations; the equality pattern of the graph_signature labels
   (one search per graph and selection: everything is read off the accumulator) *)
Definition sel_row na ea (g : graph) : list N * str * list (list N) * str :=
  let a := nauty_acc_sel na ea g in
  let p := match fst a with Some (_, p) => p | None => [] end in
  let l := match fst a with Some (l, _) => l | None => [] end in
  let cg := relabel (apply_map (mapping_of p)) g in
  (p, l, snd a, nlabel_sel na ea cg (sorted_ids cg)).
Definition run_sel (cfgs : list (list nsel * list esel)) (gs others : list graph) : tok :=
  tlist (fun cfg : list nsel * list esel =>
           let '(na, ea) := cfg in
           let rows := map (sel_row na ea) gs in
           let orows := map (sel_row na ea) others in
           L [tlist (fun r : list N * str * list (list N) * str =>
                       L [tlist tN (fst (fst (fst r))); tstrN (snd (fst (fst r))); tlist (tlist tN) (snd (fst r))]) rows;
              tlist tnat (pattern [] (map snd (rows ++ orows)))]) cfgs.
