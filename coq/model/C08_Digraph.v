(** C08 — directed inputs (networkx.DiGraph), definitions only (round 5).

    GraphCanonicaliser documents that the class of the input is preserved ("multigraphs and digraphs are preserved").
    A DiGraph is modelled by the same [lgraph] whose edge list is read as the list of ARCS u -> v (lib/LGraph [arc],
    [succs]); nothing is symmetrised.  What the code does differently for a DiGraph:

      _canon_generic / _canon_wl / canon_morgan   nothing: they copy every (u, v, data) of g.edges as (map u, map v, data),
                          g.degree is in-degree + out-degree = C08_Model.degree  ->  [canon_generic], [canon_rank] unchanged
      _serialise          prints the end points as stored, (u, v), not sorted; the sort key of an arc is
                          (_edge_key, (u, v)) — after repair R5a the printed end points break the tie between the
                          arcs u -> v and v -> u, which share _default_edge_key = ((min, max), order, standard_order)
      nauty._node_signature   G.neighbors / G[v] are the SUCCESSORS only, G.degree is in + out
      nauty._build_label      after repair R5b both triangles of the matrix: for i, for j <> i, the bit of the arc p_i -> p_j
      nauty._initial_partition / _refine / _search / _build_partial_label / canonical_form / compute_orbits   unchanged

    Everything else (sorting, rendering, individualisation-refinement, accumulator) is shared with C08_Model. *)
From Coq Require Import String Ascii.
From Coq Require Import List NArith ZArith Bool Arith.
From SK Require Import lib.Tok lib.LGraph lib.IRSortKeys lib.IRCore lib.IRSearch lib.StrJoin model.C08_Model.
From SK Require lib.IRInst.
Import ListNotations.
Open Scope string_scope. Open Scope list_scope. Open Scope nat_scope.

(* ------------------------------------------------------------------ _serialise on a DiGraph *)
(* sort key (_default_edge_key(u, v, d), (u, v)); a tuple-valued order compares as the pair (before, after) *)
Definition dekey (e : N * N * eattr) : list Z :=
  let '(u, v, a) := e in
  [Z.of_N (N.min u v); Z.of_N (N.max u v); eo a] ++ (match et a with Some b => [b] | None => [] end)
  ++ [std0 a; Z.of_N u; Z.of_N v].
Definition dedge_item (e : N * N * eattr) : str :=
  let '(u, v, a) := e in
  lit "(" ++ decN u ++ sep2 ++ decN v ++ lit ")" ++ lit ":" ++ lit "("
  ++ lit "(" ++ decN (N.min u v) ++ sep2 ++ decN (N.max u v) ++ lit ")"
  ++ sep2 ++ ord_str a ++ sep2 ++ (match es a with Some s => fl s | None => lit "0" end) ++ lit ")".
Definition dser_edges (g : graph) : list (N * N * eattr) := sort_by dekey (gedges g).
Definition dserialise (g : graph) : str :=
  lit "N[" ++ join 59%N (map node_item (ser_nodes g)) ++ lit "]|E[" ++ join 59%N (map dedge_item (dser_edges g)) ++ lit "]".

(* ------------------------------------------------------------------ nauty.py on a DiGraph *)
(* arcs leaving v: G.neighbors(v) / G[v][nbr] *)
Definition dout (g : graph) (v : N) : list (N * eattr) :=
  flat_map (fun e : N * N * eattr => let '(a, b, x) := e in if N.eqb a v then [(b, x)] else []) (gedges g).
(* _node_signature: (node attrs, in+out degree, successors per cell, sorted multiset of the attrs of the leaving arcs) *)
Definition dsigN (g : graph) (P : partition) (v : N) : list Z :=
  acode g v ++ [degree g v] ++ map (fun c => IRInst.cnt c (map fst (dout g v))) P
          ++ concat (sort_by (fun x => x) (map (fun p => ecode (snd p)) (dout g v))).
Definition dnrefine (g : graph) (P : partition) : partition := refine lexleb (dsigN g) (rfuel g) P.

Definition dedge_bit (g : graph) (ab : N * N) : str :=
  match arc g (fst ab) (snd ab) with
  | Some x => lit "1:" ++ ord_str x ++ lit ":" ++ (match es x with Some s => fl s | None => [] end)
  | None => lit "0::"
  end.
(* for i in range(n): for j in range(n): if i == j: continue *)
Definition dpairs (l : list N) : list (N * N) :=
  flat_map (fun x => map (pair x) (filter (fun y => negb (N.eqb y x)) l)) l.
Definition dnlabel (g : graph) (p : list N) : str :=
  node_seg g p ++ lit "||" ++ join 124%N (map (dedge_bit g) (dpairs p)).

Definition dnvisit (g : graph) : nacc -> list N -> nacc := visit strleb (dnlabel g).

Fixpoint dnsearch (g : graph) (fuel : nat) (P : partition) (pre : list N) (a : nacc) : nacc :=
  match fuel with
  | 0 => a
  | S f =>
      let P' := dnrefine g P in
      match first_big P' with
      | None => dnvisit g a (mkleaf pre (concat P'))
      | Some i => fold_left (fun a v => if npruned g a (pre ++ [v]) then a
                                        else dnsearch g f (individualise P' i v) (pre ++ [v]) a)
                            (children g (nth i P' [])) a
      end
  end.
Fixpoint dnsearch_tr (g : graph) (fuel : nat) (P : partition) (pre : list N) (s : nacc * trace) : nacc * trace :=
  match fuel with
  | 0 => s
  | S f =>
      let P' := dnrefine g P in
      let tr := snd s ++ [(P, P')] in
      match first_big P' with
      | None => (dnvisit g (fst s) (mkleaf pre (concat P')), tr)
      | Some i => fold_left (fun s v => if npruned g (fst s) (pre ++ [v]) then s
                                        else dnsearch_tr g f (individualise P' i v) (pre ++ [v]) s)
                            (children g (nth i P' [])) (fst s, tr)
      end
  end.

Definition dnauty_acc (g : graph) : nacc := dnsearch g (sfuel g) (init_partition g) [] (None, []).
Definition dnauty_perm (g : graph) : list N := match fst (dnauty_acc g) with Some (_, p) => p | None => [] end.
Definition dnauty_label (g : graph) : option str := option_map fst (fst (dnauty_acc g)).
Definition dcanon_nauty (g : graph) : graph := relabel (apply_map (mapping_of (dnauty_perm g))) g.

Definition dser_generic (g : graph) : str := dserialise (canon_generic g).
Definition dser_rank (r : list (N * Z)) (g : graph) : str := dserialise (canon_rank r g).
Definition dser_nauty (g : graph) : str := dserialise (dcanon_nauty g).
Definition dgraph_sig_label (g : graph) : str := dnlabel (dcanon_nauty g) (sorted_ids (dcanon_nauty g)).
Definition dnauty_orbits (g : graph) : list (list N) := orbit_classes (dnauty_perm g) (snd (dnauty_acc g)).

(* ------------------------------------------------------------------ observables (same shape as run_case6) *)
Definition dtgraph (g : graph) : tok :=
  L [ tset (fun p : N * nattr => let a := snd p in L [tN (fst p); tstrN (el a); tbool (ar a); tZ (ch a); tZ (hc a); topt tZ (am a)]) (gnodes g);
      tset (fun e : N * N * eattr => let '(u, v, a) := e in L [tN u; tN v; tZ (eo a); topt tZ (es a); topt tZ (et a)]) (gedges g) ].
Definition drun_generic (g : graph) : tok :=
  let cg := canon_generic g in L [dtgraph cg; tstrN (dserialise cg); tstrN (dser_generic cg)].
Definition drun_rank (r : list (N * Z)) (g : graph) : tok :=
  let cg := canon_rank r g in L [dtgraph cg; tstrN (dserialise cg)].
Definition drun_nauty (g : graph) : tok :=
  let s := dnsearch_tr g (sfuel g) (init_partition g) [] ((None, []), []) in
  let a := fst s in
  let perm := match fst a with Some (_, p) => p | None => [] end in
  let lab := match fst a with Some (l, _) => l | None => [] end in
  let cg := relabel (apply_map (mapping_of perm)) g in
  L [tlist tN perm; tstrN lab; tlist (fun io : partition * partition => L [tpart (fst io); tpart (snd io)]) (snd s);
     tlist (tlist tN) (snd a); dtgraph cg; tstrN (dserialise cg); tstrN (dser_nauty cg)].

Definition ditem := (graph * list (N * Z) * list (N * Z))%type.
Definition drun_rows (items : list ditem) (others : list graph) : tok :=
  let rows := map (fun it : ditem => let '(g, wl, mg) := it in L [drun_generic g; drun_rank wl g; drun_rank mg g; drun_nauty g]) items in
  let sers := flat_map (fun it : ditem => let '(g, wl, mg) := it in [dser_generic g; dser_rank wl g; dser_rank mg g; dser_nauty g]) items
              ++ flat_map (fun h => [dser_generic h; dser_nauty h]) others in
  L [L rows; tlist tnat (pattern [] sers)].
Definition drun_vo (g : graph) (hs : list graph) : tok :=
  tlist (fun h => L [tbool (syngraph_eqb dser_generic g h); tbool (cangraph_eqb canon_generic dser_generic g h);
                     tbool (syngraph_eqb dser_nauty g h); tbool (cangraph_eqb dcanon_nauty dser_nauty g h)]) hs.
Definition drun_case (items : list ditem) (others : list graph) : tok :=
  let gs := map (fun it : ditem => fst (fst it)) items in
  let vo := match gs with [] => L [] | g :: rest => drun_vo g (rest ++ others) end in
  L [ L [ L [ L [ L [drun_rows items others; vo]; L [] ];
              tlist (fun g => tstrN (dgraph_sig_label g)) gs;
              tlist tnat (pattern [] (map dgraph_sig_label gs ++ map dgraph_sig_label others)) ];
          tlist (fun g => tlist tN (dnauty_perm (strip_std g))) gs ];
      tlist (fun g => tset (tset tN) (dnauty_orbits g)) gs ].
Definition drun_batch (gs : list graph) : tok :=
  L [tlist tnat (pattern [] (map dser_generic gs)); tlist tnat (pattern [] (map dser_nauty gs))].
