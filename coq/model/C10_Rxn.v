(** C10 - executable model, part 3 (definitions only; proofs in proof/C10_Rxn.v): the reaction-level wrappers of
    synkit/IO/chem_converter.py that sit around the converters of model/C10_Model.v, after their RDKit half

      rsmi_to_its(rsmi, core, explicit_hydrogen)            ITSGraph, then h_to_explicit(its, None, True), then get_rc
      graph_to_rsmi(r, p, its, sanitize, explicit_hydrogen)  up to the two RWMol handed to RDKit
      its_to_rsmi(its, explicit_hydrogen)                    its_decompose + graph_to_rsmi
      gml_to_smart(gml, explicit_hydrogen)                   GMLToNX.transform + graph_to_rsmi
      implicit_hydrogen(graph, preserve, reindex=True)       (synkit/Graph/Hyrogen/_misc.py) the renumbering tail

    (r, p) = rsmi_to_graph(rsmi) and [eo] = the iteration artefact of ITSGraph are inputs, as for smart_to_gml. *)
From Coq Require Import List NArith ZArith Bool.
From SK Require Import lib.Tok lib.LGraph lib.StrJoin model.C10_Model model.C10_Text.
Import ListNotations.
Local Open Scope Z_scope.

Definition wmol := (list watom * list (N * N * Z))%type.

(** * rsmi_to_its(rsmi, core=, explicit_hydrogen=) *)
Definition rsmi_to_its (r p : gr) (eo : list (N * N)) (core explicit_h : bool) : gr :=
  let its := its_construct r p eo in
  let its1 := if explicit_h then h_to_explicit its None true else its in
  if core then get_rc its1 else its1.

(** * graph_to_rsmi
    list_hydrogen = [d["atom_map"] for _, d in rc.nodes(data=True) if d.get("element") == "H"]: a hydrogen of the centre
    without the atom_map key raises KeyError, graph_to_rsmi then returns None *)
Definition rc_h_maps (rc : gr) : option (list Z) :=
  fold_right (fun (p : N * natt) acc =>
                if el_is_H (snd p)
                then match a_am (snd p), acc with Some m, Some l => Some (m :: l) | _, _ => None end
                else acc) (Some []) (gnodes rc).

(** implicit_hydrogen reads data["element"] on every node, data["hcount"] on every non-hydrogen and data["atom_map"] on
    every hydrogen with plain subscripts: a missing key raises KeyError (graph_to_smi then returns None) *)
Definition imph_keys_ok (g : gr) : bool :=
  forallb (fun p : N * natt =>
             let a := snd p in
             match a_el a with
             | None => false
             | Some _ => if el_is_H a then (match a_am a with Some _ => true | None => false end)
                         else (match a_hc a with Some _ => true | None => false end)
             end) (gnodes g).
(** graph_to_smi(graph, preserve_atom_maps=l) up to the RWMol, with that KeyError *)
Definition graph_to_smi_mol_k (g : gr) (l : list Z) : option wmol :=
  match l with
  | [] => graph_to_mol g
  | _ => if imph_keys_ok g then graph_to_mol (implicit_hydrogen g l) else None
  end.

(** the two molecules graph_to_smi hands to RDKit (None = that call raised and graph_to_smi returned None); the outer None =
    graph_to_rsmi itself raised before any molecule was built.  [its] = the graph passed in, or ITSGraph(r, p) when the
    caller passed None (the caller of this model function supplies it either way). *)
Definition graph_to_rsmi_mols (r p its : gr) (explicit_h : bool) : option (option wmol * option wmol) :=
  if explicit_h then Some (graph_to_mol r, graph_to_mol p)
  else match rc_h_maps (get_rc its) with
       | None => None
       | Some l => Some (graph_to_smi_mol_k r l, graph_to_smi_mol_k p l)
       end.

(** its_to_rsmi(its, explicit_hydrogen=) *)
Definition its_to_rsmi_mols (its : gr) (explicit_h : bool) : option (option wmol * option wmol) :=
  let '(r, p) := its_decompose its in graph_to_rsmi_mols r p its explicit_h.

(** gml_to_smart(gml, explicit_hydrogen=) at record level *)
Definition gml_to_smart_mols (rec : grec) (explicit_h : bool) : option (option wmol * option wmol) :=
  let '(l, r, i) := gml_to_nx rec in graph_to_rsmi_mols l r i explicit_h.

(** * implicit_hydrogen(graph, preserve_atom_maps, reindex=True): nodes renumbered 1.. in node order
    (nx.relabel_nodes, copy=True), then atom_map := node id on every node *)
Definition set_am (v : Z) (a : natt) : natt := NA (a_el a) (a_ar a) (a_hc a) (a_ch a) (Some v) (a_tgh a).
Definition implicit_hydrogen_reindex (g : gr) (preserve : list Z) : gr :=
  let g1 := implicit_hydrogen g preserve in
  let g2 := nx_relabel (enum_from 1%N (node_ids g1)) g1 in
  LG (map (fun p : N * natt => (fst p, set_am (Z.of_N (fst p)) (snd p))) (gnodes g2)) (gedges g2).

(** * vocabulary of the either-mode hydrogen theorems (props/C10.v): what explicit-then-implicit leaves at an atom, either mode: hcount restored; the typesGH halves that were lowered stay
      lowered (its=False: the reactant half; its=True: both halves) *)
Definition h_restore_gen (its : bool) (a : natt) : natt :=
  let c := hexp_count its a in
  if 0 <? c then NA (a_el a) (a_ar a) (a_hc a) (a_ch a) (a_am a)
                    (match a_tgh a with Some t => Some (if its then sub_tgh_both c t else sub_tgh c t) | None => None end)
  else a.
(** ... and what h_to_explicit leaves there *)
Definition h_lowered_gen (its : bool) (a : natt) : natt :=
  let c := hexp_count its a in if 0 <? c then (if its then dec_h_its c a else dec_h c a) else a.
(** a map on edge attributes *)
Definition emapf (F : eatt -> eatt) (e : N * N * eatt) : N * N * eatt := let '(a, b, x) := e in (a, b, F x).
Definition emap (F : eatt -> eatt) (G : gr) : gr := LG (gnodes G) (map (emapf F) (gedges G)).
(** the last step of h_to_explicit *)
Definition fin_edge (its : bool) (x : eatt) : eatt := if its then norm_edge x else x.
Definition fin_graph (its : bool) (G : gr) : gr := if its then normalize_edge_orders G else G.

(** * vocabulary of C10_rule_renumbering_records: a molecule record with every atom-map number k replaced by sg k (same atoms in
      the same order, same bonds), the induced map on node ids, and "every atom carries a positive map number" *)
Definition remap_atom (sg : Z -> Z) (a : ratom) : ratom := RAt (r_sym a) (r_arom a) (r_hs a) (r_chg a) (sg (r_map a)).
Definition remap (sg : Z -> Z) (m : rmol) : rmol := (map (remap_atom sg) (fst m), snd m).
Definition sN (sg : Z -> Z) (n : N) : N := Z.to_N (sg (Z.of_N n)).
Definition pos_mapped (a : ratom) : bool := 0 <? r_map a.

(** the node ids MolToGraph.transform assigns (use_index_as_atom_map = ui): map number if ui and mapped, index + 1 otherwise *)
Fixpoint atom_ids (ui : bool) (idx : N) (l : list ratom) : list N :=
  match l with [] => [] | a :: r => atom_id ui idx a :: atom_ids ui (N.succ idx) r end.

(** * observables *)
Definition t_mols (x : option (option wmol * option wmol)) : tok :=
  topt (fun y : option wmol * option wmol => L [t_wmol (fst y); t_wmol (snd y)]) x.

(** rsmi_to_its for the four (core, explicit_hydrogen) settings, its_to_rsmi of the full ITS (both settings), and the
    hydrogen totals the theorem C10_rsmi_to_its_total_h speaks about *)
Definition run_rxn (r p : gr) (eo : list (N * N)) : tok :=
  let its := its_construct r p eo in
  L [t_gr_ord (rsmi_to_its r p eo false false); t_gr_ord (rsmi_to_its r p eo true false);
     t_gr_ord (rsmi_to_its r p eo false true); t_gr_ord (rsmi_to_its r p eo true true);
     I (total_h its); I (total_h (rsmi_to_its r p eo false true));
     t_mols (its_to_rsmi_mols its false); t_mols (its_to_rsmi_mols its true);
     t_mols (graph_to_rsmi_mols r p its false); t_mols (graph_to_rsmi_mols r p its true)].

(** graph_to_rsmi / its_to_rsmi on an arbitrary ITS-shaped graph (hand-made: explicit hydrogens in the centre, hydrogens
    without atom_map) *)
Definition run_its_rsmi (its : gr) : tok :=
  L [t_mols (its_to_rsmi_mols its false); t_mols (its_to_rsmi_mols its true);
     topt (tlist I) (rc_h_maps (get_rc its))].

(** gml_to_smart on a record *)
Definition run_gml_smart (rec : grec) : tok :=
  let '(l, r, _) := gml_to_nx rec in
  if has_loop l || has_loop r then L [I (-1)]
  else L [t_mols (gml_to_smart_mols rec false); t_mols (gml_to_smart_mols rec true)].

(** implicit_hydrogen with and without reindex *)
Definition run_imph (g : gr) (preserve : list Z) : tok :=
  if imph_keys_ok g
  then L [L [t_gr_ord (implicit_hydrogen g preserve)]; L [t_gr_ord (implicit_hydrogen_reindex g preserve)]]
  else L [L []; L []].

(** * NXToGML.transform, its last intermediate state: the three graphs and the changed-node list handed to _rule_grammar
      (after h_to_explicit of the context and after the reindex relabelling) — observed on the real call by a spy on
      NXToGML._rule_grammar and compared graph by graph (node order included) *)
Definition nx_to_gml_mid (Lg Rg Kg : gr) (reindex explicit_h : bool) : gr * gr * gr * list N :=
  let K1 := if explicit_h then h_to_explicit Kg None false else Kg in
  let m := enum_from 1%N (node_ids Lg) in
  let '(L2, R2, K2) := if reindex then (nx_relabel m Lg, nx_relabel m Rg, nx_relabel m K1) else (Lg, Rg, K1) in
  (L2, R2, K2, find_changed L2 R2).
(** NXToGML._rule_grammar *)
Definition rule_grammar (x : gr * gr * gr * list N) (explicit_h : bool) : grec :=
  let '(L2, R2, K2, ch) := x in
  [(SLeft, side_entries L2 ch); (SContext, context_entries K2 ch explicit_h); (SRight, side_entries R2 ch)].
Definition its_to_gml_mid (its : gr) (core reindex explicit_h : bool) : gr * gr * gr * list N :=
  let c := if core then get_rc its else its in
  let '(r, p) := its_decompose c in
  nx_to_gml_mid r p c reindex explicit_h.
Definition t_mid (x : gr * gr * gr * list N) : tok :=
  let '(L2, R2, K2, ch) := x in L [t_gr_ord L2; t_gr_ord R2; t_gr_ord K2; tlist tN ch].
Definition run_its7 (its : gr) (core reindex explicit_h : bool) : tok :=
  L [run_its6 its core reindex explicit_h; t_mid (its_to_gml_mid its core reindex explicit_h)].
Definition run_transform2 (Lg Rg Kg : gr) (reindex explicit_h : bool) : tok :=
  L [run_transform Lg Rg Kg reindex explicit_h; t_mid (nx_to_gml_mid Lg Rg Kg reindex explicit_h)].

(** its_to_gml(..., rule_name=name): the text with another rule name, and what the reader makes of it *)
Definition run_its_named (its : gr) (core reindex explicit_h : bool) (name : str) : tok :=
  let t := render name (its_to_gml its core reindex explicit_h) in L [t_str t; topt t_parsed (text_to_nx t)].
