(** C17 — the code paths of synkit/CRN/Props/stoich.py that are taken when SciPy cannot be imported
    (module flag _SCIPY_AVAILABLE False):

      _null_space            -> _svd_null_space (numpy SVD; NOT modelled: its basis is compared by dimension, its sign scan is an oracle input)
      is_conservative        -> no LP: empty basis -> False; a sign-definite basis column -> True; kernel of dimension 1 -> False;
                                otherwise None (inconclusive)
      is_consistent          -> no LP: the fall-back scan of the right kernel basis: empty -> False, a sign-definite column -> True,
                                otherwise None

    and a positive scaling of the coefficients (a caller-supplied graph with FRACTIONAL coefficients c / d has the integer matrix d * S_Q).
    Definitions only; proofs in proof/C17_FallbackProof.v. *)
From Coq Require Import List NArith ZArith Bool Arith.
From SK Require Import lib.Tok lib.C17_Farkas model.C17_Model.
Import ListNotations.

Definition conservative_verdict_noscipy (k : nat) (scanL : bool) : option bool :=
  if (k =? 0)%nat then Some false
  else if scanL then Some true
  else if (k =? 1)%nat then Some false
  else None.

Definition consistent_verdict_noscipy (kr : nat) (scanR : bool) : option bool :=
  consistent_verdict kr (Num false false 2 scanR).

Definition run_noscipy (net : list rxn) (iso : list str) (rc : rcert) (scanL scanR : bool) : tok :=
  match net with
  | [] => L [I 2%Z]
  | _ =>
    let S := build_S net iso in
    let m := length (species_order net iso) in
    let n := length (reaction_order net) in
    let r := rc_r rc in
    L [ I 0%Z; tbool (rank_checked m n S rc); tnat r;
        L [tnat m; tnat (m - r)]; L [tnat n; tnat (n - r)];
        topt tbool (conservative_verdict_noscipy (m - r) scanL);
        topt tbool (consistent_verdict_noscipy (n - r) scanR) ]
  end.

(** every coefficient multiplied by d *)
Definition mscale (d : Z) (M : list (list Z)) : list (list Z) := map (map (Z.mul d)) M.
