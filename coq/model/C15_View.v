(** C15 (round 4) — cached graph views of a network (synkit/CRN/Hypergraph/backend.py:
    _CRNGraphBackend, the base of CRNCanonicalizer / CRNAutomorphism / WLCanonicalizer).

    A backend object keeps a REFERENCE to a CRNHyperGraph and, from the first
    access of [.G] / [.graph_type] on, a cached graph built from it.  Since the
    repair of round 4 the hypergraph counts its mutating calls ([_version]) and the
    backend rebuilds the graph when the count differs from the one it built from.

    The export functions themselves (hypergraph_to_bipartite /
    hypergraph_to_species_graph) belong to C16; here a view is represented by the
    snapshot of the store it was built from, and [vproj] is the part of the store
    the export with the backend's options reads (so: exported graph = F (vproj …)
    for a function F that C16 models).  Definitions only. *)
From stdpp Require Import gmap strings sets pretty.
From SK Require Import lib.Tok model.C15_Model model.C15_Ext.
Local Open Scope string_scope.

Record vopts := VO { include_rule : bool; integer_ids : bool; include_stoich : bool }.

(** cache = (hg._version at build time, the store as it was then) *)
Record backend := BE { b_net : nat; b_opts : vopts; b_cache : option (N * net) }.

Record world3 := W3 { w2 : world2; vers : list N; backends : list backend }.

Definition getv (vs : list N) (i : nat) : N := nth i vs 0%N.
Definition getb (bs : list backend) (b : nat) : backend := nth b bs (BE 0 (VO false false false) None).

(** what the export reads:
    - bipartite (include_rule): every species (isolated ones included), every
      reaction with its rule and both sides — coefficients only with include_stoich;
      molecule labels are not exported (include_mol=False);
    - species graph: every species; the reactions that have both reactants and
      products, with rule and coefficients (one-sided reactions leave no arc) *)
Definition ones (sd : side) : side := (fun _ => 1%positive) <$> sd.
Definition vrx : Type := string * side * side.
Definition vproj (o : vopts) (s : net) : gset string * gmap string vrx :=
  (species s,
   if include_rule o then
     if include_stoich o then (fun rx => (r_rule rx, r_lhs rx, r_rhs rx)) <$> edges s
     else (fun rx => (r_rule rx, ones (r_lhs rx), ones (r_rhs rx))) <$> edges s
   else (fun rx => (r_rule rx, r_lhs rx, r_rhs rx)) <$>
        filter (fun p => r_lhs p.2 ≠ ∅ ∧ r_rhs p.2 ≠ ∅) (edges s)).

Definition graph_type (o : vopts) : string := if include_rule o then "bipartite" else "species".

(** does [_version] move?  add_rxn counts after it stored the edge, remove_rxn
    after the pop, remove_species / assign_mol / set_mol_map after their KeyError
    test; merge counts through add_rxn; edits of a returned side, queries and the
    caller's own objects do not count. *)
Definition stored_more (s s' : net) : bool := bool_decide (order s' ≠ order s).
Definition bumps (w : world2) (o : op2) (w' : world2) (er : option err) : option nat :=
  match o with
  | OBase (OAdd i _ _ _ _) | OAddItems i _ _ _ _ | OAddFrom i _ _ _ _ | OAddPool i _ _ _ _
  | OBase (OMerge i _ _) | OMergeRaw i _ _ =>
      if stored_more (getn (nets w) i) (getn (nets w') i) then Some i else None
  | OBase (ORemoveRxn i _) | OBase (ORemoveSpecies i _ _)
  | OBase (OAssignMol i _ _) | OBase (OSetMolMap i _ _ _) =>
      match er with None => Some i | Some _ => None end
  | _ => None
  end.

Inductive op3 :=
| O2 (o : op2)
| OBackendNew (b i : nat) (o : vopts)     (* backends[b] := _CRNGraphBackend(nets[i], **o) *)
| OView (b : nat)                          (* backends[b].G *)
| OViewType (b : nat).                     (* backends[b].graph_type *)

(** .G / .graph_type: serve the cached graph when it was built from the current
    version, build (and cache) it otherwise *)
Definition access (w : world3) (b : nat) : world3 * bool * net :=
  let be := getb (backends w) b in
  let cur := getv (vers w) (b_net be) in
  match b_cache be with
  | Some (v, snap) =>
      if decide (v = cur) then (w, false, snap)
      else let s := getn (nets (w2 w)) (b_net be) in
           (W3 (w2 w) (vers w) (<[ b := BE (b_net be) (b_opts be) (Some (cur, s)) ]> (backends w)), true, s)
  | None =>
      let s := getn (nets (w2 w)) (b_net be) in
      (W3 (w2 w) (vers w) (<[ b := BE (b_net be) (b_opts be) (Some (cur, s)) ]> (backends w)), true, s)
  end.

(** the slot [j] of the world is re-bound to a NEW object by copy: the backends
    the caller holds for slot [j] are re-created on the new object *)
Definition reset_on (j : nat) (bs : list backend) : list backend :=
  (fun be => if decide (b_net be = j) then BE (b_net be) (b_opts be) None else be) <$> bs.

Definition step3 (w : world3) (o : op3) : world3 * option err * tok :=
  match o with
  | O2 o2 =>
      let '(w', er, a) := step2 (w2 w) o2 in
      let vs := match o2 with
                | OBase (OCopy i j) => <[ j := getv (vers w) i ]> (vers w)
                | _ => match bumps (w2 w) o2 w' er with
                       | Some i => <[ i := (getv (vers w) i + 1)%N ]> (vers w)
                       | None => vers w
                       end
                end in
      let bs := match o2 with
                | OBase (OCopy i j) => reset_on j (backends w)
                | _ => backends w
                end in
      (W3 w' vs bs, er, a)
  | OBackendNew b i o => (W3 (w2 w) (vers w) (<[ b := BE i o None ]> (backends w)), None, L [])
  | OView b =>
      let '(w', rebuilt, snap) := access w b in
      let be := getb (backends w) b in
      let cur := getn (nets (w2 w)) (b_net be) in
      (w', None, L [tstr (graph_type (b_opts be)); tbool rebuilt;
                    tbool (bool_decide (vproj (b_opts be) snap = vproj (b_opts be) cur))])
  | OViewType b =>
      let '(w', rebuilt, _) := access w b in
      (w', None, L [tstr (graph_type (b_opts (getb (backends w) b))); tbool rebuilt])
  end.

Definition init_world3 (n k nb : nat) : world3 :=
  W3 (init_world2 n k) (replicate n 0%N) (replicate nb (BE 0 (VO false false false) None)).

(** observation after every op: error, answer, the networks and the caller's
    side objects as in [run2]; queries and view accesses record only their answer *)
Definition is_read (o : op3) : bool :=
  match o with O2 o2 => is_query o2 | OView _ | OViewType _ => true | OBackendNew _ _ _ => false end.
Fixpoint run_ops3 (skip : nat) (w : world3) (ops : list op3) : list tok :=
  match ops with
  | [] => []
  | o :: os =>
      let '(w', er, a) := step3 w o in
      match skip with
      | S k => run_ops3 k w' os
      | O => (if is_read o then L [terr er; a]
              else L [terr er; a; tlist (tnet2 false) (nets (w2 w')); tlist tside (pool (w2 w'))])
             :: run_ops3 O w' os
      end
  end.
Definition run3 (n k nb skip : nat) (ops : list op3) : tok := L (run_ops3 skip (init_world3 n k nb) ops).
