(** C09 — the graph-level core of NormalizeAAM.fit (definitions only; proofs in proof/C09_Normalize.v):

      synkit/Graph/ITS/normalize_aam.py  NormalizeAAM.fit, between rsmi_to_graph (after fix_rsmi_kekulize and FixAAM: RDKit) and
      GraphToMol + MolToSmiles (RDKit):
          its = ITSGraph(r_graph, p_graph); rc = get_rc(its)
          list_hydrogen = [atom_map of every node of rc whose element is "H"]
          r_graph, p_graph = implicit_hydrogen(r_graph, list_hydrogen), implicit_hydrogen(p_graph, list_hydrogen)

    [implicit_hydrogen] is the model of property C01 (model/C01_String.v, read-only; it follows /repo 3ba7a77). *)
From Coq Require Import List NArith ZArith Bool.
From SK Require Import lib.Tok lib.LGraph model.C01_Model model.C02_Model model.C01_String.
Import ListNotations.

(** the atom maps of the hydrogens of the reaction centre, in the node order of the centre *)
Definition rc_hydrogens (rc : its) : list Z :=
  map (fun p : N * inode => i_amap (snd p)) (filter (fun p : N * inode => N.eqb (i_el (snd p)) EL_H) (gnodes rc)).
Definition list_hydrogen (G H : mgraph) : list Z := rc_hydrogens (get_rc (its_construct G H)).
Definition normalize_core (G H : mgraph) : mgraph * mgraph :=
  (implicit_hydrogen G (list_hydrogen G H), implicit_hydrogen H (list_hydrogen G H)).

Definition run_normalize (G H : mgraph) : tok :=
  L [tset I (list_hydrogen G H); tmgraph (fst (normalize_core G H)); tmgraph (snd (normalize_core G H))].
