(** C20 — the ATTRIBUTE layer under find_siphons / find_traps / siphon_persistence_condition on a caller-supplied bipartite DiGraph
    (synkit/CRN/Props/utils.py: _split_species_reactions, _species_order; synkit/CRN/Petri/structure.py: the reading of role and
    stoich), for graphs whose nodes and arcs carry only SOME of the documented attributes:

      node:  kind ("species" / "reaction" / absent / anything else), bipartite (0 / 1 / absent / anything else),
             label (absent: the label falls back to str(node))
      arc:   role ("reactant" / "product" / absent / anything else), stoich (absent: 1 — structure.py tests data.get("stoich", 1) > 0)

    _split_species_reactions:  kind == "species" or bipartite == 0 -> species;  elif kind == "reaction" or bipartite == 1 -> reaction;
    every other node is ignored.  An arc whose role is neither "reactant" nor "product" never satisfies a role test of the
    predicates: [normalise] leaves it out.  Species labels are their ranks among all label strings, interned by the harness
    ([rn_label] = rank of the label attribute when present, [rn_strrank] = rank of str(node)).
    Definitions only; proofs in proof/C20_Raw.v. *)
From Coq Require Import ZArith List Bool Arith.
Import ListNotations.
From SK Require Import lib.Tok model.C20_Model model.C20_Persist.

Record rnode := RNode { rn_id : nat; rn_kind : option bool; rn_flag : option bool; rn_label : option nat; rn_strrank : nat }.
Record rarc := RArc { ra_src : nat; ra_dst : nat; ra_role : option role; ra_stoich : option Z }.
Record rgraph := RG { rg_nodes : list rnode; rg_arcs : list rarc }.

Definition is_some_true (o : option bool) : bool := match o with Some true => true | _ => false end.
Definition is_some_false (o : option bool) : bool := match o with Some false => true | _ => false end.

Definition species_like (n : rnode) : bool := is_some_true (rn_kind n) || is_some_true (rn_flag n).
Definition reaction_like (n : rnode) : bool := is_some_false (rn_kind n) || is_some_false (rn_flag n).
Definition is_species (n : rnode) : bool := species_like n.
Definition is_reaction (n : rnode) : bool := negb (species_like n) && reaction_like n.

Definition label_of (n : rnode) : nat := match rn_label n with Some l => l | None => rn_strrank n end.
Definition eff_stoich (a : rarc) : Z := match ra_stoich a with Some c => c | None => 1%Z end.

Definition arc_of (a : rarc) : list arc :=
  match ra_role a with
  | Some ro => [Arc (ra_src a) (ra_dst a) ro (eff_stoich a)]
  | None => []
  end.

Definition normalise (G : rgraph) : bgraph :=
  BG (map (fun n => (rn_id n, label_of n)) (filter is_species (rg_nodes G)))
     (map rn_id (filter is_reaction (rg_nodes G)))
     (flat_map arc_of (rg_arcs G)).

Definition run_net_raw (G : rgraph) (k : nat) (cands : list (list nat)) (supports : list (list nat)) : tok :=
  run_graph_p (normalise G) k cands supports.

(** the fully annotated export of a network as a raw graph: species nodes inserted in the order [sp_order] (ranks), then the
    reaction nodes; kind, bipartite and label on every node, role and stoich on every arc *)
Definition raw_export (sp_order : list nat) (n : nat) (rs : list rxn) : rgraph :=
  RG (map (fun i => RNode (sp_node i) (Some true) (Some true) (Some i) i) sp_order ++
      map (fun j => RNode (rx_node n j) (Some false) (Some false) None 0) (seq 0 (length rs)))
     (map (fun a => RArc (a_src a) (a_dst a) (Some (a_role a)) (Some (a_stoich a))) (arcs_from n 0 rs)).

(** * Undirected inputs (conversion.py:_as_bipartite on an nx.Graph): every stored edge (u, v) is oriented by its role

      u_is_rxn = kind(u) == "reaction" or (kind(u) is None and bipartite(u) == 1)
      s, r = (v, u) if u_is_rxn else (u, v);   a, b = (r, s) if role == "product" else (s, r);   D.add_edge(a, b, **data)

    and the resulting DiGraph goes through the attribute layer above.  ([rn_kind] = None stands for an ABSENT kind here: the
    undirected cases carry no foreign attribute values.)  An undirected simple graph holds one edge per node pair, so no two
    incidences are merged. *)
Definition find_rnode (G : rgraph) (u : nat) : option rnode := find (fun n => Nat.eqb (rn_id n) u) (rg_nodes G).

Definition u_is_rxn (n : rnode) : bool :=
  is_some_false (rn_kind n) || (match rn_kind n with None => true | Some _ => false end && is_some_false (rn_flag n)).

Definition orient_rarc (G : rgraph) (a : rarc) : rarc :=
  let rxn_first := match find_rnode G (ra_src a) with Some n => u_is_rxn n | None => false end in
  let s := if rxn_first then ra_dst a else ra_src a in
  let r := if rxn_first then ra_src a else ra_dst a in
  match ra_role a with
  | Some Product => RArc r s (ra_role a) (ra_stoich a)
  | _ => RArc s r (ra_role a) (ra_stoich a)
  end.

Definition orient_raw (G : rgraph) : rgraph := RG (rg_nodes G) (map (orient_rarc G) (rg_arcs G)).

(** an undirected graph stores each edge in SOME direction: [flips] says which arcs of the directed graph are stored reversed *)
Definition flip_rarc (b : bool) (a : rarc) : rarc := if b then RArc (ra_dst a) (ra_src a) (ra_role a) (ra_stoich a) else a.
Fixpoint stored (flips : list bool) (arcs : list rarc) : list rarc :=
  match arcs, flips with
  | a :: arcs', b :: flips' => flip_rarc b a :: stored flips' arcs'
  | a :: arcs', [] => a :: stored [] arcs'
  | [], _ => []
  end.
Definition undirected_raw (flips : list bool) (G : rgraph) : rgraph := RG (rg_nodes G) (stored flips (rg_arcs G)).

Definition run_net_raw_und (G : rgraph) (k : nat) (cands : list (list nat)) (supports : list (list nat)) : tok :=
  run_graph_p (normalise (orient_raw G)) k cands supports.
