(** C08 — additional observables of the correspondence (round 5; definitions only).
    The canonical node ORDER of the attribute-sort, wl and morgan back-ends (old ids in the order of their new ids 1..N):
    the canonical graph alone does not show which of two nodes with equal attributes got which number.  The implementation
    side tags every node with its old id in an uncovered attribute before canonicalising and reads the tags back. *)
From Coq Require Import List NArith ZArith Bool Arith.
From SK Require Import lib.Tok lib.LGraph model.C08_Model model.C08_Digraph model.C08_Sel.
Import ListNotations.

Definition generic_order (g : graph) : list N := map fst (sort_by nkey_id (gnodes g)).
Definition rank_order (ranks : list (N * Z)) (g : graph) : list N :=
  sort_by (fun v => [rank_of ranks v; degree g v; Z.of_N v]) (node_ids g).
Definition run_orders (items : list (graph * list (N * Z) * list (N * Z))) : tok :=
  tlist (fun it : graph * list (N * Z) * list (N * Z) =>
           let '(g, wl, mg) := it in L [tlist tN (generic_order g); tlist tN (rank_order wl g); tlist tN (rank_order mg g)]) items.

Definition run_case8 (items : list (graph * list (N * Z) * list (N * Z))) (others rule_hs : list graph) (mds : list nat) : tok :=
  L [run_case7 items others rule_hs mds; run_orders items].
Definition drun_case8 (items : list ditem) (others : list graph) : tok :=
  L [drun_case items others; run_orders items].

(* NautyCanonicalizer used directly with attribute selections (model/C08_Sel.v): [cfgs] = [] on the cases where the harness does
   not run them *)
Definition run_case9 (items : list (graph * list (N * Z) * list (N * Z))) (others rule_hs : list graph) (mds : list nat)
                     (cfgs : list (list nsel * list esel)) (sgs sothers : list graph) : tok :=
  L [run_case8 items others rule_hs mds; run_sel cfgs sgs sothers].
