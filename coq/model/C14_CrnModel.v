(** C14 — executable model of SynCRN.build (synkit/CRN/DAG/syncrn.py): task generation per step
    (_make_tasks_for_step, _iter_mixtures_arity1/2/k, _task_from_mix), task execution serial or through
    ProcessPoolExecutor.map (_run_tasks, _apply_rule_worker) and integration of the results into the event
    graph (_integrate_results, _integrate_one_result, _delta_keep_ids, _add_rxn_event_node,
    _update_pool_with_products).  Definitions only; proofs in proof/C14_Crn.v.

    Abstractions: a species is its canonical map-free SMILES key, represented by its RANK in the string
    order of all keys of the run (so [N.ltb] is Python's [<] on the keys); the chemistry (SynReactor +
    RDKit standardisation) is the table [exec]: (content of the rule, reactant mixture) |-> product
    mixtures (lists of keys in output order, unparsable fragments dropped) observed in the serial run.
    A rule is (arity, content id); the content id of a rule is what the worker process receives and
    what [repr(rule)] shows.  Process-level parallelism is an order-preserving chunked map. *)
From Coq Require Import NArith ZArith List Bool Arith.
Import ListNotations.
From SK Require Import lib.Tok.
Local Open Scope N_scope.

Definition mixt := list N.

Fixpoint keys_eqb (a b : list N) : bool :=
  match a, b with
  | [], [] => true
  | x :: a', y :: b' => (x =? y) && keys_eqb a' b'
  | _, _ => false
  end.
Definition memk (k : N) (s : list N) : bool := existsb (N.eqb k) s.

(** sorted(set(l)) *)
Fixpoint ins_u (k : N) (l : list N) : list N :=
  match l with
  | [] => [k]
  | x :: l' => if k <? x then k :: l else if k =? x then l else x :: ins_u k l'
  end.
Definition sorted_set (l : list N) : list N := fold_right ins_u [] l.

(** sorted(l) — duplicates kept *)
Fixpoint ins_s (k : N) (l : list N) : list N :=
  match l with
  | [] => [k]
  | x :: l' => if k <=? x then k :: l else x :: ins_s k l'
  end.
Definition sorted_list (l : list N) : list N := fold_right ins_s [] l.

(** itertools.combinations(l, r) *)
Fixpoint combs {A} (l : list A) (r : nat) {struct l} : list (list A) :=
  match r, l with
  | O, _ => [[]]
  | S _, [] => []
  | S r', x :: l' => map (cons x) (combs l' r') ++ combs l' r
  end.

(** first occurrences (a DiGraph keeps one arc per pair; in_edges / out_edges list them in insertion order) *)
Fixpoint dedupe_k (seen l : list N) : list N :=
  match l with
  | [] => []
  | x :: l' => if memk x seen then dedupe_k seen l' else x :: dedupe_k (x :: seen) l'
  end.

(** * Configuration *)
Record crn_cfg := CrnCfg {
  cc_rules : list (nat * N);          (* per rule index: (arity, content id) *)
  cc_repeats : nat;
  cc_max_components : nat;
  cc_use_frontier : bool;
  cc_dedup_across : bool;
  cc_max_mix : N;                     (* max_mixtures_per_rule_step *)
  cc_max_tasks : N;                   (* max_tasks_per_step *)
  cc_skip_no_change : bool;
  cc_allow_empty_side : bool;
  cc_dedup_delta : bool }.

(** * Mixtures (_iter_mixtures_arity1 / 2 / k) — the complete sequence, the cap is applied by [capped] *)
Definition mixtures (use_frontier : bool) (arity : nat) (pool frontier : list N) : list mixt :=
  let pool_u := sorted_set pool in
  match pool_u with
  | [] => []
  | _ =>
    let frontier_u := if use_frontier then sorted_set frontier else pool_u in
    match arity with
    | 0%nat => []
    | 1%nat => map (fun f => [f]) frontier_u
    | 2%nat => flat_map (fun f => flat_map (fun x => if x =? f then [] else [if f <? x then [f; x] else [x; f]]) pool_u)
                        frontier_u
    | _ => flat_map (fun f => map (fun comb => sorted_list (f :: comb))
                                  (combs (filter (fun x => negb (x =? f)) pool_u) (arity - 1)))
                    frontier_u
    end
  end.

(** the generators count what they yield and stop once the count reaches [cap] (checked after the yield) *)
Definition capped (cap : N) (l : list mixt) : list mixt := firstn (N.to_nat (N.max cap 1)) l.

(** * Tasks *)
Record task := Task { t_idx : nat;        (* rule index *)
                      t_rule : N;         (* the rule object shipped to the worker (its content) *)
                      t_mix : mixt }.     (* reactant keys *)

Definition seen_mem (ridx : nat) (m : mixt) (seen : list (nat * mixt)) : bool :=
  existsb (fun p => Nat.eqb (fst p) ridx && keys_eqb (snd p) m) seen.

Definition has_key (index : list (N * N)) (k : N) : bool := existsb (fun p => fst p =? k) index.

(** the [for mix_keys in mix_iter] loop with _task_from_mix inlined *)
Fixpoint tasks_of_mixes (index : list (N * N)) (ridx : nat) (cid : N) (mixes : list mixt)
         (seen : list (nat * mixt)) (budget : N) (acc : list task) : list (nat * mixt) * N * list task :=
  match mixes with
  | [] => (seen, budget, acc)
  | m :: ms =>
      if budget =? 0 then (seen, budget, acc)
      else if seen_mem ridx m seen then tasks_of_mixes index ridx cid ms seen budget acc
      else if forallb (has_key index) m
           then tasks_of_mixes index ridx cid ms ((ridx, m) :: seen) (budget - 1) (acc ++ [Task ridx cid m])
           else tasks_of_mixes index ridx cid ms ((ridx, m) :: seen) budget acc
  end.

(** the [for ridx, rule in enumerate(self.rules)] loop *)
Fixpoint tasks_of_rules (c : crn_cfg) (index : list (N * N)) (pool frontier : list N) (ridx : nat)
         (rules : list (nat * N)) (seen : list (nat * mixt)) (budget : N) (acc : list task)
  : list (nat * mixt) * list task :=
  match rules with
  | [] => (seen, acc)
  | (ar, cid) :: rs =>
      if budget =? 0 then (seen, acc)
      else if (cc_max_components c <? ar)%nat
           then tasks_of_rules c index pool frontier (S ridx) rs seen budget acc
           else
             let cap := N.min (cc_max_mix c) budget in
             let mixes := capped cap (mixtures (cc_use_frontier c) ar pool frontier) in
             let '(seen', budget', acc') := tasks_of_mixes index ridx cid mixes seen budget acc in
             tasks_of_rules c index pool frontier (S ridx) rs seen' budget' acc'
  end.

(** * Running the tasks *)
Definition exec_table := list ((N * mixt) * list mixt).
Fixpoint exec_lookup (t : exec_table) (cid : N) (m : mixt) : list mixt :=
  match t with
  | [] => []
  | ((c, m'), out) :: t' => if (c =? cid) && keys_eqb m' m then out else exec_lookup t' cid m
  end.

Definition result := (nat * mixt * list mixt)%type.

(** _apply_rule_worker: runs the RULE IT WAS HANDED on the substrate, hands the index back unchanged *)
Definition apply_rule_worker (t : exec_table) (tk : task) : result :=
  (t_idx tk, t_mix tk, exec_lookup t (t_rule tk) (t_mix tk)).

(** executor.map: the task list is cut into consecutive chunks, each chunk is mapped by some worker process,
    the results come back in submission order *)
Fixpoint chunks_fuel {A} (fuel : nat) (c : nat) (l : list A) : list (list A) :=
  match fuel with
  | O => [l]
  | S fuel' => match l with
               | [] => []
               | _ => firstn c l :: chunks_fuel fuel' c (skipn c l)
               end
  end.
Definition chunks {A} (c : nat) (l : list A) : list (list A) := chunks_fuel (length l) (Nat.max c 1) l.
Definition par_map {A B} (c : nat) (f : A -> B) (l : list A) : list B := concat (map (map f) (chunks c l)).

Definition run_tasks (parallel : bool) (workers : nat) (t : exec_table) (tasks : list task) : list result :=
  if parallel && (1 <? length tasks)%nat
  then par_map (Nat.div (length tasks) (Nat.max workers 1)) (apply_rule_worker t) tasks
  else map (apply_rule_worker t) tasks.

(** * The event graph *)
Inductive gnode :=
| GSpecies (id key : N)
| GEvent (id : N) (step ridx : nat) (cid app : N) (rs ps : list N).

Record crn_state := CrnState {
  s_index : list (N * N);                          (* _species_index: key -> node id, insertion order *)
  s_next : N;                                      (* _next_node_id *)
  s_nodes : list gnode;                            (* graph nodes, insertion order *)
  s_pool : list N;                                 (* pool_keys *)
  s_seen : list (nat * mixt);                      (* _seen_attempts *)
  s_delta : list (option nat * mixt * mixt);       (* _seen_delta *)
  s_app : list (nat * nat * N) }.                  (* _app_counter: (step, rule index) -> next app index *)

Definition find_id (index : list (N * N)) (k : N) : option N :=
  match find (fun p => fst p =? k) index with Some p => Some (snd p) | None => None end.

(** _add_species_node on an already standardised key *)
Definition add_species (st : crn_state) (k : N) : crn_state * N :=
  match find_id (s_index st) k with
  | Some id => (st, id)
  | None =>
      let id := s_next st in
      (CrnState (s_index st ++ [(k, id)]) (id + 1) (s_nodes st ++ [GSpecies id k]) (s_pool st) (s_seen st)
                (s_delta st) (s_app st), id)
  end.

Fixpoint add_species_list (st : crn_state) (ks : list N) : crn_state * list N :=
  match ks with
  | [] => (st, [])
  | k :: ks' => let '(st1, id) := add_species st k in
                let '(st2, ids) := add_species_list st1 ks' in (st2, id :: ids)
  end.

Definition delta_mem (d : option nat * mixt * mixt) (seen : list (option nat * mixt * mixt)) : bool :=
  existsb (fun e => match fst (fst e), fst (fst d) with
                    | None, None => true
                    | Some a, Some b => Nat.eqb a b
                    | _, _ => false
                    end && keys_eqb (snd (fst e)) (snd (fst d)) && keys_eqb (snd e) (snd d)) seen.

Fixpoint app_get (a : list (nat * nat * N)) (step ridx : nat) : N :=
  match a with
  | [] => 0
  | (s, r, n) :: a' => if Nat.eqb s step && Nat.eqb r ridx then n else app_get a' step ridx
  end.
Fixpoint app_set (a : list (nat * nat * N)) (step ridx : nat) (v : N) : list (nat * nat * N) :=
  match a with
  | [] => [(step, ridx, v)]
  | (s, r, n) :: a' => if Nat.eqb s step && Nat.eqb r ridx then (s, r, v) :: a' else (s, r, n) :: app_set a' step ridx v
  end.

Definition cid_of (rules : list (nat * N)) (ridx : nat) : N :=
  match nth_error rules ridx with Some (_, cid) => cid | None => 0 end.

Definition pairs_keep (ids keys unchanged : list N) : list (N * N) :=
  filter (fun p => negb (memk (snd p) unchanged)) (combine ids keys).

(** one product mixture of one result: the body of the [for prod_mix in products_list] loop *)
Definition integrate_mixture (c : crn_cfg) (step ridx : nat) (mix : mixt) (rids : list N)
           (st : crn_state) (nf : list N) (pm : mixt) : crn_state * list N :=
  let '(st1, pids) := add_species_list st pm in                       (* _delta_keep_ids registers every product *)
  let unchanged := filter (fun k => memk k pm) mix in
  let rk := pairs_keep rids mix unchanged in
  let pk := pairs_keep pids pm unchanged in
  let r_empty := match rk with [] => true | _ => false end in
  let p_empty := match pk with [] => true | _ => false end in
  if (cc_skip_no_change c && r_empty && p_empty) || (negb (cc_allow_empty_side c) && (r_empty || p_empty))
  then (st1, nf)
  else
      let dkey := (if cc_dedup_across c then None else Some ridx,
                   sorted_list (map snd rk), sorted_list (map snd pk)) in
      if cc_dedup_delta c && delta_mem dkey (s_delta st1) then (st1, nf)
      else
        let app := app_get (s_app st1) step ridx in
        let eid := s_next st1 in
        let ev := GEvent eid step ridx (cid_of (cc_rules c) ridx) app
                         (dedupe_k [] (map fst rk)) (dedupe_k [] (map fst pk)) in
        (* _update_pool_with_products *)
        let new := dedupe_k (s_pool st1) pm in
        (CrnState (s_index st1) (eid + 1) (s_nodes st1 ++ [ev]) (s_pool st1 ++ new) (s_seen st1)
                  (if cc_dedup_delta c then dkey :: s_delta st1 else s_delta st1)
                  (app_set (s_app st1) step ridx (app + 1)),
         nf ++ dedupe_k nf new).

Fixpoint all_some {A} (l : list (option A)) : option (list A) :=
  match l with
  | [] => Some []
  | Some x :: l' => match all_some l' with Some r => Some (x :: r) | None => None end
  | None :: _ => None
  end.

(** _integrate_one_result *)
Definition integrate_result (c : crn_cfg) (step : nat) (acc : crn_state * list N) (r : result) : crn_state * list N :=
  let '(ridx, mix, prods) := r in
  let '(st, nf) := acc in
  match prods with
  | [] => acc
  | _ =>
      match all_some (map (find_id (s_index st)) mix) with
      | None => acc
      | Some rids => fold_left (fun a pm => integrate_mixture c step ridx mix rids (fst a) (snd a) pm) prods (st, nf)
      end
  end.

Definition with_seen (st : crn_state) (seen : list (nat * mixt)) : crn_state :=
  CrnState (s_index st) (s_next st) (s_nodes st) (s_pool st) seen (s_delta st) (s_app st).

(** the step loop of [build]; [ntasks] records the number of tasks per step *)
Fixpoint build_loop (c : crn_cfg) (parallel : bool) (workers : nat) (t : exec_table) (n step : nat)
         (st : crn_state) (frontier : list N) (ntasks : list nat) : crn_state * list nat :=
  match n with
  | O => (st, ntasks)
  | S n' =>
      if cc_use_frontier c && match frontier with [] => true | _ => false end then (st, ntasks)
      else
        let '(seen', tasks) := tasks_of_rules c (s_index st) (s_pool st) frontier 0 (cc_rules c) (s_seen st)
                                              (cc_max_tasks c) [] in
        let st0 := with_seen st seen' in
        match tasks with
        | [] => (st0, ntasks)
        | _ =>
            let results := run_tasks parallel workers t tasks in
            let '(st1, nf) := fold_left (integrate_result c step) results (st0, []) in
            build_loop c parallel workers t n' (S step) st1 nf (ntasks ++ [length tasks])
        end
  end.

(** _init_pool: [None] = a seed RDKit cannot standardise.  The pool of a build call starts EMPTY (the seeds of this call
    only); species index, graph, attempt / delta memories and application counters of the object persist. *)
Definition init_pool (st0 : crn_state) (seeds : list (option N)) : crn_state :=
  fold_left (fun st s => match s with
                         | None => st
                         | Some k =>
                             let '(st1, _) := add_species st k in
                             if memk k (s_pool st1) then st1
                             else CrnState (s_index st1) (s_next st1) (s_nodes st1) (s_pool st1 ++ [k]) (s_seen st1)
                                           (s_delta st1) (s_app st1)
                         end) seeds
            (CrnState (s_index st0) (s_next st0) (s_nodes st0) [] (s_seen st0) (s_delta st0) (s_app st0)).

Definition crn_new : crn_state := CrnState [] 1 [] [] [] [] [].

(** one call of [build] on an object in state [st0] *)
Definition build_from (c : crn_cfg) (parallel : bool) (workers : nat) (t : exec_table) (st0 : crn_state)
           (seeds : list (option N)) : crn_state * list nat :=
  let st := init_pool st0 seeds in
  match s_pool st with
  | [] => (st, [])
  | _ => build_loop c parallel workers t (cc_repeats c) 1 st (s_pool st) []
  end.

Definition build (c : crn_cfg) (parallel : bool) (workers : nat) (t : exec_table) (seeds : list (option N))
  : crn_state * list nat := build_from c parallel workers t crn_new seeds.

(** successive [build] calls on ONE object: the states after each call and the task counts of all calls *)
Fixpoint builds_from (c : crn_cfg) (parallel : bool) (workers : nat) (t : exec_table) (st0 : crn_state)
         (calls : list (list (option N))) : list crn_state * list nat :=
  match calls with
  | [] => ([], [])
  | seeds :: calls' =>
      let '(st1, n1) := build_from c parallel workers t st0 seeds in
      let '(sts, ns) := builds_from c parallel workers t st1 calls' in
      (st1 :: sts, n1 ++ ns)
  end.

(** * Observable *)
Definition tnode_species (g : gnode) : list tok :=
  match g with GSpecies id k => [L [tN id; tN k]] | _ => [] end.
Definition tnode_event (g : gnode) : list tok :=
  match g with
  | GEvent id step ridx cid app rs ps =>
      [L [tN id; tnat step; tnat ridx; I Z.one; tN cid; tN app; I Z.one; tlist tN rs; tlist tN ps]]
  | _ => []
  end.
Definition trecord (st : crn_state) : tok :=
  L [L (flat_map tnode_species (s_nodes st)); L (flat_map tnode_event (s_nodes st))].

(** [runs] = the (parallel, max_workers) configurations, the serial one first; [calls] = the seed lists of the successive
    build calls on one object *)
Definition run_crn (c : crn_cfg) (t : exec_table) (calls : list (list (option N))) (runs : list (bool * nat)) : tok :=
  L [ tlist (fun pw : bool * nat => tlist trecord (fst (builds_from c (fst pw) (snd pw) t crn_new calls))) runs;
      tlist tnat (snd (builds_from c false 0 t crn_new calls)) ].

(** * joblib.Parallel(n_jobs)(delayed(f)(row) for row in rows) — AAMValidator.validate_smiles, BalanceReactionCheck.dicts_balance_check

    The per-row function is abstract ([f]); the worker pool returns the results in submission order (its contract): modelled
    as a chunked map, like executor.map above.  What the callers do with the result list is modelled literally:
    validate_smiles keeps the list and counts the successes, dicts_balance_check splits it (stably) by the verdict. *)
Definition rows_parallel {A B} (n_jobs : nat) (f : A -> B) (rows : list A) : list B :=
  if (1 <? n_jobs)%nat then par_map (Nat.div (length rows) n_jobs) f rows else map f rows.

(** one mapped column of validate_smiles: the per-row results and (number of successes, number of rows) — the accuracy *)
Definition validate_column {A} (n_jobs : nat) (check : A -> bool) (rows : list A) : list bool * (nat * nat) :=
  let results := rows_parallel n_jobs check rows in
  (results, (length (filter (fun b => b) results), length rows)).

(** dicts_balance_check: (balanced rows, unbalanced rows), each in input order *)
Definition balance_split {A} (n_jobs : nat) (check : A -> bool) (rows : list A) : list A * list A :=
  let results := rows_parallel n_jobs (fun r => (r, check r)) rows in
  (map fst (filter (fun p => snd p) results), map fst (filter (fun p => negb (snd p)) results)).

(** observables: the rows are their indices, [verdicts] the per-row answers of the single-row entry point *)
Definition run_validate (jobs : list nat) (cols : list (list bool)) : tok :=
  tlist (fun nj => tlist (fun verdicts : list bool =>
                            let '(res, (ok, n)) := validate_column nj (fun i => nth i verdicts false) (seq 0 (length verdicts)) in
                            L [tlist tbool res; tnat ok; tnat n]) cols) jobs.

Definition run_balance (jobs : list nat) (verdicts : list bool) : tok :=
  tlist (fun nj => let '(b, u) := balance_split nj (fun i => nth i verdicts false) (seq 0 (length verdicts)) in
                   L [tlist tnat b; tlist tnat u]) jobs.
