(** C10 - executable model, part 4 (definitions only): the string rewriting between DFS-style annotated SMILES ("[H]1", "[]3") and
    SMILES with atom maps ("[H:1]", "[*:3]") at the bottom of synkit/IO/chem_converter.py:

      dfs_to_smiles(dfs, keep_map)      dfs.replace("[]", "[*]"), then re.sub(r"\[([^\]]*?)\](\d+)", _repl)
      smiles_to_dfs(smiles)             re.sub(r"\[([^\]]+):(\d+)\]", _repl_map), then .replace("[*]", "[]")
      normalize_dfs_for_compare(dfs)    .replace("[*]", "[]"), then re.sub(r"\s+", "")

    Strings are lists of code points, ASCII (\d = 0..9, \s = 9..13, 28..32).  str.replace and re.sub scan from the left and
    never overlap: a match consumes its characters ([skip] counts the characters of the current match still to be dropped).
    [^\]] cannot cross a closing bracket, so the bracket content is the span up to the FIRST "]"; in the second pattern the
    greedy [^\]]+ followed by ":" \d+ "]" can only end at the LAST colon of that content. *)
From Coq Require Import List NArith ZArith Bool.
From SK Require Import lib.Tok lib.LGraph lib.StrJoin model.C10_Model model.C10_Text.
Import ListNotations.
Local Open Scope N_scope.

Definition c_lb : N := 91.   Definition c_rb : N := 93.   Definition c_colon : N := 58.   Definition c_ast : N := 42.
Definition s_empty_br : str := [91; 93].          (* "[]" *)
Definition s_star_br : str := [91; 42; 93].       (* "[*]" *)

(** str.replace(pat, new) for a non-empty pattern *)
Fixpoint repl_aux (pat new : str) (skip : nat) (s : str) : str :=
  match s with
  | [] => []
  | c :: r =>
      match skip with
      | S k => repl_aux pat new k r
      | O => if starts_with pat s then new ++ repl_aux pat new (List.length pat - 1) r else c :: repl_aux pat new O r
      end
  end.
Definition str_replace (pat new s : str) : str := repl_aux pat new O s.

Definition not_rb (x : N) : bool := negb (N.eqb x c_rb).
Definition nonempty (l : str) : bool := match l with [] => false | _ => true end.

(** re.sub(r"\[([^\]]*?)\](\d+)", _repl, s) of dfs_to_smiles *)
Fixpoint dfs_sub (keep : bool) (skip : nat) (s : str) : str :=
  match s with
  | [] => []
  | c :: r =>
      match skip with
      | S k => dfs_sub keep k r
      | O =>
          if N.eqb c c_lb then
            let '(inner, r1) := span not_rb r in
            match r1 with
            | _ :: r2 =>
                let ds := fst (span is_digit r2) in
                if nonempty ds then
                  (if existsb (N.eqb c_colon) inner then c_lb :: inner ++ [c_rb] ++ ds
                   else let inner' := match inner with [] => [c_ast] | _ => inner end in
                        if keep then c_lb :: inner' ++ [c_colon] ++ ds ++ [c_rb] else c_lb :: inner' ++ [c_rb])
                  ++ dfs_sub keep (List.length inner + 1 + List.length ds) r
                else c :: dfs_sub keep O r
            | [] => c :: dfs_sub keep O r
            end
          else c :: dfs_sub keep O r
      end
  end.
Definition dfs_to_smiles (s : str) (keep : bool) : str := dfs_sub keep O (str_replace s_empty_br s_star_br s).

(** the bracket content split at its last colon: (before, after) *)
Definition split_last_colon (x : str) : option (str * str) :=
  let '(rd, rest) := span (fun c => negb (N.eqb c c_colon)) (rev x) in
  match rest with _ :: ri => Some (rev ri, rev rd) | [] => None end.

(** re.sub(r"\[([^\]]+):(\d+)\]", _repl_map, s) of smiles_to_dfs *)
Fixpoint s2d_sub (skip : nat) (s : str) : str :=
  match s with
  | [] => []
  | c :: r =>
      match skip with
      | S k => s2d_sub k r
      | O =>
          if N.eqb c c_lb then
            let '(x, r1) := span not_rb r in
            match r1 with
            | _ :: _ =>
                match split_last_colon x with
                | Some (inner, ds) =>
                    if nonempty inner && nonempty ds && forallb is_digit ds
                    then (if str_eqb inner [c_ast] then c_lb :: c_rb :: ds else c_lb :: inner ++ [c_rb] ++ ds)
                         ++ s2d_sub (List.length x + 1) r
                    else c :: s2d_sub O r
                | None => c :: s2d_sub O r
                end
            | [] => c :: s2d_sub O r
            end
          else c :: s2d_sub O r
      end
  end.
Definition smiles_to_dfs (s : str) : str := str_replace s_star_br s_empty_br (s2d_sub O s).

Definition normalize_dfs (s : str) : str := filter (fun c => negb (is_ws c)) (str_replace s_star_br s_empty_br s).

(** * vocabulary of the round-trip theorem (props/C10.v) *)
(** the rest does not start with a character satisfying p *)
Definition stops (p : N -> bool) (rest : str) : bool := match rest with [] => true | c :: _ => negb (p c) end.
(** a bracket content of a DFS atom: no brackets, no colon *)
Definition inner_ok (inner : str) : bool :=
  nonempty inner && forallb (fun c => negb (N.eqb c c_lb) && negb (N.eqb c c_rb) && negb (N.eqb c c_colon)) inner.
Definition digits_ok (ds : str) : bool := nonempty ds && forallb is_digit ds.

(** token strings: a bracket atom with its map number, the WILDCARD atom with its map number ("[]3" in DFS style, "[*:3]" in
    SMILES), any other character *)
Inductive dtok := TA (inner ds : str) | TW (ds : str) | TC (c : N).
Definition render_tok (t : dtok) : str :=
  match t with TA inner ds => c_lb :: inner ++ c_rb :: ds | TW ds => c_lb :: c_rb :: ds | TC c => [c] end.
Fixpoint render_toks (l : list dtok) : str := match l with [] => [] | t :: r => render_tok t ++ render_toks r end.
Definition render_tok_mapped (t : dtok) : str :=
  match t with
  | TA inner ds => c_lb :: inner ++ [c_colon] ++ ds ++ [c_rb]
  | TW ds => c_lb :: [c_ast] ++ [c_colon] ++ ds ++ [c_rb]
  | TC c => [c]
  end.
Fixpoint render_mapped (l : list dtok) : str := match l with [] => [] | t :: r => render_tok_mapped t ++ render_mapped r end.
(** an atom is well formed, is not the wildcard, and is not followed by a digit; other characters are not opening brackets *)
Fixpoint toks_ok (l : list dtok) : bool :=
  match l with
  | [] => true
  | TA inner ds :: r => inner_ok inner && digits_ok ds && negb (str_eqb inner [c_ast]) && stops is_digit (render_toks r) && toks_ok r
  | TW ds :: r => digits_ok ds && stops is_digit (render_toks r) && toks_ok r
  | TC c :: r => negb (N.eqb c c_lb) && toks_ok r
  end.

(** one string through every function, and the DFS -> SMILES -> DFS round trip *)
Definition run_dfs (l : list str) : tok :=
  tlist (fun s => L [t_str (dfs_to_smiles s true); t_str (dfs_to_smiles s false); t_str (smiles_to_dfs s); t_str (normalize_dfs s);
                     t_str (smiles_to_dfs (dfs_to_smiles s true)); t_str (dfs_to_smiles (smiles_to_dfs s) true)]) l.
