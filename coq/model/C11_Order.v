(** C11 (round 5) — the ORDER of the reported lists and the derived views.
      Automorphism._sorted_orbits     sorted(orbits, key = (len(o), "|".join(sorted(repr(x) for x in o))))
      AutoEst.groups                  sorted member lists, sorted by (len(g), g[0] if g else 0)
      AutoEst.orbit_index / n_orbits  node -> index of its member in AutoEst.orbits; len
    Node ids are non-negative ints, so repr(x) is the decimal numeral; Python compares str lexicographically by code
    point ('0'..'9' = 48..57, '|' = 124) and sorts stably.  Definitions only; proofs in proof/C11_OrderProof.v. *)
From Coq Require Import List NArith ZArith Bool Arith.
From SK Require Import lib.Tok lib.LGraph lib.StrJoin model.C11_Model model.C11_Orbit.
Import ListNotations.

(** repr(n), most significant digit first *)
Fixpoint digits (fuel : nat) (n : N) (acc : list N) : list N :=
  match fuel with
  | O => acc
  | S f => let acc' := (48 + n mod 10)%N :: acc in
           if (n / 10 =? 0)%N then acc' else digits f (n / 10)%N acc'
  end.
Definition repr_N (n : N) : list N := digits (S (N.size_nat n)) n [].

(** str <= str *)
Fixpoint str_leb (a b : list N) : bool :=
  match a, b with
  | [], _ => true
  | _ :: _, [] => false
  | x :: a', y :: b' => if (x <? y)%N then true else if (x =? y)%N then str_leb a' b' else false
  end.

(** list.sort / sorted (stable): insertion before the first element that is not smaller *)
Section SortBy.
  Variable X : Type.
  Variable leb : X -> X -> bool.
  Fixpoint ins_by (x : X) (l : list X) : list X :=
    match l with
    | [] => [x]
    | y :: r => if leb x y then x :: l else y :: ins_by x r
    end.
  Definition sort_by (l : list X) : list X := fold_right ins_by [] l.
End SortBy.
Arguments ins_by {X}.
Arguments sort_by {X}.

Definition okey (o : list N) : nat * list N :=
  (length (canonN o), join 124%N (sort_by str_leb (map repr_N (canonN o)))).
Definition key2_leb (a b : nat * list N) : bool :=
  if (fst a <? fst b)%nat then true else if (fst a =? fst b)%nat then str_leb (snd a) (snd b) else false.
Definition orbit_leb (a b : list N) : bool := key2_leb (okey a) (okey b).

(** Automorphism.orbits as a LIST *)
Definition sorted_orbits (O : list (list N)) : list (list N) := sort_by orbit_leb O.

(** AutoEst.groups *)
Definition group_leb (a b : list N) : bool :=
  if (length a <? length b)%nat then true
  else if (length a =? length b)%nat then (hd 0%N a <=? hd 0%N b)%N else false.
Definition wl_groups (cs : colouring) : list (list N) := sort_by group_leb (map sortN (wl_orbits cs)).
(** AutoEst.orbit_index: the LAST member containing the node wins (the members are disjoint) *)
Definition wl_orbit_index (cs : colouring) (u : N) : option N := host_index u (wl_orbits cs) 0%N None.

Definition run_order (g : graph) : tok :=
  let a := analyze n_exact e_order g in
  let cs := wl n_exact e_order g 10 in
  L [ tlist (tlist tN) (map sortN (sorted_orbits (a_orbits a)));
      tlist (tlist tN) (wl_groups cs);
      tlist (topt tN) (map (wl_orbit_index cs) (node_ids g));
      tnat (length (wl_orbits cs)) ].

(** the whole observable of an [aut] case, every analysis evaluated once; equal to
    [L [run_aut g; tbool (wfb g); tlist t_maps (aut_lists g); run_aut_oa g; run_order g]] (proof/C11_OrderProof.v) *)
Definition run_aut_full (g : graph) : tok :=
  let a := analyze n_exact e_order g in
  let cs := wl n_exact e_order g 10 in
  L [ L [ tN (a_count a); t_sets (a_orbits a); tlist (tset tN) (a_comps a); topt (tset tN) (a_anchor a);
          wl_obs n_wl g; wl_obs n_exact g ];
      tbool (wfb g);
      tlist t_maps (if (a_count a <=? 200)%N then map (fun c => auts n_exact e_order (induced_sub g c)) (a_comps a) else []);
      oa_metrics (wl_orbits cs) (a_orbits a);
      L [ tlist (tlist tN) (map sortN (sorted_orbits (a_orbits a)));
          tlist (tlist tN) (wl_groups cs);
          tlist (topt tN) (map (wl_orbit_index cs) (node_ids g));
          tnat (length (wl_orbits cs)) ] ].
