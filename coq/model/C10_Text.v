(** C10 - executable model of the TEXT layer of the GML writer and reader (definitions only; proofs in proof/C10_Text.v):

      synkit/IO/nx_to_gml.py   _convert_graph_to_gml / _rule_grammar: the f-strings that render a rule
      synkit/IO/gml_to_nx.py   GMLToNX.transform (split on newline, strip, lines starting with rule and the closing bracket
                               skipped, section detection by substring, node/edge dispatch by prefix) and _parse_element
                               (str.split(), tokens.index(key) + 1, int(...), strip of the double quotes, the test
                               'node in line' before 'edge in line')

    Strings are lists of code points ([str]); Python's str.strip / str.split() / startswith / in / int() are modelled for
    ASCII text (whitespace = 9..13, 28..32; int() on non-empty ASCII digit strings).  A failing lookup (tokens.index raising
    ValueError, IndexError, int() raising, self.graphs[current_section] raising KeyError) makes the whole parse [None]. *)
From Coq Require Import List NArith ZArith Bool Ascii String.
From SK Require Import lib.Tok lib.LGraph lib.StrJoin model.C10_Model.
Import ListNotations.
Local Open Scope N_scope.

Definition is_ws (c : N) : bool := ((9 <=? c) && (c <=? 13)) || ((28 <=? c) && (c <=? 32)).
Fixpoint lstrip (s : str) : str := match s with [] => [] | c :: r => if is_ws c then lstrip r else s end.
Definition strip (s : str) : str := rev (lstrip (rev (lstrip s))).
(** str.split(): maximal runs of non-whitespace; [cur] is the current word, reversed *)
Fixpoint words_aux (cur s : str) : list str :=
  match s with
  | [] => match cur with [] => [] | _ => [rev cur] end
  | c :: r => if is_ws c then (match cur with [] => words_aux [] r | _ => rev cur :: words_aux [] r end)
              else words_aux (c :: cur) r
  end.
Definition words (s : str) : list str := words_aux [] s.
Fixpoint starts_with (p s : str) : bool :=
  match p, s with [], _ => true | a :: p', b :: s' => N.eqb a b && starts_with p' s' | _ :: _, [] => false end.
Fixpoint contains (p s : str) : bool := starts_with p s || match s with [] => false | _ :: r => contains p r end.
Fixpoint tok_index (t : str) (l : list str) : option nat :=
  match l with [] => None | x :: r => if str_eqb x t then Some O else option_map S (tok_index t r) end.
(** tokens[tokens.index(key) + 1] *)
Definition tok_after (key : str) (toks : list str) : option str :=
  match tok_index key toks with Some i => nth_error toks (S i) | None => None end.
Fixpoint drop_q (s : str) : str := match s with [] => [] | c :: r => if N.eqb c 34 then drop_q r else s end.
Definition strip_quotes (s : str) : str := rev (drop_q (rev (drop_q s))).
Definition parse_nat (t : str) : option N :=
  match t with [] => None | _ => if forallb is_digit t then Some (N_of_dec t) else None end.

Definition k_rule := s2l "rule".   Definition k_close := s2l "]".
Definition k_left := s2l "left".   Definition k_context := s2l "context".   Definition k_right := s2l "right".
Definition k_node := s2l "node".   Definition k_edge := s2l "edge".
Definition k_id := s2l "id".       Definition k_label := s2l "label".
Definition k_source := s2l "source".   Definition k_target := s2l "target".

(** _parse_element up to the entry (the graph operations are those of the record layer: parse_entry) *)
Definition parse_element (line : str) : option gent :=
  let toks := words line in
  if contains k_node line then
    match tok_after k_id toks, tok_after k_label toks with
    | Some i, Some l => match parse_nat i with Some n => Some (GNode n (strip_quotes l)) | None => None end
    | _, _ => None
    end
  else if contains k_edge line then
    match tok_after k_source toks, tok_after k_target toks, tok_after k_label toks with
    | Some s, Some t, Some l =>
        match parse_nat s, parse_nat t with Some a, Some b => Some (GEdge a b (strip_quotes l)) | _, _ => None end
    | _, _, _ => None
    end
  else None.

Definition sec_of_str (s : str) : option gsec :=
  if str_eqb s k_left then Some SLeft else if str_eqb s k_context then Some SContext else if str_eqb s k_right then Some SRight else None.

(** one line of GMLToNX.transform; state = (current_section as Python holds it: None or a string, entries so far) *)
Definition text_step (st : option (option str * list (gsec * gent))) (raw : str) : option (option str * list (gsec * gent)) :=
  match st with
  | None => None
  | Some (cur, acc) =>
      let line := strip raw in
      if starts_with k_rule line || str_eqb line k_close then st
      else if contains k_left line || contains k_context line || contains k_right line
      then Some (Some (strip (fst (split1 91 line))), acc)
      else if starts_with k_node line || starts_with k_edge line then
        match parse_element line, (match cur with Some c => sec_of_str c | None => None end) with
        | Some e, Some s => Some (cur, acc ++ [(s, e)])
        | _, _ => None
        end
      else st
  end.
Definition text_lines (t : str) : list str := split_all (List.length t) 10 t.
Definition text_parse (t : str) : option (list (gsec * gent)) :=
  option_map snd (fold_left text_step (text_lines t) (Some (None, []))).
Definition singletons (l : list (gsec * gent)) : grec := map (fun p => (fst p, [snd p])) l.
(** GMLToNX(text).transform() *)
Definition text_to_nx (t : str) : option (gr * gr * gr) := option_map (fun l => gml_to_nx (singletons l)) (text_parse t).

(** ** the writer's text *)
Definition sec_name (s : gsec) : str := match s with SLeft => k_left | SContext => k_context | SRight => k_right end.
Definition quoted (l : str) : str := 34 :: l ++ [34].
Definition ent_toks (e : gent) : list str :=
  match e with
  | GNode id l => [k_node; s2l "["; k_id; dec_of_N id; k_label; quoted l; k_close]
  | GEdge s t l => [k_edge; s2l "["; k_source; dec_of_N s; k_target; dec_of_N t; k_label; quoted l; k_close]
  end.
Definition ent_line (e : gent) : str := s2l "      " ++ join 32 (ent_toks e).
Definition sec_lines (sc : gsec * list gent) : list str :=
  (s2l "   " ++ sec_name (fst sc) ++ s2l " [") :: map ent_line (snd sc) ++ [s2l "   ]"].
Definition render_lines (name : str) (r : grec) : list str :=
  s2l "rule [" :: (s2l "   ruleID " ++ quoted name) :: flat_map sec_lines r ++ [k_close].
Definition render (name : str) (r : grec) : str := join 10 (render_lines name r).

(** ** run functions *)
Definition run_text (t : str) : tok :=
  L [topt (tlist (fun p : gsec * gent => L [t_sec (fst p); t_ent (snd p)])) (text_parse t); topt t_parsed (text_to_nx t)].
Definition run_render (name : str) (r : grec) : tok := t_str (render name r).
(** its_to_gml as TEXT (rule_name default "rule"), next to everything run_its4 observes *)
Definition run_its5 (its : gr) (core reindex explicit_h : bool) : tok :=
  L [run_its4 its core reindex explicit_h; t_str (render (s2l "rule") (its_to_gml its core reindex explicit_h))].
Definition run_text2 (t : str) : tok := topt t_parsed (text_to_nx t).

(** ** vocabulary of the text round-trip theorem: an entry whose rendered line the reader tokenises back — the label has no
    whitespace and no double quote, and the line does not contain a section keyword (nor, for an edge, the word node) *)
Definition label_okb (l : str) : bool := forallb (fun c => negb (is_ws c) && negb (N.eqb c 34)) l.
Definition ent_label (e : gent) : str := match e with GNode _ l => l | GEdge _ _ l => l end.
Definition ent_okb (e : gent) : bool :=
  let line := join 32 (ent_toks e) in
  label_okb (ent_label e) && negb (contains k_left line) && negb (contains k_context line) && negb (contains k_right line)
  && match e with GNode _ _ => true | GEdge _ _ _ => negb (contains k_node line) end.
Definition rec_okb (r : grec) : bool := forallb (fun sc : gsec * list gent => forallb ent_okb (snd sc)) r.
Definition flatten (r : grec) : list (gsec * gent) := flat_map (fun sc : gsec * list gent => map (pair (fst sc)) (snd sc)) r.
Definition run_its6 (its : gr) (core reindex explicit_h : bool) : tok :=
  L [run_its5 its core reindex explicit_h; tbool (rec_okb (its_to_gml its core reindex explicit_h))].
