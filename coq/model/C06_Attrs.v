(** C06 — attribute handling of SubgraphSearchEngine (subgraph_matcher.py): the graphs as the
    caller hands them over (every node / edge carries its whole attribute dictionary), the
    attribute SELECTIONS [node_attrs] / [edge_attrs] as lists of names, and the two closures
    [node_match] / [edge_match] that the search passes to VF2:

      node_match(nh, np) = all(nh.get(k) == np.get(k) for k in node_attrs)
                           and nh.get("hcount", 0) >= np.get("hcount", 0)
      edge_match(eh, ep) = all(eh.get(k) == ep.get(k) for k in edge_attrs)

    Definitions only; proofs in proof/C06_Attrs.v.  Until round 4 the projection of the
    dictionaries onto the selection (and the defaults None / 0 of [dict.get]) lived in the
    harness encoder; now the encoder only interns names and values (value code 0 = None,
    so "absent" and "present with value None" coincide, as they do for [dict.get]).

    An attribute dictionary is an association list (name code, value code), one entry per
    name.  The numeric value of "hcount" is carried separately ([None] = key absent),
    because it is compared with >= and not with ==; when "hcount" is also SELECTED for
    equality its interned value is in the dictionary like every other attribute. *)
From Coq Require Import List NArith Bool Arith.
From SK Require Import lib.Tok lib.LGraph lib.Mono lib.Reach model.C06_Model.
Import ListNotations.

Definition rattrs := list (N * N).
Definition rnlab := (rattrs * option N)%type.
Definition rgraph := lgraph rnlab rattrs.

(** [d.get(k)]  (None = 0) *)
Definition aget (k : N) (d : rattrs) : N := match assoc k d with Some v => v | None => 0%N end.
(** [d.get("hcount", 0)] *)
Definition hc (l : rnlab) : N := match snd l with Some n => n | None => 0%N end.

Definition rlab (g : rgraph) (u : N) : rnlab :=
  match label g u with Some a => a | None => ([], None) end.

(** the closures handed to VF2 (identical in _find_all_... and _find_component_aware_...) *)
Definition node_match_sel (na : list N) (nh np : rnlab) : bool :=
  forallb (fun k => N.eqb (aget k (fst nh)) (aget k (fst np))) na && (hc np <=? hc nh)%N.
Definition edge_match_sel (ea : list N) (eh ep : rattrs) : bool :=
  forallb (fun k => N.eqb (aget k eh) (aget k ep)) ea.

(** what a complete, duplicate-free VF2 enumeration with these closures lists (verified
    enumerator of lib/Mono.v run directly on the attribute dictionaries) *)
Definition monos_sel (na ea : list N) (H P : rgraph) (hn pn : list N) : list mapping :=
  monos pn hn (rlab P) (rlab H) (LGraph.adj P) (LGraph.adj H) (node_match_sel na) (edge_match_sel ea) false.

(** projection of a graph onto a selection: the labels the rest of the model works with *)
Definition proj_n (na : list N) (l : rnlab) : nlab := (map (fun k => aget k (fst l)) na, hc l).
Definition proj_e (ea : list N) (d : rattrs) : elab := map (fun k => aget k d) ea.
Definition project (na ea : list N) (g : rgraph) : graph :=
  LG (map (fun p => (fst p, proj_n na (snd p))) (gnodes g))
     (map (fun e => let '(a, b, x) := e in (a, b, proj_e ea x)) (gedges g)).

(** _quick_pre_filter on the caller's graphs *)
Definition rdegree (g : rgraph) (u : N) : N := lenN (nbrs g u).
Fixpoint qpf_loop_sel (na : list N) (H P : rgraph) (thr : N) (ps : list N) (estimate : N) : bool :=
  match ps with
  | [] => false
  | p :: ps' =>
      let count := lenN (filter (fun h => node_match_sel na (rlab H h) (rlab P p) && (rdegree P p <=? rdegree H h)%N)
                                (node_ids H)) in
      if (count =? 0)%N then true
      else let e := (estimate * count)%N in
           if (thr * 10000 <? e)%N then true else qpf_loop_sel na H P thr ps' e
  end.
Definition quick_pre_filter_sel (na : list N) (H P : rgraph) (thr : N) : bool :=
  qpf_loop_sel na H P thr (node_ids P) 1%N.

(** find_subgraph_mappings(host, pattern, node_attrs=na, edge_attrs=ea, ...) *)
Definition find_sel (enum : list N -> list N -> list mapping) (c : cfg) (na ea : list N) (H P : rgraph) : list mapping :=
  find enum c (project na ea H) (project na ea P).

(** ---------- observables: [run_tr_set] / [run_tr_list] are in model/C06_Trace.v (result + trace of VF2 calls);
    the call interface (order-insensitive): one entry per call ---------- *)
Definition tcall_sel (na ea : list N) (H P : rgraph) (c : sarg * option N * option bool * option N * option bool) : tok :=
  let '(s, maxr, strict, thr, pref) := c in
  match find_api (monos_sel na ea H P) s maxr strict thr pref (project na ea H) (project na ea P) with
  | ValueError => tN 1
  | NotImplemented => tN 2
  | Result r => L [tset tmapping r]
  end.
Definition run_sel_api (na ea : list N) (H P : rgraph)
           (calls : list (sarg * option N * option bool * option N * option bool)) : tok :=
  L [ tbool (wfb (project na ea H) && wfb (project na ea P)); tlist (tcall_sel na ea H P) calls ].
