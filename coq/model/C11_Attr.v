(** C11 (round 5) — attribute dictionaries and the key options of the two classes INSIDE the model.

    Until round 4 the harness projected a networkx graph onto the configured attribute keys in Python and handed the
    model one interned label per node / edge.  Here the model receives the attribute DICTIONARIES (key code -> value
    code, interned by the harness: equal codes iff Python [==]) together with the options as the caller gave them, and
    does itself what the code does:

      Automorphism.__init__      node_attr_keys / edge_attr_keys: a FALSY argument (None, [], ()) means the defaults
                                 ("element", "charge") / ("order",)                               -> [exact_keys]
      AutoEst.__init__           node_attrs / edge_attrs: only None means the defaults, an empty list means NO label
                                                                                                  -> [wl_keys]
      Automorphism._node_defaults / _edge_defaults, categorical_node_match(keys, defaults),
      AutoEst._initial_label / _neighbor_signature: attrs.get(k, default) with default 0 for "charge", "*" for every
      other node key, 1.0 for every edge key; the label of a node / edge is the TUPLE of these values  -> [pick]

    The tuple labels are then numbered by first occurrence ([intern]; injective on the labels that occur, proved in
    proof/C11_AttrProof.v) and the analysis of model/C11_Model.v runs on the resulting graph.  Definitions only. *)
From Coq Require Import List NArith ZArith Bool.
From SK Require Import lib.Tok lib.LGraph model.C11_Model model.C11_Keys model.C11_Image.
Import ListNotations.

Definition attrs := list (N * N).                 (* a Python dict: key code -> value code, unique keys *)
Definition agraph := lgraph attrs attrs.
Definition tgraph := lgraph (list N) (list N).     (* tuple-labelled graph *)

(** codes fixed by the encoder (harness/props/C11.py: KEY_CODES, VALUE_CODES) *)
Definition K_element : N := 0.
Definition K_charge : N := 1.
Definition K_order : N := 2.
Definition K_aromatic : N := 3.
Definition K_hcount : N := 4.
Definition V_star : N := 0.      (* "*" *)
Definition V_zero : N := 1.      (* 0 == 0.0 *)
Definition V_one : N := 2.       (* 1 == 1.0 *)

Definition node_default (k : N) : N := if N.eqb k K_charge then V_zero else V_star.
Definition edge_default (k : N) : N := V_one.

(** tuple(attrs.get(k, default(k)) for k in keys) *)
Definition pick (dflt : N -> N) (keys : list N) (d : attrs) : list N :=
  map (fun k => match assoc k d with Some v => v | None => dflt k end) keys.

(** [tuple(x) if x else DEFAULT] (Automorphism) and [tuple(x) if x is not None else DEFAULT] (AutoEst) *)
Definition exact_keys (dflt : list N) (o : option (list N)) : list N :=
  match o with Some (k :: r) => k :: r | _ => dflt end.
Definition wl_keys (dflt : list N) (o : option (list N)) : list N :=
  match o with Some l => l | None => dflt end.

Definition DEF_NODE : list N := [K_element; K_charge].
Definition DEF_EDGE : list N := [K_order].
Definition WL4 : list N := [K_element; K_charge; K_aromatic; K_hcount].      (* the reactor's / PartialMatcher's estimate *)

(** the graph labelled with the configured tuples *)
Definition picked (nkeys ekeys : list N) (ag : agraph) : tgraph :=
  LG (map (fun p => (fst p, pick node_default nkeys (snd p))) (gnodes ag))
     (map (fun e => (fst e, pick edge_default ekeys (snd e))) (gedges ag)).

(** number of the first member of [tbl] equal to [x] (counting from [i]) *)
Fixpoint lidx (x : list N) (tbl : list (list N)) (i : N) : N :=
  match tbl with
  | [] => i
  | y :: r => if leqb x y then i else lidx x r (N.succ i)
  end.

Definition intern (t : tgraph) : graph :=
  let nl := map snd (gnodes t) in
  let el := map snd (gedges t) in
  LG (map (fun p => let c := lidx (snd p) nl 0%N in (fst p, (c, c, c))) (gnodes t))
     (map (fun e => let c := lidx (snd e) el 0%N in (fst e, (c, c))) (gedges t)).

Definition to_graph (nkeys ekeys : list N) (ag : agraph) : graph := intern (picked nkeys ekeys ag).

(** the three graphs the observable of a key configuration is computed from (model/C11_Keys.v run_aut_keys):
    the fixed 4-attribute estimate, Automorphism(G, nk, ek), AutoEst(G, nk, ek) *)
Definition run_aut_attr (nk ek : option (list N)) (ag : agraph) : tok :=
  run_aut_keys (to_graph WL4 DEF_EDGE ag)
               (to_graph (exact_keys DEF_NODE nk) (exact_keys DEF_EDGE ek) ag)
               (to_graph (wl_keys DEF_NODE nk) (wl_keys DEF_EDGE ek) ag).

(** ---------- graph_automorphisms(graph, ignore_node_attrs) ----------
    node_match = equality of the attribute dictionaries without the ignored keys, edge_match = equality of the whole
    dictionaries.  A dictionary becomes the tuple of its values over ALL keys that occur in the graph (0 = absent or
    ignored, v + 1 = present with value v): two dictionaries of the graph are equal up to the ignored keys iff their
    tuples are equal (proof/C11_AttrProof.v). *)
Definition K_atom_map : N := 5.

Definition keys_of {X} (sel : X -> attrs) (l : list X) : list N := dedupN (flat_map (fun x => map fst (sel x)) l).

Definition dict_tuple (skip allk : list N) (d : attrs) : list N :=
  map (fun k => if LGraph.mem k skip then 0%N else match assoc k d with Some v => N.succ v | None => 0%N end) allk.

Definition dicted (skip : list N) (ag : agraph) : tgraph :=
  LG (map (fun p => (fst p, dict_tuple skip (keys_of snd (gnodes ag)) (snd p))) (gnodes ag))
     (map (fun e => (fst e, dict_tuple [] (keys_of snd (gedges ag)) (snd e))) (gedges ag)).

Definition to_rule_graph (skip : list N) (ag : agraph) : graph := intern (dicted skip ag).

(** graph_automorphisms(G, ignore_node_attrs=skip) *)
Definition rule_auts_attr (skip : list N) (ag : agraph) : list mapping := rule_auts (to_rule_graph skip ag).

(** the pruning step of SynReactor.mappings() on the attribute dictionaries of rule.rc.raw (default: atom_map ignored) *)
Definition run_prune_attr (rc : agraph) (raw : list mapping) : tok :=
  let g := to_rule_graph [K_atom_map] rc in
  let A := rule_auts g in
  L [ run_prune g raw; tbool (wfb g); tbool (dom_ok g raw); tbool (rep_ok g raw);
      (* the symmetries handed to the de-duplicator, as a set of maps (only when the call happens and they are few) *)
      t_maps (if (1 <? length raw)%nat then (if (length A <=? 60)%nat then A else []) else []) ].
(** ... plus: every raw match has the labelled image (model/C11_Image.v) of a kept match (quadratic in the number of
    matches: the harness asks for it below a cost bound) *)
Definition run_prune_attr_img (rc : agraph) (raw : list mapping) : tok :=
  L [ run_prune_attr rc raw; tbool (images_ok (to_rule_graph [K_atom_map] rc) raw) ].

(** deduplicate_matches_by_automorphisms(ms, graph_automorphisms(P, ignore_node_attrs=skip)): kept indices, group order *)
Definition run_dedup_skip (skip : list N) (p : agraph) (ms : list mapping) : tok :=
  let A := rule_auts_attr skip p in
  L [ tN (N.of_nat (length A)); tlist (fun x => tnat (fst x)) (dedup_aut (@snd nat mapping) A (indexed ms)) ].
