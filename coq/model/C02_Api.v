(** C02 (round 5) — the calling conventions of synkit/Graph/Context/radius_expand.py that the graph-level model leaves out:
      RadiusExpand.context_extraction(data, its_key, context_key, n_knn)       on reaction DICTS (copy.copy, data[its_key], KeyError,
                                                                               data[context_key] = K keeps / appends the key)
      RadiusExpand.paralle_context_extraction(data, its_key, context_key, n_jobs=1, verbose, n_knn)   the first error aborts the list
      RadiusExpand.find_nearest_neighbors(G, center_nodes, n_knn)               called directly: any start list, n_knn <= 0,
                                                                               start atoms that are not atoms of G (networkx raises)
      RadiusExpand.extract_k(its, n_knn) for n_knn < -1                         (range(n_knn) is empty: the induced subgraph on the centre atoms)
    and the INTERMEDIATE states of synkit/Graph/ITS/its_decompose.py get_rc: the centre under construction after each of
      _add_changed_bonds, _add_hh_bonds, _add_charge_change_nodes, _reconnect_rc_edges  (called one by one by the harness),
    truth tables of _should_include_edge and _is_hydrogen.
    Definitions only; proofs in proof/C02_Api.v. *)
From Coq Require Import List NArith ZArith Bool.
From SK Require Import lib.Tok lib.LGraph lib.Reach model.C01_Model model.C02_Model model.C02_Store.
Import ListNotations.
Local Open Scope Z_scope.

(** a reaction dict: insertion-ordered, keys are interned strings, a value is an ITS graph or something else (an integer here) *)
Inductive dval := DG (g : its) | DZ (z : Z).
Definition dict := list (N * dval).

(** d[k] = v on an insertion-ordered dict: an existing key keeps its position, a new key goes to the end *)
Fixpoint dict_set (k : N) (v : dval) (d : dict) : dict :=
  match d with
  | [] => [(k, v)]
  | (k', v') :: r => if N.eqb k' k then (k, v) :: r else (k', v') :: dict_set k v r
  end.

(** context_extraction: None = the call raises (KeyError: its_key is no key; AttributeError: the value is no graph) *)
Definition context_extraction_d (d : dict) (its_key ctx_key : N) (k : Z) : option dict :=
  match assoc its_key d with
  | Some (DG g) => Some (dict_set ctx_key (DG (extract_k_z g k)) d)
  | _ => None
  end.

(** paralle_context_extraction with n_jobs = 1: the list of results, or the (first) error *)
Fixpoint parallel_d (ds : list dict) (its_key ctx_key : N) (k : Z) : option (list dict) :=
  match ds with
  | [] => Some []
  | d :: r => match context_extraction_d d its_key ctx_key k, parallel_d r its_key ctx_key k with
              | Some x, Some xs => Some (x :: xs)
              | _, _ => None
              end
  end.

(** find_nearest_neighbors called directly: range(n_knn) is empty for n_knn <= 0 (the start list comes back as a set);
    otherwise G.neighbors(n) raises NetworkXError for a start atom that is not an atom of G *)
Definition fnn (g : its) (seeds : list N) (k : Z) : option (list N) :=
  if k <=? 0 then Some (add_all seeds [])
  else if forallb (has_node g) seeds then Some (knn g seeds (Z.to_nat k)) else None.

(** ** observables *)
Definition tdval (v : dval) : tok := match v with DG g => L [tN 0; tits g] | DZ z => L [tN 1; tZ z] end.
(* entries as a SET: the key order of the result is modelled (theorem 29a) but not compared — no clause of the property depends on it *)
Definition tdict (d : dict) : tok := tset (fun p : N * dval => L [tN (fst p); tdval (snd p)]) d.
Definition run_dict (d : dict) (its_key ctx_key : N) (k : Z) : tok := topt tdict (context_extraction_d d its_key ctx_key k).
Definition run_dicts (ds : list dict) (its_key ctx_key : N) (k : Z) : tok := topt (tlist tdict) (parallel_d ds its_key ctx_key k).
(** find_nearest_neighbors for the radii ks, then extract_subgraph on the result of the first radius *)
Definition run_fnn (g : its) (seeds : list N) (ks : list Z) : tok :=
  L [tlist (fun k => topt (tset tN) (fnn g seeds k)) ks;
     match ks with k :: _ => topt (fun l => tits (extract_subgraph g l)) (fnn g seeds k) | [] => L [] end].

(** ** get_rc pass by pass: the graph rc after _add_changed_bonds, after _add_hh_bonds, after _add_charge_change_nodes and after
    _reconnect_rc_edges (the last two only run under disconnected=True).  Atoms in insertion order (= rc.nodes order). *)
Definition rc_pass1 (K : keysel) (keep : bool) (g : xits) : rcx_state := fold_left (step_changed_x K keep g) (gedges g) ([], []).
Definition rc_pass2 (K : keysel) (keep : bool) (g : xits) : rcx_state := fold_left (step_hh_x K g) (gedges g) (rc_pass1 K keep g).
Definition rc_pass3 (K : keysel) (keep : bool) (g : xits) : rcx_state :=
  (fold_left (step_charge K) (gnodes g) (fst (rc_pass2 K keep g)), snd (rc_pass2 K keep g)).
Definition rc_pass4 (K : keysel) (keep : bool) (g : xits) : rcx_state :=
  (fst (rc_pass3 K keep g), fold_left (step_reconnect (fst (rc_pass3 K keep g))) (gedges g) (snd (rc_pass3 K keep g))).

Definition tstate (st : rcx_state) : tok := L [tlist txnode (fst st); tset txedge (snd st)].

(** _should_include_edge(std, is_mtg_attr, keep_mtg) for is_mtg_attr, keep_mtg in {False, True}^2, and _is_hydrogen(element) *)
Definition run_truth (stds : list Z) (els : list (lab N)) : tok :=
  L [tlist (fun s => L [tbool (include_x false (IE 0 0 s, Some false)); tbool (include_x false (IE 0 0 s, Some true));
                        tbool (include_x true (IE 0 0 s, Some false)); tbool (include_x true (IE 0 0 s, Some true))]) stds;
     tlist (fun l => tbool (ish_lab l)) els].

(** ** _add_bond_order_changes(ITS, rc, keys, bond_key, standard_key): the "step 1" helper of the older get_rc (still in the file, no
    caller): bonds whose two orders differ (standard_order is NOT consulted), with order and standard_order only (no is_mtg key),
    and their endpoints through _carry_node_attrs.  rc.add_edge on an existing pair overwrites its attributes: last wins — the
    edge list of a well-formed ITS has one entry per pair, so the fold below appends. *)
Definition abo_step (K : keysel) (g : xits) (st : rcx_state) (e : N * N * xedge) : rcx_state :=
  let '(u, v, x) := e in
  if e_G (fst x) =? e_H (fst x) then st
  else (ensure_x (sel_attr K) g v (ensure_x (sel_attr K) g u (fst st)), snd st ++ [(u, v, out_edge_rec x)]).
Definition add_bond_order_changes (K : keysel) (g : xits) : rcx_state := fold_left (abo_step K g) (gedges g) ([], []).
(** the four passes on one rc graph, then _add_bond_order_changes on a fresh one *)
Definition run_steps (K : keysel) (keep : bool) (g : xits) : tok :=
  L [tstate (rc_pass1 K keep g); tstate (rc_pass2 K keep g); tstate (rc_pass3 K keep g); tstate (rc_pass4 K keep g);
     tstate (add_bond_order_changes K g)].

(** ** remove_normal_edges(graph, property_key) for the remaining keys: attrs.get(key, 1) == 0 never holds for "order" (a tuple) nor
    for a key no bond carries (default 1): the copy keeps every bond *)
Definition run_rne (g : xits) : tok := L [txits (remove_normal_mtg g); txits g; txits g].
