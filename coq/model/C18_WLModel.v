(** C18 — WLCanonicalizer: the colour CELLS of 1-WL refinement (what summary()["orbits"] reports) and the automorphism
    estimate, with its options n_iter, include_in_neighbors, include_out_neighbors, node / edge attribute selections,
    automorphism_cap.  Definitions only.  Colours are blake2b digests in the code and are only ever compared for equality
    (and, in graph(), sorted: the WL canonical relabelling depends on the digest VALUES and is not modelled); here a colour is
    the rank of the node's signature among the signatures of the round -- the same partition as long as the digests do not
    collide (trusted; digest_size >= 4 bytes on views of <= 50 nodes).  The code's convergence test compares the new digests with the
    old ones, which never agree, so exactly n_iter rounds are run. *)
From Coq Require Import List NArith ZArith Bool Arith.
From SK Require Import lib.Tok lib.IRSortKeys lib.IRCore lib.IRSearch lib.StrJoin model.C18_Model model.C18_AttrModel.
From SK Require lib.IRInst.
Import ListNotations.

Definition coloring := list (N * Z).
Fixpoint col_get (c : coloring) (v : N) : Z :=
  match c with [] => NONE | (u, k) :: r => if N.eqb u v then k else col_get r v end.

Fixpoint rank_in (keys : list (list Z)) (k : list Z) (i : Z) : Z :=
  match keys with [] => NONE | x :: r => if eqb lexleb x k then i else rank_in r k (i + 1)%Z end.
(** new colours: rank of the signature among the distinct signatures of this round *)
Definition recolor (nodes : list N) (sg : N -> list Z) : coloring :=
  let keys := sort_dedup lexleb (map sg nodes) in map (fun v => (v, rank_in keys (sg v) 0%Z)) nodes.

Definition wl_seed (g : vgraph) (t : ltab) (nk : list nsel) (v : N) : list Z :=
  nkey g t nk v ++ [Z.of_nat (indeg g v); Z.of_nat (outdeg g v)].

Definition in_items (g : vgraph) (ek : list esel) (c : coloring) (v : N) : list (list Z) :=
  sort_tuples (map (fun e => col_get c (asrc e) :: ekey ek (aattr e)) (filter (fun e => N.eqb (adst e) v) (varcs g))).
Definition out_items (g : vgraph) (ek : list esel) (c : coloring) (v : N) : list (list Z) :=
  sort_tuples (map (fun e => col_get c (adst e) :: ekey ek (aattr e)) (filter (fun e => N.eqb (asrc e) v) (varcs g))).
Definition wl_sig (g : vgraph) (ek : list esel) (inb outb : bool) (c : coloring) (v : N) : list Z :=
  [col_get c v]
  ++ (if inb then [(-2)%Z; Z.of_nat (length (in_items g ek c v))] ++ concat (in_items g ek c v) else [])
  ++ (if outb then [(-3)%Z; Z.of_nat (length (out_items g ek c v))] ++ concat (out_items g ek c v) else []).

Fixpoint wl_rounds (g : vgraph) (ek : list esel) (inb outb : bool) (n : nat) (c : coloring) : coloring :=
  match n with O => c | S n' => wl_rounds g ek inb outb n' (recolor (node_ids g) (wl_sig g ek inb outb c)) end.
Definition wl_colors (g : vgraph) (t : ltab) (nk : list nsel) (ek : list esel) (inb outb : bool) (n_iter : nat) : coloring :=
  wl_rounds g ek inb outb n_iter (recolor (node_ids g) (wl_seed g t nk)).

Definition wl_cells (g : vgraph) (c : coloring) : list (list N) :=
  map (fun k => filter (fun v => Z.eqb (col_get c v) k) (node_ids g)) (sort_dedup Z.leb (map snd c)).

(** _fact_cap / _estimate_aut_count *)
Fixpoint fact_cap_from (k : N) (steps : nat) (out cap : N) : N :=
  match steps with
  | O => out
  | S s => let out' := (out * k)%N in if N.leb cap out' then cap else fact_cap_from (k + 1)%N s out' cap
  end.
Definition fact_cap (n : nat) (cap : N) : N := fact_cap_from 2%N (n - 1) 1%N cap.
Fixpoint estimate (sizes : list nat) (out cap : N) : N :=
  match sizes with
  | [] => out
  | s :: r => let out' := (out * fact_cap s cap)%N in if N.leb cap out' then cap else estimate r out' cap
  end.

Definition run_wl (bip st : bool) (n : net) (t : ltab) (nk : list nsel) (ek : list esel) (inb outb : bool) (n_iter : nat) (cap : N) : tok :=
  let g := view bip st n in
  let cells := wl_cells g (wl_colors g t nk ek inb outb n_iter) in
  L [ tset (tset tN) cells; tN (estimate (map (@length N) cells) 1%N cap) ].

(** * Observables: the base observable of a network extended by the WL cells / estimate under the default options *)
Definition tok_app (a : tok) (l : list tok) : tok := match a with L xs => L (xs ++ l) | _ => a end.
Definition CAP0 : N := 1000000000000000000%N.
Definition wl_default (bip st : bool) (n : net) : list tok :=
  let g := view bip st n in
  let cells := wl_cells g (wl_colors g [] [NKind] [ERole; EStoich] true true 20) in
  [ tset (tset tN) cells; tN (estimate (map (@length N) cells) 1%N CAP0) ].
Definition run_net_wl (bip st : bool) (n : net) : tok := tok_app (run_net bip st n) (wl_default bip st n).
Definition run_case_wl (bip st : bool) (nets : list net) : tok := tlist (run_net_wl bip st) nets.

(** attribute selections + WL options (bipartite view) *)
Definition run_attr_wl (st : bool) (n : net) (t : ltab) (nk : list nsel) (ek : list esel)
                       (inb outb : bool) (n_iter : nat) (est : bool) (cap : N) : tok :=
  let g := view true st n in
  let cells := wl_cells g (wl_colors g t nk ek inb outb n_iter) in
  tok_app (run_attr st n t nk ek)
          [ tset (tset tN) cells; if est then tN (estimate (map (@length N) cells) 1%N cap) else L [] ].
Definition run_attr_wl_case (st : bool) (nets : list (net * ltab)) (nk : list nsel) (ek : list esel)
                            (inb outb : bool) (n_iter : nat) (est : bool) (cap : N) : tok :=
  tlist (fun nt => run_attr_wl st (fst nt) (snd nt) nk ek inb outb n_iter est cap) nets.
