(** C18 — CRNAutomorphism with a non-default node_attr_keys selection (bipartite view): VF2's node_match compares the selected
    node attributes, its edge_match always (role, stoich).  The reference enumerator of the base model is run on the view whose
    node kinds are replaced by a code of the selected attribute tuple (rank among the tuples of the view), the union-find is the
    structure-following one of C18_UFModel.  Definitions only. *)
From Coq Require Import List NArith ZArith Bool Arith.
From SK Require Import lib.Tok lib.IRSortKeys lib.IRCore model.C18_Model model.C18_AttrModel model.C18_WLModel model.C18_UFModel.
From SK Require lib.IRInst.
Import ListNotations.

Definition key_codes (g : vgraph) (t : ltab) (nk : list nsel) : list (list Z) :=
  sort_dedup lexleb (map (nkey g t nk) (node_ids g)).
Definition recode (g : vgraph) (t : ltab) (nk : list nsel) : vgraph :=
  VG (map (fun p => (fst p, rank_in (key_codes g t nk) (nkey g t nk (fst p)) 0%Z)) (vnodes g)) (varcs g).
Definition autsA (g : vgraph) (t : ltab) (nk : list nsel) : list (list (N * N)) := auts (recode g t nk).

Definition run_attr_vf2 (st : bool) (n : net) (t : ltab) (nk : list nsel) : list tok :=
  let g := view true st n in
  let A := autsA g t nk in
  [ tnat (length A); tset (tset tN) (orbits_from_mappings (node_ids g) A) ].

(** attribute selections + WL options + the VF2 tool under the node selection *)
Definition run_attr_all (st : bool) (n : net) (t : ltab) (nk : list nsel) (ek : list esel)
                        (inb outb : bool) (n_iter : nat) (est : bool) (cap : N) : tok :=
  tok_app (run_attr_wl st n t nk ek inb outb n_iter est cap) (run_attr_vf2 st n t nk).
Definition run_attr_all_case (st : bool) (nets : list (net * ltab)) (nk : list nsel) (ek : list esel)
                             (inb outb : bool) (n_iter : nat) (est : bool) (cap : N) : tok :=
  tlist (fun nt => run_attr_all st (fst nt) (snd nt) nk ek inb outb n_iter est cap) nets.
