(** C04 — applying a reaction's own template regenerates it, forwards and backwards.

    Executable model of the round trip "reaction -> template -> application to its own reactants / products",
    at graph level (before any RDKit serialisation), over the datatypes and the rule-application model of
    model/C03_Model.v (imported read-only):

      synkit/IO/chem_converter.py              rsmi_to_its = ITSConstruction.ITSGraph(G, H) [+ get_rc when core=True]
      synkit/Graph/ITS/its_construction.py     ITSConstruction.construct (balance_its=False, store=False)
      synkit/Graph/ITS/its_decompose.py        get_rc (defaults), its_decompose
      synkit/Graph/Hyrogen/_misc.py            h_to_implicit on a substrate graph (after 7497a0b)
      synkit/Synthesis/Reactor/syn_reactor.py  _wrap_template (mode chosen from the reaction), mappings' pattern
                                               preparation, _glue_graph on the identity match, _explicit_h

    ITS construction and centre extraction are transliterated here from model/C01_Model.v and model/C02_Model.v onto
    the C03 datatypes (element codes = bytes of the symbol, ITS node = typesGH pair + hcount + h_pairs), so that the
    whole pipeline is one Gallina function of the two parsed graphs.  Definitions only; proofs in proof/C04_*.v.

    Not modelled (oracle inputs / contracts, monitored by the harness): RDKit parsing of the mapped reaction into
    (G, H) and of the unmapped side into the substrate; VF2 enumeration of matches and of explicit-hydrogen re-matches
    (the re-matches of the rare explicit path are handed to the model and re-validated by [match_okb]); the pruning of
    matches by rule automorphisms; RDKit serialisation of the result. *)
From Coq Require Import List NArith ZArith Bool.
From SK Require Import lib.Tok lib.LGraph model.C03_Model.
Import ListNotations.
Local Open Scope Z_scope.

Definition EL_STAR : N := 42%N.     (* "*" : CORE_NODE_DEFAULTS["element"] *)

(** ** ITSConstruction.ITSGraph(G, H) *)
Definition dflt_nattr : nattr := NA EL_STAR false 0 0 [EL_EMPTY; EL_EMPTY].
Definition side_tuple (G : hostg) (n : N) : nattr :=
  match label G n with Some a => a | None => dflt_nattr end.
Definition order_in (G : hostg) (u v : N) : Z := match adj G u v with Some o => o | None => 0 end.
Definition absent_in (G : hostg) (e : N * N * Z) : bool :=
  let '(u, v, _) := e in match adj G u v with None => true | Some _ => false end.
Definition its_node (G H : hostg) (n : N) : inode := IN (side_tuple G n) (side_tuple H n) 0 None.

(** base graph = G unless H has more nodes; nodes of the base first, then the missing ones; edges of G, then the
    edges only H has; standard_order = order_G - order_H *)
Definition its_construct (G H : hostg) : its :=
  let gb := (length (gnodes H) <=? length (gnodes G))%nat in
  let base := if gb then G else H in
  let other := if gb then H else G in
  let ns := node_ids base ++ filter (fun n => negb (has_node base n)) (node_ids other) in
  LG (map (fun n => (n, its_node G H n)) ns)
     (map (fun e => let '(u, v, o) := e in (u, v, (o, order_in H u v, o - order_in H u v))) (gedges G)
      ++ map (fun e => let '(u, v, o) := e in (u, v, (0, o, - o))) (filter (absent_in G) (gedges H))).

(** ** get_rc (disconnected=False, keep_mtg=False) *)
Definition changed (x : iedge) : bool := negb (eS x =? 0).
Definition is_hh (g : its) (u v : N) : bool := is_H_i g u && is_H_i g v.
Definition has_key (n : N) (ns : list (N * inode)) : bool := match assoc n ns with Some _ => true | None => false end.
Definition rc_attr (a : inode) : inode := IN (iG a) (iH a) 0 None.
Definition ensure_node (g : its) (n : N) (ns : list (N * inode)) : list (N * inode) :=
  if has_key n ns then ns else match label g n with Some a => ns ++ [(n, rc_attr a)] | None => ns end.
Definition rc_state := (list (N * inode) * list (N * N * iedge))%type.
Definition step_changed (g : its) (st : rc_state) (e : N * N * iedge) : rc_state :=
  let '(u, v, x) := e in
  if changed x then (ensure_node g v (ensure_node g u (fst st)), snd st ++ [(u, v, x)]) else st.
Definition step_hh (g : its) (st : rc_state) (e : N * N * iedge) : rc_state :=
  let '(u, v, x) := e in
  if is_hh g u v
  then (ensure_node g v (ensure_node g u (fst st)),
        match find_edge u v (snd st) with Some _ => snd st | None => snd st ++ [(u, v, x)] end)
  else st.
Definition get_rc (g : its) : its :=
  let st1 := fold_left (step_changed g) (gedges g) ([], []) in
  let st2 := fold_left (step_hh g) (gedges g) st1 in
  LG (fst st2) (snd st2).

(** ** the precondition on how hydrogens are written, as boolean functions of the ITS *)
(** the centre contains explicit hydrogen atoms *)
Definition explicit_centre (rc : its) : bool :=
  existsb (fun p => N.eqb (a_el (iG (snd p))) EL_H) (gnodes rc).
(** some atom's hydrogen count differs between the sides: a hydrogen change written implicitly *)
Definition implicit_change (T : its) : bool :=
  existsb (fun p => negb (a_hc (iG (snd p)) =? a_hc (iH (snd p)))) (gnodes T).
(** all centre hydrogens explicit, or none *)
Definition consistent_H (T : its) : bool := negb (explicit_centre (get_rc T) && implicit_change T).
(** atoms outside the centre whose charge or hydrogen count changes: the centre alone cannot carry the reaction *)
Definition outside_change (T rc : its) : list N :=
  map fst (filter (fun p => negb (has_node rc (fst p))
                           && (negb (a_hc (iG (snd p)) =? a_hc (iH (snd p))) || negb (a_ch (iG (snd p)) =? a_ch (iH (snd p)))))
                  (gnodes T)).
Definition centre_carries (T : its) : bool := match outside_change T (get_rc T) with [] => true | _ => false end.

(** ** well-formedness of the input pair, as booleans (evaluated by [run_c04] on every case): both graphs have distinct ids,
    one bond entry per atom pair, positive orders, bonds between their own atoms; the same atoms on both sides with the
    same elements (balanced, mapped) *)
Definition edges_closed_h (A : hostg) : bool :=
  forallb (fun e => mem (fst (fst e)) (node_ids A) && mem (snd (fst e)) (node_ids A)) (gedges A).
Definition pair_wfb (G H : hostg) : bool :=
  wf_hostb G && wf_hostb H && edges_closed_h G && edges_closed_h H
  && forallb (fun n => mem n (node_ids H)) (node_ids G) && forallb (fun n => mem n (node_ids G)) (node_ids H)
  && forallb (fun p => match label H (fst p) with Some y => N.eqb (a_el (snd p)) (a_el y) | None => false end) (gnodes G).
(** no explicit hydrogen atom at all (every mode-I reaction of the corpora) *)
Definition no_explicit_H (G : hostg) : bool := forallb (fun p => negb (N.eqb (a_el (snd p)) EL_H)) (gnodes G).

(** ** "the prepared rule describes the pair (A, B)", as a boolean (evaluated by [run_c04] on every case with
    A = substrate, B = the other side with implicit hydrogens, and the rule the reactor built -- in BOTH hydrogen modes):
    every rule atom is an atom of A and B with their elements and charges, demands no more hydrogens than A has and
    changes the count by the difference between B and A; every rule bond joins rule atoms and has A's and B's orders;
    every bond whose order differs between A and B is a rule bond; every atom on which A and B differ is a rule atom *)
Definition node_fitb (a : inode) (x y : nattr) : bool :=
  N.eqb (a_el (iG a)) (a_el x) && N.eqb (a_el (iH a)) (a_el y) && Z.eqb (a_ch (iG a)) (a_ch x) && Z.eqb (a_ch (iH a)) (a_ch y)
  && (a_hc (iG a) <=? a_hc x) && Z.eqb (a_hc (iG a) - a_hc (iH a)) (a_hc x - a_hc y).
Definition has_adj (t : its) (u v : N) : bool := match adj t u v with Some _ => true | None => false end.
Definition same3 (x y : nattr) : bool := N.eqb (a_el x) (a_el y) && Z.eqb (a_hc x) (a_hc y) && Z.eqb (a_ch x) (a_ch y).
Definition describesb (A B : hostg) (t : its) : bool :=
  wf_rcb t
  && forallb (fun p => match label A (fst p), label B (fst p) with
                       | Some x, Some y => node_fitb (snd p) x y | _, _ => false end) (gnodes t)
  && forallb (fun e => let '(u, v, x) := e in
                       mem u (node_ids t) && mem v (node_ids t) && Z.eqb (eG x) (order_in A u v) && Z.eqb (eH x) (order_in B u v)) (gedges t)
  && forallb (fun e => let '(u, v, o) := e in Z.eqb o (order_in B u v) || has_adj t u v) (gedges A)
  && forallb (fun e => let '(u, v, o) := e in Z.eqb o (order_in A u v) || has_adj t u v) (gedges B)
  && forallb (fun p => match label B (fst p) with
                       | Some y => same3 (snd p) y || mem (fst p) (node_ids t) | None => true end) (gnodes A).

(** ** h_to_implicit on a substrate graph *)
Definition is_H_h (g : hostg) (n : N) : bool :=
  match label g n with Some a => N.eqb (a_el a) EL_H | None => false end.
Definition h_nodes_h (g : hostg) : list N := map fst (filter (fun p => N.eqb (a_el (snd p)) EL_H) (gnodes g)).
Definition h_to_implicit_host (g : hostg) : hostg :=
  fold_left (fun g' h =>
      match filter (fun x => negb (is_H_h g' x)) (nbrs g' h) with
      | [] => g'
      | heavy => remove_node (fold_left (fun g'' x => upd_node g'' x (fun a => set_hc a (a_hc a + 1))) heavy g') h
      end) (h_nodes_h g) g.

(** ** the default-mode way of writing a reaction, as a boolean of (G, H) and the template (evaluated by [run_c04]):
    no atom changes its implicit hydrogen count and no count is negative; every hydrogen atom is bonded, on both sides,
    to at least one atom and only to non-hydrogen atoms of the graph; a hydrogen atom that is an atom of the template is there
    with all its bonds (the others are spectators, folded into the substrate); every hydrogen atom of the template has a non-hydrogen neighbour on both template sides (so that
    _strip_explicit_h removes it) *)
Definition foldableb (g : hostg) : bool :=
  forallb (fun h => match nbrs g h with
                    | [] => false
                    | xs => forallb (fun x => negb (is_H_h g x) && has_node g x) xs
                    end) (h_nodes_h g).
Definition heavy_nbr_m (g : molg) (h : N) : bool := existsb (fun x => negb (is_H_m g x)) (nbrs g h).
Definition side0m (sn : inode -> nattr) (se : iedge -> Z) (t : its) : molg := init_m (dec_side sn se (standardize_hydrogen t)).
Definition default_okb (A B : hostg) (t : its) : bool :=
  forallb (fun p => match label B (fst p) with
                    | Some y => Z.eqb (a_hc (snd p)) (a_hc y) && (0 <=? a_hc (snd p))
                    | None => false end) (gnodes A)
  && foldableb A && foldableb B
  && forallb (fun h => if mem h (node_ids t)
                       then forallb (fun e => let '(u, v, _) := e in if N.eqb u h || N.eqb v h then has_adj t u v else true)
                                    (gedges A ++ gedges B)
                       else true) (h_nodes_h A)
  && forallb (fun p => if N.eqb (a_el (iG (snd p))) EL_H
                       then heavy_nbr_m (side0m iG eG t) (fst p) && heavy_nbr_m (side0m iH eH t) (fst p) else true) (gnodes t).

(** ** what "regenerated" means on graphs *)
Definition molg_of (g : hostg) : molg :=
  LG (map (fun p => (fst p, dec_node (snd p))) (gnodes g)) (gedges g).
Definition sel3 (a : mnode) : N * Z * Z := (m_el a, m_hc a, m_ch a).
Definition sel3_eqb (x y : N * Z * Z) : bool :=
  N.eqb (fst (fst x)) (fst (fst y)) && Z.eqb (snd (fst x)) (snd (fst y)) && Z.eqb (snd x) (snd y).
Definition opt_eqb {A} (eq : A -> A -> bool) (x y : option A) : bool :=
  match x, y with Some a, Some b => eq a b | None, None => true | _, _ => false end.
(** same atoms (ids) with the same element, hydrogen count and charge -- the aromatic flag is not compared: the
    gluing copies it from the substrate and RDKit re-perceives it -- and the same bonds with the same orders *)
Definition nodes_sub (A B : molg) : bool :=
  forallb (fun p => opt_eqb sel3_eqb (Some (sel3 (snd p))) (option_map sel3 (label B (fst p)))) (gnodes A).
Definition edges_sub (A B : molg) : bool :=
  forallb (fun e => let '(u, v, o) := e in opt_eqb Z.eqb (Some o) (adj B u v)) (gedges A).
Definition mol_eqb (A B : molg) : bool :=
  nodes_sub A B && nodes_sub B A && edges_sub A B && edges_sub B A.

(** the same in implicit-hydrogen normal form (hydrogens with a heavy neighbour folded into its count); hydrogens
    without heavy neighbour (H2, H+) keep no comparable identity (_explicit_h / h_to_explicit invent ids): they are
    compared by number of atoms and of bonds among them *)
Definition heavy_part (g : molg) : molg :=
  LG (filter (fun p => negb (N.eqb (m_el (snd p)) EL_H)) (gnodes g))
     (filter (fun e => let '(u, v, _) := e in negb (is_H_m g u) && negb (is_H_m g v)) (gedges g)).
Definition free_h (g : molg) : nat * nat :=
  (length (h_nodes_m g), length (filter (fun e => let '(u, v, _) := e in is_H_m g u && is_H_m g v) (gedges g))).
Definition folded_eqb (A B : molg) : bool :=
  let A' := h_to_implicit A in let B' := h_to_implicit B in
  mol_eqb (heavy_part A') (heavy_part B')
  && Nat.eqb (fst (free_h A')) (fst (free_h B')) && Nat.eqb (snd (free_h A')) (snd (free_h B')).

Definition regen_exact (T : its) (A B : hostg) : bool :=
  let '(l, r) := its_decompose T in mol_eqb l (molg_of A) && mol_eqb r (molg_of B).
Definition regen_folded (T : its) (A B : hostg) : bool :=
  let '(l, r) := its_decompose T in folded_eqb l (molg_of A) && folded_eqb r (molg_of B).

(** ** the pipeline *)
Definition id_map (ns : list N) : mapping := map (fun n => (n, n)) ns.

(** the template of the reaction (G, H): full ITS or centre, inverted when applied backwards *)
Definition template (core invert : bool) (G H : hostg) : its :=
  let T := its_construct G H in
  let t := if core then get_rc T else T in
  if invert then invert_template t else t.
(** the hydrogen mode is decided from the reaction: explicit hydrogens in the centre -> default mode *)
Definition mode_E (G H : hostg) : bool := explicit_centre (get_rc (its_construct G H)).
(** the rule SynReactor builds from it (SynRule(..., implicit_h = mode E)) *)
Definition rule_of (core invert : bool) (G H : hostg) : option triple :=
  synrule (template core invert G H) (mode_E G H).
(** the pattern handed to the matcher *)
Definition pattern_of (l : molg) : molg := if has_XH l then h_to_implicit l else l.
(** the substrate: own reactants (forwards) or products (backwards), hydrogens implicit *)
Definition substrate (invert : bool) (G H : hostg) : hostg := h_to_implicit_host (if invert then H else G).

(** result of gluing along the identity match, after the explicit-hydrogen stage in mode E; [None] = no ITS *)
Definition finish (modeE : bool) (T : option its) : option its :=
  match T with
  | None => None
  | Some T' => if modeE then match explicit_h T' with Some (T'', _) => Some T'' | None => None end else Some T'
  end.
Definition regenerate (core invert : bool) (G H : hostg) : option its :=
  match rule_of core invert G H with
  | None => None
  | Some (rc, l, r) => finish (mode_E G H) (glue (substrate invert G H) rc (id_map (node_ids (pattern_of l))))
  end.

(** the matcher's identity mapping and what its_list builds from the mappings the pruning keeps (implicit path) *)
Definition identity (core invert : bool) (G H : hostg) : mapping :=
  match rule_of core invert G H with Some (_, l, _) => id_map (node_ids (pattern_of l)) | None => [] end.
Definition its_list (core invert : bool) (G H : hostg) (kept : list mapping) : list (option its) :=
  match rule_of core invert G H with
  | None => []
  | Some (rc, _, _) => map (fun m => finish (mode_E G H) (glue (substrate invert G H) rc m)) kept
  end.

(** HISTORY cases (harness/gen/c04_hist.py): a script of k steps on shared reactor / template / substrate objects, every
    step compared with a fresh evaluation.  The model is a pure function of its inputs, so every step equals the fresh
    value by construction: the expected observable is k times [true]. *)
Definition pure_history (k : nat) : tok := tlist (fun _ : unit => tbool true) (repeat tt k).

(** ** observables: see harness/props/C04.py *)
(** [guard]: the documented strict_cc_count guard of the COMPONENT strategy applies (strategy = comp and the substrate has
    more connected components than the pattern: the engine returns no match at all; model/C06_Model.v find_comp) --
    computed by the harness.  [remaps]: only on the explicit-hydrogen path (the pattern keeps explicit hydrogens, e.g.
    H2): the order in which the matcher's mapping lists the pattern atoms (it fixes the ids h_to_explicit invents) and
    the re-matches of _get_explicit_map, both re-validated here. *)
Definition same_set (a b : list N) : bool := forallb (fun x => mem x b) a && forallb (fun x => mem x a) b && nodupb a.
(** [run_c04k]: the same plus the reactor's own KEPT mappings (after the pruning by rule automorphisms; at most 8, implicit
    path only): is a regenerating ITS among what its_list builds from them? *)
Definition kept_regenerates (core invert : bool) (G H : hostg) (kept : list mapping) : bool :=
  existsb (fun f => match f with
                    | Some f' => regen_folded f' (if invert then H else G) (if invert then G else H)
                    | None => false end) (its_list core invert G H kept).
Definition run_c04 (core invert guard : bool) (G H : hostg) (remaps : option (list N * list mapping)) : tok :=
  let T := its_construct G H in
  let rc0 := get_rc T in
  let modeE := mode_E G H in
  let sA := if invert then H else G in
  let sB := if invert then G else H in
  let head := L [tbool (explicit_centre rc0); tbool (implicit_change T); tbool (negb (centre_carries T));
                 tbool (consistent_H T); tits (if core then rc0 else T);
                 tbool (pair_wfb G H); tbool (no_explicit_H G)] in
  match rule_of core invert G H with
  | None => L [head; I (-1)]
  | Some (rc, l, r) =>
      let flag := has_XH l in
      let pat := pattern_of l in
      let host := substrate invert G H in
      let m := id_map (match remaps with Some (ord, _) => ord | None => node_ids pat end) in
      let glued : list (mapping * option its) :=
        match remaps with
        | None => [(m, glue host rc m)]
        | Some (_, rs) => let hx := h_to_explicit host (map snd m) in map (fun x => (x, glue hx rc x)) rs
        end in
      let base := match remaps with None => host | Some _ => h_to_explicit host (map snd m) end in
      let pat2 := match remaps with None => pat | Some _ => l end in
      let fin := map (fun xg => finish modeE (snd xg)) glued in
      let other := h_to_implicit_host sB in
      L [head;
         L [trc modeE rc; tmolg l; tmolg r]; tbool flag; tmolg pat; thostg host;
         tbool (match_okb host pat m && negb guard && same_set (map fst m) (node_ids pat));
         tlist (fun xg : mapping * option its =>
                  L [tmap (fst xg); tbool (match_okb base pat2 (fst xg)); tbool (match_rcb base rc (fst xg));
                     match snd xg with Some g => L [tits g] | None => L [] end]) glued;
         tlist (fun (bf : option its * option its) =>
                  match fst bf, snd bf with
                  | Some b, Some f => L [if modeE then t_explicit b (explicit_h b) else L [];
                                         (* exact comparison only in implicit mode: the ids _explicit_h gives the
                                            re-materialised hydrogens depend on set iteration order *)
                                         tbool (negb modeE && regen_exact f sA sB); tbool (regen_folded f sA sB)]
                  | _, _ => L []
                  end) (combine (map snd glued) fin);
         tbool (existsb (fun f => match f with Some f' => regen_folded f' sA sB | None => false end) fin);
         tbool (match remaps, regenerate core invert G H with
                | None, Some f => regen_folded f sA sB
                | _, _ => false end);
         tbool (match remaps with
                | None => existsb (fun f => match f with Some f' => regen_folded f' sA sB | None => false end)
                                  (its_list core invert G H [identity core invert G H])
                | Some _ => false end);
         tbool (wf_rcb rc && wf_hostb host);
         (* translation validation of the rule preparation (both modes): premises and conclusion of C04_identity_glue_any_rule *)
         tbool (pair_wfb host other); tbool (describesb host other rc);
         tlist (fun xg : mapping * option its => match snd xg with Some g => tbool (regen_exact g host other) | None => L [] end)
               (match remaps with None => glued | Some _ => [] end);
         (* the hypothesis of C04_identity_glue_default *)
         tbool (default_okb sA sB (template core invert G H))]
  end.

Definition run_c04k (core invert guard : bool) (G H : hostg) (remaps : option (list N * list mapping)) (kept : list mapping) : tok :=
  L [run_c04 core invert guard G H remaps; tbool (kept_regenerates core invert G H kept)].
