(** C11 (round 5) — what gluing a rule at a match can depend on: the LABELLED IMAGE of the rule centre in the host -
    which host atom receives which rule atom (with all its attributes but atom_map: before / after atom types) and which
    host atom pair receives which rule bond (with its before / after orders).  Definitions only; proofs in
    proof/C11_ImageProof.v: the pruning step never changes the set of labelled images. *)
From Coq Require Import List NArith ZArith Bool.
From SK Require Import lib.Tok lib.LGraph model.C11_Model.
Import ListNotations.

(** (host atom, label of the rule atom placed on it) for every item of the match *)
Definition image_nodes (rc : graph) (m : mapping) : list (N * option N) :=
  map (fun ph => (snd ph, lab_of n_full rc (fst ph))) m.
(** (host atom, host atom, label of the rule bond placed on the pair) for every pair of items joined by a rule bond *)
Definition image_edges (rc : graph) (m : mapping) : list (N * N * N) :=
  flat_map (fun ph => flat_map (fun qk => match adj_of e_full rc (fst ph) (fst qk) with
                                         | Some e => [(snd ph, snd qk, e)]
                                         | None => []
                                         end) m) m.

Definition on_eqb (a b : option N) : bool := oeqb a b.
Definition in_nodes (x : N * option N) (l : list (N * option N)) : bool :=
  existsb (fun y => N.eqb (fst x) (fst y) && oeqb (snd x) (snd y)) l.
Definition in_edges (x : N * N * N) (l : list (N * N * N)) : bool :=
  existsb (fun y => N.eqb (fst (fst x)) (fst (fst y)) && N.eqb (snd (fst x)) (snd (fst y)) && N.eqb (snd x) (snd y)) l.
(** the labelled image of a match, and equality of two images as sets *)
Definition image_t := (list (N * option N) * list (N * N * N))%type.
Definition img (rc : graph) (m : mapping) : image_t := (image_nodes rc m, image_edges rc m).
Definition same_img (a b : image_t) : bool :=
  forallb (fun x => in_nodes x (fst b)) (fst a) && forallb (fun x => in_nodes x (fst a)) (fst b) &&
  forallb (fun x => in_edges x (snd b)) (snd a) && forallb (fun x => in_edges x (snd a)) (snd b).
Definition same_image (rc : graph) (m m' : mapping) : bool := same_img (img rc m) (img rc m').
(** every raw match has the image of some kept match (the computed form of C11_prune_same_images); the images of the
    kept matches are computed once *)
Definition images_ok (rc : graph) (raw : list mapping) : bool :=
  let kept := map (img rc) (prune (fun m : mapping => m) rc raw) in
  forallb (fun x => let ix := img rc x in existsb (same_img ix) kept) raw.
