(** C14 — BatchReactor.fit with worker processes (entry_n_jobs > 1, or parallel_rules with rule_n_jobs > 1):
    what joblib / loky does to the objects of the heap+cache machine of model/C14_Model.v.

    A task sent to a worker process is PICKLED: the callable (the closure [worker] holding the BatchReactor, i.e. the
    _RuleApplier with its cache dict, and the rule graphs; or the bound _RuleApplier itself with substrate and rule as
    arguments) is copied into the other process.  Copies are new objects: new identities, addresses chosen by the other
    process's allocator, the contents of the originals; sharing inside one pickle is preserved (a rule object that is
    both an argument and pinned by a cache entry arrives as ONE copy).  The cache dict travels with its KEYS unchanged
    — (id(substrate), id(rule), invert) of the PARENT process, meaningless in the worker, where a new object may well
    get such an address — and with its pinned objects replaced by their copies.  Whatever the worker then adds to its
    copy of the cache is lost when the task ends.

    [ship]  builds the worker's initial state from the parent's state,
    [worker_prog]  is what the closure [worker] does for the entries of one batch of tasks,
    [fit_workers]  cuts the entry list into consecutive batches (order-preserving, joblib's contract), runs each batch
    on a freshly shipped state and concatenates the per-entry outputs.
    Definitions only; proofs in proof/C14_Workers.v.  The worker-side allocator / collector is, as in C14_Model, not a
    function: theorems quantify over every legal worker trace; the correspondence evaluates an adversarial synthetic
    one (rule copies sit at the addresses their originals had in the parent, new substrates are given the address of a
    stale substrate key whenever one is free — so stale keys DO collide —, everything unreferenced is collected at once). *)
From Coq Require Import NArith List Bool Arith.
Import ListNotations.
From SK Require Import lib.Tok model.C14_Model.
Local Open Scope N_scope.

Section Ship.
  Variable R : Type.

  (** pickling order: the rule objects (held by the closure) first, then whatever the cache pins; each object once *)
  Definition ship_ids (c : list (centry R)) (roots : list N) : list N :=
    dedupe (roots ++ flat_map (fun e => [e_ps e; e_pr e]) c).

  Fixpoint index_of (o : N) (ids : list N) : N :=
    match ids with
    | [] => 0
    | x :: r => if x =? o then 0 else 1 + index_of o r
    end.

  Definition ship_entry (ids : list N) (e : centry R) : centry R :=
    mkEntry (e_ks e) (e_kr e) (e_kinv e) (index_of (e_ps e) ids) (index_of (e_pr e) ids) (e_res e).

  (** contents of the copies, by their new identity 0..k-1; [cs] = the parent's contents by identity *)
  Definition ship_contents (cs : list N) (ids : list N) : list N := map (fun o => nth (N.to_nat o) cs 0) ids.

  (** the worker's initial state: copy k has identity k, address [nth k addrs 0], is held by the client exactly when it
      is one of the roots (the pinned-only copies are kept alive by the cache copy alone) *)
  Definition ship (cs : list N) (s : state R) (roots addrs : list N) : state R :=
    let ids := ship_ids (cache s) roots in
    let cs' := ship_contents cs ids in
    mkSt (map (fun k => mkObj (N.of_nat k) (nth k addrs 0) (nth k cs' 0)
                              (existsb (N.eqb (nth k ids 0)) roots))
              (seq 0 (length ids)))
         (map (ship_entry ids) (cache s))
         (N.of_nat (length ids)).
End Ship.

Arguments ship_ids {R}. Arguments ship_entry {R}. Arguments ship {R}.

(** the closure [worker] applied to the entries of one batch: the rule copies are objects 0.. of the shipped heap *)
Definition worker_prog (nids : nat) (rule_copies : list N) (inv : bool) (chunk : list N) : list cop :=
  fst (entries_prog (N.of_nat nids) rule_copies inv chunk).

(** rule-level parallelism: ONE application per task; substrate and rule are both shipped *)
Definition rule_task_prog (s r : N) (inv : bool) : list cop := [CApply s r inv].

(* ------------------------------------------------------------------ a synthetic environment for the correspondence *)

(** lowest address not used by a live object *)
Fixpoint free_addr (fuel : nat) (a : N) (h : list obj) : N :=
  match fuel with
  | O => a
  | S f => if existsb (fun x => o_addr x =? a) h then free_addr f (a + 1) h else a
  end.

Section Synth.
  Variable R : Type.
  Variable execute : N -> N -> bool -> R.
  Variable cache_on : bool.
  Variable cmax : nat.

  (** collect, eagerly, every object that may be collected *)
  Definition collectable (st : state R) (x : obj) : bool :=
    negb (o_held x) && negb (pins R (o_id x) (cache st)).

  Definition gc_events (st : state R) : list event :=
    map (fun x => ECollect (o_id x)) (filter (collectable st) (heap st)).

  (** the adversarial allocator: an address that occurs as a substrate key of the current cache and is free (a stale
      key of a shipped cache, or the key of an entry whose substrate was collected), else the lowest free address *)
  Definition pick_addr (st : state R) : N :=
    match filter (fun a => negb (addr_live a (heap st))) (map (fun e => e_ks e) (cache st)) with
    | a :: _ => a
    | [] => free_addr (S (length (heap st))) 1 (heap st)
    end.

  (** run a client program under the synthetic environment; returns the trace it produced *)
  Fixpoint synth (st : state R) (p : list cop) : list event :=
    match p with
    | [] => []
    | op :: rest =>
        let ev := match op with
                  | CAlloc c => EAlloc (pick_addr st) c
                  | CApply s r i => EApply s r i
                  | CRelease o => ERelease o
                  end in
        match step R execute true cache_on cmax st ev with
        | None => [ev]
        | Some (st1, _) =>
            let gcs := gc_events st1 in
            let st2 := fold_left (fun s e => match step R execute true cache_on cmax s e with
                                             | Some (s', _) => s' | None => s end) gcs st1 in
            ev :: gcs ++ synth st2 rest
        end
    end.
End Synth.

(* ------------------------------------------------------------------ fit with workers *)

Fixpoint wchunks_fuel {A} (fuel c : nat) (l : list A) : list (list A) :=
  match fuel with
  | O => []
  | S f => match l with [] => [] | _ => firstn c l :: wchunks_fuel f c (skipn c l) end
  end.
Definition wchunks {A} (c : nat) (l : list A) : list (list A) := wchunks_fuel (length l) (Nat.max c 1) l.

(** batch size joblib would use is not specified; any order-preserving cut works for the theorems — the correspondence
    uses ceil(n / n_jobs) *)
Definition batch_len (n n_jobs : nat) : nat := Nat.div (n + Nat.max n_jobs 1 - 1) (Nat.max n_jobs 1).

(** addresses of the copies in the synthetic worker: a root (rule object, or the substrate of a rule-level task) sits at the
    address its original has in the parent — so the rule component of every stale key matches —, a copy that is only pinned
    by the cache is moved out of the way (beyond every parent address) — so the substrate component of its stale key is a
    FREE address in the worker, which [pick_addr] hands to the next new substrate *)
Definition copy_addrs {R} (sp : state R) (roots ids : list N) : list N :=
  let top := fold_right (fun x m => N.max (o_addr x) m) 0 (heap sp) + 1 in
  map (fun o => match find_obj o (heap sp) with
                | Some x => if existsb (N.eqb o) roots then o_addr x else o_addr x + top
                | None => 0
                end) ids.

Section FitWorkers.
  Variable execute : N -> N -> bool -> list N.
  Variable cache_on : bool.
  Variable cmax : nat.
  Variable dd : bool.

  (** outputs of one batch of entries in a worker whose initial state is [sw] (answers read off the trace [tr]) *)
  Definition worker_outputs (sw : state (list N)) (nrules : nat) (chunk : list N) (tr : list event) : bool * list (list N) :=
    let '(ok, outs, _) := run (list N) execute true cache_on cmax sw tr in
    (ok, map (entry_out dd) (fst (chop (length chunk) nrules (map snd outs)))).

  (** entry-level workers under the synthetic environment: parent state [sp] with contents [cs], rule objects [rules]
      (parent identities), every copy at its original's address *)
  Definition fit_workers_synth (cs : list N) (sp : state (list N)) (rules : list N) (inv : bool) (subs : list N) (n_jobs : nat)
    : bool * list (list N) :=
    let ids := ship_ids (cache sp) rules in
    let addrs := copy_addrs sp rules ids in
    let sw := ship cs sp rules addrs in
    let rcopies := map (fun r => index_of r ids) rules in
    fold_right (fun chunk acc =>
                  let p := worker_prog (length ids) rcopies inv chunk in
                  let tr := synth (list N) execute cache_on cmax sw p in
                  let '(ok, outs) := worker_outputs sw (length rules) chunk tr in
                  (ok && cops_eqb (client_view tr) p && fst acc, outs ++ snd acc))
               (true, []) (wchunks (batch_len (length subs) n_jobs) subs).

  (** rule-level workers: the entry loop runs in the parent; every application is a task of its own, shipped with the
      parent's applier; the parent's cache is not touched *)
  Definition rule_task_synth (cs : list N) (sp : state (list N)) (s r : N) (inv : bool) : bool * list N :=
    let ids := ship_ids (cache sp) [s; r] in
    let addrs := copy_addrs sp [s; r] ids in
    let sw := ship cs sp [s; r] addrs in
    let p := rule_task_prog (index_of s ids) (index_of r ids) inv in
    let tr := synth (list N) execute cache_on cmax sw p in
    let '(ok, outs, _) := run (list N) execute true cache_on cmax sw tr in
    (ok && cops_eqb (client_view tr) p, concat (map snd outs)).
End FitWorkers.

(** the parent before a parallel fit: it has built the rule objects (and possibly run a serial fit on other entries first —
    [warm]: entries processed serially by the same applier, which leaves a filled cache to be shipped) *)
Definition parent_prog (rules : list N) (inv : bool) (warm : list N) : list cop :=
  map CAlloc rules ++ fst (entries_prog (N.of_nat (length rules)) (map N.of_nat (seq 0 (length rules))) inv warm).

Definition contents_of (tr : list event) : list N :=
  flat_map (fun ev => match ev with EAlloc _ c => [c] | _ => [] end) tr.

(** Correspondence entry point for the worker-count cases: for every configuration (entry_n_jobs, parallel_rules, rule_n_jobs)
    the per-entry outputs of fit.  [warm] entries are run serially in the parent first (their results are not reported). *)
Definition run_batch_jobs (c : cfg) (t : table) (rules subs warm : list N) (inv : bool) (jobs : list (nat * bool * nat)) : tok :=
  let ex := tbl_exec t in
  let p0 := parent_prog rules inv warm in
  let tr0 := synth (list N) ex (c_cache c) (c_max c) (init _) p0 in
  let '(ok0, _, sp) := run (list N) ex true (c_cache c) (c_max c) (init _) tr0 in
  let cs := contents_of tr0 in
  let robjs := map N.of_nat (seq 0 (length rules)) in
  tlist (fun j : nat * bool * nat =>
           let '(nj, pr, rj) := j in
           if (1 <? nj)%nat then
             let '(ok, outs) := fit_workers_synth ex (c_cache c) (c_max c) (c_dedupe c) cs sp robjs inv subs nj in
             L [tbool (ok0 && ok); tlist (tlist tN) outs]
           else if pr && (1 <? rj)%nat then
             (* the entry loop in the parent: each entry's substrate is allocated there, every application shipped *)
             let res := map (fun sc =>
                               let tr1 := synth (list N) ex (c_cache c) (c_max c) sp [CAlloc sc] in
                               let '(ok1, _, sp1) := run (list N) ex true (c_cache c) (c_max c) sp tr1 in
                               let sid := next sp in
                               let per := map (fun r => rule_task_synth ex (c_cache c) (c_max c) (cs ++ [sc]) sp1 sid r inv) robjs in
                               (ok1 && forallb fst per, entry_out (c_dedupe c) (map snd per))) subs in
             L [tbool (ok0 && forallb fst res); tlist (tlist tN) (map snd res)]
           else
             L [tbool ok0; tlist (tlist tN) (map (single ex (c_dedupe c) (map (fun r => nth (N.to_nat r) cs 0) robjs) inv) subs)])
        jobs.
