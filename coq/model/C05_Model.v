(** C05 — executable model of the whole rule-application pipeline of
      synkit/Synthesis/Reactor/syn_reactor.py   SynReactor.mappings / its_list
    at GRAPH level (between RDKit parsing and RDKit serialisation):

      template ITS --(_invert_template, SynRule)--> rule (rc, left, right)
      pattern  = left (h_to_implicit when it has explicit X-H bonds)
      raw      = SubgraphSearchEngine.find_subgraph_mappings(host, pattern, ["element","charge"], ["order"], strategy)
      kept     = deduplicate_matches_by_automorphisms(raw, graph_automorphisms(rule.rc.raw))   when len(raw) > 1
      results  = for m in kept: _glue_graph(host, rc, m, ...)   (explicit path: h_to_explicit on the image of m,
                 re-match of the explicit left side with the same strategy, one glued graph per re-match)
                 then _explicit_h on every glued graph when explicit_h=True

    The pieces are the definitions of model/C03_Model.v (rule preparation, glue, hydrogen stages), model/C06_Model.v (the
    three strategies, VF2 := the verified enumerator lib/Mono.v) and model/C11_Model.v (dedup_aut =
    deduplicate_matches_by_automorphisms); this file converts between their graph types and composes them, as the
    Python code does, and models the reactor's own option handling:
      embed_threshold   -> [eff_thr] / class [Thr] (the cap is a parameter of everything below), [pmax_of] (partial mode)
      embed_pre_filter  -> [matches_pf], [prefilter_fires]      (first search only; the re-match never uses the guard)
      partial           -> [partial_matches]                    (PartialMatcher engine: components, combinations, back-tracking)
    Definitions only; proofs are in proof/C05_*.v.

    Order conventions.  VF2's enumeration order is not modelled, so the kept representative of a class of matches
    and the order in which _get_explicit_map expands hydrogens may differ from the implementation's.  Observables
    are therefore multisets of glued graphs; on the explicit path the model expands the image of a match in
    ascending node order and the adapter renames the implementation's new hydrogen ids block-wise to that order. *)
From Coq Require Import List NArith ZArith Bool Arith.
From SK Require Import lib.Tok lib.LGraph lib.Mono.
From SK Require model.C06_Model model.C11_Model.
From SK Require Import model.C03_Model.
Import ListNotations.
Local Open Scope Z_scope.

(** ** conversion to the matcher's graphs (C06): node label = ([element; charge], hcount), edge label = [order] *)
Definition zcode (z : Z) : N := Z.to_N (if 0 <=? z then 2 * z else - 2 * z - 1).

Definition host_c06 (g : hostg) : C06_Model.graph :=
  LG (map (fun p => (fst p, ([a_el (snd p); zcode (a_ch (snd p))], Z.to_N (a_hc (snd p))))) (gnodes g))
     (map (fun e => let '(u, v, o) := e in (u, v, [zcode o])) (gedges g)).
Definition pat_c06 (g : molg) : C06_Model.graph :=
  LG (map (fun p => (fst p, ([m_el (snd p); zcode (m_ch (snd p))], Z.to_N (m_hc (snd p))))) (gnodes g))
     (map (fun e => let '(u, v, o) := e in (u, v, [zcode o])) (gedges g)).

(** the reactor's configuration of the search engine: no max_results, strict_cc_count = True, pre_filter = False, and the
    embedding cap:  SynReactor(embed_threshold = k)  is handed to find_subgraph_mappings(threshold = k), which takes
      thresh = threshold if threshold is not None else DEFAULT_THRESHOLD          (k = 0 is a real cap, not "no cap")
    [eff_thr] is that line.  Everything below is parametrised by the effective cap [thr_val] (a type class, so that the
    cap is threaded through every definition and every theorem without being written at each use); the run functions at
    the end of the file instantiate it with [eff_thr] of the option the harness passed to the reactor. *)
Definition DEFAULT_THRESHOLD : N := 5000%N.
Definition eff_thr (embed_threshold : option N) : N :=
  match embed_threshold with Some k => k | None => DEFAULT_THRESHOLD end.
(** SynReactor(partial=True) ALSO derives a result limit from the same option:
      max_results = self.embed_threshold / 100 if self.embed_threshold else None          (a float; 0 and None give None)
    which the engines test as  `max_results and len(results) >= max_results` : the effective limit is ceil(k / 100)
    ([pmax_of]; 0 encodes None as in model/C06_Model.v).  It only matters for [partial_matches]. *)
Definition pmax_of (embed_threshold : option N) : N :=
  match embed_threshold with Some k => ((k + 99) / 100)%N | None => 0%N end.
Class Thr := { thr_val : N; pmax_val : N }.
Definition thr_of (embed_threshold : option N) : Thr := {| thr_val := eff_thr embed_threshold; pmax_val := pmax_of embed_threshold |}.

(** ** the verified enumerator lib/Mono.v with a lazily evaluated admissibility test.
    vm_compute is call-by-value: in Mono's [ok] the edge test over the whole partial map is evaluated even when the
    node labels already disagree.  [ok'] tests the labels first; [extend'] is [Mono.extend] with [ok'] and is proved
    EQUAL to it (same list, same order) in proof/C05_Proof.v ([extend'_eq], [monos'_eq]). *)
Section Fast.
  Variables A B : Type.
  Variable hn : list N.
  Variable pl hl : N -> A.
  Variable pe he : N -> N -> option B.
  Variable nm : A -> A -> bool.
  Variable em : B -> B -> bool.
  Variable induced : bool.
  Definition ok' (p h : N) (acc : list (N * N)) : bool :=
    if nm (hl h) (pl p) then
      if fresh h acc then forallb (edge_ok pe he em induced p h) acc else false
    else false.
  Fixpoint extend' (ps : list N) (acc : list (N * N)) : list (list (N * N)) :=
    match ps with
    | [] => [acc]
    | p :: ps' => flat_map (fun h => if ok' p h acc then extend' ps' ((p, h) :: acc) else []) hn
    end.
End Fast.
Definition monos' {A B} (pn hn : list N) (pl hl : N -> A) (pe he : N -> N -> option B) nm em induced : list (list (N * N)) :=
  extend' A B hn pl hl pe he nm em induced pn [].

Section WithThr.
Context {TH : Thr}.
Definition cfg_of (strat : N) : C06_Model.cfg := C06_Model.Cfg strat 0%N thr_val true false.

(** C06's [monos_on] with the lazy test *)
Definition monos_on' (H P : C06_Model.graph) (hn pn : list N) : list mapping :=
  monos' pn hn (C06_Model.lab P) (C06_Model.lab H) (LGraph.adj P) (LGraph.adj H) C06_Model.nm C06_Model.em false.

(** find_subgraph_mappings(host, pattern, ..., strategy) with VF2 := the verified enumerator *)
Definition matches (strat : N) (host : hostg) (pat : molg) : list mapping :=
  let H := host_c06 host in let P := pat_c06 pat in
  C06_Model.find (monos_on' H P) (cfg_of strat) H P.

(** ** SynReactor(partial=True): the matcher is PartialMatcher(host, pattern, ["element","charge"], ["order"], strategy,
    threshold = embed_threshold, pre_filter, max_results = None (embed_threshold not given), prune_auto = False) and the
    raw matches are  matcher.get_mappings()  (synkit/Graph/Matcher/partial_matcher.py, single host, partial = True):
      _pattern_ccs       = connected components of the pattern            (ValueError when there is none)
      _host_embeddings   = per component: find_subgraph_mappings(host, component, strategy, strict_cc_count = False, threshold)
      _match_all_k       = for k = n_cc, n_cc - 1, ..., 1: for combo in itertools.combinations(range(n_cc), k):
                             _backtrack_components(combo): one embedding per selected component, pairwise disjoint in
                             the host, merged into one (partial) mapping
    [None] = the ValueError. *)
Definition pcfg_of (strat : N) : C06_Model.cfg := C06_Model.Cfg strat pmax_val thr_val false false.

Definition comp_embeddings (strat : N) (H P : C06_Model.graph) : list (list mapping) :=
  map (fun pc => let Pc := LGraph.induced_sub P pc in C06_Model.find (monos_on' H Pc) (pcfg_of strat) H Pc) (C06_Model.comps P).

(** itertools.combinations(l, k), lexicographic *)
Fixpoint combos {X} (k : nat) (l : list X) : list (list X) :=
  match k, l with
  | O, _ => [[]]
  | S _, [] => []
  | S k', x :: r => map (cons x) (combos k' r) ++ combos k r
  end.

(** _backtrack_components: [used] = host nodes taken so far, [acc] = the merged mapping ({**accum, **emb}) *)
Fixpoint pbt (embs : list (list mapping)) (used : list N) (acc : mapping) : list mapping :=
  match embs with
  | [] => [acc]
  | lvl :: rest =>
      flat_map (fun emb => if existsb (fun h => LGraph.mem h used) (map snd emb) then []
                           else pbt rest (map snd emb ++ used) (acc ++ emb)) lvl
  end.

Definition match_all_k (embs : list (list mapping)) : list mapping :=
  flat_map (fun k => flat_map (fun combo => pbt combo [] []) (combos k embs)) (rev (seq 1 (length embs))).

(** with max_results = M > 0: every recursive call of _backtrack_components and every loop of _match_fixed_k / _match_all_k
    stops as soon as M mappings have been collected, so the answer is the first M entries of the unlimited listing (of
    the per-component lists, themselves limited to M by find_subgraph_mappings) *)
Definition plimit {X} (l : list X) : list X := if (pmax_val =? 0)%N then l else firstn (N.to_nat pmax_val) l.

Definition partial_matches (strat : N) (host : hostg) (pat : molg) : option (list mapping) :=
  let H := host_c06 host in let P := pat_c06 pat in
  match C06_Model.comps P with
  | [] => None
  | _ => Some (plimit (match_all_k (comp_embeddings strat H P)))
  end.

(** ** graph_automorphisms(rule.rc.raw): every node attribute except atom_map, every edge attribute *)
Fixpoint lN_eqb (a b : list N) : bool :=
  match a, b with
  | [], [] => true
  | x :: a', y :: b' => N.eqb x y && lN_eqb a' b'
  | _, _ => false
  end.
Definition nattr_eqb (a b : nattr) : bool :=
  N.eqb (a_el a) (a_el b) && Bool.eqb (a_aro a) (a_aro b) && Z.eqb (a_hc a) (a_hc b) && Z.eqb (a_ch a) (a_ch b)
  && lN_eqb (a_nb a) (a_nb b).
Definition ohp_eqb (a b : option (list N)) : bool :=
  match a, b with Some x, Some y => lN_eqb x y | None, None => true | _, _ => false end.
Definition inode_eqb (a b : inode) : bool :=
  nattr_eqb (iG a) (iG b) && nattr_eqb (iH a) (iH b) && Z.eqb (i_hc a) (i_hc b) && ohp_eqb (i_hp a) (i_hp b).
Definition oinode_eqb (a b : option inode) : bool :=
  match a, b with Some x, Some y => inode_eqb x y | None, None => true | _, _ => false end.
Definition iedge_eqb (x y : iedge) : bool := Z.eqb (eG x) (eG y) && Z.eqb (eH x) (eH y) && Z.eqb (eS x) (eS y).

Definition rule_auts (rc : its) : list mapping :=
  monos' (node_ids rc) (node_ids rc) (label rc) (label rc) (LGraph.adj rc) (LGraph.adj rc) oinode_eqb iedge_eqb true.

(** the pruning step of SynReactor.mappings *)
Definition prune (rc : its) (raw : list mapping) : list mapping :=
  if (1 <? length raw)%nat then C11_Model.dedup_aut (fun m => m) (rule_auts rc) raw else raw.

(** ** its_list *)
(** _glue_graph for one kept mapping: the graph the gluing starts from and the (re)mappings glued onto it *)
Definition glue_base (strat : N) (flag : bool) (host : hostg) (l : molg) (m : mapping) : hostg * list mapping :=
  if flag then
    let hx := h_to_explicit host (sort_N (map snd m)) in (hx, matches strat hx l)
  else (host, [m]).

Definition glue_all (strat : N) (flag : bool) (host : hostg) (rc : its) (l : molg) (m : mapping) : list its :=
  let '(hb, ms) := glue_base strat flag host l m in
  flat_map (fun x => match glue hb rc x with Some T => [T] | None => [] end) ms.

Record prepared := Prep { p_rc : its; p_l : molg; p_r : molg; p_flag : bool; p_pat : molg }.

Definition prepare (invert implicit_temp : bool) (tpl : its) : option prepared :=
  let tpl' := if invert then invert_template tpl else tpl in
  match synrule tpl' (negb implicit_temp) with
  | None => None
  | Some (rc, l, r) =>
      let flag := has_XH l in
      Some (Prep rc l r flag (if flag then h_to_implicit l else l))
  end.

(** raw matches, kept matches, glued graphs (before _explicit_h) *)
Definition raw_of (strat : N) (host : hostg) (p : prepared) : list mapping := matches strat host (p_pat p).
Definition kept_of (strat : N) (host : hostg) (p : prepared) : list mapping := prune (p_rc p) (raw_of strat host p).
Definition glued_of (strat : N) (host : hostg) (p : prepared) : list its :=
  flat_map (glue_all strat (p_flag p) host (p_rc p) (p_l p)) (kept_of strat host p).

(** its_list: None = StopIteration inside _explicit_h (the property raises) *)
Definition results_of (explicit_stage : bool) (strat : N) (host : hostg) (p : prepared) : option (list its) :=
  let gl := glued_of strat host p in
  if explicit_stage then
    fold_right (fun T acc => match explicit_h T, acc with
                             | Some (T', _), Some r => Some (T' :: r)
                             | _, _ => None end) (Some []) gl
  else Some gl.

Definition pipeline (invert implicit_temp explicit_stage : bool) (strat : N) (host : hostg) (tpl : its) : option (list its) :=
  match prepare invert implicit_temp tpl with
  | None => None
  | Some p => results_of explicit_stage strat host p
  end.

(** ** observables *)
Definition t_result (show_ex : bool) (T : its) : tok :=
  L [tits T; if show_ex then t_explicit T (explicit_h T) else L []].

Definition t_strategy_raw (explicit_stage : bool) (host : hostg) (p : prepared) (strat : N) (raw : list mapping) : tok :=
  let kept := prune (p_rc p) raw in
  let gl := flat_map (glue_all strat (p_flag p) host (p_rc p) (p_l p)) kept in
  let crashed := explicit_stage && existsb (fun T => match explicit_h T with None => true | Some _ => false end) gl in
  let show_ex := explicit_stage && negb crashed in
  L [tnat (length raw); tnat (length kept);
     tnat (if (1 <? length raw)%nat then length (rule_auts (p_rc p)) else 0%nat);
     tnat (length gl); tset (t_result show_ex) gl; tbool crashed;
     (* the raw matches themselves, as a multiset of sets of pairs (the order of the list and of the pairs is VF2's) *)
     tset (tset (tpair tN tN)) raw].
Definition t_strategy (explicit_stage : bool) (host : hostg) (p : prepared) (strat : N) : tok :=
  t_strategy_raw explicit_stage host p strat (raw_of strat host p).

(** non-negative hydrogen counts: the domain on which [Z.to_N] in the conversion is faithful *)
Definition hc_okb (host : hostg) (p : prepared) : bool :=
  forallb (fun q => 0 <=? a_hc (snd q)) (gnodes host) && forallb (fun q => 0 <=? m_hc (snd q)) (gnodes (p_l p))
  && forallb (fun q => 0 <=? m_hc (snd q)) (gnodes (p_pat p)).

(** the premises of the set-level invariance theorem (proof/C05_Result.v, [side_ok]) as one boolean: matcher graphs
    well formed, the exhaustive enumeration below the threshold, rule graph with distinct ids, simple and closed edge
    list, pattern nodes among the rule nodes.  Evaluated on every writing whose pattern has no explicit X-H bond. *)
Definition closedb (rc : its) : bool :=
  forallb (fun e : N * N * iedge => let '(a, b, _) := e in LGraph.mem a (node_ids rc) && LGraph.mem b (node_ids rc)) (gedges rc).
(** the exhaustive enumeration of a writing; the run function computes it once and shares it between the observable of
    the exhaustive strategy and the premise monitor ([raw_of_enum], [side_okb_with]; proof/C05_Order.v shows that this is
    what [raw_of 0] and [side_okb] compute) *)
Definition all_enum (host : hostg) (p : prepared) : list mapping :=
  let H := host_c06 host in let P := pat_c06 (p_pat p) in monos_on' H P (node_ids H) (node_ids P).
Definition raw_of_enum (it : list mapping) : list mapping :=
  if (thr_val <? C06_Model.lenN it)%N then [] else it.
Definition raw_shared (it : list mapping) (strat : N) (host : hostg) (p : prepared) : list mapping :=
  if N.eqb strat 0 then raw_of_enum it else raw_of strat host p.

Definition side_okb_with (it : list mapping) (host : hostg) (p : prepared) : bool :=
  let H := host_c06 host in let P := pat_c06 (p_pat p) in
  negb (p_flag p) && C06_Model.gwfb H && C06_Model.gwfb P
  && (C06_Model.lenN it <=? thr_val)%N
  && nodupb (node_ids (p_rc p)) && simple_edgesb (gedges (p_rc p)) && closedb (p_rc p)
  && forallb (fun u => LGraph.mem u (node_ids (p_rc p))) (node_ids (p_pat p)).
Definition side_okb (host : hostg) (p : prepared) : bool := side_okb_with (all_enum host p) host p.
(** [side_okb] without the clause about the cap: the premises of the set-level theorem of the exhaustive strategy that
    holds under EVERY cap (proof/C05_AnyCap.v); evaluated on every compared writing by [run_c05t] *)
Definition side_okb0 (host : hostg) (p : prepared) : bool :=
  let H := host_c06 host in let P := pat_c06 (p_pat p) in
  negb (p_flag p) && C06_Model.gwfb H && C06_Model.gwfb P
  && nodupb (node_ids (p_rc p)) && simple_edgesb (gedges (p_rc p)) && closedb (p_rc p)
  && forallb (fun u => LGraph.mem u (node_ids (p_rc p))) (node_ids (p_pat p)).

(** the limit-free component-aware computation and its longest intermediate list (= [comp_unl] / [comp_bound] of
    proof/C06_Comp.v, restated here so that the run function can evaluate the premise of the set-level theorem for the
    COMPONENT / BACKTRACK strategies; proved equal in proof/C05_AllStrat.v) *)
Section Bound.
  Variable enum : list N -> list N -> list C06_Model.mapping.
  Definition c_percc (cands : list (nat * list N)) (pc : list N) : list (nat * C06_Model.mapping) :=
    flat_map (fun ih => map (pair (fst ih)) (enum (snd ih) pc)) cands.
  Definition c_cands (hcs : list (nat * list N)) (pc : list N) : list (nat * list N) :=
    filter (fun ih => length pc <=? length (snd ih))%nat hcs.
  Definition c_percc_of (H : C06_Model.graph) (pc : list N) : list (nat * C06_Model.mapping) :=
    c_percc (c_cands (C06_Model.index_from 0 (C06_Model.comps H)) pc) pc.
  Fixpoint c_bt_unl (ordered : list (list (nat * C06_Model.mapping))) (used : list nat) (acc : C06_Model.mapping)
    : list C06_Model.mapping :=
    match ordered with
    | [] => [acc]
    | lvl :: rest =>
        flat_map (fun hm => if C06_Model.memnat (fst hm) used || C06_Model.clash (snd hm) acc then []
                            else c_bt_unl rest (fst hm :: used) (snd hm ++ acc)) lvl
    end.
  Definition c_comp_unl (strict : bool) (H P : C06_Model.graph) : list C06_Model.mapping :=
    let hcc := length (C06_Model.comps H) in
    let pcc := length (C06_Model.comps P) in
    if (pcc =? 0)%nat then [[]]
    else if (hcc <? pcc)%nat then enum (node_ids H) (node_ids P)
    else if (pcc <? hcc)%nat && strict then []
    else c_bt_unl (C06_Model.sort_len (map (c_percc_of H) (C06_Model.comps P))) [] [].
  Definition c_comp_bound (strict : bool) (H P : C06_Model.graph) : N :=
    fold_right N.max (C06_Model.lenN (c_comp_unl strict H P))
               (map (fun pc => C06_Model.lenN (c_percc_of H pc)) (C06_Model.comps P)).
End Bound.

Definition side_okb_c_with (it : list mapping) (host : hostg) (p : prepared) : bool :=
  let H := host_c06 host in let P := pat_c06 (p_pat p) in
  side_okb_with it host p && (c_comp_bound (monos_on' H P) true H P <=? thr_val)%N.
Definition side_okb_c (host : hostg) (p : prepared) : bool := side_okb_c_with (all_enum host p) host p.

Definition t_variant (invert implicit_temp explicit_stage : bool) (strats : list N) (v : hostg * its) : tok :=
  match prepare invert implicit_temp (snd v) with
  | None => L [I (-1)]
  | Some p =>
      L [trc (negb implicit_temp) (p_rc p); tbool (p_flag p); tmolg (p_pat p);
         tbool (hc_okb (fst v) p && wf_rcb (p_rc p) && wf_hostb (fst v) && (p_flag p || side_okb_c (fst v) p));
         tlist (t_strategy explicit_stage (fst v) p) strats]
  end.

(** the same value with the exhaustive enumeration evaluated once per writing ([t_variant_shared_eq] in proof/C05_Order.v) *)
Definition t_variant_shared (invert implicit_temp explicit_stage : bool) (strats : list N) (v : hostg * its) : tok :=
  match prepare invert implicit_temp (snd v) with
  | None => L [I (-1)]
  | Some p =>
      let it := all_enum (fst v) p in
      L [trc (negb implicit_temp) (p_rc p); tbool (p_flag p); tmolg (p_pat p);
         tbool (hc_okb (fst v) p && wf_rcb (p_rc p) && wf_hostb (fst v) && (p_flag p || side_okb_c_with it (fst v) p));
         tlist (fun s => t_strategy_raw explicit_stage (fst v) p s (raw_shared it s (fst v) p)) strats]
  end.

(** ** the premise [same_graph] of the set-level theorems, as a boolean: the writing (host', tpl') is the base writing
    (host, tpl) renumbered by (pi, sg) and re-ordered.  The harness supplies pi and sg (an isomorphism found by
    networkx on the parsed graphs); the model checks them. *)
Definition apply_map (f : list (N * N)) (u : N) : N := match assoc u f with Some v => v | None => u end.
Definition opt_eqb {A} (eqb : A -> A -> bool) (a b : option A) : bool :=
  match a, b with Some x, Some y => eqb x y | None, None => true | _, _ => false end.
Definition closed_edgesb {A B} (g : lgraph A B) : bool :=
  forallb (fun e : N * N * B => let '(a, b, _) := e in LGraph.mem a (node_ids g) && LGraph.mem b (node_ids g)) (gedges g).
Definition same_graphb {A B} (aeq : A -> A -> bool) (beq : B -> B -> bool) (g g' : lgraph A B) : bool :=
  nodupb (node_ids g) && nodupb (node_ids g')
  && forallb (fun u => LGraph.mem u (node_ids g')) (node_ids g) && forallb (fun u => LGraph.mem u (node_ids g)) (node_ids g')
  && closed_edgesb g && closed_edgesb g'
  && forallb (fun u => opt_eqb aeq (label g' u) (label g u)) (node_ids g)
  && forallb (fun u => forallb (fun v => opt_eqb beq (LGraph.adj g' u v) (LGraph.adj g u v)) (node_ids g)) (node_ids g).

Definition injb (f : list (N * N)) : bool := nodupb (map fst f) && nodupb (map snd f).
(** [f] is injective as a function on all of N when it permutes its own domain *)
Definition permb (f : list (N * N)) : bool :=
  injb f && forallb (fun v => LGraph.mem v (map fst f)) (map snd f).

Definition rewriting_okb (host0 : hostg) (tpl0 : its) (w : hostg * its * list (N * N) * list (N * N)) : bool :=
  let '(host, tpl, pi, sg) := w in
  permb pi && permb sg
  && same_graphb nattr_eqb Z.eqb (relabel (apply_map pi) host0) host
  && same_graphb inode_eqb iedge_eqb (relabel (apply_map sg) tpl0) tpl
  && simple_edgesb (gedges tpl0) && simple_edgesb (gedges tpl).

(** one case = one (template, substrate) pair written in several ways; see harness/props/C05.py *)
Definition run_c05 (invert implicit_temp explicit_stage : bool) (strats : list N) (vs : list (hostg * its)) : tok :=
  tlist (t_variant_shared invert implicit_temp explicit_stage strats) vs.

(** the same with the renumberings between the base writing and the others: every writing is also checked to be a
    rewriting of the first in the sense of the theorems ([rewriting_okb]) *)
Definition run_c05w (invert implicit_temp explicit_stage : bool) (strats : list N)
           (ws : list (hostg * its * list (N * N) * list (N * N))) : tok :=
  match ws with
  | [] => L []
  | w0 :: _ =>
      let host0 := fst (fst (fst w0)) in let tpl0 := snd (fst (fst w0)) in
      L [run_c05 invert implicit_temp explicit_stage strats (map (fun w => (fst (fst (fst w)), snd (fst (fst w)))) ws);
         tlist (fun w => tbool (rewriting_okb host0 tpl0 w)) ws]
  end.
(** ** SynReactor(embed_pre_filter = True): the FIRST search (SynReactor.mappings) hands pre_filter = True to
    find_subgraph_mappings — a cheap guard that EMPTIES the result when the product of the per-atom candidate counts
    exceeds threshold * 10000 or some pattern atom has no candidate (C06_Model.quick_pre_filter); the re-match on the
    explicit-hydrogen path always runs with pre_filter = False (its_list passes embed_pre_filter=False).
    [matches_pf false] is [matches]. *)
Definition matches_pf (pref : bool) (strat : N) (host : hostg) (pat : molg) : list mapping :=
  let H := host_c06 host in let P := pat_c06 pat in
  C06_Model.find (monos_on' H P) (C06_Model.Cfg strat 0%N thr_val true pref) H P.
Definition raw_of_pf (pref : bool) (strat : N) (host : hostg) (p : prepared) : list mapping := matches_pf pref strat host (p_pat p).
Definition kept_of_pf (pref : bool) (strat : N) (host : hostg) (p : prepared) : list mapping := prune (p_rc p) (raw_of_pf pref strat host p).
Definition glued_of_pf (pref : bool) (strat : N) (host : hostg) (p : prepared) : list its :=
  flat_map (glue_all strat (p_flag p) host (p_rc p) (p_l p)) (kept_of_pf pref strat host p).
Definition prefilter_fires (host : hostg) (p : prepared) : bool :=
  C06_Model.quick_pre_filter (host_c06 host) (pat_c06 (p_pat p)) thr_val.

Definition t_variant_pf (invert implicit_temp explicit_stage : bool) (strats : list N) (v : hostg * its) : tok :=
  match prepare invert implicit_temp (snd v) with
  | None => L [I (-1)]
  | Some p =>
      L [tbool (p_flag p); tmolg (p_pat p); tbool (prefilter_fires (fst v) p);
         (* premise of the decision-invariance theorem (proof/C05_PrefilterOrder.v): distinct atoms, simple bond lists *)
         tbool (C06_Model.wfb (host_c06 (fst v)) && C06_Model.wfb (pat_c06 (p_pat p)));
         tlist (fun s => t_strategy_raw explicit_stage (fst v) p s (raw_of_pf true s (fst v) p)) strats]
  end.
Definition run_c05f_w (invert implicit_temp explicit_stage : bool) (strats : list N) (vs : list (hostg * its)) : tok :=
  tlist (t_variant_pf invert implicit_temp explicit_stage strats) vs.

(** SynReactor(partial=True).mappings: raw (partial) matches and the matches kept by the symmetry pruning; the raw matches
    are compared as a multiset of sets of pairs (VF2's order is not modelled), the kept ones by their number *)
Definition t_partial (host : hostg) (p : prepared) (strat : N) : tok :=
  match partial_matches strat host (p_pat p) with
  | None => L [I (-1)]
  | Some raw =>
      (* under a result limit WHICH matches are kept depends on the enumeration order (VF2's is not modelled): numbers only *)
      L [tnat (length raw); if (pmax_val =? 0)%N then tnat (length (prune (p_rc p) raw)) else L [];
         if (pmax_val =? 0)%N then tset (tset (tpair tN tN)) raw else L []]
  end.
Definition t_variant_partial (invert implicit_temp : bool) (strats : list N) (v : hostg * its) : tok :=
  match prepare invert implicit_temp (snd v) with
  | None => L [I (-1)]
  | Some p => L [tbool (p_flag p); tmolg (p_pat p); tlist (t_partial (fst v) p) strats]
  end.
Definition run_c05p_w (invert implicit_temp : bool) (strats : list N) (vs : list (hostg * its)) : tok :=
  tlist (t_variant_partial invert implicit_temp strats) vs.

End WithThr.

(** the run function of the harness: [embed_threshold] is the constructor option of the reactor (None = not given).
    Third component: per compared writing, the cap-free premises [side_okb0] and [wfb] (simple bond lists) of the theorems
    that hold for every configuration of the guards (or: the pattern keeps explicit X-H bonds). *)
Definition okb0_of (invert implicit_temp : bool) (w : hostg * its * list (N * N) * list (N * N)) : bool :=
  match prepare invert implicit_temp (snd (fst (fst w))) with
  | None => false
  | Some p => p_flag p || (side_okb0 (fst (fst (fst w))) p
                           && C06_Model.wfb (host_c06 (fst (fst (fst w)))) && C06_Model.wfb (pat_c06 (p_pat p)))
  end.
Definition run_c05t (embed_threshold : option N) (invert implicit_temp explicit_stage : bool) (strats : list N)
           (ws : list (hostg * its * list (N * N) * list (N * N))) : tok :=
  match @run_c05w (thr_of embed_threshold) invert implicit_temp explicit_stage strats ws with
  | L l => L (l ++ [tlist (fun w => tbool (okb0_of invert implicit_temp w)) ws])
  | t => t
  end.

(** the partial-matching option: one case = the writings of one (template, substrate) pair *)
Definition run_c05p (embed_threshold : option N) (invert implicit_temp : bool) (strats : list N) (vs : list (hostg * its)) : tok :=
  @run_c05p_w (thr_of embed_threshold) invert implicit_temp strats vs.

(** the pre-filter option (embed_pre_filter = True), with or without a non-default cap *)
Definition run_c05f (embed_threshold : option N) (invert implicit_temp explicit_stage : bool) (strats : list N)
           (vs : list (hostg * its)) : tok :=
  @run_c05f_w (thr_of embed_threshold) invert implicit_temp explicit_stage strats vs.
