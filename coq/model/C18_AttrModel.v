(** C18 — the canonicaliser with NON-DEFAULT attribute selections (bipartite view): node_attr_keys drawn from
    kind / bipartite / label / <absent key>, edge_attr_keys from role / stoich / <absent key>, in any order and multiplicity.
    Definitions only.  The 'label' attribute (species name / rule name) is supplied per node by the harness as
    (rank of the string among the label strings of the view in Python order, the string as code points): values are only
    compared in _sig / _init_part and only printed in _label.  An absent key is None in _sig (-1) and "" in _label. *)
From Coq Require Import String Ascii.
From Coq Require Import List NArith ZArith Bool Arith.
From SK Require Import lib.Tok lib.IRSortKeys lib.IRCore lib.IRSearch lib.StrJoin model.C18_Model.
From SK Require lib.IRInst.
Import ListNotations.

Inductive nsel := NKind | NBip | NLabel | NNone.
Inductive esel := ERole | EStoich | ENone.
Definition ltab := list (N * (Z * list N)).
Fixpoint ltab_get (t : ltab) (v : N) : Z * list N :=
  match t with [] => (NONE, []) | (u, x) :: r => if N.eqb u v then x else ltab_get r v end.

(** (value as compared, value as printed by str()) *)
Definition nval (g : vgraph) (t : ltab) (v : N) (s : nsel) : Z * list N :=
  match s with
  | NKind => (kind_of g v, kind_str (kind_of g v))
  | NBip => if Z.eqb (kind_of g v) KSPECIES then (0%Z, [48%N]) else (1%Z, [49%N])
  | NLabel => ltab_get t v
  | NNone => (NONE, [])
  end.
Definition eval (a : eattr) (s : esel) : Z * list N :=
  match s with
  | ERole => (fst a, role_str (fst a))
  | EStoich => (snd a, st_str (snd a))
  | ENone => (NONE, [])
  end.
Definition nkey (g : vgraph) (t : ltab) (nk : list nsel) (v : N) : list Z := map (fun s => fst (nval g t v s)) nk.
Definition ekey (ek : list esel) (a : eattr) : list Z := map (fun s => fst (eval a s)) ek.

Fixpoint ins_tuple (x : list Z) (l : list (list Z)) : list (list Z) :=
  match l with [] => [x] | y :: r => if lexleb x y then x :: l else y :: ins_tuple x r end.
Definition sort_tuples (l : list (list Z)) : list (list Z) := fold_right ins_tuple [] l.

Definition sigA (g : vgraph) (t : ltab) (nk : list nsel) (ek : list esel) (P : partition) (v : N) : list Z :=
  nkey g t nk v ++ [Z.of_nat (indeg g v); Z.of_nat (outdeg g v)] ++ map (cnt g v) P
  ++ concat (sort_tuples (map (ekey ek) (out_attrs g v))).

(** _init_part: one cell when no key is selected (no cell at all for the empty graph: repair ad4c809), else buckets by the key
    tuple, sorted by key *)
Definition init_partA (g : vgraph) (t : ltab) (nk : list nsel) : partition :=
  match nk with
  | [] => match node_ids g with [] => [] | _ => [sortN (node_ids g)] end
  | _ => map (fun k => sortN (filter (fun v => eqb lexleb (nkey g t nk v) k) (node_ids g)))
             (sort_dedup lexleb (map (nkey g t nk) (node_ids g)))
  end.

Definition bitA (g : vgraph) (ek : list esel) (a b : N) : list N :=
  match find_arc g a b with
  | Some x => [49%N; COLON] ++ join COLON (map (fun s => snd (eval x s)) ek)
  | None => [48%N; COLON] ++ join COLON (map (fun _ => []) ek)
  end.
Definition edge_bitsA (g : vgraph) (ek : list esel) (perm : list N) : list (list N) :=
  let ip := indexed perm in
  flat_map (fun iv => flat_map (fun jw => if Nat.eqb (fst iv) (fst jw) then [] else [bitA g ek (snd iv) (snd jw)]) ip) ip.
Definition labelA (g : vgraph) (t : ltab) (nk : list nsel) (ek : list esel) (perm : list N) : list N :=
  join BAR (map (fun v => join COLON (map (fun s => snd (nval g t v s)) nk)) perm) ++ [BAR; BAR] ++ join BAR (edge_bitsA g ek perm).

Definition canon_searchA (g : vgraph) (t : ltab) (nk : list nsel) (ek : list esel) : acc (list N) :=
  let n := length (vnodes g) in
  search lexleb (sigA g t nk ek) (S n) lexlebN (labelA g t nk ek) no_bound (S n) (init_partA g t nk) [] (None, []).

Fixpoint rlogA (sg : partition -> N -> list Z) (rfuel fuel : nat) (P : partition) : list (partition * partition) :=
  match fuel with
  | O => []
  | S f =>
      let P' := refine lexleb sg rfuel P in
      (P, P') :: match first_big P' with
                 | None => []
                 | Some i => flat_map (fun v => rlogA sg rfuel f (individualise P' i v)) (nth i P' [])
                 end
  end.

Definition run_attr (st : bool) (n : net) (t : ltab) (nk : list nsel) (ek : list esel) : tok :=
  let g := view true st n in
  let k := S (length (vnodes g)) in
  let res := canon_searchA g t nk ek in
  match fst res with
  | None => L []
  | Some (lab, perm) =>
      let cg := canon_graph g perm in
      L [ tset node_tok (vnodes g); tset arc_tok (varcs g);
          tlist (tpair tpart tpart) (rlogA (sigA g t nk ek) k k (init_partA g t nk));
          tlist tN perm; tlist tN lab;
          tnat (length (snd res)); tlist (tlist tN) (snd res);
          tset (tset tN) (orbits_from_perms (snd res));
          tset node_tok (vnodes cg); tset arc_tok (varcs cg) ]
  end.
Definition run_attr_case (st : bool) (nets : list (net * ltab)) (nk : list nsel) (ek : list esel) : tok :=
  tlist (fun nt => run_attr st (fst nt) (snd nt) nk ek) nets.
