(** C06 — histories: the caller's two graph OBJECTS as state.  A history is a script of in-place
    edits of the host / pattern object (networkx semantics of [g.nodes[u][k] = v], [pop], [g[a][b][k] = v],
    [add_edge], [remove_edge], [add_node], [remove_node]) interleaved with searches on the current state
    (optionally with the two arguments swapped) and with caller-side mutations of earlier RESULTS
    (which are values in the model: no effect).  Until round 4 the harness computed the state every
    search should see ([_edit_dict] snapshots) and the model evaluated each snapshot; now the model
    carries the state through the script itself, so the edit semantics are part of the compared model.
    Definitions only; proofs in proof/C06_Hist.v. *)
From Coq Require Import List NArith Bool Arith.
From SK Require Import lib.Tok lib.LGraph model.C06_Model model.C06_Attrs model.C06_Trace.
Import ListNotations.

(** the name code of "hcount" (the encoder interns it first) *)
Definition HCOUNT_KEY : N := 1%N.

(** [d[k] = v]: an existing key keeps its position, a new key goes to the end *)
Fixpoint dict_set (k v : N) (d : rattrs) : rattrs :=
  match d with
  | [] => [(k, v)]
  | (k', v') :: r => if N.eqb k' k then (k, v) :: r else (k', v') :: dict_set k v r
  end.
(** [d.pop(k, None)] *)
Fixpoint dict_del (k : N) (d : rattrs) : rattrs :=
  match d with
  | [] => []
  | (k', v') :: r => if N.eqb k' k then r else (k', v') :: dict_del k r
  end.
(** [d.update(new)] *)
Definition dict_update (new d : rattrs) : rattrs := fold_left (fun acc kv => dict_set (fst kv) (snd kv) acc) new d.

(** node label = (dictionary, numeric hcount when the key is present) *)
Definition lab_set (k v n : N) (l : rnlab) : rnlab :=
  (dict_set k v (fst l), if N.eqb k HCOUNT_KEY then Some n else snd l).
Definition lab_del (k : N) (l : rnlab) : rnlab :=
  (dict_del k (fst l), if N.eqb k HCOUNT_KEY then None else snd l).
Definition lab_update (new l : rnlab) : rnlab :=
  (dict_update (fst new) (fst l), match snd new with Some n => Some n | None => snd l end).

Inductive edit :=
| ESetNodeAttr (u k v n : N)          (* g.nodes[u][k] = v;  n = the number itself when k is "hcount" *)
| EDelNodeAttr (u k : N)              (* g.nodes[u].pop(k, None) *)
| ESetEdgeAttr (a b k v : N)          (* g[a][b][k] = v *)
| EAddEdge (a b : N) (d : rattrs)     (* g.add_edge(a, b, **d) *)
| ERemoveEdge (a b : N)               (* g.remove_edge(a, b) *)
| EAddNode (u : N) (l : rnlab)        (* g.add_node(u, **l) *)
| ERemoveNode (u : N).                (* g.remove_node(u) *)

Definition joins (a b x y : N) : bool := (N.eqb x a && N.eqb y b) || (N.eqb x b && N.eqb y a).

Definition map_node (u : N) (f : rnlab -> rnlab) (g : rgraph) : rgraph :=
  LG (map (fun p => if N.eqb (fst p) u then (fst p, f (snd p)) else p) (gnodes g)) (gedges g).
Definition map_edge (a b : N) (f : rattrs -> rattrs) (g : rgraph) : rgraph :=
  LG (gnodes g) (map (fun e => let '(x, y, d) := e in if joins a b x y then (x, y, f d) else e) (gedges g)).
Definition ensure_node (u : N) (ns : list (N * rnlab)) : list (N * rnlab) :=
  if LGraph.mem u (map fst ns) then ns else ns ++ [(u, ([], None))].

Definition apply_edit (e : edit) (g : rgraph) : rgraph :=
  match e with
  | ESetNodeAttr u k v n => map_node u (lab_set k v n) g
  | EDelNodeAttr u k => map_node u (lab_del k) g
  | ESetEdgeAttr a b k v => map_edge a b (dict_set k v) g
  | EAddEdge a b d =>
      match find_edge a b (gedges g) with
      | Some _ => map_edge a b (dict_update d) g
      | None => LG (ensure_node b (ensure_node a (gnodes g))) (gedges g ++ [(a, b, d)])
      end
  | ERemoveEdge a b => LG (gnodes g) (filter (fun e => let '(x, y, _) := e in negb (joins a b x y)) (gedges g))
  | EAddNode u l =>
      if LGraph.mem u (node_ids g) then map_node u (lab_update l) g
      else LG (gnodes g ++ [(u, l)]) (gedges g)
  | ERemoveNode u =>
      LG (filter (fun p => negb (N.eqb (fst p) u)) (gnodes g))
         (filter (fun e => let '(x, y, _) := e in negb (N.eqb x u) && negb (N.eqb y u)) (gedges g))
  end.

Inductive hstep :=
| HEdit (host_side : bool) (e : edit)
| HSearch (swap : bool) (na ea : list N) (c : cfg)
| HMutateResult.

(** the answers of the search steps, in order; [H] / [P] are the current states of the two objects *)
Fixpoint run_hist (H P : rgraph) (steps : list hstep) : list tok :=
  match steps with
  | [] => []
  | HEdit true e :: r => run_hist (apply_edit e H) P r
  | HEdit false e :: r => run_hist H (apply_edit e P) r
  | HSearch swap na ea c :: r =>
      (if swap then run_tr_set na ea P H [c] else run_tr_set na ea H P [c]) :: run_hist H P r
  | HMutateResult :: r => run_hist H P r
  end.
(** monitor of the premises of the history theorems (lib/C06_HistSpec.v): every node and edge dictionary of the two initial
    objects, and of every node / edge a script creates, has one entry per key (true of Python dicts by construction) *)
Definition dict_okb (d : rattrs) : bool := nodupb (map fst d).
Definition state_okb (g : rgraph) : bool :=
  forallb (fun p => dict_okb (fst (snd p))) (gnodes g) && forallb (fun e => dict_okb (snd e)) (gedges g).
Definition step_okb (s : hstep) : bool :=
  match s with
  | HEdit _ (EAddNode _ l) => dict_okb (fst l)
  | HEdit _ (EAddEdge _ _ d) => dict_okb d
  | _ => true
  end.

Definition run_history (H P : rgraph) (steps : list hstep) : tok :=
  L (tbool (state_okb H && state_okb P && forallb step_okb steps) :: run_hist H P steps).
