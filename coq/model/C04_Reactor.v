(** C04 — SynReactor as an OBJECT: option handling, the three lazily computed attributes with their caches, and the chain
    substrate -> raw matches -> pruning by rule automorphisms -> gluing -> explicit hydrogens -> serialised reactions,
    composed from the models of the parts:

      synkit/Synthesis/Reactor/syn_reactor.py   __post_init__, rule (_wrap_template on an ITS graph), mappings, its_list,
                                                smarts_list, smiles_list, mapping_count  (this file)
      synkit/Graph/Matcher/subgraph_matcher.py  find_subgraph_mappings as called by the reactor = model/C06_Model.v [find_api]
                                                on the graphs [tr_host] / [tr_pat] (node_attrs element + charge, edge_attrs order,
                                                host hcount >= pattern hcount)
      synkit/Graph/Matcher/dedup_matches.py     graph_automorphisms(rule.rc.raw) + deduplicate_matches_by_automorphisms, only when
                                                more than one raw match = model/C11_Model.v [prune] on [tr_rule cn ce rc]
      synkit/Chem/utils.py                      reverse_reaction (on byte strings)
      SynReactor._glue_graph / _explicit_h      model/C03_Model.v [glue] / [h_to_explicit] / [explicit_h]

    Oracle inputs (Section variables; the harness instantiates them with what the implementation produced, the theorems
    quantify over them): [enum] = one VF2 enumeration call of the search engine, [rematch] = the re-matching of the
    explicit-hydrogen pattern on the expanded substrate inside _glue_graph (VF2 again), [ser] = RDKit's graph_to_smi on the two
    sides of an ITS (None = refused).
    Definitions only; proofs in proof/C04_Chain.v, proof/C04_Object.v. *)
From Coq Require Import List NArith ZArith Bool.
From SK Require Import lib.Tok lib.LGraph lib.Mono model.C06_Model model.C11_Model model.C03_Model model.C04_Model.
(* definitions only (sumF, cnt, side0): the vocabulary file of C03 *)
From SK Require Import proof.C03_Spec.
Import ListNotations.
Local Open Scope Z_scope.

(** ** the graphs the reactor hands to the search engine: node_attrs = ["element", "charge"], edge_attrs = ["order"] *)
Definition chcode (z : Z) : N := match z with Z0 => 0%N | Zpos p => Npos (xO p) | Zneg p => Npos (xI p) end.
Definition tr_edges (es : list (N * N * Z)) : list (N * N * C06_Model.elab) := map (fun e => let '(u, v, o) := e in (u, v, [Z.to_N o])) es.
Definition tr_host (g : hostg) : C06_Model.graph :=
  LG (map (fun p => (fst p, ([a_el (snd p); chcode (a_ch (snd p))], Z.to_N (a_hc (snd p))))) (gnodes g)) (tr_edges (gedges g)).
Definition tr_pat (g : molg) : C06_Model.graph :=
  LG (map (fun p => (fst p, ([m_el (snd p); chcode (m_ch (snd p))], Z.to_N (m_hc (snd p))))) (gnodes g)) (tr_edges (gedges g)).

(** ** the rule graph handed to graph_automorphisms: every node attribute except atom_map, every edge attribute, through
    codes [cn] / [ce] *)
Definition tr_rule (cn : inode -> N) (ce : iedge -> N) (t : its) : C11_Model.graph :=
  LG (map (fun p => (fst p, (0%N, 0%N, cn (snd p)))) (gnodes t))
     (map (fun e => let '(u, v, x) := e in (u, v, (0%N, ce x))) (gedges t)).

(** canonical codes: the position of the first atom (bond) of the rule with the same label.  Label of an atom = both
    tuples and h_pairs (the plain element / charge / hcount / aromatic / neighbors attributes of rule.rc nodes are functions
    of these); label of a bond = (order pair, standard_order) *)
Fixpoint list_eqb {X} (eq : X -> X -> bool) (a b : list X) : bool :=
  match a, b with
  | [], [] => true
  | x :: a', y :: b' => eq x y && list_eqb eq a' b'
  | _, _ => false
  end.
Definition nattr_eqb (x y : nattr) : bool :=
  N.eqb (a_el x) (a_el y) && Bool.eqb (a_aro x) (a_aro y) && Z.eqb (a_hc x) (a_hc y) && Z.eqb (a_ch x) (a_ch y)
  && list_eqb N.eqb (a_nb x) (a_nb y).
Definition inode_eqb (a b : inode) : bool :=
  nattr_eqb (iG a) (iG b) && nattr_eqb (iH a) (iH b) && opt_eqb (list_eqb N.eqb) (i_hp a) (i_hp b).
Definition iedge_eqb (x z : iedge) : bool := Z.eqb (eG x) (eG z) && Z.eqb (eH x) (eH z) && Z.eqb (eS x) (eS z).
Fixpoint index_where {X} (f : X -> bool) (l : list X) (i : N) : N :=
  match l with
  | [] => i
  | x :: r => if f x then i else index_where f r (N.succ i)
  end.
Definition cn_of (t : its) (a : inode) : N := index_where (fun p => inode_eqb (snd p) a) (gnodes t) 0%N.
Definition ce_of (t : its) (x : iedge) : N := index_where (fun e => iedge_eqb (snd e) x) (gedges t) 0%N.
Definition rule_graph (rc : its) : C11_Model.graph := tr_rule (cn_of rc) (ce_of rc) rc.

(** ** the options of the dataclass that reach the matching / gluing path *)
Record ropts := RO { o_invert : bool; o_explicit_h : bool; o_implicit_temp : bool;
                     o_strategy : sarg;            (* Strategy member or string, through Strategy.from_string *)
                     o_thr : option N;             (* embed_threshold *)
                     o_pref : bool }.              (* embed_pre_filter *)
(** __post_init__: ValueError when both flags are set *)
Definition post_init_ok (o : ropts) : bool := negb (o_implicit_temp o && o_explicit_h o).
(** _wrap_template on an ITS graph: inverted first when applied backwards, prepared (standardised + stripped) unless
    implicit_temp *)
Definition wrap_template (o : ropts) (tpl : its) : option triple :=
  synrule (if o_invert o then invert_template tpl else tpl) (negb (o_implicit_temp o)).

(** ** byte strings: reverse_reaction and the split(">>") of smiles_list *)
Definition GT : N := 62%N.
Definition bytes := list N.
(** str.split(">>"): pieces between non-overlapping occurrences, scanned left to right; [cur] = the piece being read, reversed *)
Fixpoint split_gg (s cur : bytes) : list bytes :=
  match s with
  | [] => [rev cur]
  | a :: r =>
      match r with
      | b :: r' => if N.eqb a GT && N.eqb b GT then rev cur :: split_gg r' [] else split_gg r (a :: cur)
      | [] => [rev (a :: cur)]
      end
  end.
Definition arrow : bytes := [GT; GT].
(** reverse_reaction: 'reactants>>products' -> 'products>>reactants'; any other number of pieces: unchanged *)
Definition reverse_reaction (s : bytes) : bytes :=
  match split_gg s [] with
  | [a; b] => b ++ arrow ++ a
  | _ => s
  end.
(** s.split(">>")[-1] *)
Definition last_piece (s : bytes) : bytes := last (split_gg s []) [].
(** _to_smarts after graph_to_smi of both sides: None if RDKit refuses either side *)
Definition to_smarts (rp : option bytes * option bytes) : option bytes :=
  match rp with
  | (Some r, Some p) => Some (r ++ arrow ++ p)
  | _ => None
  end.
Definition truthy (o : option bytes) : list bytes := match o with Some (c :: s) => [c :: s] | _ => [] end.

(** ** the object *)
Fixpoint mapi_from {X Y} (f : nat -> X -> Y) (i : nat) (l : list X) : list Y :=
  match l with [] => [] | x :: r => f i x :: mapi_from f (S i) r end.
Definition mapi {X Y} (f : nat -> X -> Y) (l : list X) : list Y := mapi_from f 0 l.

(** _explicit_h over the list, in place, left to right: the first StopIteration aborts; what the list then contains *)
Fixpoint explicit_all (l : list its) : list its * bool :=
  match l with
  | [] => ([], false)
  | g :: r =>
      match explicit_h g with
      | None => (g :: r, true)
      | Some (g', _) => let '(r', c) := explicit_all r in (g' :: r', c)
      end
  end.

Record rstate := RS { s_maps : option (list C03_Model.mapping);   (* _mappings *)
                      s_flag : bool;                              (* _flag_pattern_has_explicit_H *)
                      s_its : option (list its);                  (* _its *)
                      s_smarts : option (list bytes) }.           (* _smarts *)
Definition fresh : rstate := RS None false None None.

Inductive attr := AMappings | AIts | ASmarts | ASmiles | ACount | ALenSmarts.
(** what a read returns; [None] inside = the read raised *)
Inductive rvalue :=
| VMaps (o : option (list C03_Model.mapping))
| VIts (o : option (list its))
| VStrs (o : option (list bytes))
| VNum (o : option N).

Section Object.
  (** SubgraphSearchEngine.find_subgraph_mappings(host, pattern, node_attrs, edge_attrs, strategy, threshold, pre_filter) *)
  Variable engine : sarg -> option N -> bool -> C06_Model.graph -> C06_Model.graph -> outcome.
  (** the re-matching inside _glue_graph for the i-th kept mapping (explicit-hydrogen path) *)
  Variable rematch : nat -> hostg -> molg -> list C03_Model.mapping.
  (** graph_to_smi on both sides of the i-th ITS *)
  Variable ser : nat -> its -> option bytes * option bytes.
  Variable o : ropts.
  Variable host : hostg.          (* self.graph.raw *)
  Variable rule : triple.         (* self.rule: rc, left, right *)
  Let rc := fst (fst rule).
  Let l := snd (fst rule).

  (** mappings: pattern preparation, engine call, pruning when more than one raw match *)
  Definition compute_mappings : option (list C03_Model.mapping) :=
    match engine (o_strategy o) (o_thr o) (o_pref o) (tr_host host) (tr_pat (pattern_of l)) with
    | Result raw => Some (C11_Model.prune (fun m : C03_Model.mapping => m) (rule_graph rc) raw)
    | _ => None
    end.
  Definition read_mappings (st : rstate) : option (list C03_Model.mapping) * rstate :=
    match s_maps st with
    | Some ms => (Some ms, st)
    | None =>
        let flag := s_flag st || has_XH l in       (* the flag is only ever raised *)
        match compute_mappings with
        | Some ms => (Some ms, RS (Some ms) flag (s_its st) (s_smarts st))
        | None => (None, RS None flag (s_its st) (s_smarts st))
        end
    end.

  (** _glue_graph for the i-th mapping: on the explicit path the matched atoms are expanded and the explicit pattern is
      re-matched; every (re)mapping whose edge merge is valid gives one ITS *)
  Definition glue_graph (flag : bool) (i : nat) (m : C03_Model.mapping) : list its :=
    let hb := if flag then h_to_explicit host (map snd m) else host in
    let ms := if flag then rematch i hb l else [m] in
    flat_map (fun x => match glue hb rc x with Some g => [g] | None => [] end) ms.

  Definition read_its (st : rstate) : option (list its) * rstate :=
    match s_its st with
    | Some gs => (Some gs, st)
    | None =>
        let '(om, st1) := read_mappings st in
        match om with
        | None => (None, st1)
        | Some ms =>
            let glued := concat (mapi (glue_graph (s_flag st1)) ms) in
            if o_explicit_h o then
              let '(gs, crashed) := explicit_all glued in
              (if crashed then None else Some gs, RS (s_maps st1) (s_flag st1) (Some gs) (s_smarts st1))
            else (Some glued, RS (s_maps st1) (s_flag st1) (Some glued) (s_smarts st1))
        end
    end.

  (** the pure values behind the caches (vocabulary of proof/C04_Object.v): every glued ITS of every kept mapping; what
      stays in _its; whether _explicit_h raised on the way *)
  Definition glued_val (ms : list C03_Model.mapping) : list its := concat (mapi (glue_graph (has_XH l)) ms).
  Definition its_stored (ms : list C03_Model.mapping) : list its :=
    if o_explicit_h o then fst (explicit_all (glued_val ms)) else glued_val ms.
  Definition crashed (ms : list C03_Model.mapping) : bool := o_explicit_h o && snd (explicit_all (glued_val ms)).

  Definition smarts_of (gs : list its) : list bytes :=
    let strs := flat_map truthy (mapi (fun i g => to_smarts (ser i g)) gs) in
    if o_invert o then map reverse_reaction strs else strs.
  Definition read_smarts (st : rstate) : option (list bytes) * rstate :=
    match s_smarts st with
    | Some ss => (Some ss, st)
    | None =>
        let '(og, st1) := read_its st in
        match og with
        | None => (None, st1)
        | Some gs => let ss := smarts_of gs in (Some ss, RS (s_maps st1) (s_flag st1) (s_its st1) (Some ss))
        end
    end.

  Definition read (a : attr) (st : rstate) : rvalue * rstate :=
    match a with
    | AMappings => let '(v, st') := read_mappings st in (VMaps v, st')
    | AIts => let '(v, st') := read_its st in (VIts v, st')
    | ASmarts => let '(v, st') := read_smarts st in (VStrs v, st')
    | ASmiles => let '(v, st') := read_smarts st in (VStrs (option_map (map last_piece) v), st')
    | ACount => let '(v, st') := read_mappings st in (VNum (option_map (fun ms => N.of_nat (length ms)) v), st')
    | ALenSmarts => let '(v, st') := read_smarts st in (VNum (option_map (fun ss => N.of_nat (length ss)) v), st')
    end.
  Fixpoint run_script (s : list attr) (st : rstate) : list rvalue * rstate :=
    match s with
    | [] => ([], st)
    | a :: r => let '(v, st1) := read a st in let '(vs, st2) := run_script r st1 in (v :: vs, st2)
    end.
End Object.

(** ** the chain for one reaction: the reactor built from the reaction's own template, on its own substrate *)
Definition own_opts (invert modeE : bool) (s : sarg) (thr : option N) (pref : bool) : ropts :=
  RO invert modeE (negb modeE) s thr pref.
Definition api_engine (enum : list N -> list N -> list C06_Model.mapping)
    (s : sarg) (thr : option N) (pref : bool) (H P : C06_Model.graph) : outcome :=
  find_api enum s None None thr (Some pref) H P.

(** ** observables (harness/props/C04.py) *)
(** an ITS of its_list seen from the substrate's atoms [old]: the old part, the number of new atoms, the old atoms bonded to
    a new atom with label (1,0) (donors) / (0,1) (recipients) -- the ids _explicit_h invents depend on set iteration order *)
Definition t_its_old (old : list N) (g : its) : tok :=
  let o := only_old old g in
  let cross := flat_map (fun e : N * N * iedge => let '(a, b, x) := e in
                   if mem a old && negb (mem b old) then [(a, x)]
                   else if mem b old && negb (mem a old) then [(b, x)] else []) (gedges g) in
  L [tset tinode (gnodes o); tset tiedge (gedges o);
     tnat (length (filter (fun p : N * inode => negb (mem (fst p) old)) (gnodes g)));
     tset tN (map fst (filter (fun ax : N * iedge => iedge_eqb (snd ax) (2, 0, 2)) cross));
     tset tN (map fst (filter (fun ax : N * iedge => iedge_eqb (snd ax) (0, 2, -2)) cross)); tZ 0].
Definition t_value (old : list N) (v : rvalue) : tok :=
  match v with
  | VMaps o => topt (tlist tmap) o
  | VIts o => topt (tlist (t_its_old old)) o
  | VStrs o => topt (tlist (tlist tN)) o
  | VNum o => topt tN o
  end.

(** oracle inputs as recorded from the implementation *)
Definition const_engine (raw : list C03_Model.mapping) : sarg -> option N -> bool -> C06_Model.graph -> C06_Model.graph -> outcome :=
  fun _ _ _ _ _ => Result raw.
Definition no_rematch : nat -> hostg -> molg -> list C03_Model.mapping := fun _ _ _ => [].
Definition table_ser (tbl : list (option bytes * option bytes)) : nat -> its -> option bytes * option bytes :=
  fun i _ => nth i tbl (None, None).

(** a script of reads on ONE reactor object.  [prepared = None]: the template is an ITS graph (_wrap_template prepares it);
    [Some ih]: the caller handed a SynRule object built with implicit_h = ih (C03_Model.wrap_template_rule) *)
Definition run_object (o : ropts) (prepared : option bool) (host : hostg) (tpl : its)
    (raw : list C03_Model.mapping) (tbl : list (option bytes * option bytes)) (script : list attr) : tok :=
  let rule := match prepared with
              | None => wrap_template o tpl
              | Some ih => match synrule tpl ih with
                           | Some r0 => wrap_template_rule (o_invert o) (o_implicit_temp o) r0
                           | None => None end
              end in
  match rule with
  | None => L [I (-1)]
  | Some rl =>
      L [tbool (post_init_ok o); tbool (has_XH (snd (fst rl)));
         tlist (t_value (node_ids host))
               (fst (run_script (const_engine raw) no_rematch (table_ser tbl) o host rl script fresh))]
  end.
(** the reactor for the reaction's own template *)
Definition run_object_own (core invert : bool) (G H : hostg)
    (raw : list C03_Model.mapping) (tbl : list (option bytes * option bytes)) (script : list attr) : tok :=
  run_object (own_opts invert (mode_E G H) (SMember 0%N) None false) None (substrate invert G H) (template core false G H) raw tbl script.

(** the identity SEPARATES the pattern components (premise of C04_comp_regenerates_partial / C04_bt_regenerates_partial, as a
    boolean): two pattern atoms that lie in one component of the substrate lie in one component of the pattern *)
Definition same_in (cs : list (list N)) (x y : N) : bool := existsb (fun c => mem x c && mem y c) cs.
Definition same_compb (g : C06_Model.graph) (x y : N) : bool := same_in (comps g) x y.
(** the components are computed once; only pattern atoms are looked at, so the substrate components are first cut down to them *)
Definition id_separatingb (H P : C06_Model.graph) : bool :=
  let ps := node_ids P in
  let hc := filter (fun c => match c with [] => false | _ => true end) (map (filter (fun x => mem x ps)) (comps H)) in
  let pc := comps P in
  forallb (fun p => forallb (fun p' => implb (same_in hc p p') (same_in pc p p')) ps) ps.

(** premise of C04_identity_default_end_total, as a boolean of the template and the prepared rule: every hydrogen atom of the
    template has at most as many bonds to atoms of the rule on the reactant side as on the product side (so that the hydrogens
    _strip_explicit_h turns into counts can all be handed on by _explicit_h: no StopIteration) *)
Definition valence_okb (tpl rc : its) : bool :=
  forallb (fun h => sumF (fun k => cnt (gedges (side0 iG eG tpl)) h k - cnt (gedges (side0 iH eH tpl)) h k) (node_ids rc) <=? 0) (h_nodes_i tpl).
Definition own_valence_okb (core invert : bool) (G H : hostg) : bool :=
  match rule_of core invert G H with
  | Some (rc, _, _) => valence_okb (template core invert G H) rc
  | None => false
  end.

(** the matching stage of one ordinary case: [strat] as the reactor receives it; the raw matches computed with the verified
    enumerator through C06's call interface (as a set; only when [chk_raw]), the hypotheses of C04_in_results_engine_partial
    that are booleans, and the pruning of the implementation's raw list (in its order) with C11's model on the canonical codes *)
Definition run_matching_opts (core invert : bool) (G H : hostg) (strat : sarg) (thr : option N) (pref : bool) (chk_raw : bool)
    (raw_impl : option (list C03_Model.mapping)) : tok :=
  match rule_of core invert G H with
  | None => L [I (-1)]
  | Some (rc, l, _) =>
      let host := tr_host (substrate invert G H) in
      let pat := tr_pat (pattern_of l) in
      L [tbool (forallb (fun p : N * mnode => 0 <=? m_hc (snd p)) (gnodes (pattern_of l)));
         L [tnat (length (comps host)); tnat (length (comps pat)); tbool (id_separatingb host pat)];
         tbool (own_valence_okb core invert G H);
         (if chk_raw then
            match api_engine (monos_on host pat) strat thr pref host pat with
            | Result r => L [tset tmapping r]
            | ValueError => L [I 1]
            | NotImplemented => L [I 2]
            end
          else L []);
         topt (fun raw => tlist tmap (C11_Model.prune (fun m : C03_Model.mapping => m) (rule_graph rc) raw)) raw_impl]
  end.
Definition run_matching (core invert : bool) (G H : hostg) (strat : sarg) (chk_raw : bool)
    (raw_impl : option (list C03_Model.mapping)) : tok := run_matching_opts core invert G H strat None false chk_raw raw_impl.
(** the reactor's own template in the THIRD hydrogen mode the options allow (explicit_h = False without implicit_temp: the rule is
    prepared as in the default mode, _explicit_h is not run) *)
Definition run_object_S (core invert : bool) (G H : hostg)
    (raw : list C03_Model.mapping) (tbl : list (option bytes * option bytes)) (script : list attr) : tok :=
  run_object (RO invert false false (SMember 0%N) None false) None (substrate invert G H) (template core false G H) raw tbl script.
(** the caller hands over a SynRule OBJECT built from the own template in the hydrogen mode of the reaction (SynRule(tpl, implicit_h = mode E));
    the reactor uses it as it is forwards and inverts its prepared rc backwards (C03_Model.wrap_template_rule) *)
Definition run_object_R (core invert : bool) (G H : hostg)
    (raw : list C03_Model.mapping) (tbl : list (option bytes * option bytes)) (script : list attr) : tok :=
  run_object (own_opts invert (mode_E G H) (SMember 0%N) None false) (Some (mode_E G H)) (substrate invert G H) (template core false G H) raw tbl script.
Definition run_c04m (core invert guard : bool) (G H : hostg) (remaps : option (list N * list C03_Model.mapping))
    (kept : list C03_Model.mapping) (strat : sarg) (chk_raw : bool) (raw_impl : option (list C03_Model.mapping)) : tok :=
  L [run_c04k core invert guard G H remaps kept; run_matching core invert G H strat chk_raw raw_impl].
