(** C01 — executable model of the WHOLE-STRING level of synkit/IO/chem_converter.py: what the six functions
      smiles_to_graph, rsmi_to_graph, rsmi_to_its, graph_to_smi, graph_to_rsmi, its_to_rsmi
    do around the graph logic of model/C01_String.v — splitting the reaction string at ">>", the two reader calls with
    the caller's flags, every way a side can fail (unparsable string, failed sanitisation, the ValueError of MolToGraph,
    a wrong number of ">>"), what then happens in ITSGraph (an exception, not a None), the modes of rsmi_to_its
    (explicit_hydrogen BEFORE core), the writer calls, the None of graph_to_rsmi when one side cannot be written, the
    f"{r}>>{p}" assembly and the clean_wildcards step (clean_wc raises on None and on a string without exactly one ">>").
    RDKit stays outside: [rd_read san s] = MolFromSmiles(s, sanitize=False) (+ SanitizeMol when san) + the getters
    MolToGraph uses; [rd_write san w] = RWMol construction (+ SanitizeMol when san) + MolToSmiles.  Both are parameters.
    Definitions only; proofs in proof/C01_RsmiProof.v. *)
From Coq Require Import List NArith ZArith Bool String Ascii.
From SK Require Import lib.Tok lib.LGraph model.C01_Model model.C02_Model model.C01_String model.C01_CleanWc.
Import ListNotations.
Local Open Scope string_scope.

(** ** str.split(">>"): non-overlapping occurrences, scanned from the left (">>>" = separator followed by ">") *)
Definition cons_head (c : ascii) (l : list string) : list string :=
  match l with h :: t => String c h :: t | [] => [String c EmptyString] end.

Definition is_gt (c : ascii) : bool := Ascii.eqb c ">"%char.

Fixpoint split_arrow (s : string) : list string :=
  match s with
  | EmptyString => [EmptyString]
  | String c r =>
      match r with
      | String d r' => if is_gt c && is_gt d then EmptyString :: split_arrow r' else cons_head c (split_arrow r)
      | EmptyString => [String c EmptyString]
      end
  end.

(** ">>".join(parts) *)
Fixpoint join_arrow (l : list string) : string :=
  match l with
  | [] => EmptyString
  | [a] => a
  | a :: r => a ++ ">>" ++ join_arrow r
  end.

(** reactants_smiles, products_smiles = rsmi.split(">>")   (None = the ValueError of the unpacking) *)
Definition rsmi_parts (s : string) : option (string * string) :=
  match split_arrow s with [a; b] => Some (a, b) | _ => None end.

Fixpoint has_gt (s : string) : bool :=
  match s with EmptyString => false | String c r => is_gt c || has_gt r end.

(** results of functions that may return a value, return None, or raise *)
Inductive res (A : Type) := Ok (a : A) | RNone | Raise.
Arguments Ok [A] a.
Arguments RNone {A}.
Arguments Raise {A}.

(** options of rsmi_to_graph / rsmi_to_its *)
Record ropts := RO { ro_drop : bool; ro_san : bool; ro_use : bool; ro_core : bool; ro_eh : bool }.
Definition default_ropts : ropts := RO true true true false false.

Section Strings.
  Variable rd_read : bool -> string -> option rmol.
  Variable rd_write : bool -> wmol -> option string.

  (** smiles_to_graph(smiles, drop_non_aam, sanitize, use_index_as_atom_map): every failure is a None
      (mol is None; SanitizeMol raised; MolToGraph raised ValueError, swallowed by the outer except) *)
  Definition smiles_to_graph_s (drop san use : bool) (s : string) : option mgraph :=
    match rd_read san s with
    | Some m => mol_to_graph drop use m
    | None => None
    end.

  (** rsmi_to_graph: (None, None) when the string does not split into exactly two parts *)
  Definition rsmi_to_graph_s (drop san use : bool) (s : string) : option mgraph * option mgraph :=
    match rsmi_parts s with
    | Some (a, b) => (smiles_to_graph_s drop san use a, smiles_to_graph_s drop san use b)
    | None => (None, None)
    end.

  (** rsmi_to_its: ITSGraph(None, ...) raises (AttributeError), it does not return None;
      h_to_explicit(its, None, True) first, get_rc second *)
  Definition rsmi_to_its_str (o : ropts) (s : string) : res its :=
    match rsmi_to_graph_s (ro_drop o) (ro_san o) (ro_use o) s with
    | (Some g, Some h) =>
        let J := its_construct g h in
        let J := if ro_eh o then fst (h_to_explicit_its J) else J in
        Ok (if ro_core o then get_rc J else J)
    | _ => Raise
    end.

  (** graph_to_smi(graph, sanitize, preserve_atom_maps): any exception (KeyError in GraphToMol, sanitisation) is a None *)
  Definition graph_to_smi_s (san : bool) (g : mgraph) (pres : list Z) : option string :=
    match graph_to_wmol (smi_graph g pres) with
    | Some w => rd_write san w
    | None => None
    end.

  (** graph_to_rsmi(r, p, its, sanitize, explicit_hydrogen) *)
  Definition graph_to_rsmi_s (g h : mgraph) (oJ : option its) (san eh : bool) : option string :=
    let pres := if eh then [] else hlist (match oJ with Some J => J | None => its_construct g h end) in
    match graph_to_smi_s san g pres, graph_to_smi_s san h pres with
    | Some a, Some b => Some (a ++ ">>" ++ b)
    | _, _ => None
    end.

  (** clean_wc(rsmi) on a string: ValueError unless exactly one ">>" *)
  Definition clean_wc_s (s : string) : res string :=
    match rsmi_parts s with
    | Some (a, b) => Ok (fst (clean_wc a b) ++ ">>" ++ snd (clean_wc a b))
    | None => Raise
    end.

  (** its_to_rsmi(its, sanitize, explicit_hydrogen, clean_wildcards): clean_wc(None) raises (AttributeError) *)
  Definition its_to_rsmi_str (san eh cw : bool) (J : its) : res string :=
    let d := its_decompose J in
    match graph_to_rsmi_s (fst d) (snd d) (Some J) san eh with
    | Some s => if cw then clean_wc_s s else Ok s
    | None => if cw then Raise else RNone
    end.
End Strings.

(** ** observables *)
Definition tres {A} (f : A -> tok) (r : res A) : tok :=
  match r with Ok a => L [I 0; f a] | RNone => L [I 1] | Raise => L [I 2] end.

(** the split alone *)
Definition run_split (s : string) : tok := L [tlist tstr (split_arrow s); topt (tpair tstr tstr) (rsmi_parts s)].

(** harness plumbing: RDKit as finite tables recorded on the implementation side.  The reader table is keyed by
    (sanitize, string); the writer table by (sanitize, order-insensitive digest of the RWMol content). *)
Fixpoint assoc_read (t : list (bool * string * option rmol)) (san : bool) (s : string) : option rmol :=
  match t with
  | [] => None
  | (b, k, v) :: r => if Bool.eqb b san && String.eqb k s then v else assoc_read r san s
  end.
Fixpoint assoc_write (t : list (bool * Z * option string)) (san : bool) (w : wmol) : option string :=
  match t with
  | [] => None
  | (b, k, v) :: r => if Bool.eqb b san && Z.eqb k (Uint63.to_Z (hash (twmol w))) then v else assoc_write r san w
  end.

(** ITS node observable that also fits explicit-hydrogen ITS graphs (the hydrogen atoms h_to_explicit invents carry no
    'neighbors') and reaction centres (no top-level aromatic / hcount / neighbors at all): top-level 'neighbors' is
    reported as present / absent only *)
Definition tinode_rs (new : list N) (p : N * inode) : tok :=
  let a := snd p in
  L [tN (fst p); tN (i_el a); tZ (i_ch a); tZ (i_amap a);
     topt (fun x : bool * Z * list N => L [tbool (fst (fst x)); tZ (snd (fst x))]) (i_extra a);
     tbool (match i_extra a with Some _ => negb (mem (fst p) new) | None => false end); tnattr (i_G a); tnattr (i_H a)].

(** the ids h_to_explicit invents in rsmi_to_its(explicit_hydrogen=True) *)
Definition rsmi_new_ids (rd_read : bool -> string -> option rmol) (o : ropts) (s : string) : list N :=
  match rsmi_to_graph_s rd_read (ro_drop o) (ro_san o) (ro_use o) s with
  | (Some g, Some h) => if ro_eh o then snd (h_to_explicit_its (its_construct g h)) else []
  | _ => []
  end.

(** one whole-string case: rsmi_to_graph(s, flags), rsmi_to_its(s, flags, core, explicit_hydrogen), then
    its_to_rsmi(its, san_w, eh_w, cw) on the result (only when the ITS is a full ITS, i.e. not core) *)
Definition run_rsmi_str (rt : list (bool * string * option rmol)) (wt : list (bool * Z * option string))
           (o : ropts) (san_w eh_w cw : bool) (s : string) : tok :=
  let gh := rsmi_to_graph_s (assoc_read rt) (ro_drop o) (ro_san o) (ro_use o) s in
  let J := rsmi_to_its_str (assoc_read rt) o s in
  let new := rsmi_new_ids (assoc_read rt) o s in
  L [tlist tstr (split_arrow s);
     topt tmgraph (fst gh); topt tmgraph (snd gh);
     tres (fun J => L [tset (tinode_rs new) (gnodes J); tset tiedge (gedges J)]) J;
     match J with
     | Ok J => if ro_core o then L [] else tres tstr (its_to_rsmi_str (assoc_write wt) san_w eh_w cw J)
     | _ => L []
     end].
