(** C19 — the PUBLIC API of DeficiencyAnalyzer as a state machine over arbitrary call sequences (round 5), and the logic
    part of nondegeneracy_test.  Definitions only; proofs in proof/C19_Api.v.  Built on model/C19_Model.v.

    The analyzer object stores   _summary + _complexes + _idx_map + _complex_graph   (one group, written by compute_summary),
    _linkage_deficiencies, _structural_one_result, _nondegeneracy.  Every public method is modelled as a transition
    [ast -> ast * res] that receives the network AS IT IS AT THE TIME OF THE CALL (the caller may have edited the
    CRNHyperGraph / bipartite graph between two calls):

      compute_summary                 recomputes the first group from the current network, drops the three derived fields
                                      (/repo 7d0fc98); ValueError (no reaction node) leaves the object untouched
      compute_linkage_deficiencies    RuntimeError without a summary; works on the STORED complexes / complex graph
      run_deficiency_one_algorithm    computes the missing stages, then the hypotheses on the stored fields
      nondegeneracy_test              RuntimeError without stoich_fn / without a summary; S is rebuilt from the CURRENT
                                      network, the complexes are the STORED ones (IndexError when a basis vector's largest
                                      entry lies beyond the stored complexes' width)
      compute_crn_deficiency(run_nondegeneracy)   the four calls in a row
      check_deficiency_zero / check_deficiency_one / check_regularity     RuntimeError when the stage they read is missing

    Constructor options: stoich_fn=None (counts from the node split — the same numbers; nondegeneracy_test refuses),
    rank_fn=None (rank := 0).

    Float facts that are NOT modelled (numpy SVD): the rank of S^T with the absolute cut-off 1e-9 (the model: the certified
    rank), and for every basis vector of the left kernel the position of its largest absolute entry ([mis], recorded from the
    real run and fed to the model as oracle input, like model/C17_Model.numerics). *)
From Coq Require Import List NArith ZArith Bool Arith.
From SK Require Import lib.Tok lib.Reach lib.C17_Farkas model.C17_Model model.C19_Model model.C19_Text.
Import ListNotations.

Record opts := Opts { o_stoich : bool; o_rank : bool }.
Definition default_opts : opts := Opts true true.

(* ------------------------------------------------------------------ nondegeneracy_test: the logic part *)

(** for c_idx, comp in enumerate(complexes): if size == max and comp[max_idx] > 0: found.   None = IndexError *)
Fixpoint nd_scan (cs : list (list Z)) (mx : Z) (i : nat) : option bool :=
  match cs with
  | [] => Some false
  | c :: cs' =>
      if Z.eqb (complex_size c) mx
      then (if Nat.ltb i (length c) then (if Z.ltb 0 (nth i c 0%Z) then Some true else nd_scan cs' mx i) else None)
      else nd_scan cs' mx i
  end.

Fixpoint all_some {A} (l : list (option A)) : option (list A) :=
  match l with
  | [] => Some []
  | None :: _ => None
  | Some a :: l' => option_map (cons a) (all_some l')
  end.

Record nd := ND { nd_nullity : nat; nd_per : list (nat * bool); nd_largest : bool; nd_max : Z; nd_basis_len_ok : bool }.

(** m = number of rows of S (current network), r = rank of S^T, cs = the stored complexes, mis = argmax |v| per basis vector *)
Definition nondeg (m r : nat) (cs : list (list Z)) (mis : list nat) : option nd :=
  let mx := max_complex_size cs in
  match all_some (map (nd_scan cs mx) mis) with
  | None => None
  | Some fl => Some (ND (m - r) (combine mis fl) (existsb (fun b => b) fl) mx (Nat.eqb (length mis) (m - r)))
  end.

(* ------------------------------------------------------------------ the object *)

Record snapshot := Snap { sn_x : hist_step; sn_cs : list (list Z); sn_arcs : list (nat * nat); sn_sum : summary }.
Record one := One { one_hyp : bool; one_delta : Z; one_ld : list Z; one_reg : bool }.
Record ast := ASt { s_sum : option snapshot; s_ld : option (list Z); s_one : option one; s_nd : option nd }.
Definition ast_init : ast := ASt None None None None.

Inductive res := ROk | RBool (b : bool) | RValueError | RRuntime (k : nat) | RIndexError.

Definition the_rank (o : opts) (x : hist_step) : nat := if o_rank o then rc_r (hs_rc x) else 0%nat.
Definition snap_of (o : opts) (x : hist_step) : snapshot :=
  Snap x (fst (complex_graph (hs_net x) (hs_iso x))) (snd (complex_graph (hs_net x) (hs_iso x)))
       (compute_summary (hs_net x) (hs_iso x) (the_rank o x)).

Definition op_summary (o : opts) (x : hist_step) (st : ast) : ast * res :=
  match hs_net x with
  | [] => (st, RValueError)
  | _ => (ASt (Some (snap_of o x)) None None None, ROk)
  end.

(** the class ranks are numpy ranks of the STORED complexes: the certificates of the snapshot's network *)
Definition stored_ld (sn : snapshot) : list Z :=
  linkage_deficiencies (linkage_classes (sn_arcs sn) (length (sn_cs sn))) (map rc_r (hs_ccs (sn_x sn))).

Definition op_linkage (st : ast) : ast * res :=
  match s_sum st with
  | None => (st, RRuntime 2)
  | Some sn => (ASt (s_sum st) (Some (stored_ld sn)) (s_one st) (s_nd st), ROk)
  end.

Definition stored_one (sn : snapshot) (ld : list Z) : one :=
  let reg := regular (sn_arcs sn) (length (sn_cs sn)) in
  One (deficiency_one_hypotheses (sn_sum sn) ld reg) (deficiency (sn_sum sn)) ld reg.

Definition op_one (o : opts) (x : hist_step) (st : ast) : ast * res :=
  let sr := match s_sum st with None => op_summary o x st | Some _ => (st, ROk) end in
  match snd sr with
  | ROk =>
      let st1 := fst sr in
      let st2 := match s_ld st1 with None => fst (op_linkage st1) | Some _ => st1 end in
      match s_sum st2, s_ld st2 with
      | Some sn, Some ld => (ASt (s_sum st2) (s_ld st2) (Some (stored_one sn ld)) (s_nd st2), ROk)
      | _, _ => (st2, ROk)
      end
  | r => (st, r)
  end.

Definition op_nondeg (o : opts) (x : hist_step) (mis : list nat) (st : ast) : ast * res :=
  if negb (o_stoich o) then (st, RRuntime 7) else
  match s_sum st with
  | None => (st, RRuntime 8)
  | Some sn =>
      match hs_net x with
      | [] => (st, RValueError)
      | _ =>
          match nondeg (length (species_order (hs_net x) (hs_iso x))) (rc_r (hs_rc x)) (sn_cs sn) mis with
          | None => (st, RIndexError)
          | Some d => (ASt (s_sum st) (s_ld st) (s_one st) (Some d), ROk)
          end
      end
  end.

Definition op_crn (o : opts) (x : hist_step) (ndflag : bool) (mis : list nat) (st : ast) : ast * res :=
  let sr := op_summary o x st in
  match snd sr with
  | ROk =>
      let st3 := fst (op_one o x (fst (op_linkage (fst sr)))) in
      if ndflag then op_nondeg o x mis st3 else (st3, ROk)
  | r => (st, r)
  end.

Definition op_check0 (st : ast) : res :=
  match s_sum st with None => RRuntime 3 | Some sn => RBool (check_deficiency_zero (sn_sum sn)) end.
Definition op_check1 (st : ast) : res :=
  match s_sum st, s_ld st with
  | None, _ => RRuntime 4
  | Some _, None => RRuntime 5
  | Some sn, Some ld => RBool (check_deficiency_one (sn_sum sn) ld)
  end.
Definition op_reg (st : ast) : res :=
  match s_sum st with None => RRuntime 6 | Some sn => RBool (regular (sn_arcs sn) (length (sn_cs sn))) end.

Inductive op := OSummary | OLinkage | OOne | ONondeg | OCrn (ndflag : bool) | OCheck0 | OCheck1 | OReg.
(** one call: the method, the network as it is now, the float argmax positions (used by the nondegeneracy test only) *)
Definition call := (op * hist_step * list nat)%type.
Definition c_op (c : call) : op := fst (fst c).
Definition c_x (c : call) : hist_step := snd (fst c).
Definition c_mis (c : call) : list nat := snd c.

Definition apply_op (o : opts) (c : call) (st : ast) : ast * res :=
  match c_op c with
  | OSummary => op_summary o (c_x c) st
  | OLinkage => op_linkage st
  | OOne => op_one o (c_x c) st
  | ONondeg => op_nondeg o (c_x c) (c_mis c) st
  | OCrn f => op_crn o (c_x c) f (c_mis c) st
  | OCheck0 => (st, op_check0 st)
  | OCheck1 => (st, op_check1 st)
  | OReg => (st, op_reg st)
  end.

Definition run_calls (o : opts) (cs : list call) (st : ast) : ast := fold_left (fun s c => fst (apply_op o c s)) cs st.

(* ------------------------------------------------------------------ observable *)

Definition tres (r : res) : tok :=
  match r with
  | ROk => L [I 0%Z]
  | RBool b => L [I 1%Z; tbool b]
  | RValueError => L [I 2%Z]
  | RRuntime k => L [I 3%Z; tnat k]
  | RIndexError => L [I 4%Z]
  end.
Definition tsummary (s : summary) : tok :=
  L [tnat (n_species s); tnat (n_reactions s); tnat (n_complexes s); tnat (n_linkage s); tnat (stoich_rank s);
     I (deficiency s); tbool (weakly_rev s)].
Definition tsnap (sn : snapshot) : tok :=
  L [tmat (sn_cs sn); tset tarc (sn_arcs sn); tlist (tset tN) (linkage_classes (sn_arcs sn) (length (sn_cs sn)));
     tsummary (sn_sum sn);
     tbool (certs_ok (hs_net (sn_x sn)) (hs_iso (sn_x sn)) (hs_rc (sn_x sn)) (hs_ccs (sn_x sn)))].
Definition tone (d : one) : tok :=
  L [tbool (one_hyp d); I (one_delta d); tlist I (one_ld d); tbool (one_reg d); tlist tN (conclusion_str (one_hyp d))].
Definition tnd (d : nd) : tok :=
  L [tnat (nd_nullity d); tlist (fun p => L [tnat (fst p); tbool (snd p)]) (nd_per d); tbool (nd_largest d); I (nd_max d);
     tbool (nd_basis_len_ok d)].
(** ... and the two text views explain() / __repr__ (model/C19_Text.v) *)
Definition dump (st : ast) : tok :=
  L [topt tsnap (s_sum st); topt (tlist I) (s_ld st); topt tone (s_one st); topt tnd (s_nd st);
     tlist tN (explain_str (option_map sn_sum (s_sum st))); tlist tN (repr_str (option_map sn_sum (s_sum st)))].

(** a script of calls on ONE analyzer object: after every call the result code and everything the object stores *)
Definition run19_ops (o : opts) (cs : list call) : tok :=
  L (snd (fold_left (fun acc c => let sr := apply_op o c (fst acc) in (fst sr, snd acc ++ [L [tres (snd sr); dump (fst sr)]]))
                    cs (ast_init, []))).

