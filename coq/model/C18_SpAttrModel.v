(** C18 — the canonicaliser with attribute selections on the SPECIES view.  hypergraph_to_species_graph puts on every arc
    (r, p) the aggregates stoich_r / stoich_p (the minimum, over the reactions that contain the pair, of the reactant / product
    coefficient), besides name-dependent sets (via, rules, per-reaction maps: not modelled); nodes carry kind = 'species' and
    label = name.  Definitions only.  The canonicaliser is written once more, generically in the per-node / per-arc list of
    (value as compared by _sig / _init_part, value as printed by _label) for the selected keys. *)
From Coq Require Import String Ascii.
From Coq Require Import List NArith ZArith Bool Arith.
From SK Require Import lib.Tok lib.IRSortKeys lib.IRCore lib.IRSearch lib.StrJoin model.C18_Model model.C18_AttrModel.
From SK Require lib.IRInst.
Import ListNotations.

Section Generic.
Variable g : vgraph.
Variable nv : N -> list (Z * list N).          (* selected node attributes of a node *)
Variable ev : eattr -> list (Z * list N).      (* selected edge attributes of an arc *)
Variable nnk nek : nat.                        (* number of selected node / edge keys *)

Definition nkeyG (v : N) : list Z := map fst (nv v).
Definition ekeyG (a : eattr) : list Z := map fst (ev a).
Definition sigG (P : partition) (v : N) : list Z :=
  nkeyG v ++ [Z.of_nat (indeg g v); Z.of_nat (outdeg g v)] ++ map (cnt g v) P
  ++ concat (sort_tuples (map ekeyG (out_attrs g v))).
Definition init_partG : partition :=
  match nnk with
  | O => match node_ids g with [] => [] | _ => [sortN (node_ids g)] end
  | _ => map (fun k => sortN (filter (fun v => eqb lexleb (nkeyG v) k) (node_ids g)))
             (sort_dedup lexleb (map nkeyG (node_ids g)))
  end.
Definition bitG (a b : N) : list N :=
  match find_arc g a b with
  | Some x => [49%N; COLON] ++ join COLON (map snd (ev x))
  | None => [48%N; COLON] ++ join COLON (repeat [] nek)
  end.
Definition edge_bitsG (perm : list N) : list (list N) :=
  let ip := indexed perm in
  flat_map (fun iv => flat_map (fun jw => if Nat.eqb (fst iv) (fst jw) then [] else [bitG (snd iv) (snd jw)]) ip) ip.
Definition labelG (perm : list N) : list N :=
  join BAR (map (fun v => join COLON (map snd (nv v))) perm) ++ [BAR; BAR] ++ join BAR (edge_bitsG perm).
Definition canon_searchG : acc (list N) :=
  let n := length (vnodes g) in
  search lexleb sigG (S n) lexlebN labelG no_bound (S n) init_partG [] (None, []).
End Generic.

(** the species view with the aggregate coefficients: arcs carry (stoich_r, stoich_p) *)
Fixpoint upd_arc (u v : N) (a : eattr) (l : list arc) : list arc :=
  match l with
  | [] => [(u, v, a)]
  | e :: r => if N.eqb (asrc e) u && N.eqb (adst e) v
              then (u, v, (Z.min (fst (aattr e)) (fst a), Z.min (snd (aattr e)) (snd a))) :: r
              else e :: upd_arc u v a r
  end.
Definition spS_add_rxn (g : vgraph) (r : rxn) : vgraph :=
  fold_left (fun g rc => fold_left (fun g pc => VG (vnodes g) (upd_arc (fst rc) (fst pc) (snd rc, snd pc) (varcs g)))
                                   (rhs r) g)
            (lhs r) g.
Definition view_spS (n : net) : vgraph :=
  fold_left spS_add_rxn (nrxns n) (VG (fold_left (fun l s => ensure_node s KSPECIES l) (nspecies n) []) []).

Inductive sesel := SR | SP | SNone.
Definition evalS (a : eattr) (s : sesel) : Z * list N :=
  match s with
  | SR => (fst a, st_str (fst a))
  | SP => (snd a, st_str (snd a))
  | SNone => (NONE, [])
  end.

Definition canon_searchS (g : vgraph) (t : ltab) (nk : list nsel) (ek : list sesel) : acc (list N) :=
  canon_searchG g (fun v => map (nval g t v) nk) (fun a => map (evalS a) ek) (length nk) (length ek).

Definition run_spattr (n : net) (t : ltab) (nk : list nsel) (ek : list sesel) : tok :=
  let g := view_spS n in
  let nv := fun v => map (nval g t v) nk in
  let ev := fun a => map (evalS a) ek in
  let k := S (length (vnodes g)) in
  let res := canon_searchS g t nk ek in
  match fst res with
  | None => L []
  | Some (lab, perm) =>
      let cg := canon_graph g perm in
      L [ tset node_tok (vnodes g); tset arc_tok (varcs g);
          tlist (tpair tpart tpart) (rlogA (sigG g nv ev) k k (init_partG g nv (length nk)));
          tlist tN perm; tlist tN lab;
          tnat (length (snd res)); tlist (tlist tN) (snd res);
          tset (tset tN) (orbits_from_perms (snd res));
          tset node_tok (vnodes cg); tset arc_tok (varcs cg) ]
  end.
Definition run_spattr_case (nets : list (net * ltab)) (nk : list nsel) (ek : list sesel) : tok :=
  tlist (fun nt => run_spattr (fst nt) (snd nt) nk ek) nets.
