(** C16 (round 5) — conversion._as_bipartite on an UNDIRECTED bipartite networkx graph (Graph / MultiGraph): every incidence is
    oriented by its `role` (species -> reaction for a reactant, reaction -> species for a product); parallel incidences of a
    multigraph that land on the same arc add up their coefficients.
        for u, v, data in crn.edges(data=True):
            u_is_rxn = kind(u) == "reaction" or (kind(u) is None and bipartite(u) == 1)
            s, r = (v, u) if u_is_rxn else (u, v)
            a, b = (r, s) if data.get("role") == "product" else (s, r)
            if D.has_edge(a, b): D[a][b]["stoich"] = D[a][b].get("stoich", 1) + data.get("stoich", 1)
            else:                D.add_edge(a, b, **data)
    An undirected graph is given as networkx hands it over: the node table and the SEQUENCE of (u, v, data) triples of
    crn.edges(data=True) — which endpoint comes first and in which order the edges come is networkx's business, so the model is
    parameterised by it (and the theorem quantifies over it).  Definitions only; proofs in proof/C16_Undirected.v. *)
From stdpp Require Import gmap strings sets pretty sorting.
From SK Require Import lib.Tok model.C15_Model model.C16_Model.
Local Open Scope string_scope.

Record ugraph := UGraph { u_nodes : gmap nid bnode; u_edges : list (nid * nid * barc) }.

Definition node_is_rxn (nodes : gmap nid bnode) (n : nid) : bool :=
  match nodes !! n with
  | Some nd => bool_decide (bn_kind nd = Some "reaction") || (bool_decide (bn_kind nd = None) && bool_decide (bn_bip nd = Some 1%Z))
  | None => false          (* crn.nodes[u] of an edge endpoint always exists in networkx; kept total *)
  end.

Definition orient_edge (nodes : gmap nid bnode) (e : nid * nid * barc) : nid * nid :=
  let '(u, v, a) := e in
  let '(s, r) := if node_is_rxn nodes u then (v, u) else (u, v) in
  if bool_decide (ba_role a = Some "product") then (r, s) else (s, r).

Definition orient_step (nodes : gmap nid bnode) (arcs : gmap (nid * nid) barc) (e : nid * nid * barc) : gmap (nid * nid) barc :=
  let k := orient_edge nodes e in
  match arcs !! k with
  | Some old => <[ k := BArc (Some (default 1 (ba_stoich old) + default 1 (ba_stoich e.2))%Z) (ba_role old) ]> arcs
  | None => <[ k := e.2 ]> arcs
  end.

Definition as_bipartite_undirected (G : ugraph) : bgraph :=
  BGraph (u_nodes G) (foldl (orient_step (u_nodes G)) ∅ (u_edges G)).

(** the undirected graph -> the oriented DiGraph -> the network *)
Definition run_undirected (nodes : list (nid * bnode)) (edges : list (nid * nid * barc)) (ifl : iflags) : tok :=
  let D := as_bipartite_undirected (UGraph (list_to_map nodes) edges) in
  L [tbgraph D; tres tnet_plain (bipartite_to_hypergraph ifl D)].
