(** C01 — renumbering the atom maps of a reaction (vocabulary of theorem C01_renumber; no code is modelled here:
    the harness's rewriting `rw-renum` / `str-rw-renum` is exactly this operation on the reaction string). *)
From Coq Require Import List NArith ZArith Bool.
From SK Require Import lib.LGraph model.C01_Model model.C02_Model model.C01_String.
Import ListNotations.
Local Open Scope Z_scope.

(** apply [f] to every non-zero atom map of a molecule *)
Definition renum_atom (f : N -> N) (a : ratom) : ratom :=
  RA (ra_el a) (ra_arom a) (ra_hs a) (ra_ch a) (if N.eqb (ra_map a) 0 then 0%N else f (ra_map a)) (ra_nb a).
Definition renum_mol (f : N -> N) (m : rmol) : rmol := RM (map (renum_atom f) (rm_atoms m)) (rm_bonds m).

(** an ITS whose nodes carry atom_map = node id (what rsmi_to_its produces) *)
Definition set_iamap (J : its) : its :=
  LG (map (fun p => (fst p, let a := snd p in IN (i_el a) (i_ch a) (Z.of_N (fst p)) (i_extra a) (i_G a) (i_H a))) (gnodes J))
     (gedges J).
