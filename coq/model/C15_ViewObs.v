(** C15 (round 5) — the graph object a backend hands out, as an observable.
    [view_graph o s] is what _CRNGraphBackend._build_graph builds from a store: the Gallina models of the C16 exports
    (model/C16_Model.v) with the backend's flags.  [step3g] = [step3] of model/C15_View.v whose answer to a view access also
    carries the whole graph built from the snapshot the cache holds (every node, arc and attribute), so the correspondence
    compares the cached graph itself and not only "it equals a fresh export".  Definitions only. *)
From stdpp Require Import gmap strings sets pretty.
From SK Require Import lib.Tok model.C15_Model model.C15_Ext model.C15_View model.C16_Model.
Local Open Scope string_scope.

Definition view_graph (o : vopts) (s : net) : bgraph + sgraph :=
  if include_rule o then inl (backend_bipartite (integer_ids o) (include_stoich o) s)
  else inr (hypergraph_to_species_graph false s).
Definition tview (g : bgraph + sgraph) : tok := match g with inl G => tbgraph G | inr G => tsgraph G end.

Definition step3g (w : world3) (o : op3) : world3 * option err * tok :=
  let '(w', er, a) := step3 w o in
  match o with
  | OView b => (w', er, L [a; tview (view_graph (b_opts (getb (backends w) b)) (access w b).2)])
  | _ => (w', er, a)
  end.

Fixpoint run_ops3g (skip : nat) (w : world3) (ops : list op3) : list tok :=
  match ops with
  | [] => []
  | o :: os =>
      let '(w', er, a) := step3g w o in
      match skip with
      | S k => run_ops3g k w' os
      | O => (if is_read o then L [terr er; a]
              else L [terr er; a; tlist (tnet2 false) (nets (w2 w')); tlist tside (pool (w2 w'))])
             :: run_ops3g O w' os
      end
  end.
Definition run3g (n k nb skip : nat) (ops : list op3) : tok := L (run_ops3g skip (init_world3 n k nb) ops).
