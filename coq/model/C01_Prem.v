(** C01 — an executable test of the reaction-side hypotheses of the string theorems (15, 18, 27, 32, 33, 45: both sides read
    with distinct maps and simple bonds, well-formed graphs, the same atom-map set, positive orders, no bridging hydrogens),
    evaluated by the correspondence on what RDKit reads from every corpus reaction (kind str-prem).  Sound: proof/C01_PremProof.v.
    Definitions only. *)
From Coq Require Import List NArith ZArith Bool.
From SK Require Import lib.Tok lib.LGraph model.C01_Model model.C01_String.
Import ListNotations.
Local Open Scope Z_scope.

Fixpoint nodupNb (l : list N) : bool :=
  match l with [] => true | x :: r => negb (mem x r) && nodupNb r end.
Fixpoint simpleb {B} (es : list (N * N * B)) : bool :=
  match es with
  | [] => true
  | (a, b, _) :: r => match find_edge a b r with None => simpleb r | Some _ => false end
  end.
Definition rmol_okb (m : rmol) : bool := nodupNb (map fst (mapped_nodes m)) && simpleb (mapped_bonds m).
Definition no_loopb (m : rmol) : bool := forallb (fun e : N * N * Z => negb (N.eqb (fst (fst e)) (snd (fst e)))) (mapped_bonds m).
Definition same_nodesb (G H : mgraph) : bool :=
  forallb (fun n => mem n (node_ids H)) (node_ids G) && forallb (fun n => mem n (node_ids G)) (node_ids H).
Definition orders_posb (G : mgraph) : bool := forallb (fun e : N * N * Z => 0 <? snd e) (gedges G).
Definition one_parentb (g : mgraph) : bool :=
  forallb (fun n => negb (is_Hn g n) || (length (filter (fun m => negb (is_Hn g m)) (nbrs g n)) <=? 1)%nat) (node_ids g).

Definition reaction_okb (mr mp : rmol) : bool :=
  rmol_okb mr && rmol_okb mp && no_loopb mr && no_loopb mp &&
  same_nodesb (graph_of mr) (graph_of mp) && orders_posb (graph_of mr) && orders_posb (graph_of mp) &&
  one_parentb (graph_of mr) && one_parentb (graph_of mp).

Definition run_prem (mr mp : rmol) : tok := L [tbool (reaction_okb mr mp)].

(** the hypothesis [h_safe] of theorem C01_h_to_explicit_balance on the ITS of the two readings, both sides *)
Definition h_safeb (sel : inode -> nattr) (ns : list (N * inode)) : bool :=
  forallb (fun p : N * inode => negb (N.eqb (a_el (sel (snd p))) EL_H) || (hx_count (snd p) <=? 0)) ns.
Definition eh_okb (mr mp : rmol) : bool :=
  let I := its_construct (graph_of mr) (graph_of mp) in h_safeb i_G (gnodes I) && h_safeb i_H (gnodes I).
Definition run_prem2 (mr mp : rmol) : tok := L [tbool (reaction_okb mr mp); tbool (reaction_okb mr mp && eh_okb mr mp)].
