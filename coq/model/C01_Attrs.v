(** C01 — ITSConstruction.construct(G, H, node_attrs=L, balance_its=False, store=False) for an ARBITRARY caller's list L,
    and the POSITIONAL reading of typesGH by its_decompose (element = [0], aromatic = [1], hcount = [2], charge = [3]).
    typesGH follows the order of L; its_decompose does not know L.  Values are untyped in Python: [aval]. *)
From Coq Require Import List NArith ZArith Bool.
From SK Require Import lib.Tok lib.LGraph model.C01_Model model.C01_Opts.
Import ListNotations.
Local Open Scope Z_scope.

Inductive akey := KEl | KAr | KHc | KCh | KNb | KAm | KOther.     (* KOther: a name no node carries and no default knows *)
Inductive aval := VS (s : N) | VB (b : bool) | VZ (z : Z) | VL (l : list N) | VNone.

(** node_defaults.get(attr): CORE_NODE_DEFAULTS, None for an unknown name *)
Definition dflt_of (k : akey) : aval :=
  match k with
  | KEl => VS EL_STAR | KAr => VB false | KHc => VZ 0 | KCh => VZ 0 | KNb => VL [EL_EMPTY; EL_EMPTY] | KAm => VZ 0 | KOther => VNone
  end.
(** G.nodes[n].get(attr, default) *)
Definition attr_of (k : akey) (a : gnode) : aval :=
  match k with
  | KEl => VS (g_el a) | KAr => VB (g_arom a) | KHc => VZ (g_hc a) | KCh => VZ (g_ch a)
  | KNb => match g_nb a with Some l => VL l | None => dflt_of KNb end
  | KAm => VZ (g_amap a) | KOther => VNone
  end.
Definition tuple_gen (attrs : list akey) (G : mgraph) (n : N) : list aval :=
  match label G n with Some a => map (fun k => attr_of k a) attrs | None => map dflt_of attrs end.

(** the ITS: per node (typesGH[0], typesGH[1]); bonds as usual *)
Definition itsA := lgraph (list aval * list aval) iedge.
Definition its_construct_A (attrs : list akey) (G H : mgraph) : itsA :=
  its_construct_gen (fun n (_ : Z) => (tuple_gen attrs G n, tuple_gen attrs H n)) default_opts G H.

(** its_decompose: G.add_node(node, element=t[0], aromatic=t[1], hcount=t[2], charge=t[3], atom_map=node); IndexError
    (None) when a node's tuple is shorter than four *)
Definition first4 (t : list aval) : option (aval * aval * aval * aval) :=
  match t with a :: b :: c :: d :: _ => Some (a, b, c, d) | _ => None end.
Definition gnodeA := (aval * aval * aval * aval)%type.
Fixpoint dec_nodes_A (sel : list aval * list aval -> list aval) (ns : list (N * (list aval * list aval))) : option (list (N * gnodeA)) :=
  match ns with
  | [] => Some []
  | (n, t) :: r => match first4 (sel t), dec_nodes_A sel r with
                   | Some q, Some l => Some ((n, q) :: l)
                   | _, _ => None
                   end
  end.
Definition dec_edges_A (se : iedge -> Z) (es : list (N * N * iedge)) : list (N * N * Z) :=
  flat_map (fun e => let '(u, v, x) := e in if 0 <? se x then [(u, v, se x)] else []) es.
Definition its_decompose_A (J : itsA) : option (lgraph gnodeA Z * lgraph gnodeA Z) :=
  match dec_nodes_A fst (gnodes J), dec_nodes_A snd (gnodes J) with
  | Some a, Some b => Some (LG a (dec_edges_A e_G (gedges J)), LG b (dec_edges_A e_H (gedges J)))
  | _, _ => None
  end.

(** what the legacy order yields: the typed molecule node as untyped values *)
Definition untyped (a : gnode) : gnodeA := (VS (g_el a), VB (g_arom a), VZ (g_hc a), VZ (g_ch a)).

(** observables *)
Definition taval (v : aval) : tok :=
  match v with
  | VS s => L [I 0; tN s] | VB b => L [I 1; tbool b] | VZ z => L [I 2; I z] | VL l => L [I 3; tlist tN l] | VNone => L [I 4]
  end.
Definition tnodeA (p : N * (list aval * list aval)) : tok := L [tN (fst p); tlist taval (fst (snd p)); tlist taval (snd (snd p))].
Definition tgnodeA (p : N * gnodeA) : tok :=
  let '(a, b, c, d) := snd p in L [tN (fst p); taval a; taval b; taval c; taval d].
Definition tgraphA (g : lgraph gnodeA Z) : tok := L [tset tgnodeA (gnodes g); tset tgedge (gedges g)].
Definition run_attrs (attrs : list akey) (G H : mgraph) : tok :=
  let J := its_construct_A attrs G H in
  L [tset tnodeA (gnodes J); tset tiedge (gedges J);
     match its_decompose_A J with Some (a, b) => L [tgraphA a; tgraphA b] | None => L [] end].
