(** C18 — _CRNGraphBackend (synkit/CRN/Hypergraph/backend.py): the graph view is built lazily at the first access of [G]
    and cached on the ANALYZER together with the hypergraph's [_version] at that moment; the next access rebuilds it iff the
    version differs.  CRNHyperGraph bumps [_version] in every mutating METHOD (add_rxn, remove_rxn, remove_species, set_mol...);
    an edit behind its back (RXNSide.__setitem__: [edge.reactants[s] = c]) changes the network value without a bump.
    Definitions only.  A history is a script on ONE hypergraph object and the analyzers created on it. *)
From Coq Require Import List NArith ZArith Bool Arith.
From SK Require Import lib.Tok model.C18_Model model.C18_AttrModel model.C18_WLModel.
Import ListNotations.

Record hgraph := HG { hnet : net; hver : N }.
(** [EMethod n' k]: a mutating method call leaving the network value n' ([k] further bumps: remove_rxn + add_rxn, or
    remove_species calling remove_rxn, bump more than once); [ESilent n']: the value changes, the version does not *)
Inductive hedit := EMethod (n' : net) (k : N) | ESilent (n' : net).
Definition hedit_apply (h : hgraph) (e : hedit) : hgraph :=
  match e with
  | EMethod n' k => HG n' (hver h + 1 + k)
  | ESilent n' => HG n' (hver h)
  end.

(** include_rule, include_stoich, (_G, _G_version) *)
Record backend := BE { bbip : bool; bst : bool; bcache : option (vgraph * N) }.
Definition be_new (bip st : bool) : backend := BE bip st None.
(** property G = _build_graph(); return _G *)
Definition be_G (b : backend) (h : hgraph) : backend * vgraph :=
  let rebuild := let g := view (bbip b) (bst b) (hnet h) in (BE (bbip b) (bst b) (Some (g, hver h)), g) in
  match bcache b with
  | Some (g, v) => if N.eqb v (hver h) then (b, g) else rebuild
  | None => rebuild
  end.

Inductive hstep := SEdit (e : hedit) | SNew (bip st : bool) | SRead (i : nat).
Definition hstate := (hgraph * list backend)%type.
(** the views served by the reads of a script, in order *)
Fixpoint run_hist (s : hstate) (steps : list hstep) : list vgraph :=
  match steps with
  | [] => []
  | SEdit e :: r => run_hist (hedit_apply (fst s) e, snd s) r
  | SNew bip st :: r => run_hist (fst s, snd s ++ [be_new bip st]) r
  | SRead i :: r =>
      match nth_error (snd s) i with
      | Some b => let bg := be_G b (fst s) in snd bg :: run_hist (fst s, set_nth i (fst bg) (snd s)) r
      | None => run_hist s r
      end
  end.

(** what analyzers created afresh at every read would serve *)
Definition hedit_net (e : hedit) : net := match e with EMethod n' _ => n' | ESilent n' => n' end.
Fixpoint spec_hist (n : net) (opts : list (bool * bool)) (steps : list hstep) : list vgraph :=
  match steps with
  | [] => []
  | SEdit e :: r => spec_hist (hedit_net e) opts r
  | SNew bip st :: r => spec_hist n (opts ++ [(bip, st)]) r
  | SRead i :: r =>
      match nth_error opts i with
      | Some o => view (fst o) (snd o) n :: spec_hist n opts r
      | None => spec_hist n opts r
      end
  end.

(** observable of a served view: the view, the canonicaliser's count / orbits / canonical graph, the VF2 count / orbits, the WL
    cells and estimate under the default options *)
Definition run_view (g : vgraph) : tok :=
  let res := canon_search g in
  match fst res with
  | None => L []
  | Some (lab, perm) =>
      let cg := canon_graph g perm in
      L [ tset node_tok (vnodes g); tset arc_tok (varcs g);
          tnat (length (snd res)); tset (tset tN) (orbits_from_perms (snd res));
          tset node_tok (vnodes cg); tset arc_tok (varcs cg);
          tnat (length (auts g)); tset (tset tN) (uf_orbits (node_ids g) (auts g));
          tset (tset tN) (wl_cells g (wl_colors g [] [NKind] [ERole; EStoich] true true 20));
          tN (estimate (map (@length N) (wl_cells g (wl_colors g [] [NKind] [ERole; EStoich] true true 20))) 1%N CAP0) ]
  end.
Definition run_history (n0 : net) (steps : list hstep) : tok := tlist run_view (run_hist (HG n0 0, []) steps).
