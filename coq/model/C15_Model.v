(** C15 — executable model of synkit/CRN/Hypergraph/hypergraph.py (CRNHyperGraph)
    and rxn.py (RXNSide normalisation).  Definitions only; proofs are in
    proof/C15_Proof.v so that the model still runs when a proof breaks.

    The model follows the code structure: the species set, the id -> reaction map
    with its insertion order, the two hand-maintained indices, the per-rule
    counters and the molecule labels are separate pieces of state updated by the
    same steps as the Python methods. *)
From stdpp Require Import gmap strings sets pretty.
From SK Require Import lib.Tok.
Local Open Scope string_scope.

Definition side := gmap string positive.

(** RXNSide._normalize_any on an iterable of (label, count) pairs. *)
Definition normalize (l : list (string * Z)) : side :=
  foldl (fun acc sc =>
           let '(s, c) := sc in
           if (0 <? c)%Z
           then <[ s := match acc !! s with
                        | Some p => (p + Z.to_pos c)%positive
                        | None => Z.to_pos c end ]> acc
           else acc) ∅ l.

Record rxn := Rxn { r_rule : string; r_lhs : side; r_rhs : side }.

Record net := Net {
  species : gset string;
  edges : gmap string rxn;
  order : list string;                       (* dict insertion order of [edges] *)
  s_in : gmap string (gset string);          (* species_to_in_edges  *)
  s_out : gmap string (gset string);         (* species_to_out_edges *)
  counters : gmap string N;                  (* _rule_counters *)
  mol : gmap string string;                  (* species_to_mol *)
  kept : gset string                         (* ghost: species the caller kept with prune_orphans=False *)
}.

Definition empty_net : net := Net ∅ ∅ [] ∅ ∅ ∅ ∅ ∅.

Inductive err := KeyError | ValueError | InternalError.

Definition rxn_species (r : rxn) : gset string := dom (r_lhs r) ∪ dom (r_rhs r).
Definition rxn_empty (r : rxn) : bool := bool_decide (r_lhs r = ∅ ∧ r_rhs r = ∅).

(** _next_edge_id_for_rule: first "<rule>_<k>", k > counter, that is not a key of
    [edges]; the loop is bounded by the number of stored edges + 1 (C15_fresh_total). *)
Definition gen_id (rule : string) (k : N) : string := rule +:+ "_" +:+ pretty k.

Fixpoint fresh (fuel : nat) (rule : string) (cnt : N) (E : gmap string rxn) : option (N * string) :=
  match fuel with
  | O => None
  | S f => let c := (cnt + 1)%N in
           let e := gen_id rule c in
           if decide (is_Some (E !! e)) then fresh f rule c E else Some (c, e)
  end.

Definition next_id (s : net) (rule : string) : option (N * string) :=
  fresh (S (size (edges s))) rule (default 0%N (counters s !! rule)) (edges s).

Definition set_counters (s : net) (c : gmap string N) : net :=
  Net (species s) (edges s) (order s) (s_in s) (s_out s) c (mol s) (kept s).

Definition idx_touch (ks : gset string) (m : gmap string (gset string)) : gmap string (gset string) :=
  set_fold (fun x acc => <[ x := default ∅ (acc !! x) ]> acc) m ks.
Definition idx_add (e : string) (ks : gset string) (m : gmap string (gset string)) : gmap string (gset string) :=
  set_fold (fun x acc => <[ x := {[ e ]} ∪ default ∅ (acc !! x) ]> acc) m ks.

(** the registration half of add_rxn (edge id already decided and not a key) *)
Definition register (s : net) (e : string) (r : rxn) : net :=
  let sps := rxn_species r in
  Net (species s ∪ sps) (<[ e := r ]> (edges s)) (order s ++ [e])
      (idx_add e (dom (r_rhs r)) (idx_touch sps (s_in s)))
      (idx_add e (dom (r_lhs r)) (idx_touch sps (s_out s)))
      (counters s) (mol s) (kept s).

Definition norm_rule (rule : string) : string := if decide (rule = "") then "r" else rule.

(** add_rxn; [eid = None] asks for a generated id.  Returns the new state, the
    error if any, and the id used. *)
Definition add (s : net) (l r : side) (rule0 : string) (eid : option string) : net * option err * string :=
  let rule := norm_rule rule0 in
  match eid with
  | None =>
      match next_id s rule with
      | None => (s, Some InternalError, "")
      | Some (c, e) =>
          let s1 := set_counters s (<[ rule := c ]> (counters s)) in
          if rxn_empty (Rxn rule l r) then (s1, Some ValueError, e)
          else (register s1 e (Rxn rule l r), None, e)
      end
  | Some e =>
      if decide (is_Some (edges s !! e)) then (s, Some KeyError, e)
      else if rxn_empty (Rxn rule l r) then (s, Some ValueError, e)
      else (register s e (Rxn rule l r), None, e)
  end.

(** the orphan test + pruning shared by remove_rxn and remove_species *)
Definition prune_orphan (x : string) (s : net) : net :=
  if decide (default ∅ (s_in s !! x) = ∅ ∧ default ∅ (s_out s !! x) = ∅)
  then Net (species s ∖ {[ x ]}) (edges s) (order s) (delete x (s_in s)) (delete x (s_out s))
           (counters s) (delete x (mol s)) (kept s)
  else s.

Definition out_discard (e x : string) (s : net) : net :=
  Net (species s) (edges s) (order s) (s_in s)
      (<[ x := default ∅ (s_out s !! x) ∖ {[ e ]} ]> (s_out s)) (counters s) (mol s) (kept s).
Definition in_discard (e x : string) (s : net) : net :=
  Net (species s) (edges s) (order s)
      (<[ x := default ∅ (s_in s !! x) ∖ {[ e ]} ]> (s_in s)) (s_out s) (counters s) (mol s) (kept s).

Definition remove_rxn (s : net) (e : string) : net * option err :=
  match edges s !! e with
  | None => (s, Some KeyError)
  | Some rx =>
      let s1 := Net (species s) (delete e (edges s)) (filter (fun e' => e' ≠ e) (order s))
                    (s_in s) (s_out s) (counters s) (mol s) (kept s) in
      let s2 := set_fold (fun x acc => prune_orphan x (out_discard e x acc)) s1 (dom (r_lhs rx)) in
      let s3 := set_fold (fun x acc => prune_orphan x (in_discard e x acc)) s2 (dom (r_rhs rx)) in
      (s3, None)
  end.

Definition strip_rxn (x : string) (ins outs : gset string) (e : string) (rx : rxn) : rxn :=
  Rxn (r_rule rx)
      (if decide (e ∈ outs) then delete x (r_lhs rx) else r_lhs rx)
      (if decide (e ∈ ins) then delete x (r_rhs rx) else r_rhs rx).

Definition remove_species (s : net) (x : string) (prune : bool) : net * option err :=
  if decide (x ∈ species s) then
    let ins := default ∅ (s_in s !! x) in
    let outs := default ∅ (s_out s !! x) in
    if decide (ins ∪ outs ⊆ dom (edges s)) then
      let E1 := map_imap (fun e rx => Some (strip_rxn x ins outs e rx)) (edges s) in
      (* reactions that became empty are removed; their sides are empty so
         remove_rxn only pops them from the edge map *)
      let dead := dom (filter (fun p => p.1 ∈ ins ∪ outs ∧ rxn_empty p.2 = true) E1) in
      let E2 := filter (fun p => p.1 ∉ dead) E1 in
      let s1 := Net (species s) E2 (filter (fun e' => e' ∉ dead) (order s))
                    (alter (fun _ => ∅) x (s_in s)) (alter (fun _ => ∅) x (s_out s))
                    (counters s) (mol s) (if prune then kept s else kept s ∪ {[ x ]}) in
      (if prune then prune_orphan x s1 else s1, None)
    else (s, Some InternalError)      (* a stale index entry: the code raises KeyError mid-way *)
  else (s, Some KeyError).

(** merge: other's edges in insertion order; sides are copied (values here) *)
Definition merge_one (prefix : bool) (acc : net * option err) (e : string) (rx : rxn) : net * option err :=
  match acc with
  | (s, Some er) => (s, Some er)
  | (s, None) =>
      if prefix || bool_decide (is_Some (edges s !! e)) then
        match next_id s (r_rule rx) with
        | None => (s, Some InternalError)
        | Some (c, e') =>
            let s1 := set_counters s (<[ r_rule rx := c ]> (counters s)) in
            let '(s2, er, _) := add s1 (r_lhs rx) (r_rhs rx) (r_rule rx) (Some e') in (s2, er)
        end
      else let '(s2, er, _) := add s (r_lhs rx) (r_rhs rx) (r_rule rx) (Some e) in (s2, er)
  end.

Definition edge_seq (o : net) : list (string * rxn) :=
  omap (fun e => (fun rx => (e, rx)) <$> edges o !! e) (order o).

Definition merge (s o : net) (prefix : bool) : net * option err :=
  foldl (fun acc p => merge_one prefix acc p.1 p.2) (s, None) (edge_seq o).

Definition assign_mol (s : net) (x m : string) : net * option err :=
  if decide (x ∈ species s)
  then (Net (species s) (edges s) (order s) (s_in s) (s_out s) (counters s) (<[ x := m ]> (mol s)) (kept s), None)
  else (s, Some KeyError).

Definition set_mol_map (s : net) (mp : list (string * string)) (strict clear : bool) : net * option err :=
  if strict && negb (forallb (fun p => bool_decide (p.1 ∈ species s)) mp) then (s, Some KeyError)
  else
    let m0 := if clear then ∅ else mol s in
    let m1 := foldl (fun acc p => if decide (p.1 ∈ species s) then <[ p.1 := p.2 ]> acc else acc) m0 mp in
    (Net (species s) (edges s) (order s) (s_in s) (s_out s) (counters s) m1 (kept s), None).

(** incidence_matrix(sparse=True): (species, edge id) -> produced - consumed,
    a key exists for every species occurring in the edge *)
Definition coef (sd : side) (x : string) : Z := match sd !! x with Some p => Z.pos p | None => 0%Z end.
Definition incidence (s : net) : list (string * string * Z) :=
  '(e, rx) ← map_to_list (edges s);
  (fun x => (x, e, (coef (r_rhs rx) x - coef (r_lhs rx) x)%Z)) <$> elements (rxn_species rx).

(** ---- a world of several networks, so that copy / merge independence is expressible *)
Inductive op :=
| OAdd (i : nat) (l r : list (string * Z)) (rule : string) (eid : option string)
| ORemoveRxn (i : nat) (e : string)
| ORemoveSpecies (i : nat) (x : string) (prune : bool)
| OMerge (i j : nat) (prefix : bool)
| OCopy (i j : nat)                        (* network j := copy of network i *)
| OAssignMol (i : nat) (x m : string)
| OSetMolMap (i : nat) (mp : list (string * string)) (strict clear : bool).

Definition world := list net.
Definition getn (w : world) (i : nat) : net := nth i w empty_net.
Definition setn (w : world) (i : nat) (s : net) : world := <[ i := s ]> w.

Definition step (w : world) (o : op) : world * option err :=
  match o with
  | OAdd i l r rule eid =>
      let '(s, er, _) := add (getn w i) (normalize l) (normalize r) rule eid in (setn w i s, er)
  | ORemoveRxn i e => let '(s, er) := remove_rxn (getn w i) e in (setn w i s, er)
  | ORemoveSpecies i x p => let '(s, er) := remove_species (getn w i) x p in (setn w i s, er)
  | OMerge i j p => let '(s, er) := merge (getn w i) (getn w j) p in (setn w i s, er)
  | OCopy i j => (setn w j (getn w i), None)
  | OAssignMol i x m => let '(s, er) := assign_mol (getn w i) x m in (setn w i s, er)
  | OSetMolMap i mp st cl => let '(s, er) := set_mol_map (getn w i) mp st cl in (setn w i s, er)
  end.

Definition init_world (n : nat) : world := replicate n empty_net.

(** ---- observables (DESIGN Appendix B, C15) *)
Definition tside (sd : side) : tok := tset (fun p => L [tstr p.1; I (Z.pos p.2)]) (map_to_list sd).
Definition tgset (X : gset string) : tok := tset tstr (elements X).
Definition tidx (m : gmap string (gset string)) : tok :=
  tset (fun p => L [tstr p.1; tgset p.2]) (map_to_list m).
Definition terr (e : option err) : tok :=
  match e with None => I 0 | Some KeyError => I 1 | Some ValueError => I 2 | Some InternalError => I 3 end.

Definition tnet (s : net) : tok :=
  L [ tgset (species s);
      tset (fun p => L [tstr p.1; tstr (r_rule p.2); tside (r_lhs p.2); tside (r_rhs p.2)]) (map_to_list (edges s));
      tlist tstr (order s);
      tidx (s_in s); tidx (s_out s);
      tset (fun p => L [tstr p.1; tstr p.2]) (map_to_list (mol s));
      tset (fun t => L [tstr t.1.1; tstr t.1.2; I t.2]) (incidence s) ].

(** run an op list from [n] empty networks; after EVERY op: the error code and
    the full observable state of every network *)
Fixpoint run_ops (w : world) (ops : list op) : list tok :=
  match ops with
  | [] => []
  | o :: os => let '(w', er) := step w o in L [terr er; tlist tnet w'] :: run_ops w' os
  end.
Definition run (n : nat) (ops : list op) : tok := L (run_ops (init_world n) ops).
