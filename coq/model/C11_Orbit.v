(** C11 (round 5) — synkit/Graph/Matcher/orbit.py: OrbitAccuracy(approx_orbits, exact_orbits).compute().
    Definitions only; proofs in proof/C11_OrbitProof.v.

    A partition is the list of frozensets the caller passes (each member as a list; duplicates inside a member and
    overlapping or empty members are accepted by the code and by the model).  Every metric is a Python float
    [numerator / denominator]; the model returns the two integers.
      _validate                   both lists must cover the same node set, else ValueError       -> [oa_valid]
      _build_mappings             node -> index of the LAST member containing it                  -> [node_to]
      node_exact_match_fraction   nodes whose approx member equals their exact member, / (|nodes| or 1)
      confusion_map               approx index -> {exact index: overlap > 0}
      purity                      sum over approx members of the largest overlap, / (|nodes| or 1)
      pairwise_accuracy           unordered node pairs on which "same member" agrees, / number of pairs (1.0 below 2 nodes) *)
From Coq Require Import List NArith ZArith Bool Arith.
From SK Require Import lib.Tok lib.LGraph model.C11_Model.
Import ListNotations.

Definition partition := list (list N).

Definition all_nodes (P : partition) : list N := canonN (concat P).                    (* the union of the members *)
Definition oa_valid (A E : partition) : bool := leqb (all_nodes A) (all_nodes E).
Definition node_to (P : partition) (n : N) : option N := host_index n P 0%N None.
Definition member (P : partition) (i : option N) : list N :=
  match i with Some j => canonN (nth (N.to_nat j) P []) | None => [] end.

Definition inter_size (a e : list N) : N := N.of_nat (length (filter (fun x => LGraph.mem x e) (canonN a))).   (* len(a & e) *)
Definition total_or_1 (ns : list N) : N := match ns with [] => 1%N | _ => N.of_nat (length ns) end.

Definition oa_exact (A E : partition) : N * N :=
  let ns := all_nodes A in
  (N.of_nat (length (filter (fun n => leqb (member A (node_to A n)) (member E (node_to E n))) ns)), total_or_1 ns).

Definition oa_confusion (A E : partition) : list (list (N * N)) :=
  map (fun a => filter (fun p => negb (N.eqb (snd p) 0%N))
                       (map (fun je => (N.of_nat (fst je), inter_size a (snd je))) (indexed E))) A.

Definition oa_purity (A E : partition) : N * N :=
  (fold_right N.add 0%N (map (fun row => fold_right N.max 0%N (map snd row)) (oa_confusion A E)), total_or_1 (all_nodes A)).

(** "same member" as the code tests it: equality of the indices *)
Definition same_in (P : partition) (u v : N) : bool := oeqb (node_to P u) (node_to P v).
Fixpoint pairs_count (f : N -> N -> bool) (l : list N) : N :=
  match l with
  | [] => 0%N
  | x :: r => (N.of_nat (length (filter (f x) r)) + pairs_count f r)%N
  end.
Definition oa_pairwise (A E : partition) : N * N :=
  let ns := all_nodes A in
  if (length ns <? 2)%nat then (1%N, 1%N)
  else (pairs_count (fun u v => Bool.eqb (same_in A u v) (same_in E u v)) ns,
        pairs_count (fun _ _ => true) ns).

Definition t_frac (q : N * N) : tok := L [tN (fst q); tN (snd q)].
(** [L [I 1]] = ValueError *)
Definition run_orbit_accuracy (A E : partition) : tok :=
  if oa_valid A E then
    L [ I 0%Z; t_frac (oa_exact A E); tlist (tlist (tpair tN tN)) (oa_confusion A E); t_frac (oa_purity A E);
        t_frac (oa_pairwise A E) ]
  else L [ I 1%Z ].

(** the metrics (no member indices: they do not depend on the order of the two lists) of the estimate against the
    exact analysis of one graph, as the benchmark code of the repository uses the class *)
Definition oa_metrics (A E : partition) : tok :=
  if oa_valid A E then L [ I 0%Z; t_frac (oa_exact A E); t_frac (oa_purity A E); t_frac (oa_pairwise A E) ] else L [ I 1%Z ].
Definition run_aut_oa (g : graph) : tok :=
  oa_metrics (wl_orbits (wl n_exact e_order g 10)) (a_orbits (analyze n_exact e_order g)).

(** the observable of an [aut] case with the analysis evaluated ONCE (vm_compute is call-by-value: [run_aut],
    [aut_lists] and [run_aut_oa] each enumerate the automorphisms again); equal to
    [L [run_aut g; tbool (wfb g); tlist t_maps (aut_lists g); run_aut_oa g]] (proof/C11_OrbitProof.v run_aut_all_eq) *)
Definition run_aut_all (g : graph) : tok :=
  let a := analyze n_exact e_order g in
  L [ L [ tN (a_count a); t_sets (a_orbits a); tlist (tset tN) (a_comps a); topt (tset tN) (a_anchor a);
          wl_obs n_wl g; wl_obs n_exact g ];
      tbool (wfb g);
      tlist t_maps (if (a_count a <=? 200)%N then map (fun c => auts n_exact e_order (induced_sub g c)) (a_comps a) else []);
      oa_metrics (wl_orbits (wl n_exact e_order g 10)) (a_orbits a) ].
