(** C15 (round 3) — the rest of the public surface of CRNHyperGraph as an
    extension of the history language of model/C15_Model.v (which is imported
    unchanged: C16–C20 build on it).  Definitions only; proofs are in
    proof/C15_Ext*.v.

    New here
      - the input forms of RXNSide.from_any (mapping / labels / pairs / mixed)
      - read-only queries: __contains__, __len__, iteration / edge_list,
        species_list, get_edge + the HyperEdge views (species, is_trivial, arity,
        expand), neighbors, paths, incidence_matrix(sparse=True/False) with its
        two order lists, get_mol
      - reactions added from RXNSide OBJECTS (another network's stored sides, or
        caller-held side objects that the caller edits afterwards)
      - merge of a duck-typed "other" (plain sides, missing id, raw rule)
      - caller-side in-place edits of a stored side through the returned edge
        (RXNSide.__setitem__ / incr)
    An [op2] history runs over a [world2] = networks + the caller's pool of side
    objects; every old [op] is embedded by [OBase]. *)
From stdpp Require Import gmap strings sets pretty sorting.
From SK Require Import lib.Tok model.C15_Model.
Local Open Scope string_scope.

(** * 1. RXNSide.from_any: items of a mapping are pairs; items of another
    iterable are pairs when they are 2-tuples and bare labels otherwise (an empty
    bare label is skipped, an empty label in a pair is kept). *)
Inductive item := IPair (s : string) (c : Z) | ILabel (s : string).

Definition bump (acc : side) (s : string) (p : positive) : side :=
  <[ s := match acc !! s with Some q => (q + p)%positive | None => p end ]> acc.

Definition normalize_items (l : list item) : side :=
  foldl (fun acc it =>
           match it with
           | IPair s c => if (0 <? c)%Z then bump acc s (Z.to_pos c) else acc
           | ILabel s => if decide (s = "") then acc else bump acc s 1%positive
           end) ∅ l.

(** * 2. Python's sorted() on ASCII strings *)
Definition sle15 (a b : string) : Prop := String.leb a b = true.
Global Instance sle15_dec : RelDecision sle15 := λ a b, decide (String.leb a b = true).
Definition ssort (l : list string) : list string := merge_sort sle15 l.

(** * 3. Queries (none of them changes the state) *)
Definition contains (s : net) (x : string) : bool :=
  bool_decide (x ∈ species s) || bool_decide (is_Some (edges s !! x)).
Definition len (s : net) : nat := size (edges s).
Definition species_list (s : net) : list string := ssort (elements (species s)).
Definition edge_ids_sorted (s : net) : list string := ssort (elements (dom (edges s))).

(** get_mol has two KeyErrors; the second one is reported as [NoLabel] *)
Inductive qerr := QKeyError | QNoLabel | QInternal.
Definition get_mol (s : net) (x : string) : qerr + string :=
  if decide (x ∈ species s)
  then match mol s !! x with Some m => inr m | None => inl QNoLabel end
  else inl QKeyError.

(** neighbors: products of the reactions listed in the out-index; [None] when the
    index names a reaction that is not stored (unreachable, C15_neighbors_spec) *)
Definition neighbors_raw (s : net) (x : string) : option (gset string) :=
  set_fold (fun e acc => match acc, edges s !! e with
                         | Some a, Some rx => Some (a ∪ dom (r_rhs rx))
                         | _, _ => None end) (Some ∅) (default ∅ (s_out s !! x)).
Definition neighbors (s : net) (x : string) : qerr + gset string :=
  if decide (x ∈ species s)
  then match neighbors_raw s x with Some a => inr a | None => inl QInternal end
  else inl QKeyError.

(** paths: breadth-first, level by level (the FIFO queue of the code holds the
    paths of one hop count before those of the next); a path ending in the
    target is reported and not extended; extensions go to sorted neighbours not
    yet on the path.  Paths are kept reversed (last species first). *)
Definition extend (s : net) (rp : list string) : option (list (list string)) :=
  match rp with
  | [] => Some []
  | last :: _ =>
      match neighbors s last with
      | inr N => Some ((fun n => n :: rp) <$> filter (fun n => n ∉ rp) (ssort (elements N)))
      | inl _ => None
      end
  end.

Fixpoint bfs (levels : nat) (s : net) (target : string) (level : list (list string))
  : option (list (list string)) :=
  match levels with
  | O => Some []
  | S k =>
      let found := filter (fun rp => head rp = Some target) level in
      let open := filter (fun rp => head rp ≠ Some target) level in
      match mapM (extend s) open with
      | None => None
      | Some nxt =>
          match bfs k s target (concat nxt) with
          | None => None
          | Some rest => Some (found ++ rest)%list
          end
      end
  end.

(** simple paths visit distinct species, so [size (species s)] levels exhaust
    them whatever [max_hops] is; the code's loop runs [max_hops + 1] levels *)
Definition paths (s : net) (src tgt : string) (max_hops : Z) (max_paths : option Z)
  : qerr + list (list string) :=
  if decide (src ∈ species s ∧ tgt ∈ species s) then
    let levels := if (max_hops <? 0)%Z then O
                  else Nat.min (S (Z.to_nat max_hops)) (size (species s)) in
    match bfs levels s tgt [[src]] with
    | None => inl QInternal
    | Some ps =>
        let ps := reverse <$> ps in
        inr (match max_paths with
             | None => ps
             | Some m => take (Z.to_nat (Z.max 1 m)) ps
             end)
    end
  else inl QKeyError.

(** dense incidence_matrix(sparse=False): rows = sorted species, columns =
    sorted reaction ids; the code indexes rows by species and would raise
    KeyError for a stored species missing from the species set *)
Definition dense_entry (s : net) (x e : string) : Z :=
  match edges s !! e with
  | Some rx => (coef (r_rhs rx) x - coef (r_lhs rx) x)%Z
  | None => 0%Z
  end.
Definition dense (s : net) : option (list (list Z)) :=
  if decide (map_Forall (fun _ rx => rxn_species rx ⊆ species s) (edges s))
  then Some ((fun x => dense_entry s x <$> edge_ids_sorted s) <$> species_list s)
  else None.

(** HyperEdge / RXNSide views *)
Definition side_arity (sd : side) (include_coeff : bool) : Z :=
  if include_coeff then map_fold (fun _ p acc => (acc + Z.pos p)%Z) 0%Z sd
  else Z.of_nat (size sd).
Definition is_trivial (rx : rxn) : bool := bool_decide (r_lhs rx = r_rhs rx).
Definition expand (sd : side) : list string :=
  '(x, p) ← map_to_list sd; replicate (Pos.to_nat p) x.

Inductive query :=
| QContains (x : string) | QLen | QIter | QSpeciesList
| QGetEdge (e : string)
| QNeighbors (x : string)
| QPaths (src tgt : string) (max_hops : Z) (max_paths : option Z)
| QIncidence (sparse : bool)
| QGetMol (x : string).

(** * 4. Caller-side edits of a stored side through the returned edge object *)
Definition side_set (sd : side) (x : string) (c : Z) : side :=
  if (c <=? 0)%Z then delete x sd else <[ x := Z.to_pos c ]> sd.
Definition side_incr (sd : side) (x : string) (by_ : Z) : side :=
  side_set sd x (coef sd x + by_)%Z.

Definition edit_side (s : net) (e : string) (lhs : bool) (f : side → side) : net * option err :=
  match edges s !! e with
  | None => (s, Some KeyError)
  | Some rx =>
      let rx' := if lhs then Rxn (r_rule rx) (f (r_lhs rx)) (r_rhs rx)
                 else Rxn (r_rule rx) (r_lhs rx) (f (r_rhs rx)) in
      (Net (species s) (<[ e := rx' ]> (edges s)) (order s) (s_in s) (s_out s)
           (counters s) (mol s) (kept s), None)
  end.

(** The caller of the history language only changes COEFFICIENTS of a stored
    side (the key set of the side is kept: `if x in side and c > 0: side[x] = c`);
    adding or dropping a species behind the store's back is outside the
    property's domain.  The guard is part of the caller's script, hence of the op. *)
Definition coef_edit (sd : side) (x : string) (c : Z) : Prop := x ∈ dom sd ∧ (0 < c)%Z.
Definition side_set_g (sd : side) (x : string) (c : Z) : side :=
  if decide (coef_edit sd x c) then side_set sd x c else sd.
Definition side_incr_g (sd : side) (x : string) (by_ : Z) : side :=
  if decide (coef_edit sd x (coef sd x + by_)%Z) then side_incr sd x by_ else sd.

(** * 5. merge of a duck-typed other: edges given as (id?, rule, lhs, rhs); the
    sides go through from_any; the id is regenerated when missing / taken /
    prefix_edges; the generator is asked with the RAW rule, add_rxn stores
    [rule or "r"] *)
Definition raw_edge : Type := option string * string * list item * list item.

Definition merge_raw_one (prefix : bool) (acc : net * option err) (re : raw_edge) : net * option err :=
  match acc with
  | (s, Some er) => (s, Some er)
  | (s, None) =>
      let '(eid, rule, l, r) := re in
      let regen := prefix || match eid with None => true | Some e => bool_decide (is_Some (edges s !! e)) end in
      if regen then
        match next_id s rule with
        | None => (s, Some InternalError)
        | Some (c, e') =>
            let s1 := set_counters s (<[ rule := c ]> (counters s)) in
            let '(s2, er, _) := add s1 (normalize_items l) (normalize_items r) rule (Some e') in (s2, er)
        end
      else let '(s2, er, _) := add s (normalize_items l) (normalize_items r) rule eid in (s2, er)
  end.
Definition merge_raw (s : net) (es : list raw_edge) (prefix : bool) : net * option err :=
  foldl (merge_raw_one prefix) (s, None) es.

(** * 6. The extended history language *)
Record world2 := W2 { nets : world; pool : list side }.

Inductive op2 :=
| OBase (o : op)
| OAddItems (i : nat) (l r : list item) (rule : string) (eid : option string)
| OAddFrom (i j : nat) (e : string) (rule : string) (eid : option string)
      (* add_rxn(Hj.edges[e].reactants, Hj.edges[e].products, ...) — RXNSide objects *)
| OPoolNew (k : nat) (l : list item)             (* pool[k] := RXNSide.from_any(l) *)
| OPoolEdit (k : nat) (x : string) (c : Z)       (* pool[k][x] = c  (after it was passed in) *)
| OAddPool (i : nat) (kl kr : nat) (rule : string) (eid : option string)
| OMergeRaw (i : nat) (es : list raw_edge) (prefix : bool)
| OSideSet (i : nat) (e : string) (lhs : bool) (x : string) (c : Z)
| OSideIncr (i : nat) (e : string) (lhs : bool) (x : string) (by_ : Z)
| OQuery (i : nat) (q : query)
| OPoolUpdate (k : nat) (l : list item).         (* pool[k].update(l): normalise, then add count by count *)

Definition getp (p : list side) (k : nat) : side := nth k p ∅.

(** RXNSide.update: the argument is normalised, then added count by count *)
Definition side_update (sd : side) (l : list item) : side :=
  union_with (fun p q => Some (p + q)%positive) sd (normalize_items l).

(** observables of the answers *)
Definition tqerr (e : qerr) : tok :=
  match e with QKeyError => I 1 | QNoLabel => I 4 | QInternal => I 3 end.
Definition tedge (e : string) (rx : rxn) : tok :=
  L [tstr e; tstr (r_rule rx); tside (r_lhs rx); tside (r_rhs rx);
     tgset (rxn_species rx); tbool (is_trivial rx);
     I (side_arity (r_lhs rx) false); I (side_arity (r_rhs rx) false);
     I (side_arity (r_lhs rx) true); I (side_arity (r_rhs rx) true);
     tset tstr (expand (r_lhs rx)); tset tstr (expand (r_rhs rx))].
Definition tincidence (s : net) : tok :=
  tset (fun t => L [tstr t.1.1; tstr t.1.2; I t.2]) (incidence s).

Definition answer (s : net) (q : query) : tok :=
  match q with
  | QContains x => L [I 0; tbool (contains s x)]
  | QLen => L [I 0; tnat (len s)]
  | QIter => L [I 0; tlist (fun p => tedge p.1 p.2) (edge_seq s)]
  | QSpeciesList => L [I 0; tlist tstr (species_list s)]
  | QGetEdge e => match edges s !! e with
                  | Some rx => L [I 0; tedge e rx]
                  | None => L [I 1] end
  | QNeighbors x => match neighbors s x with
                    | inr N => L [I 0; tgset N]
                    | inl er => L [tqerr er] end
  | QPaths a b h m => match paths s a b h m with
                      | inr ps => L [I 0; tlist (tlist tstr) ps]
                      | inl er => L [tqerr er] end
  | QIncidence true => L [I 0; tlist tstr (species_list s); tlist tstr (edge_ids_sorted s); tincidence s]
  | QIncidence false => match dense s with
                        | Some m => L [I 0; tlist tstr (species_list s); tlist tstr (edge_ids_sorted s);
                                       tlist (tlist I) m]
                        | None => L [I 3] end
  | QGetMol x => match get_mol s x with
                 | inr m => L [I 0; tstr m]
                 | inl er => L [tqerr er] end
  end.

Definition setnets (w : world2) (i : nat) (s : net) : world2 := W2 (setn (nets w) i s) (pool w).

(** one step: new world, error code of a mutator, and the value handed back to
    the caller (generated id / query answer) *)
Definition step2 (w : world2) (o : op2) : world2 * option err * tok :=
  match o with
  | OBase (OAdd i l r rule eid) =>
      let '(s, er, e) := add (getn (nets w) i) (normalize l) (normalize r) rule eid in
      (setnets w i s, er, match er with None => tstr e | Some _ => L [] end)
  | OBase o' => let '(ns, er) := step (nets w) o' in (W2 ns (pool w), er, L [])
  | OAddItems i l r rule eid =>
      let '(s, er, e) := add (getn (nets w) i) (normalize_items l) (normalize_items r) rule eid in
      (setnets w i s, er, match er with None => tstr e | Some _ => L [] end)
  | OAddFrom i j e rule eid =>
      match edges (getn (nets w) j) !! e with
      | None => (w, Some KeyError, L [])
      | Some rx =>
          let '(s, er, e') := add (getn (nets w) i) (r_lhs rx) (r_rhs rx) rule eid in
          (setnets w i s, er, match er with None => tstr e' | Some _ => L [] end)
      end
  | OPoolNew k l => (W2 (nets w) (<[ k := normalize_items l ]> (pool w)), None, L [])
  | OPoolEdit k x c => (W2 (nets w) (<[ k := side_set (getp (pool w) k) x c ]> (pool w)), None, L [])
  | OAddPool i kl kr rule eid =>
      let '(s, er, e) := add (getn (nets w) i) (getp (pool w) kl) (getp (pool w) kr) rule eid in
      (setnets w i s, er, match er with None => tstr e | Some _ => L [] end)
  | OMergeRaw i es p => let '(s, er) := merge_raw (getn (nets w) i) es p in (setnets w i s, er, L [])
  | OSideSet i e lhs x c =>
      let '(s, er) := edit_side (getn (nets w) i) e lhs (fun sd => side_set_g sd x c) in (setnets w i s, er, L [])
  | OSideIncr i e lhs x b =>
      let '(s, er) := edit_side (getn (nets w) i) e lhs (fun sd => side_incr_g sd x b) in (setnets w i s, er, L [])
  | OQuery i q => (w, None, answer (getn (nets w) i) q)
  | OPoolUpdate k l => (W2 (nets w) (<[ k := side_update (getp (pool w) k) l ]> (pool w)), None, L [])
  end.

Definition init_world2 (n k : nat) : world2 := W2 (init_world n) (replicate k ∅).

(** the derived views observed for every network after every operation when a
    history is run with [views = true] (query -> edit -> query patterns for free) *)
Definition tviews (s : net) : tok :=
  L [ tnat (len s);
      tlist tstr (species_list s);
      tlist tstr (edge_ids_sorted s);
      match dense s with Some m => tlist (tlist I) m | None => I 3 end;
      tlist (fun p => tstr p.1) (edge_seq s) ].

Definition tnet2 (views : bool) (s : net) : tok :=
  if views then L [tnet s; tviews s] else L [tnet s].

(** the first [skip] operations (a fixed preamble) are executed but not observed;
    with [lite] a query records only its answer (the state is recorded again at
    the next mutator; that queries do not change it is judged by the oracle on
    the implementation and is [C15_query_pure] in the model) *)
Definition is_query (o : op2) : bool := match o with OQuery _ _ => true | _ => false end.
Fixpoint run_ops2 (views lite : bool) (skip : nat) (w : world2) (ops : list op2) : list tok :=
  match ops with
  | [] => []
  | o :: os =>
      let '(w', er, a) := step2 w o in
      match skip with
      | S k => run_ops2 views lite k w' os
      | O => (if lite && is_query o then L [terr er; a]
              else L [terr er; a; tlist (tnet2 views) (nets w'); tlist tside (pool w')])
             :: run_ops2 views lite O w' os
      end
  end.
Definition run2 (views lite : bool) (n k skip : nat) (ops : list op2) : tok :=
  L (run_ops2 views lite skip (init_world2 n k) ops).
