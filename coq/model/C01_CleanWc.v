(** C01 — its_to_rsmi(its, clean_wildcards=True) = clean_wc(rsmi)  (synkit/Chem/Reaction/radical_wildcard.py, defaults
    invert=False, max_frag=False, wild_card=True): the product side is replaced by its longest '.'-fragment that contains
    no '*' (the first one of maximal length), if there is such a fragment.  Text-level logic only. *)
From Coq Require Import List String Ascii Bool Arith.
From SK Require Import lib.Tok.
Import ListNotations.
Local Open Scope string_scope.

(** str.split(".") *)
Fixpoint split_dot (s : string) : list string :=
  match s with
  | EmptyString => [EmptyString]
  | String c r =>
      match split_dot r with
      | h :: t => if Ascii.eqb c "."%char then EmptyString :: h :: t else String c h :: t
      | [] => []
      end
  end.

(** "*" in frag *)
Fixpoint has_star (s : string) : bool :=
  match s with EmptyString => false | String c r => Ascii.eqb c "*"%char || has_star r end.

(** max(filtered, key=len): the first fragment of maximal length *)
Fixpoint longest (best : string) (l : list string) : string :=
  match l with
  | [] => best
  | f :: r => if Nat.ltb (String.length best) (String.length f) then longest f r else longest best r
  end.

Definition clean_side (side : string) : string :=
  match filter (fun f => negb (has_star f)) (split_dot side) with
  | [] => side
  | f :: r => longest f r
  end.

(** clean_wc(react >> prod) = react >> clean_side prod *)
Definition clean_wc (react prod : string) : string * string := (react, clean_side prod).

Definition run_cwc (react prod : string) : tok := L [tstr (fst (clean_wc react prod)); tstr (snd (clean_wc react prod))].

(** witnesses of theorem C01_clean_wildcards_refuted *)
Definition cw_react : string := "[CH3:1][Br:2].[OH2:3]".
Definition cw_prod : string := "[CH3:1][OH:3].[BrH:2]".
Definition cw_frag1 : string := "[CH3:1][OH:3]".
Definition cw_frag2 : string := "[BrH:2]".
