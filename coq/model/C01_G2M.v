(** C01 — GraphToMol.graph_to_mol on graphs whose nodes / edges LACK attributes (synkit/IO/graph_to_mol.py):
      element = data.get(<element>, "*"), charge = data.get(<charge>, 0),
      atom_map = data.get(<atom_map>, 0) if "atom_map" in data else None   (no map set = map 0 in RDKit),
      hcount  = data.get("hcount", 0) if use_h_count and "hcount" in data else None
                (None: neither SetNoImplicit nor SetNumExplicitHs is called; reported as -1),
      bond order = 1 if ignore_bond_order else abs(data.get(<order>, 1)).
    Definitions only; proofs in proof/C01_G2MProof.v. *)
From Coq Require Import List NArith ZArith Bool.
From SK Require Import lib.Tok lib.LGraph model.C01_Model model.C01_String.
Import ListNotations.
Local Open Scope Z_scope.

Record gnode_g := GG { gg_el : option N; gg_ch : option Z; gg_amap : option Z; gg_hc : option Z }.
Definition ggraph := lgraph gnode_g (option Z).

Definition dflt {X} (d : X) (o : option X) : X := match o with Some x => x | None => d end.

Definition watom_g (uhc : bool) (a : gnode_g) : watom :=
  WA (dflt EL_STAR (gg_el a)) (dflt 0 (gg_ch a)) (dflt 0 (gg_amap a))
     (if uhc then match gg_hc a with Some h => h | None => -1 end else -1).

(** data.get("order", 1): 1.0 = 2 half-units *)
Definition edge_g (e : N * N * option Z) : N * N * Z := let '(u, v, o) := e in (u, v, dflt 2 o).

Definition graph_to_wmol_g (ibo uhc : bool) (g : ggraph) : option wmol :=
  match w_bonds (node_ids g) (map edge_g (gedges g)) with
  | Some bs => Some (map (fun p => watom_g uhc (snd p)) (gnodes g),
                     map (fun b : nat * nat * N => let '(i, j, c) := b in (i, j, if ibo then 1%N else c)) bs)
  | None => None
  end.

(** a molecule graph of model/C01_Model.v as a graph with every attribute present *)
Definition lift_node (a : gnode) : gnode_g := GG (Some (g_el a)) (Some (g_ch a)) (Some (g_amap a)) (Some (g_hc a)).
Definition lift_graph (g : mgraph) : ggraph :=
  LG (map (fun p => (fst p, lift_node (snd p))) (gnodes g)) (map (fun e : N * N * Z => let '(u, v, o) := e in (u, v, Some o)) (gedges g)).

Definition run_g2m_g (ibo uhc : bool) (g : ggraph) : tok := topt twmol (graph_to_wmol_g ibo uhc g).
