(** C18 — every call of CRNCanonicalizer._sig made by a canonicalisation, in call order: _refine evaluates the signature of every
    node of every non-singleton cell once per round (its cache is keyed by (node, partition of the round)), round after round
    until no cell splits; the search calls _refine at every node of the search tree.  Definitions only. *)
From Coq Require Import List NArith ZArith Bool Arith.
From SK Require Import lib.Tok lib.IRSortKeys lib.IRCore lib.IRSearch model.C18_Model.
From SK Require lib.IRInst.
Import ListNotations.

Fixpoint sig_rounds (g : vgraph) (fuel : nat) (P : partition) : list (N * partition * list Z) :=
  match fuel with
  | O => []
  | S f =>
      let calls := flat_map (fun c => if Nat.leb (length c) 1 then [] else map (fun v => (v, P, sig g P v)) c) P in
      let P1 := refine_step lexleb (sig g) P in
      calls ++ (if Nat.eqb (length P1) (length P) then [] else sig_rounds g f P1)
  end.
Definition sig_log (g : vgraph) : list (N * partition * list Z) :=
  let k := S (length (vnodes g)) in flat_map (fun io => sig_rounds g k (fst io)) (rlog g k k (init_part g)).
Definition run_siglog (bip st : bool) (n : net) : tok :=
  let g := view bip st n in
  tlist (fun c => L [tN (fst (fst c)); tpart (snd (fst c)); tlist I (snd c)]) (sig_log g).
Definition run_siglog_case (bip st : bool) (nets : list net) : tok := tlist (run_siglog bip st) nets.
