(** C19 — the attribute / identifier level of DeficiencyAnalyzer._complex_vectors (round 5).  Definitions only; proofs in
    proof/C19_NodesProof.v.

    model/C19_Model.v works on the reaction list (a species IS its label, a reaction its edge id).  The code works on a
    networkx DiGraph whose nodes carry identifiers and OPTIONAL attributes:

      utils._split_species_reactions   node is a species  if kind == "species" or bipartite == 0,
                                       a reaction        elif kind == "reaction" or bipartite == 1, else ignored;
                                       ValueError when one of the two lists is empty
      utils._species_order             species nodes sorted (stable) by str(label) — by str(node id) when there is no label —
                                       and the dict node id -> position
      _complex_vectors                 per reaction node (G.nodes order): the arcs INTO the node, then the arcs OUT of it;
                                       the other end of the arc is looked up in the species dict (not a species: skipped);
                                       coefficient int(stoich), 1 when the arc has no stoich; role "reactant" adds to the
                                       lhs vector, "product" to the rhs vector, anything else (or no role) is ignored —
                                       the DIRECTION of the arc plays no part;
                                       add_complex / CG.add_edge as in model/C19_Model.v

    proof/C19_NodesProof.v: on the export of a reaction list under ANY injective identifier assignment (species and reaction
    identifiers disjoint) this computes exactly [complex_graph] of model/C19_Model.v. *)
From Coq Require Import List NArith ZArith Bool Arith.
From SK Require Import lib.Tok lib.Reach lib.C17_Farkas model.C17_Model model.C17_NodeModel model.C19_Model.
Import ListNotations.

(** kind: Some 0 = "species", Some 1 = "reaction", Some 2 = any other value, None = absent;   bipartite flag likewise *)
Record rnode := RNode { rn_id : N; rn_kind : option nat; rn_bflag : option Z; rn_label : option str; rn_idstr : str }.
Record rarc := RArc { ra_u : N; ra_v : N; ra_role : option role; ra_stoich : option Z }.
Record rgraph := RG { rg_nodes : list rnode; rg_arcs : list rarc }.

Definition kind_is (k : nat) (n : rnode) : bool := match rn_kind n with Some k' => Nat.eqb k k' | None => false end.
Definition bflag_is (z : Z) (n : rnode) : bool := match rn_bflag n with Some z' => Z.eqb z z' | None => false end.
Definition is_species (n : rnode) : bool := kind_is 0%nat n || bflag_is 0%Z n.
Definition is_reaction (n : rnode) : bool := negb (is_species n) && (kind_is 1%nat n || bflag_is 1%Z n).
Definition species_nodes (G : rgraph) : list rnode := filter is_species (rg_nodes G).
Definition reaction_nodes (G : rgraph) : list rnode := filter is_reaction (rg_nodes G).

Definition eff_label (n : rnode) : str := match rn_label n with Some l => l | None => rn_idstr n end.
Definition species_sorted (G : rgraph) : list rnode :=
  isort (fun a b => strleb (eff_label a) (eff_label b)) (species_nodes G).
Definition species_index (G : rgraph) : list (N * nat) :=
  combine (map rn_id (species_sorted G)) (seq 0 (length (species_sorted G))).

(** list(G.in_edges(r)) + list(G.out_edges(r)) *)
Definition incident (arcs : list rarc) (r : N) : list rarc :=
  filter (fun a => N.eqb (ra_v a) r) arcs ++ filter (fun a => N.eqb (ra_u a) r) arcs.

Definition acc_arc (si : list (N * nat)) (r : N) (st : list Z * list Z) (a : rarc) : list Z * list Z :=
  let s_node := if N.eqb (ra_u a) r then ra_v a else ra_u a in
  match index_get si s_node with
  | None => st
  | Some idx =>
      let c := match ra_stoich a with Some c => c | None => 1%Z end in
      match ra_role a with
      | Some Reactant => (row_add (fst st) idx c, snd st)
      | Some Product => (fst st, row_add (snd st) idx c)
      | None => st
      end
  end.

Definition node_vecs (G : rgraph) (r : N) : list Z * list Z :=
  let n := length (species_index G) in
  fold_left (acc_arc (species_index G) r) (incident (rg_arcs G) r) (repeat 0%Z n, repeat 0%Z n).
Definition node_vec (G : rgraph) (ro : role) (r : N) : list Z :=
  match ro with Reactant => fst (node_vecs G r) | Product => snd (node_vecs G r) end.

(** the walk of model/C19_Model.v over node identifiers *)
Definition cstepN (vec : role -> N -> list Z) (st : list (list Z) * list (nat * nat)) (r : N) : list (list Z) * list (nat * nat) :=
  let '(cs, arcs) := st in
  let '(cs1, u) := add_complex cs (vec Reactant r) in
  let '(cs2, v) := add_complex cs1 (vec Product r) in
  (cs2, if arc_mem (u, v) arcs then arcs else arcs ++ [(u, v)]).

(** None = ValueError of _split_species_reactions *)
Definition complex_graph_nodes (G : rgraph) : option (list (list Z) * list (nat * nat)) :=
  match species_nodes G, reaction_nodes G with
  | [], _ | _, [] => None
  | _, _ => Some (fold_left (cstepN (node_vec G)) (map rn_id (reaction_nodes G)) ([], []))
  end.

(** hypergraph_to_bipartite under an identifier assignment, with every attribute present *)
Definition raw_export (ids idr : str -> N) (net : list rxn) (iso : list str) : rgraph :=
  RG (map (fun s => RNode (ids s) (Some 0%nat) (Some 0%Z) (Some s) []) (species_set net iso) ++
      map (fun e => RNode (idr (rid e)) (Some 1%nat) (Some 1%Z) (Some (rrule e)) []) (edges_sorted net))
     (map (fun a => match a_role a with
                    | Reactant => RArc (ids (a_species a)) (idr (a_rxn a)) (Some Reactant) (Some (a_stoich a))
                    | Product => RArc (idr (a_rxn a)) (ids (a_species a)) (Some Product) (Some (a_stoich a))
                    end) (bip_arcs net)).

(** conversion._as_bipartite on an UNDIRECTED input (nx.Graph / nx.MultiGraph; since /repo a58b70a): a new DiGraph with the
    same nodes; every undirected edge {u, v} is oriented by its role — the reaction end is the end whose node has
    kind == "reaction" (or no kind and bipartite == 1; NOTE: not the rule of _split_species_reactions), role "product" gives
    reaction -> species, anything else species -> reaction; a second incidence between the same ordered pair (multigraph)
    adds its stoich (default 1 on both sides) to the first one, whose other attributes are kept *)
Definition node_of (ns : list rnode) (u : N) : option rnode := find (fun n => N.eqb (rn_id n) u) ns.
Definition u_is_rxn (ns : list rnode) (u : N) : bool :=
  match node_of ns u with
  | Some n => kind_is 1%nat n || (match rn_kind n with None => bflag_is 1%Z n | Some _ => false end)
  | None => false
  end.
Definition same_arc (a b : N) (x : rarc) : bool := N.eqb (ra_u x) a && N.eqb (ra_v x) b.
Definition st1 (o : option Z) : Z := match o with Some c => c | None => 1%Z end.
Fixpoint merge_arc (a b : N) (c : option Z) (D : list rarc) : list rarc :=
  match D with
  | [] => []
  | x :: D' => if same_arc a b x then RArc a b (ra_role x) (Some (st1 (ra_stoich x) + st1 c)%Z) :: D'
               else x :: merge_arc a b c D'
  end.
Definition orient_pair (ns : list rnode) (e : rarc) : N * N :=
  let sr := if u_is_rxn ns (ra_u e) then (ra_v e, ra_u e) else (ra_u e, ra_v e) in
  match ra_role e with Some Product => (snd sr, fst sr) | _ => sr end.
Definition orient_step (ns : list rnode) (D : list rarc) (e : rarc) : list rarc :=
  let ab := orient_pair ns e in
  if existsb (same_arc (fst ab) (snd ab)) D then merge_arc (fst ab) (snd ab) (ra_stoich e) D
  else D ++ [RArc (fst ab) (snd ab) (ra_role e) (ra_stoich e)].
Definition orient (ns : list rnode) (edges : list rarc) : list rarc := fold_left (orient_step ns) edges [].
(** [rg_arcs U] = the undirected edges as networkx lists them (each once, in either orientation) *)
Definition as_bipartite_undirected (U : rgraph) : rgraph := RG (rg_nodes U) (orient (rg_nodes U) (rg_arcs U)).

(** observable: species labels in index order, complexes, arcs, classes, and the graph-only summary fields *)
Definition run19_nodes (G : rgraph) : tok :=
  match complex_graph_nodes G with
  | None => L [I 2%Z]
  | Some (cs, arcs) =>
      let k := length cs in
      let classes := linkage_classes arcs k in
      L [ I 0%Z; tlist tstrN (map eff_label (species_sorted G)); tmat cs; tset tarc arcs; tlist (tset tN) classes;
          L [tnat (length (species_nodes G)); tnat (length (reaction_nodes G)); tnat k; tnat (length classes);
             tbool (weakly_reversible arcs k)];
          tbool (regular arcs k) ]
  end.
