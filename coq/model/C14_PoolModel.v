(** C14 — the worker pool as a PARAMETER.  model/C14_CrnModel.v fixes the pool to [par_map] (a chunked, order-preserving map);
    here the same functions take the pool primitive as an argument [pm] (executor.map / joblib.Parallel: given a chunk size, a
    function and a list, return a list), so that theorems can state the pool's CONTRACT as an explicit premise:

        pool_contract pm  :=  forall A B c f l, pm A B c f l = map f l        (results in submission order, one per item)

    Definitions only; proofs in proof/C14_Pool.v:  every [_with] function at [pm := par_map] IS the function of C14_CrnModel.v
    (what the correspondence evaluates), [par_map] satisfies the contract, and under the contract alone — whatever else the pool
    does — parallel = serial for validation, balance checking and network expansion. *)
From Coq Require Import NArith List Bool Arith.
Import ListNotations.
From SK Require Import lib.Tok model.C14_CrnModel.

Definition pool_map := forall A B : Type, nat -> (A -> B) -> list A -> list B.
Definition pool_contract (pm : pool_map) : Prop := forall (A B : Type) (c : nat) (f : A -> B) (l : list A), pm A B c f l = map f l.

Section WithPool.
  Variable pm : pool_map.

  Definition run_tasks_with (parallel : bool) (workers : nat) (t : exec_table) (tasks : list task) : list result :=
    if parallel && (1 <? length tasks)%nat
    then pm _ _ (Nat.div (length tasks) (Nat.max workers 1)) (apply_rule_worker t) tasks
    else map (apply_rule_worker t) tasks.

  Fixpoint build_loop_with (c : crn_cfg) (parallel : bool) (workers : nat) (t : exec_table) (n step : nat)
           (st : crn_state) (frontier : list N) (ntasks : list nat) : crn_state * list nat :=
    match n with
    | O => (st, ntasks)
    | S n' =>
        if cc_use_frontier c && match frontier with [] => true | _ => false end then (st, ntasks)
        else
          let '(seen', tasks) := tasks_of_rules c (s_index st) (s_pool st) frontier 0 (cc_rules c) (s_seen st)
                                                (cc_max_tasks c) [] in
          let st0 := with_seen st seen' in
          match tasks with
          | [] => (st0, ntasks)
          | _ =>
              let results := run_tasks_with parallel workers t tasks in
              let '(st1, nf) := fold_left (integrate_result c step) results (st0, []) in
              build_loop_with c parallel workers t n' (S step) st1 nf (ntasks ++ [length tasks])
          end
    end.

  Definition build_from_with (c : crn_cfg) (parallel : bool) (workers : nat) (t : exec_table) (st0 : crn_state)
             (seeds : list (option N)) : crn_state * list nat :=
    let st := init_pool st0 seeds in
    match s_pool st with
    | [] => (st, [])
    | _ => build_loop_with c parallel workers t (cc_repeats c) 1 st (s_pool st) []
    end.

  Fixpoint builds_from_with (c : crn_cfg) (parallel : bool) (workers : nat) (t : exec_table) (st0 : crn_state)
           (calls : list (list (option N))) : list crn_state * list nat :=
    match calls with
    | [] => ([], [])
    | seeds :: calls' =>
        let '(st1, n1) := build_from_with c parallel workers t st0 seeds in
        let '(sts, ns) := builds_from_with c parallel workers t st1 calls' in
        (st1 :: sts, n1 ++ ns)
    end.

  Definition rows_parallel_with {A B} (n_jobs : nat) (f : A -> B) (rows : list A) : list B :=
    if (1 <? n_jobs)%nat then pm _ _ (Nat.div (length rows) n_jobs) f rows else map f rows.

  Definition validate_column_with {A} (n_jobs : nat) (check : A -> bool) (rows : list A) : list bool * (nat * nat) :=
    let results := rows_parallel_with n_jobs check rows in
    (results, (length (filter (fun b => b) results), length rows)).

  Definition balance_split_with {A} (n_jobs : nat) (check : A -> bool) (rows : list A) : list A * list A :=
    let results := rows_parallel_with n_jobs (fun r => (r, check r)) rows in
    (map fst (filter (fun p => snd p) results), map fst (filter (fun p => negb (snd p)) results)).
End WithPool.
