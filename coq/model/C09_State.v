(** C09 — the instance state of a CanonRSMI object (definitions only; proofs in proof/C09_State.v).

    synkit/Chem/Reaction/canon_rsmi.py  CanonRSMI.canonicalise assigns, in program order, the attributes behind the
    properties raw_reactant_graph, raw_product_graph, canonical_reactant_graph, mapping_pairs, canonical_product_graph,
    canonical_rsmi.  Since repair b262050 it first forgets the results of the previous call.  A call that fails half-way
    (remap_graph raises ValueError when no atom map is shared) leaves the attributes assigned so far: both raw graphs,
    the canonical reactant graph NOT yet synchronised (atom_map still the input number), mapping_pairs = [], and no
    canonical product graph / canonical_rsmi.  The model makes that state explicit; the correspondence compares the whole
    state after every `canon` / `props` step of the canonicaliser histories. *)
From Coq Require Import List NArith ZArith Bool.
From SK Require Import lib.Tok lib.LGraph model.C01_Model model.C09_Model.
Import ListNotations.

Record cstate := CS {
  cs_rawG : option mgraph; cs_rawH : option mgraph;      (* raw_reactant_graph, raw_product_graph *)
  cs_Gc : option mgraph;                                 (* canonical_reactant_graph *)
  cs_pairs : option (list (N * N));                      (* mapping_pairs *)
  cs_Hc : option mgraph;                                 (* canonical_product_graph *)
  cs_done : bool }.                                      (* canonical_rsmi is not None *)
Definition cs_init : cstate := CS None None None None None false.

(** one call of canonicalise on an object in state [st]; [parsed] = rsmi_to_graph(expand_aam(rsmi)) (None: RDKit rejected
    the string and the call raised before any graph was stored); [canonG] = the graph canonicaliser of the back-end *)
Definition cstep (canonG : mgraph -> mgraph) (parsed : option (mgraph * mgraph)) (st : cstate) : cstate :=
  match parsed with
  | None => cs_init
  | Some (G, H) =>
      let Gc := canonG G in
      let pairs := aam_pairs Gc H in
      match remap_graph H (node_map_of Gc H pairs) with
      | None => CS (Some G) (Some H) (Some Gc) (Some pairs) None false
      | Some Hc => CS (Some G) (Some H) (Some (set_amap Gc)) (Some pairs) (Some (set_amap Hc)) true
      end
  end.
(** the caller may edit the returned graphs / the pairs list in place: the stored state becomes anything *)
Definition cmutate (st' : cstate) (st : cstate) : cstate := st'.

Definition canonG_wl (ranks : list (N * Z)) (G : mgraph) : mgraph := canon_rebuild (wl_order ranks G) G.
Definition canonG_nauty (G : mgraph) : mgraph := canon_relabel (nauty_order G) G.
Definition canonG_generic (G : mgraph) : mgraph := canon_rebuild (generic_order G) G.

Definition tcstate (st : cstate) : tok :=
  L [topt tmgraph (cs_rawG st); topt tmgraph (cs_rawH st); topt tmgraph (cs_Gc st); topt tpairsN (cs_pairs st);
     topt tmgraph (cs_Hc st); tbool (cs_done st)].
(** the state after canonicalise(r) on an object in ANY state (the harness passes cs_init: by C09_cstep_fresh it does not matter) *)
Definition run_cstate_wl (ranks : list (N * Z)) (G H : mgraph) : tok := tcstate (cstep (canonG_wl ranks) (Some (G, H)) cs_init).
Definition run_cstate_nauty (G H : mgraph) : tok := tcstate (cstep canonG_nauty (Some (G, H)) cs_init).
Definition run_cstate_generic (G H : mgraph) : tok := tcstate (cstep canonG_generic (Some (G, H)) cs_init).
